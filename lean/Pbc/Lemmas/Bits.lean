import Std.Tactic.BVDecide
import Pbc.Model.Unpack
/-
  Bit-level facts used by the round-trip theorems.  The four `bv_decide` lemmas below carry
  native axioms (listed by the audit); everything else is kernel-only.
-/
namespace Pbc.Lemmas
open Pbc Pbc.Model Pbc.Wire

theorem unzigzag32_zigzag32 (v : BitVec 32) : unzigzag32 (zigzag32 v) = v := by
  unfold unzigzag32 zigzag32; bv_decide
theorem unzigzag64_zigzag64 (v : BitVec 64) : unzigzag64 (zigzag64 v) = v := by
  unfold unzigzag64 zigzag64; bv_decide
theorem zigzag32_unzigzag32 (v : BitVec 32) : zigzag32 (unzigzag32 v) = v := by
  unfold unzigzag32 zigzag32; bv_decide
theorem zigzag64_unzigzag64 (v : BitVec 64) : zigzag64 (unzigzag64 v) = v := by
  unfold unzigzag64 zigzag64; bv_decide

theorem setWidth32_signExtend64 (v : BitVec 32) : BitVec.ofNat 32 (BitVec.signExtend 64 v).toNat = v := by
  apply BitVec.eq_of_toNat_eq
  simp only [BitVec.toNat_ofNat, BitVec.toNat_signExtend]
  have := v.isLt
  by_cases h : v.msb = true <;> simp [h] <;> omega

theorem ofNat_toNat32 (v : BitVec 32) : BitVec.ofNat 32 v.toNat = v := by simp
theorem ofNat_toNat64 (v : BitVec 64) : BitVec.ofNat 64 v.toNat = v := by simp

/-- little-endian load of a little-endian store -/
theorem loadLE_le32 (v : BitVec 32) (rest : Bytes) : loadLE (le32 v ++ rest) 4 = v.toNat := by
  simp only [le32, loadLE, List.cons_append, List.headD_cons, List.tail_cons, List.nil_append]
  simp only [BitVec.toNat_setWidth, BitVec.toNat_ushiftRight]
  have := v.isLt
  simp only [Nat.shiftRight_eq_div_pow]
  omega

theorem loadLE_le64 (v : BitVec 64) (rest : Bytes) : loadLE (le64 v ++ rest) 8 = v.toNat := by
  simp only [le64, le32, loadLE, List.cons_append, List.headD_cons, List.tail_cons, List.nil_append,
    List.append_assoc]
  simp only [BitVec.toNat_setWidth, BitVec.toNat_ushiftRight]
  have := v.isLt
  simp only [Nat.shiftRight_eq_div_pow]
  omega

end Pbc.Lemmas
