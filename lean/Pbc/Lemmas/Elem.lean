import Pbc.Lemmas.Bits
/-
  Element-level round trips: what the encoder writes for one scalar / key / length prefix is
  read back by the corresponding decoder of the parser model.
-/
namespace Pbc.Lemmas
open Pbc Pbc.Model Pbc.Wire

/-- the in-memory value has the shape its type prescribes (bool normalised to 0/1) -/
def okScalar (t : PType) : Val → Prop
  | .w32 x => t.is32 = true ∧ (t = .bool → x = 0 ∨ x = 1)
  | .w64 _ => t.is32 = false ∧ t ≠ .string ∧ t ≠ .bytes ∧ t ≠ .message
  | _ => False

theorem setWidth32_signExtend64' (x : BitVec 32) : BitVec.setWidth 32 (BitVec.signExtend 64 x) = x := by
  have h := setWidth32_signExtend64 x
  have e : BitVec.setWidth 32 (BitVec.signExtend 64 x) = BitVec.ofNat 32 (BitVec.signExtend 64 x).toNat := by
    apply BitVec.eq_of_toNat_eq
    simp
  rw [e, h]

theorem loadLE4 (x : BitVec 32) : loadLE (le32 x) 4 = x.toNat := by
  have := loadLE_le32 x []; simpa using this
theorem loadLE8 (x : BitVec 64) : loadLE (le64 x) 8 = x.toNat := by
  have := loadLE_le64 x []; simpa using this

/-- C01 core, scalars: parse ∘ pack = id on every scalar type, bit for bit -/
theorem parseScalar_scalarBytes (t : PType) (v : Val) (h : okScalar t v) :
    parseScalar t (scalarBytes t v) = v := by
  cases v with
  | w32 x =>
    obtain ⟨h32, hb⟩ := h
    cases t <;> simp [PType.is32] at h32
    case int32 => simp [parseScalar, scalarBytes, Val.asW32, decGroups_varint, setWidth32_signExtend64']
    case enum => simp [parseScalar, scalarBytes, Val.asW32, decGroups_varint, setWidth32_signExtend64']
    case uint32 => simp [parseScalar, scalarBytes, Val.asW32, decGroups_varint]
    case sint32 => simp [parseScalar, scalarBytes, Val.asW32, decGroups_varint, unzigzag32_zigzag32]
    case sfixed32 => simp [parseScalar, scalarBytes, Val.asW32, loadLE4]
    case fixed32 => simp [parseScalar, scalarBytes, Val.asW32, loadLE4]
    case float => simp [parseScalar, scalarBytes, Val.asW32, loadLE4]
    case bool =>
      rcases hb rfl with h0 | h1
      · subst h0; simp [parseScalar, scalarBytes, Val.asW32, parseBool]
      · subst h1; simp [parseScalar, scalarBytes, Val.asW32, parseBool]
  | w64 x =>
    obtain ⟨h32, hs, hb, hm⟩ := h
    cases t <;> simp [PType.is32] at h32 <;> simp at hs hb hm
    case int64 => simp [parseScalar, scalarBytes, Val.asW64, decGroups_varint]
    case uint64 => simp [parseScalar, scalarBytes, Val.asW64, decGroups_varint]
    case sint64 => simp [parseScalar, scalarBytes, Val.asW64, decGroups_varint, unzigzag64_zigzag64]
    case sfixed64 => simp [parseScalar, scalarBytes, Val.asW64, loadLE8]
    case fixed64 => simp [parseScalar, scalarBytes, Val.asW64, loadLE8]
    case double => simp [parseScalar, scalarBytes, Val.asW64, loadLE8]
  | str _ _ => exact absurd h (by simp [okScalar])
  | bin _ _ _ => exact absurd h (by simp [okScalar])
  | msg _ => exact absurd h (by simp [okScalar])
  | zero => exact absurd h (by simp [okScalar])

/-- number of bytes a scalar occupies on the wire is what the scan pass delimits -/
theorem scalarBytes_scan_varint (n : Nat) (rest : Bytes) (hn : n < 2 ^ 64) :
    scanVarint (min (varint n ++ rest).length 10) (varint n ++ rest) = some (varintLen n) := by
  apply scanVarint_varint
  have := varintLen_u64 n hn
  have := varint_length n
  simp only [List.length_append]
  omega

theorem and_f8_eq_zero : ∀ b : BitVec 8, (b &&& 0xf8 = 0) ↔ b.toNat < 8 := by decide

theorem varint_head (n : Nat) : ∃ b0 bs, varint n = b0 :: bs ∧ b0.toNat % 8 = n % 8 ∧ (n < 128 → b0.toNat = n) ∧ (128 ≤ n → 128 ≤ b0.toNat) := by
  rw [varint_eq]
  split
  · rename_i h
    refine ⟨_, [], rfl, ?_, ?_, ?_⟩
    · simp [BitVec.toNat_ofNat]
    · intro _; simp [BitVec.toNat_ofNat]; omega
    · intro h2; omega
  · rename_i h
    refine ⟨_, _, rfl, ?_, ?_, ?_⟩
    · simp [BitVec.toNat_ofNat]; omega
    · intro h2; omega
    · intro _; simp [BitVec.toNat_ofNat]; omega

/-- the key decoder reads back exactly the key the encoder wrote, for every field number the
    generator can emit (1 .. 2^29-1) and every wire type -/
theorem scanKey_keyBytes (id wt : Nat) (rest : Bytes) (hid : 0 < id) (hid2 : id < 2 ^ 29) (hwt : wt < 8) :
    scanKey (keyBytes id wt ++ rest) = some ((keyBytes id wt).length, id, wt) := by
  unfold keyBytes
  have hw : wt % 8 = wt := Nat.mod_eq_of_lt hwt
  rw [hw]
  generalize hK : id * 8 + wt = K
  have hK32 : K < 2 ^ 32 := by omega
  have hK8 : 8 ≤ K := by omega
  obtain ⟨b0, bs, hv, hmod, hsmall, hbig⟩ := varint_head K
  have hlen5 : varintLen K ≤ 5 := varintLen_u32 K hK32
  have hlen := varint_length K
  have hscan : scanVarint (min (varint K ++ rest).length 5) (varint K ++ rest) = some (varintLen K) := by
    apply scanVarint_varint
    simp only [List.length_append]; omega
  have hb0 : ¬ (b0 &&& 0xf8 = 0) := by
    rw [and_f8_eq_zero]
    by_cases h : K < 128
    · have := hsmall h; omega
    · have := hbig (by omega); omega
  have hdec : decGroups ((varint K ++ rest).take (varintLen K)) = K := decGroups_varint_append K rest
  unfold scanKey
  rw [hv] at hscan hdec ⊢
  simp only [List.cons_append] at hscan hdec ⊢
  simp only [hb0, ite_false, hscan, hdec]
  have htag : K / 8 % 2 ^ 32 = id := by omega
  have hne : ¬ (id = 0) := by omega
  simp only [htag, hne, ite_false, hmod]
  have : K % 8 = wt := by omega
  rw [this, ← hv, hlen]

/-- a length-delimited payload is delimited exactly: prefix length and total length -/
theorem scanLen_lenPrefixed (p rest : Bytes) (hp : p.length < 2 ^ 31) :
    scanLen (lenPrefixed p ++ rest) = some (varintLen p.length, varintLen p.length + p.length) := by
  unfold lenPrefixed scanLen
  have h32 : p.length < 2 ^ 32 := by omega
  have hlen5 : varintLen p.length ≤ 5 := varintLen_u32 _ h32
  have hl := varint_length p.length
  have hscan : scanVarint (min ((varint p.length ++ p) ++ rest).length 5) ((varint p.length ++ p) ++ rest) = some (varintLen p.length) := by
    rw [List.append_assoc]
    apply scanVarint_varint
    simp only [List.length_append]; omega
  have hdec : decGroups (((varint p.length ++ p) ++ rest).take (varintLen p.length)) = p.length := by
    rw [List.append_assoc]; exact decGroups_varint_append _ _
  simp only [hscan, hdec]
  have h1 : ¬ (p.length > 2147483647) := by omega
  have h2 : ¬ (varintLen p.length + p.length > ((varint p.length ++ p) ++ rest).length) := by
    simp only [List.length_append]; omega
  simp only [h1, h2, ite_false]

end Pbc.Lemmas
