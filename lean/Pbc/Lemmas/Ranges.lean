import Pbc.Props.C14
/-
  The generator's range tables (`WriteIntRanges`, `Pbc.Model.mkRanges`) over a strictly increasing list of numbers
  (field numbers sorted by `sortByNumber`; unique enum values) are well formed (`RangesWF`) and `int_range_lookup`
  over them is exactly "position of the key in the list".  Together with `Props/C14` this closes the loop
  .proto  →  emitted table  →  lookup result, for every key.
-/
namespace Pbc.Lemmas.Ranges
open Pbc Pbc.Model Pbc.Props.C14 List

/-- maximal blocks of consecutive integers, as (start, length), built from the right -/
def blocks : List Int → List (Int × Nat)
  | [] => []
  | v :: rest =>
    match blocks rest with
    | (s, n) :: bs => if s = v + 1 then (v, n + 1) :: bs else (v, 1) :: (s, n) :: bs
    | [] => [(v, 1)]

/-- table entries (start, orig_index) of a block list whose first block starts at position `o` -/
def entries : Nat → List (Int × Nat) → List (Int × Nat)
  | _, [] => []
  | o, (s, n) :: bs => (s, o) :: entries (o + n) bs

def sumN : List (Int × Nat) → Nat
  | [] => 0
  | (_, n) :: bs => n + sumN bs

/-- the numbers a block list stands for -/
def flat : List (Int × Nat) → List Int
  | [] => []
  | (s, n) :: bs => (List.range n).map (fun (d : Nat) => s + (d : Int)) ++ flat bs

theorem blocks_cons_shape (v : Int) (rest : List Int) : ∃ n bs, blocks (v :: rest) = (v, n + 1) :: bs := by
  unfold blocks
  split
  · rename_i s n bs _
    split
    · exact ⟨n, bs, rfl⟩
    · exact ⟨0, (s, n) :: bs, rfl⟩
  · exact ⟨0, [], rfl⟩

theorem blocks_head (v : Int) (rest : List Int) : ((blocks (v :: rest)).head?).map (·.1) = some v := by
  obtain ⟨n, bs, h⟩ := blocks_cons_shape v rest
  simp [h]

theorem entries_length (o : Nat) (B : List (Int × Nat)) : (entries o B).length = B.length := by
  induction B generalizing o with
  | nil => rfl
  | cons b bs ih => obtain ⟨s, n⟩ := b; simp [entries, ih]

/-- `mkRunsAux` (left to right, with the previous value) against the block decomposition of the remaining list -/
theorem mkRunsAux_eq : ∀ (l : List Int) (prev : Int) (idx : Nat),
    mkRunsAux prev idx l = if l.head? = some (prev + 1) then (entries idx (blocks l)).tail else entries idx (blocks l)
  | [], _, _ => by simp [mkRunsAux, blocks, entries]
  | v :: rest, prev, idx => by
    have ih := mkRunsAux_eq rest v (idx + 1)
    have hE : entries idx (blocks (v :: rest)) = (v, idx) :: mkRunsAux v (idx + 1) rest := by
      rw [ih]
      cases rest with
      | nil => simp [blocks, entries]
      | cons w rest' =>
        obtain ⟨n, bs, hb⟩ := blocks_cons_shape w rest'
        have : blocks (v :: w :: rest') = if w = v + 1 then (v, n + 1 + 1) :: bs else (v, 1) :: (w, n + 1) :: bs := by
          conv => lhs; unfold blocks
          rw [hb]
        rw [this, hb]
        by_cases hw : w = v + 1
        · simp [hw, entries, Nat.add_assoc, Nat.add_comm]
        · simp [hw, entries]
    unfold mkRunsAux
    by_cases hv : v = prev + 1
    · simp only [hv, if_true, head?_cons]
      rw [← hv, hE]; rfl
    · simp [hv, hE]

theorem sumN_blocks : ∀ l : List Int, sumN (blocks l) = l.length
  | [] => rfl
  | v :: rest => by
    have ih := sumN_blocks rest
    unfold blocks
    split
    · rename_i s n bs hb
      rw [hb] at ih
      simp only [sumN] at ih
      split <;> simp only [sumN, length_cons] <;> omega
    · rename_i hb
      rw [hb] at ih
      simp only [sumN] at ih
      simp only [sumN, length_cons]; omega

/-- the emitted table is the entry list of the block decomposition -/
theorem mkRanges_eq (vs : List Int) : mkRanges vs = ⟨entries 0 (blocks vs), vs.length⟩ := by
  cases vs with
  | nil => rfl
  | cons v rest =>
    unfold mkRanges
    have := mkRunsAux_eq rest v 1
    have hE : entries 0 (blocks (v :: rest)) = (v, 0) :: mkRunsAux v 1 rest := by
      rw [this]
      cases rest with
      | nil => simp [blocks, entries]
      | cons w rest' =>
        obtain ⟨n, bs, hb⟩ := blocks_cons_shape w rest'
        have : blocks (v :: w :: rest') = if w = v + 1 then (v, n + 1 + 1) :: bs else (v, 1) :: (w, n + 1) :: bs := by
          conv => lhs; unfold blocks
          rw [hb]
        rw [this, hb]
        by_cases hw : w = v + 1
        · simp [hw, entries, Nat.add_assoc, Nat.add_comm]
        · simp [hw, entries]
    simp [hE]

/-! ### blocks of a strictly increasing list are non-empty and separated by gaps -/

def BlocksOK : List (Int × Nat) → Prop
  | [] => True
  | [(_, n)] => 1 ≤ n
  | (s, n) :: (s', n') :: bs => 1 ≤ n ∧ s + (n : Int) < s' ∧ BlocksOK ((s', n') :: bs)

theorem blocksOK_of_sorted : ∀ (l : List Int), l.Pairwise (· < ·) → BlocksOK (blocks l)
  | [], _ => trivial
  | [v], _ => by simp [blocks, BlocksOK]
  | v :: w :: rest, h => by
    have hs : (w :: rest).Pairwise (· < ·) := (pairwise_cons.1 h).2
    have hvw : v < w := (pairwise_cons.1 h).1 w (mem_cons_self ..)
    have ih := blocksOK_of_sorted (w :: rest) hs
    obtain ⟨n, bs, hb⟩ := blocks_cons_shape w rest
    have : blocks (v :: w :: rest) = if w = v + 1 then (v, n + 1 + 1) :: bs else (v, 1) :: (w, n + 1) :: bs := by
      conv => lhs; unfold blocks
      rw [hb]
    rw [this]
    rw [hb] at ih
    by_cases hw : w = v + 1
    · simp only [hw, if_true]
      cases bs with
      | nil => simp [BlocksOK]
      | cons b bs' =>
        obtain ⟨s', n'⟩ := b
        simp only [BlocksOK] at ih ⊢
        refine ⟨by omega, ?_, ih.2.2⟩
        have := ih.2.1
        push_cast at this ⊢
        omega
    · simp only [hw, if_false]
      simp only [BlocksOK]
      exact ⟨by omega, by push_cast; omega, ih⟩

/-! ### accessors of a table built from blocks -/

theorem startOf_cons (s : Int) (o : Nat) (E : List (Int × Nat)) (t i : Nat) :
    Ranges.startOf ⟨(s, o) :: E, t⟩ (i + 1) = Ranges.startOf ⟨E, t⟩ i := by
  simp [Ranges.startOf]

theorem origOf_cons (s : Int) (o : Nat) (E : List (Int × Nat)) (t i : Nat) :
    Ranges.origOf ⟨(s, o) :: E, t⟩ (i + 1) = Ranges.origOf ⟨E, t⟩ i := by
  simp [Ranges.origOf]

theorem sizeOf_cons (s : Int) (o : Nat) (E : List (Int × Nat)) (t i : Nat) :
    Ranges.sizeOf ⟨(s, o) :: E, t⟩ (i + 1) = Ranges.sizeOf ⟨E, t⟩ i := by
  simp [Ranges.sizeOf, origOf_cons]

theorem origOf_zero (o : Nat) (B : List (Int × Nat)) : Ranges.origOf ⟨entries o B, o + sumN B⟩ 0 = o := by
  cases B with
  | nil => simp [Ranges.origOf, entries, sumN]
  | cons b bs => obtain ⟨s, n⟩ := b; simp [Ranges.origOf, entries]

theorem sizeOf_zero (o : Nat) (s : Int) (n : Nat) (bs : List (Int × Nat)) :
    Ranges.sizeOf ⟨entries o ((s, n) :: bs), o + sumN ((s, n) :: bs)⟩ 0 = n := by
  have h1 : o + sumN ((s, n) :: bs) = (o + n) + sumN bs := by simp [sumN]; omega
  unfold Ranges.sizeOf
  rw [show entries o ((s, n) :: bs) = (s, o) :: entries (o + n) bs from rfl, origOf_cons, h1, origOf_zero]
  simp [Ranges.origOf]

theorem wf_of_blocksOK : ∀ (B : List (Int × Nat)) (o : Nat), BlocksOK B → RangesWF ⟨entries o B, o + sumN B⟩
  | [], _, _ => ⟨by intro i hi; simp [entries] at hi, by intro i hi; simp [entries] at hi⟩
  | (s, n) :: bs, o, h => by
    have h1 : o + sumN ((s, n) :: bs) = (o + n) + sumN bs := by simp [sumN]; omega
    have hbs : BlocksOK bs := by
      cases bs with
      | nil => trivial
      | cons b bs' => obtain ⟨s', n'⟩ := b; exact h.2.2
    have hn : 1 ≤ n := by
      cases bs with
      | nil => exact h
      | cons b bs' => obtain ⟨s', n'⟩ := b; exact h.1
    have ih := wf_of_blocksOK bs (o + n) hbs
    constructor
    · intro i hi
      cases i with
      | zero => rw [sizeOf_zero]; exact hn
      | succ i =>
        rw [show entries o ((s, n) :: bs) = (s, o) :: entries (o + n) bs from rfl, sizeOf_cons, h1]
        exact ih.pos i (by simpa [entries] using hi)
    · intro i hi
      cases i with
      | zero =>
        rw [sizeOf_zero]
        cases bs with
        | nil => simp [entries] at hi
        | cons b bs' =>
          obtain ⟨s', n'⟩ := b
          simp only [Ranges.startOf, entries, getD_cons_zero, getD_cons_succ]
          have := h.2.1
          omega
      | succ i =>
        rw [show entries o ((s, n) :: bs) = (s, o) :: entries (o + n) bs from rfl, sizeOf_cons, startOf_cons, startOf_cons, h1]
        exact ih.gap i (by simpa [entries] using hi)

/-- WriteIntRanges over a strictly increasing list produces a well-formed table -/
theorem mkRanges_wf (vs : List Int) (h : vs.Pairwise (· < ·)) : RangesWF (mkRanges vs) := by
  rw [mkRanges_eq]
  have := wf_of_blocksOK (blocks vs) 0 (blocksOK_of_sorted vs h)
  simpa [sumN_blocks] using this

/-! ### what a lookup over the table returns, in terms of the list the table was built from -/

theorem flat_blocks : ∀ l : List Int, flat (blocks l) = l
  | [] => rfl
  | [v] => by simp [blocks, flat]
  | v :: w :: rest => by
    have ih := flat_blocks (w :: rest)
    obtain ⟨n, bs, hb⟩ := blocks_cons_shape w rest
    have : blocks (v :: w :: rest) = if w = v + 1 then (v, n + 1 + 1) :: bs else (v, 1) :: (w, n + 1) :: bs := by
      conv => lhs; unfold blocks
      rw [hb]
    rw [this]
    rw [hb] at ih
    by_cases hw : w = v + 1
    · simp only [hw, if_true, flat] at ih ⊢
      rw [← ih]
      rw [List.range_succ_eq_map (n := n + 1)]
      simp only [map_cons, map_map, cons_append]
      have h0 : v + ((0 : Nat) : Int) = v := by simp
      rw [h0]
      congr 2
      apply map_congr_left
      intro d _
      simp only [Function.comp]
      push_cast
      omega
    · simp only [hw, if_false]
      rw [show flat ((v, 1) :: (w, n + 1) :: bs) = [v] ++ flat ((w, n + 1) :: bs) by simp [flat]]
      rw [ih]; rfl

theorem flat_get (s : Int) (n : Nat) (bs : List (Int × Nat)) (k : Nat) :
    (flat ((s, n) :: bs))[k]? = if k < n then some (s + (k : Int)) else (flat bs)[k - n]? := by
  simp only [flat]
  by_cases hk : k < n
  · rw [getElem?_append_left (by simpa using hk)]
    simp [hk, getElem?_range hk]
  · rw [getElem?_append_right (by simpa using Nat.le_of_not_lt hk)]
    simp [hk]

theorem hit_iff_flat : ∀ (B : List (Int × Nat)) (o : Nat) (v : Int) (idx : Nat),
    (∃ i, i < (entries o B).length ∧
        Ranges.startOf ⟨entries o B, o + sumN B⟩ i ≤ v ∧
        v < Ranges.startOf ⟨entries o B, o + sumN B⟩ i + (Ranges.sizeOf ⟨entries o B, o + sumN B⟩ i : Int) ∧
        idx = (v - Ranges.startOf ⟨entries o B, o + sumN B⟩ i).toNat + Ranges.origOf ⟨entries o B, o + sumN B⟩ i) ↔
      (o ≤ idx ∧ (flat B)[idx - o]? = some v)
  | [], o, v, idx => by simp [entries, flat]
  | (s, n) :: bs, o, v, idx => by
    have h1 : o + sumN ((s, n) :: bs) = (o + n) + sumN bs := by simp [sumN]; omega
    have ih := hit_iff_flat bs (o + n) v idx
    have hE : entries o ((s, n) :: bs) = (s, o) :: entries (o + n) bs := rfl
    constructor
    · rintro ⟨i, hi, hlo, hhi, hidx⟩
      cases i with
      | zero =>
        rw [sizeOf_zero] at hhi
        have hs : Ranges.startOf ⟨entries o ((s, n) :: bs), o + sumN ((s, n) :: bs)⟩ 0 = s := by simp [Ranges.startOf, entries]
        rw [hs] at hlo hhi hidx
        rw [origOf_zero] at hidx
        refine ⟨by omega, ?_⟩
        rw [flat_get]
        have hk : idx - o < n := by omega
        simp only [hk, if_true]
        congr 1; omega
      | succ i =>
        rw [hE, startOf_cons, h1] at hlo hhi hidx
        rw [sizeOf_cons] at hhi
        rw [origOf_cons] at hidx
        have := ih.1 ⟨i, by simpa [hE] using hi, hlo, hhi, hidx⟩
        refine ⟨by omega, ?_⟩
        rw [flat_get]
        have hk : ¬ idx - o < n := by omega
        simp only [hk, if_false]
        rw [show idx - o - n = idx - (o + n) by omega]
        exact this.2
    · rintro ⟨ho, hf⟩
      rw [flat_get] at hf
      by_cases hk : idx - o < n
      · simp only [hk, if_true] at hf
        have hv : v = s + ((idx - o : Nat) : Int) := by injection hf with hf; exact hf.symm
        refine ⟨0, by simp [hE], ?_, ?_, ?_⟩
        · simp only [Ranges.startOf, entries, getD_cons_zero]; omega
        · rw [sizeOf_zero]; simp only [Ranges.startOf, entries, getD_cons_zero]; omega
        · rw [origOf_zero]; simp only [Ranges.startOf, entries, getD_cons_zero]; omega
      · simp only [hk, if_false] at hf
        rw [show idx - o - n = idx - (o + n) by omega] at hf
        obtain ⟨i, hi, hlo, hhi, hidx⟩ := ih.2 ⟨by omega, hf⟩
        refine ⟨i + 1, by simpa [hE] using hi, ?_, ?_, ?_⟩
        · rw [hE, startOf_cons, h1]; exact hlo
        · rw [hE, startOf_cons, sizeOf_cons, h1]; exact hhi
        · rw [hE, startOf_cons, origOf_cons, h1]; exact hidx

/-- C13 + C14 composed: over the range table the generator emits for a strictly increasing list of numbers, and for
    EVERY integer key, `int_range_lookup` returns `k` exactly when the k-th number of the list is the key. -/
theorem rangeLookup_mkRanges (vs : List Int) (h : vs.Pairwise (· < ·)) (v : Int) (k : Nat) :
    rangeLookup (mkRanges vs) v = some k ↔ vs[k]? = some v := by
  rw [rangeLookup_spec _ (mkRanges_wf vs h), mkRanges_eq]
  have := hit_iff_flat (blocks vs) 0 v k
  rw [sumN_blocks, flat_blocks] at this
  simpa using this

/-- ... and "not found" for every key that is not in the list -/
theorem rangeLookup_mkRanges_none (vs : List Int) (h : vs.Pairwise (· < ·)) (v : Int) (hv : v ∉ vs) :
    rangeLookup (mkRanges vs) v = none := by
  cases hr : rangeLookup (mkRanges vs) v with
  | none => rfl
  | some k =>
    have := (rangeLookup_mkRanges vs h v k).1 hr
    exact absurd (mem_of_getElem? this) hv

example : rangeLookup (mkRanges [-2147483648, -1, 0, 1, 7, 2147483646, 2147483647]) 7 = some 4 :=
  (rangeLookup_mkRanges _ (by decide) 7 4).2 (by decide)

end Pbc.Lemmas.Ranges
