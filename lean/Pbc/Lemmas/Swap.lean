/-
  Reordering lemma: two lists with the same subsequence for every key are connected by swaps of adjacent elements
  with different keys; hence any function invariant under such swaps takes the same value on both.
-/
namespace Pbc.Lemmas.Swap
open List

variable {α : Type} {κ : Type} [DecidableEq κ]

/-- connected by swaps of adjacent elements with different keys -/
inductive SwapEq (key : α → κ) : List α → List α → Prop
  | refl (l) : SwapEq key l l
  | swap (pre : List α) (a b : α) (post : List α) : key a ≠ key b → SwapEq key (pre ++ a :: b :: post) (pre ++ b :: a :: post)
  | trans {l1 l2 l3} : SwapEq key l1 l2 → SwapEq key l2 l3 → SwapEq key l1 l3

theorem SwapEq.cons (key : α → κ) (x : α) {l1 l2 : List α} (h : SwapEq key l1 l2) : SwapEq key (x :: l1) (x :: l2) := by
  induction h with
  | refl l => exact .refl _
  | swap pre a b post hab => exact .swap (x :: pre) a b post hab
  | trans _ _ ih1 ih2 => exact .trans ih1 ih2

/-- an element whose key does not occur in `pre` can be moved in front of `pre` -/
theorem move_front (key : α → κ) (x : α) : ∀ (pre post : List α), (∀ y ∈ pre, key y ≠ key x) →
    SwapEq key (pre ++ x :: post) (x :: pre ++ post)
  | [], post, _ => .refl _
  | y :: pre, post, h => by
    have h1 : SwapEq key (y :: (pre ++ x :: post)) (y :: (x :: pre ++ post)) :=
      SwapEq.cons key y (move_front key x pre post (fun z hz => h z (mem_cons_of_mem _ hz)))
    have h2 : SwapEq key ([] ++ y :: x :: (pre ++ post)) ([] ++ x :: y :: (pre ++ post)) :=
      .swap [] y x (pre ++ post) (h y (mem_cons_self ..))
    exact .trans h1 (by simpa using h2)

/-- splitting a list at the first element with key k -/
theorem split_first (key : α → κ) (k : κ) : ∀ (l : List α) (x : α) (rest : List α),
    l.filter (fun y => key y = k) = x :: rest →
    ∃ pre post, l = pre ++ x :: post ∧ (∀ y ∈ pre, key y ≠ k) ∧ post.filter (fun y => key y = k) = rest
  | [], x, rest, h => by simp at h
  | y :: ys, x, rest, h => by
    by_cases hy : key y = k
    · simp only [filter_cons, hy, decide_true, if_true, cons.injEq] at h
      exact ⟨[], ys, by simp [h.1], by simp, h.2⟩
    · simp only [filter_cons, hy, decide_false, Bool.false_eq_true, if_false] at h
      obtain ⟨pre, post, h1, h2, h3⟩ := split_first key k ys x rest h
      refine ⟨y :: pre, post, by simp [h1], ?_, h3⟩
      intro z hz
      rcases mem_cons.1 hz with rfl | hz
      · exact hy
      · exact h2 z hz

theorem filter_other (key : α → κ) (k k' : κ) (hk : k' ≠ k) (pre post : List α) (x : α) (hx : key x = k) :
    (pre ++ x :: post).filter (fun y => key y = k') = (pre ++ post).filter (fun y => key y = k') := by
  have hne : ¬ k = k' := fun h => hk h.symm
  simp [filter_append, filter_cons, hx, hne]

/-- **reordering**: same subsequence for every key ⇒ connected by swaps of different-key neighbours -/
theorem swapEq_of_filters (key : α → κ) : ∀ (l' l : List α),
    (∀ k, l'.filter (fun y => key y = k) = l.filter (fun y => key y = k)) → SwapEq key l l'
  | [], l, h => by
    have : l = [] := by
      cases l with
      | nil => rfl
      | cons a as => have := h (key a); simp at this
    subst this; exact .refl _
  | x :: l', l, h => by
    have hx := h (key x)
    simp only [filter_cons, decide_true, if_true] at hx
    obtain ⟨pre, post, hl, hpre, hpost⟩ := split_first key (key x) l x _ hx.symm
    subst hl
    have hmove := move_front key x pre post hpre
    have hrest : ∀ k, l'.filter (fun y => key y = k) = (pre ++ post).filter (fun y => key y = k) := by
      intro k
      by_cases hk : k = key x
      · subst hk
        have hp : pre.filter (fun y => key y = key x) = [] := by
          rw [filter_eq_nil_iff]; intro y hy; simpa using hpre y hy
        rw [filter_append, hp, nil_append, hpost]
      · have := h k
        have hne : ¬ key x = k := fun h => hk h.symm
        simp only [filter_cons, hne, decide_false, Bool.false_eq_true, if_false] at this
        rw [this, filter_other key (key x) k hk pre post x rfl]
    have ih := swapEq_of_filters key l' (pre ++ post) hrest
    exact .trans hmove (by simpa using SwapEq.cons key x ih)

/-- a function that does not notice swaps of different-key neighbours takes the same value on swap-equivalent lists -/
theorem invariant {β : Type} (key : α → κ) (F : List α → β)
    (hF : ∀ pre a b post, key a ≠ key b → F (pre ++ a :: b :: post) = F (pre ++ b :: a :: post))
    {l1 l2 : List α} (h : SwapEq key l1 l2) : F l1 = F l2 := by
  induction h with
  | refl l => rfl
  | swap pre a b post hab => exact hF pre a b post hab
  | trans _ _ ih1 ih2 => exact ih1.trans ih2

end Pbc.Lemmas.Swap
