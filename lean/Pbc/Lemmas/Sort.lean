import Pbc.Model.Gen
/-
  Insertion sort (`Pbc.Gen.isort`): permutation, sortedness, stability.  Used for the generator's
  number-sorted field table, the name-sorted indices and the value-sorted enum table.
-/
namespace Pbc.Gen
open List

variable {α : Type}

theorem insertBy_perm (lt : α → α → Bool) (x : α) : ∀ l, (insertBy lt x l).Perm (x :: l)
  | [] => Perm.refl _
  | y :: ys => by
    unfold insertBy
    split
    · exact Perm.refl _
    · exact ((insertBy_perm lt x ys).cons y).trans (Perm.swap x y ys)

theorem isort_perm (lt : α → α → Bool) : ∀ l, (isort lt l).Perm l
  | [] => Perm.refl _
  | x :: xs => by
    show (insertBy lt x (isort lt xs)).Perm (x :: xs)
    exact (insertBy_perm lt x _).trans ((isort_perm lt xs).cons x)

theorem mem_insertBy {lt : α → α → Bool} {x a : α} {l : List α} : a ∈ insertBy lt x l ↔ a = x ∨ a ∈ l := by
  rw [(insertBy_perm lt x l).mem_iff]; simp

theorem mem_isort {lt : α → α → Bool} {a : α} {l : List α} : a ∈ isort lt l ↔ a ∈ l :=
  (isort_perm lt l).mem_iff

theorem isort_length (lt : α → α → Bool) (l : List α) : (isort lt l).length = l.length :=
  (isort_perm lt l).length_eq

/-- if `lt` decides a transitive, total preorder `le`, the result is sorted by `le` -/
theorem insertBy_pairwise {lt : α → α → Bool} {le : α → α → Prop}
    (htr : ∀ a b c, le a b → le b c → le a c)
    (h1 : ∀ a b, lt a b = true → le a b) (h2 : ∀ a b, lt a b = false → le b a)
    (x : α) : ∀ l, l.Pairwise le → (insertBy lt x l).Pairwise le
  | [], _ => by simp [insertBy]
  | y :: ys, h => by
    unfold insertBy
    rw [pairwise_cons] at h
    split
    · rename_i hlt
      refine pairwise_cons.2 ⟨?_, pairwise_cons.2 h⟩
      intro a ha
      rcases mem_cons.1 ha with rfl | ha
      · exact h1 _ _ hlt
      · exact htr _ _ _ (h1 _ _ hlt) (h.1 a ha)
    · rename_i hlt
      have hlt' : lt x y = false := by simpa using hlt
      refine pairwise_cons.2 ⟨?_, insertBy_pairwise htr h1 h2 x ys h.2⟩
      intro a ha
      rcases mem_insertBy.1 ha with rfl | ha
      · exact h2 _ _ hlt'
      · exact h.1 a ha

theorem isort_pairwise {lt : α → α → Bool} {le : α → α → Prop}
    (htr : ∀ a b c, le a b → le b c → le a c)
    (h1 : ∀ a b, lt a b = true → le a b) (h2 : ∀ a b, lt a b = false → le b a) :
    ∀ l, (isort lt l).Pairwise le
  | [] => Pairwise.nil
  | x :: xs => insertBy_pairwise htr h1 h2 x _ (isort_pairwise htr h1 h2 xs)

/-- stability: with a key function and `lt a b = (key a ≤ key b)`, elements of equal key keep their order -/
theorem insertBy_filter_key {κ : Type} [DecidableEq κ] (key : α → κ) (lt : α → α → Bool) (lek : κ → κ → Prop)
    (hlt : ∀ a b, lt a b = true ↔ lek (key a) (key b))
    (hrefl : ∀ k, lek k k)
    (x : α) (v : κ) : ∀ l, l.Pairwise (fun a b => lek (key a) (key b)) →
      (∀ a ∈ l, ¬ lek (key x) (key a) → key a ≠ key x) →
      (insertBy lt x l).filter (fun a => key a = v) =
        (if key x = v then x :: l.filter (fun a => key a = v) else l.filter (fun a => key a = v))
  | [], _, _ => by by_cases hx : key x = v <;> simp [insertBy, hx]
  | y :: ys, hp, hne => by
    unfold insertBy
    split
    · by_cases hx : key x = v <;> simp [filter_cons, hx]
    · rename_i h
      have hnl : ¬ lek (key x) (key y) := fun hc => h ((hlt x y).2 hc)
      have hyx : key y ≠ key x := hne y (mem_cons_self ..) hnl
      rw [filter_cons, insertBy_filter_key key lt lek hlt hrefl x v ys (pairwise_cons.1 hp).2
        (fun a ha => hne a (mem_cons_of_mem _ ha))]
      by_cases hx : key x = v
      · have : key y ≠ v := fun hc => hyx (hc.trans hx.symm)
        simp [hx, this]
      · by_cases hy : key y = v <;> simp [hx, hy]

end Pbc.Gen
