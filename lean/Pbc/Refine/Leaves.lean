import Std.Tactic.BVDecide
import Pbc.Extract.Leaves
import Pbc.Refine.BvSpec
import Pbc.Desc
/-
  Refinement (tie (a)): each extracted leaf equals its closed-form specification, for ALL
  inputs, and returns `ok` (in bounds, no undefined behaviour, terminates within its fuel)
  under the stated precondition.
  Proof method: unfold the extracted definitions (simp set `pbc_leaf`, filled by the generated
  file) and the specifications (`pbc_spec`), then `bv_decide`.  The scripts never mention the
  shape of the C code, so a behaviour-preserving rewrite of a leaf is re-proved unchanged.
  Axioms: `bv_decide` adds one `…_native.bv_decide.ax_*` axiom per theorem (trust in Lean's
  compiled LRAT checker + the bundled SAT solver); listed by the audit.
-/
set_option maxRecDepth 100000
set_option maxHeartbeats 2000000
namespace Pbc.Refine
open Pbc.Extract Pbc.BvSpec

macro "leaf_bv" : tactic => `(tactic| (simp -zeta only [pbc_leaf, pbc_spec]; bv_decide))

/-! ### sizes -/
theorem get_tag_size_spec (n : BitVec 32) :
    (get_tag_size n).ok = true ∧ (get_tag_size n).ret = vlen (key n) := by leaf_bv
theorem uint32_size_spec (v : BitVec 32) :
    (uint32_size v).ok = true ∧ (uint32_size v).ret = vlen (BitVec.setWidth 64 v) := by leaf_bv
theorem int32_size_spec (v : BitVec 32) :
    (int32_size v).ok = true ∧ (int32_size v).ret = vlen (BitVec.signExtend 64 v) := by leaf_bv
theorem sint32_size_spec (v : BitVec 32) :
    (sint32_size v).ok = true ∧ (sint32_size v).ret = vlen (BitVec.setWidth 64 (BvSpec.zigzag32 v)) := by leaf_bv
theorem uint64_size_spec (v : BitVec 64) :
    (uint64_size v).ok = true ∧ (uint64_size v).ret = vlen v := by leaf_bv
theorem sint64_size_spec (v : BitVec 64) :
    (sint64_size v).ok = true ∧ (sint64_size v).ret = vlen (BvSpec.zigzag64 v) := by leaf_bv

/-! ### zig-zag -/
theorem zigzag32_spec (v : BitVec 32) :
    (Extract.zigzag32 v).ok = true ∧ (Extract.zigzag32 v).ret = BvSpec.zigzag32 v := by leaf_bv
theorem zigzag64_spec (v : BitVec 64) :
    (Extract.zigzag64 v).ok = true ∧ (Extract.zigzag64 v).ret = BvSpec.zigzag64 v := by leaf_bv
theorem unzigzag32_spec (v : BitVec 32) :
    (Extract.unzigzag32 v).ok = true ∧ (Extract.unzigzag32 v).ret = BvSpec.unzigzag32 v := by leaf_bv
theorem unzigzag64_spec (v : BitVec 64) :
    (Extract.unzigzag64 v).ok = true ∧ (Extract.unzigzag64 v).ret = BvSpec.unzigzag64 v := by leaf_bv

/-! ### encoders: write exactly the shortest varint / fixed bytes into `out[0 .. ret)`, nothing else -/
theorem uint32_pack_spec (v : BitVec 32) (out : BitVec 80) (len : BitVec 64) (h : BitVec.ule 5 len) :
    let r := uint32_pack v out 0 len
    r.ok = true ∧ r.ret = vlen (BitVec.setWidth 64 v) ∧
      r.out_buf = blit out (vlen (BitVec.setWidth 64 v)) (vbytes (BitVec.setWidth 64 v)) := by leaf_bv
theorem int32_pack_spec (v : BitVec 32) (out : BitVec 80) (len : BitVec 64) (h : BitVec.ule 10 len) :
    let r := int32_pack v out 0 len
    r.ok = true ∧ r.ret = vlen (BitVec.signExtend 64 v) ∧
      r.out_buf = blit out (vlen (BitVec.signExtend 64 v)) (vbytes (BitVec.signExtend 64 v)) := by leaf_bv
theorem sint32_pack_spec (v : BitVec 32) (out : BitVec 80) (len : BitVec 64) (h : BitVec.ule 5 len) :
    let r := sint32_pack v out 0 len
    let z := BitVec.setWidth 64 (BvSpec.zigzag32 v)
    r.ok = true ∧ r.ret = vlen z ∧ r.out_buf = blit out (vlen z) (vbytes z) := by leaf_bv
theorem uint64_pack_spec (v : BitVec 64) (out : BitVec 80) (len : BitVec 64) (h : BitVec.ule 10 len) :
    let r := uint64_pack v out 0 len
    r.ok = true ∧ r.ret = vlen v ∧ r.out_buf = blit out (vlen v) (vbytes v) := by leaf_bv
theorem sint64_pack_spec (v : BitVec 64) (out : BitVec 80) (len : BitVec 64) (h : BitVec.ule 10 len) :
    let r := sint64_pack v out 0 len
    let z := BvSpec.zigzag64 v
    r.ok = true ∧ r.ret = vlen z ∧ r.out_buf = blit out (vlen z) (vbytes z) := by leaf_bv
theorem fixed32_pack_spec (v : BitVec 32) (out : BitVec 80) (len : BitVec 64) (h : BitVec.ule 4 len) :
    let r := fixed32_pack v out 0 len
    r.ok = true ∧ r.ret = 4 ∧ r.out_buf = blit out 4 (BitVec.setWidth 80 v) := by leaf_bv
theorem fixed64_pack_spec (v : BitVec 64) (out : BitVec 80) (len : BitVec 64) (h : BitVec.ule 8 len) :
    let r := fixed64_pack v out 0 len
    r.ok = true ∧ r.ret = 8 ∧ r.out_buf = blit out 8 (BitVec.setWidth 80 v) := by leaf_bv
theorem boolean_pack_spec (v : BitVec 32) (out : BitVec 80) (len : BitVec 64) (h : BitVec.ule 1 len) :
    let r := boolean_pack v out 0 len
    r.ok = true ∧ r.ret = 1 ∧ r.out_buf = blit out 1 (bif v == 0 then 0 else 1) := by leaf_bv
/-- the key is the varint of `id << 3` (wire-type bits left zero for the caller to OR in) -/
theorem tag_pack_spec (id : BitVec 32) (out : BitVec 80) (len : BitVec 64) (h : BitVec.ule 5 len) :
    let r := tag_pack id out 0 len
    r.ok = true ∧ r.ret = vlen (key id) ∧ r.out_buf = blit out (vlen (key id)) (vbytes (key id)) := by leaf_bv

/-! ### decoders: read only `data[0 .. min len 10)` -/
theorem parse_uint32_spec (len : BitVec 32) (d : BitVec 80) (h1 : BitVec.ule 1 len) (h2 : BitVec.ule len 10) :
    let r := parse_uint32 len d 0 (BitVec.setWidth 64 len)
    r.ok = true ∧ r.ret = BitVec.setWidth 32 (vdec (BitVec.setWidth 64 len) d) := by leaf_bv
theorem parse_int32_spec (len : BitVec 32) (d : BitVec 80) (h1 : BitVec.ule 1 len) (h2 : BitVec.ule len 10) :
    let r := parse_int32 len d 0 (BitVec.setWidth 64 len)
    r.ok = true ∧ r.ret = BitVec.setWidth 32 (vdec (BitVec.setWidth 64 len) d) := by leaf_bv
theorem parse_uint64_spec (len : BitVec 32) (d : BitVec 80) (h1 : BitVec.ule 1 len) (h2 : BitVec.ule len 10) :
    let r := parse_uint64 len d 0 (BitVec.setWidth 64 len)
    r.ok = true ∧ r.ret = vdec (BitVec.setWidth 64 len) d := by leaf_bv
theorem parse_fixed_uint32_spec (d : BitVec 80) :
    let r := parse_fixed_uint32 d 0 4
    r.ok = true ∧ r.ret = BitVec.setWidth 32 d := by leaf_bv
theorem parse_fixed_uint64_spec (d : BitVec 80) :
    let r := parse_fixed_uint64 d 0 8
    r.ok = true ∧ r.ret = BitVec.setWidth 64 d := by leaf_bv
/-- `scan_varint` looks at min(len,10) bytes and never beyond `len` -/
theorem scan_varint_spec (len : BitVec 32) (d : BitVec 80) :
    let r := scan_varint len d 0 (umin (BitVec.setWidth 64 len) 10)
    r.ok = true ∧ r.ret = BitVec.setWidth 32 (vscan (umin (BitVec.setWidth 64 len) 10) d) := by leaf_bv

/-- key decoder: looks at no more than min(len,5) bytes; returns 0 exactly when the first byte's
    field-number bits are all zero, no terminator is found, or the decoded field number is 0;
    otherwise the key length, the field number (key >> 3, 32 bits) and the wire type (low 3 bits). -/
theorem parse_tag_and_wiretype_spec (len : BitVec 64) (d : BitVec 80) (t0 : BitVec 32) (w0 : BitVec 8)
    (h1 : BitVec.ule 1 len) :
    let r := parse_tag_and_wiretype len d 0 (umin len 10) t0 w0
    let n := vscan (umin len 5) d
    r.ret = (bif (byteAt d 0 &&& 0xf8) == 0 then 0 else
             bif BitVec.setWidth 32 (vdec n d >>> 3) == 0 then 0 else n) ∧
    (r.ret != 0 → r.tag_out_val = BitVec.setWidth 32 (vdec n d >>> 3) ∧ r.wiretype_out_val = (byteAt d 0 &&& 7)) := by leaf_bv

/-- ... and does so without reading past `len` bytes and without undefined behaviour
    (C05 (iii); this is the obligation that finding F7 -- signed shift into the sign bit on
    5-byte keys -- violates when the shift is done in `int`). -/
theorem parse_tag_and_wiretype_ok (len : BitVec 64) (d : BitVec 80) (t0 : BitVec 32) (w0 : BitVec 8)
    (h1 : BitVec.ule 1 len) :
    (parse_tag_and_wiretype len d 0 (umin len 10) t0 w0).ok = true := by leaf_bv

/-- length-prefix scanner: prefix of at most min(len,5) bytes, value ≤ INT_MAX, prefix+value ≤ len -/
theorem scan_length_prefixed_data_spec (len : BitVec 64) (d : BitVec 80) (p0 : BitVec 64) :
    let r := scan_length_prefixed_data len d 0 (umin len 10) p0
    let n := vscan (umin len 5) d
    let val := vdec n d
    r.ok = true ∧
    r.ret = (bif n == 0 then 0 else bif BitVec.ult 0x7fffffff val then 0 else
             bif BitVec.ult len (n + val) then 0 else n + val) ∧
    (r.ret != 0 → r.prefix_len_out_val = n) := by leaf_bv

/-! ### per-type tables (all 17 type codes) -/
theorem get_type_min_size_spec (t : PType) :
    (get_type_min_size (BitVec.ofNat 32 t.code)).ok = true ∧
    (get_type_min_size (BitVec.ofNat 32 t.code)).ret = BitVec.ofNat 32 t.minSize := by
  cases t <;> decide
theorem sizeof_elt_in_repeated_array_spec (t : PType) :
    (sizeof_elt_in_repeated_array (BitVec.ofNat 32 t.code)).ok = true ∧
    (sizeof_elt_in_repeated_array (BitVec.ofNat 32 t.code)).ret = BitVec.ofNat 64 t.eltSize := by
  cases t <;> decide
theorem is_packable_type_spec (t : PType) :
    (is_packable_type (BitVec.ofNat 32 t.code)).ok = true ∧
    (is_packable_type (BitVec.ofNat 32 t.code)).ret = (bif t.packable then 1 else 0) := by
  cases t <;> decide

end Pbc.Refine
