import Std.Tactic.BVDecide
import Pbc.Refine.Leaves
import Pbc.Model.Unpack
/-
  Bridge: the closed-form bit-vector specifications (`Pbc.BvSpec`), against which every translated
  leaf of protobuf-c.c is proved by `bv_decide` (Refine/Leaves.lean), are related to the list-level
  functions the model is written in (`Wire.varint`, `varintLen`, `scanVarint`, `decGroups`, `le32` …).
  Together: translated C leaf = model function, for all inputs.
-/
set_option maxRecDepth 100000
set_option maxHeartbeats 1000000
namespace Pbc.Refine.Bridge
open Pbc Pbc.Wire Pbc.BvSpec Pbc.Model

/-- the first `n` bytes of a 10-byte window -/
def winBytes (d : BitVec 80) (n : Nat) : Bytes := (List.range n).map (byteAt d)

/-! ### encoders -/

theorem varintLen_of_lt : ∀ (k n : Nat), n < 128 ^ (k + 1) → (k = 0 ∨ 128 ^ k ≤ n) → varintLen n = k + 1
  | 0, n, h, _ => by rw [varintLen_eq]; simp at h; simp [h]
  | k+1, n, h, hk => by
    rw [varintLen_eq]
    have h128 : ¬ n < 128 := by
      rcases hk with hk | hk
      · omega
      · have : 128 ^ (k+1) = 128 * 128 ^ k := by rw [Nat.pow_succ]; omega
        have : 0 < 128 ^ k := Nat.pow_pos (by omega)
        omega
    rw [if_neg h128, varintLen_of_lt k (n / 128)]
    · omega
    · have : 128 ^ (k+1+1) = 128 * 128 ^ (k+1) := by rw [Nat.pow_succ]; omega
      omega
    · rcases hk with hk | hk
      · omega
      · right
        have : 128 ^ (k+1) = 128 * 128 ^ k := by rw [Nat.pow_succ]; omega
        omega

theorem vlen_eq (v : BitVec 64) : (vlen v).toNat = varintLen v.toNat := by
  have hv := v.isLt
  unfold vlen
  simp only [BitVec.ult, BitVec.toNat_ofNat, Nat.reducePow, Nat.reduceMod]
  by_cases h1 : v.toNat < 128
  · simp [h1, varintLen_of_lt 0 v.toNat (by simpa using h1) (Or.inl rfl)]
  by_cases h2 : v.toNat < 16384
  · simp [h1, h2, varintLen_of_lt 1 v.toNat (by simpa using h2) (Or.inr (by simpa using Nat.le_of_not_lt h1))]
  by_cases h3 : v.toNat < 2097152
  · simp [h1, h2, h3, varintLen_of_lt 2 v.toNat (by simpa using h3) (Or.inr (by simpa using Nat.le_of_not_lt h2))]
  by_cases h4 : v.toNat < 268435456
  · simp [h1, h2, h3, h4, varintLen_of_lt 3 v.toNat (by simpa using h4) (Or.inr (by simpa using Nat.le_of_not_lt h3))]
  by_cases h5 : v.toNat < 34359738368
  · simp [h1, h2, h3, h4, h5, varintLen_of_lt 4 v.toNat (by simpa using h5) (Or.inr (by simpa using Nat.le_of_not_lt h4))]
  by_cases h6 : v.toNat < 4398046511104
  · simp [h1, h2, h3, h4, h5, h6, varintLen_of_lt 5 v.toNat (by simpa using h6) (Or.inr (by simpa using Nat.le_of_not_lt h5))]
  by_cases h7 : v.toNat < 562949953421312
  · simp [h1, h2, h3, h4, h5, h6, h7, varintLen_of_lt 6 v.toNat (by simpa using h7) (Or.inr (by simpa using Nat.le_of_not_lt h6))]
  by_cases h8 : v.toNat < 72057594037927936
  · simp [h1, h2, h3, h4, h5, h6, h7, h8, varintLen_of_lt 7 v.toNat (by simpa using h8) (Or.inr (by simpa using Nat.le_of_not_lt h7))]
  by_cases h9 : v.toNat < 9223372036854775808
  · simp [h1, h2, h3, h4, h5, h6, h7, h8, h9, varintLen_of_lt 8 v.toNat (by simpa using h9) (Or.inr (by simpa using Nat.le_of_not_lt h8))]
  · simp [h1, h2, h3, h4, h5, h6, h7, h8, h9, varintLen_of_lt 9 v.toNat (by simpa using (by omega : v.toNat < 1180591620717411303424)) (Or.inr (by simpa using Nat.le_of_not_lt h9))]

/-- i-th byte of the shortest varint, as the specification computes it -/
theorem vbyte_succ (v : BitVec 64) (i : Nat) : vbyte v (i + 1) = vbyte (v >>> 7) i := by
  simp only [vbyte, ← BitVec.shiftRight_add]
  have e1 : 7 + 7 * i = 7 * (i + 1) := by omega
  have e2 : 7 + 7 * (i + 1) = 7 * (i + 1 + 1) := by omega
  rw [e1, e2]

theorem vbyte_zero_lt (v : BitVec 64) (h : v.toNat < 128) : vbyte v 0 = BitVec.ofNat 8 v.toNat := by
  have hv : v.ult 128 = true := by simp [BitVec.ult, h]
  have : vbyte v 0 = BitVec.setWidth 8 v := by
    simp only [vbyte]; bv_decide
  rw [this]; apply BitVec.eq_of_toNat_eq; simp

theorem vbyte_zero_ge (v : BitVec 64) (h : ¬ v.toNat < 128) : vbyte v 0 = BitVec.ofNat 8 (v.toNat % 128 + 128) := by
  have hv : v.ult 128 = false := by simp [BitVec.ult, h]
  have : vbyte v 0 = BitVec.setWidth 8 (v % 128#64 + 128#64) := by
    simp only [vbyte]; bv_decide
  rw [this]; apply BitVec.eq_of_toNat_eq; simp

theorem varint_get (i : Nat) : ∀ (v : BitVec 64), i < varintLen v.toNat → (varint v.toNat)[i]? = some (vbyte v i) := by
  induction i with
  | zero =>
    intro v _
    rw [varint_eq]
    split
    · rename_i h; simp [vbyte_zero_lt v h]
    · rename_i h; simp [vbyte_zero_ge v h]
  | succ i ih =>
    intro v hi
    rw [varintLen_eq] at hi
    rw [varint_eq]
    split at hi
    · omega
    · rename_i h
      rw [if_neg h, List.getElem?_cons_succ, vbyte_succ]
      have e : (v >>> 7).toNat = v.toNat / 128 := by simp [BitVec.toNat_ushiftRight, Nat.shiftRight_eq_div_pow]
      rw [← e]
      exact ih (v >>> 7) (by rw [e]; omega)

theorem lt10_cases {i : Nat} (h : i < 10) : i = 0 ∨ i = 1 ∨ i = 2 ∨ i = 3 ∨ i = 4 ∨ i = 5 ∨ i = 6 ∨ i = 7 ∨ i = 8 ∨ i = 9 := by omega

theorem byteAt_vbytes (v : BitVec 64) {i : Nat} (h : i < 10) : byteAt (vbytes v) i = vbyte v i := by
  have key : ∀ (b0 b1 b2 b3 b4 b5 b6 b7 b8 b9 : BitVec 8),
      let W : BitVec 80 := BitVec.setWidth 80 b0 ||| (BitVec.setWidth 80 b1 <<< 8)
        ||| (BitVec.setWidth 80 b2 <<< 16) ||| (BitVec.setWidth 80 b3 <<< 24)
        ||| (BitVec.setWidth 80 b4 <<< 32) ||| (BitVec.setWidth 80 b5 <<< 40)
        ||| (BitVec.setWidth 80 b6 <<< 48) ||| (BitVec.setWidth 80 b7 <<< 56)
        ||| (BitVec.setWidth 80 b8 <<< 64) ||| (BitVec.setWidth 80 b9 <<< 72)
      byteAt W 0 = b0 ∧ byteAt W 1 = b1 ∧ byteAt W 2 = b2 ∧ byteAt W 3 = b3 ∧ byteAt W 4 = b4 ∧
      byteAt W 5 = b5 ∧ byteAt W 6 = b6 ∧ byteAt W 7 = b7 ∧ byteAt W 8 = b8 ∧ byteAt W 9 = b9 := by
    intro b0 b1 b2 b3 b4 b5 b6 b7 b8 b9
    simp only [byteAt]
    bv_decide
  have := key (vbyte v 0) (vbyte v 1) (vbyte v 2) (vbyte v 3) (vbyte v 4) (vbyte v 5) (vbyte v 6) (vbyte v 7) (vbyte v 8) (vbyte v 9)
  simp only [] at this
  obtain ⟨h0, h1, h2, h3, h4, h5, h6, h7, h8, h9⟩ := this
  rcases lt10_cases h with rfl | rfl | rfl | rfl | rfl | rfl | rfl | rfl | rfl | rfl
  · exact h0
  · exact h1
  · exact h2
  · exact h3
  · exact h4
  · exact h5
  · exact h6
  · exact h7
  · exact h8
  · exact h9

/-- `blit out n bytes`: the first n bytes are those of `bytes`, the others those of `out` -/
theorem byteAt_blit (out bytes : BitVec 80) (n : BitVec 64) (hn : n.toNat ≤ 10) {i : Nat} (h : i < 10) :
    byteAt (blit out n bytes) i = if i < n.toNat then byteAt bytes i else byteAt out i := by
  have hn' : n.ule 10 = true := by simp [BitVec.ule, hn]
  have key : (byteAt (blit out n bytes) 0 = bif BitVec.ult 0#64 n then byteAt bytes 0 else byteAt out 0) ∧
      (byteAt (blit out n bytes) 1 = bif BitVec.ult 1#64 n then byteAt bytes 1 else byteAt out 1) ∧
      (byteAt (blit out n bytes) 2 = bif BitVec.ult 2#64 n then byteAt bytes 2 else byteAt out 2) ∧
      (byteAt (blit out n bytes) 3 = bif BitVec.ult 3#64 n then byteAt bytes 3 else byteAt out 3) ∧
      (byteAt (blit out n bytes) 4 = bif BitVec.ult 4#64 n then byteAt bytes 4 else byteAt out 4) ∧
      (byteAt (blit out n bytes) 5 = bif BitVec.ult 5#64 n then byteAt bytes 5 else byteAt out 5) ∧
      (byteAt (blit out n bytes) 6 = bif BitVec.ult 6#64 n then byteAt bytes 6 else byteAt out 6) ∧
      (byteAt (blit out n bytes) 7 = bif BitVec.ult 7#64 n then byteAt bytes 7 else byteAt out 7) ∧
      (byteAt (blit out n bytes) 8 = bif BitVec.ult 8#64 n then byteAt bytes 8 else byteAt out 8) ∧
      (byteAt (blit out n bytes) 9 = bif BitVec.ult 9#64 n then byteAt bytes 9 else byteAt out 9) := by
    simp only [byteAt, blit]
    bv_decide
  obtain ⟨h0, h1, h2, h3, h4, h5, h6, h7, h8, h9⟩ := key
  rcases lt10_cases h with rfl | rfl | rfl | rfl | rfl | rfl | rfl | rfl | rfl | rfl
  · rw [h0]; simp [BitVec.ult]
  · rw [h1]; simp [BitVec.ult]
  · rw [h2]; simp [BitVec.ult]
  · rw [h3]; simp [BitVec.ult]
  · rw [h4]; simp [BitVec.ult]
  · rw [h5]; simp [BitVec.ult]
  · rw [h6]; simp [BitVec.ult]
  · rw [h7]; simp [BitVec.ult]
  · rw [h8]; simp [BitVec.ult]
  · rw [h9]; simp [BitVec.ult]

theorem winBytes_length (d : BitVec 80) (n : Nat) : (winBytes d n).length = n := by simp [winBytes]

theorem winBytes_blit (out bytes : BitVec 80) (n : BitVec 64) (hn : n.toNat ≤ 10) :
    winBytes (blit out n bytes) n.toNat = winBytes bytes n.toNat := by
  simp only [winBytes]
  apply List.map_congr_left
  intro i hi
  have hi' : i < n.toNat := by simpa using hi
  rw [byteAt_blit out bytes n hn (by omega), if_pos hi']

theorem vlen_le (v : BitVec 64) : (vlen v).toNat ≤ 10 := by
  have : (vlen v).ule 10 = true := by simp only [vlen]; bv_decide
  simpa [BitVec.ule] using this

/-- the bytes of the specification's varint are `Wire.varint` -/
theorem winBytes_vbytes (v : BitVec 64) : winBytes (vbytes v) (vlen v).toNat = varint v.toNat := by
  apply List.ext_getElem?
  intro i
  have hl := vlen_eq v
  have h10 := vlen_le v
  by_cases hi : i < (vlen v).toNat
  · rw [varint_get i v (by omega)]
    simp [winBytes, hi, byteAt_vbytes v (by omega : i < 10)]
  · rw [List.getElem?_eq_none (by rw [winBytes_length]; omega),
        List.getElem?_eq_none (by rw [varint_length]; omega)]

/-- what a varint encoder leaves in its output window -/
theorem varint_written (out : BitVec 80) (v : BitVec 64) :
    winBytes (blit out (vlen v) (vbytes v)) (vlen v).toNat = varint v.toNat ∧
    ∀ i, (vlen v).toNat ≤ i → i < 10 → byteAt (blit out (vlen v) (vbytes v)) i = byteAt out i := by
  refine ⟨by rw [winBytes_blit _ _ _ (vlen_le v), winBytes_vbytes], ?_⟩
  intro i h1 h2
  rw [byteAt_blit _ _ _ (vlen_le v) h2, if_neg (by omega)]

/-- generic shape of the encoder results -/
theorem enc_model (out : BitVec 80) (z ret : BitVec 64) (buf : BitVec 80)
    (h1 : ret = vlen z) (h2 : buf = blit out (vlen z) (vbytes z)) :
    ret.toNat = varintLen z.toNat ∧ winBytes buf ret.toNat = varint z.toNat ∧
    ∀ i, ret.toNat ≤ i → i < 10 → byteAt buf i = byteAt out i := by
  subst h1 h2
  exact ⟨vlen_eq z, (varint_written out z).1, (varint_written out z).2⟩

/-- what a call of an encoder leaf does, at the level of the model: it returns the length of the
    model's encoding, writes exactly those bytes at the start of the window and nothing else -/
structure Writes (ok : Bool) (ret : BitVec 64) (buf out : BitVec 80) (bytes : Bytes) : Prop where
  ok : ok = true
  len : ret.toNat = bytes.length
  bytes : winBytes buf ret.toNat = bytes
  frame : ∀ i, ret.toNat ≤ i → i < 10 → byteAt buf i = byteAt out i

theorem writes_of (out : BitVec 80) (z ret : BitVec 64) (buf : BitVec 80) (ok : Bool) (bytes : Bytes)
    (h0 : ok = true) (h1 : ret = vlen z) (h2 : buf = blit out (vlen z) (vbytes z)) (hb : bytes = varint z.toNat) :
    Writes ok ret buf out bytes := by
  obtain ⟨a, b, c⟩ := enc_model out z ret buf h1 h2
  subst hb
  exact ⟨h0, by rw [a, varint_length], b, c⟩

theorem toNat_setWidth64 (x : BitVec 32) : (BitVec.setWidth 64 x).toNat = x.toNat := by
  have := x.isLt
  rw [BitVec.toNat_setWidth]; exact Nat.mod_eq_of_lt (by omega)

theorem uint64_pack_model (v : BitVec 64) (out : BitVec 80) (len : BitVec 64) (h : BitVec.ule 10 len) :
    let r := Extract.uint64_pack v out 0 len
    Writes r.ok r.ret r.out_buf out (scalarBytes .uint64 (.w64 v)) := by
  obtain ⟨a, b, c⟩ := Refine.uint64_pack_spec v out len h
  exact writes_of out v _ _ _ _ a b c (by simp [scalarBytes, Val.asW64])

theorem uint32_pack_model (v : BitVec 32) (out : BitVec 80) (len : BitVec 64) (h : BitVec.ule 5 len) :
    let r := Extract.uint32_pack v out 0 len
    Writes r.ok r.ret r.out_buf out (scalarBytes .uint32 (.w32 v)) := by
  obtain ⟨a, b, c⟩ := Refine.uint32_pack_spec v out len h
  exact writes_of out _ _ _ _ _ a b c (by rw [toNat_setWidth64]; simp [scalarBytes, Val.asW32])

theorem int32_pack_model (v : BitVec 32) (out : BitVec 80) (len : BitVec 64) (h : BitVec.ule 10 len) :
    let r := Extract.int32_pack v out 0 len
    Writes r.ok r.ret r.out_buf out (scalarBytes .int32 (.w32 v)) := by
  obtain ⟨a, b, c⟩ := Refine.int32_pack_spec v out len h
  exact writes_of out _ _ _ _ _ a b c (by simp [scalarBytes, Val.asW32])

theorem sint32_pack_model (v : BitVec 32) (out : BitVec 80) (len : BitVec 64) (h : BitVec.ule 5 len) :
    let r := Extract.sint32_pack v out 0 len
    Writes r.ok r.ret r.out_buf out (scalarBytes .sint32 (.w32 v)) := by
  obtain ⟨a, b, c⟩ := Refine.sint32_pack_spec v out len h
  exact writes_of out _ _ _ _ _ a b c (by rw [toNat_setWidth64]; simp [scalarBytes, Val.asW32, BvSpec.zigzag32, Model.zigzag32])

theorem sint64_pack_model (v : BitVec 64) (out : BitVec 80) (len : BitVec 64) (h : BitVec.ule 10 len) :
    let r := Extract.sint64_pack v out 0 len
    Writes r.ok r.ret r.out_buf out (scalarBytes .sint64 (.w64 v)) := by
  obtain ⟨a, b, c⟩ := Refine.sint64_pack_spec v out len h
  exact writes_of out _ _ _ _ _ a b c (by simp [scalarBytes, Val.asW64, BvSpec.zigzag64, Model.zigzag64])

/-! sizes -/
theorem uint64_size_model (v : BitVec 64) : (Extract.uint64_size v).ok = true ∧ (Extract.uint64_size v).ret.toNat = scalarLen .uint64 (.w64 v) := by
  obtain ⟨a, b⟩ := Refine.uint64_size_spec v
  exact ⟨a, by rw [b, vlen_eq]; simp [scalarLen, Val.asW64]⟩
theorem uint32_size_model (v : BitVec 32) : (Extract.uint32_size v).ok = true ∧ (Extract.uint32_size v).ret.toNat = scalarLen .uint32 (.w32 v) := by
  obtain ⟨a, b⟩ := Refine.uint32_size_spec v
  exact ⟨a, by rw [b, vlen_eq, toNat_setWidth64]; simp [scalarLen, Val.asW32]⟩
theorem int32_size_model (v : BitVec 32) : (Extract.int32_size v).ok = true ∧ (Extract.int32_size v).ret.toNat = scalarLen .int32 (.w32 v) := by
  obtain ⟨a, b⟩ := Refine.int32_size_spec v
  exact ⟨a, by rw [b, vlen_eq]; simp [scalarLen, Val.asW32]⟩
theorem sint32_size_model (v : BitVec 32) : (Extract.sint32_size v).ok = true ∧ (Extract.sint32_size v).ret.toNat = scalarLen .sint32 (.w32 v) := by
  obtain ⟨a, b⟩ := Refine.sint32_size_spec v
  exact ⟨a, by rw [b, vlen_eq, toNat_setWidth64]; simp [scalarLen, Val.asW32, BvSpec.zigzag32, Model.zigzag32]⟩
theorem sint64_size_model (v : BitVec 64) : (Extract.sint64_size v).ok = true ∧ (Extract.sint64_size v).ret.toNat = scalarLen .sint64 (.w64 v) := by
  obtain ⟨a, b⟩ := Refine.sint64_size_spec v
  exact ⟨a, by rw [b, vlen_eq]; simp [scalarLen, Val.asW64, BvSpec.zigzag64, Model.zigzag64]⟩

theorem key_toNat (id : BitVec 32) : (key id).toNat = id.toNat * 8 := by
  have := id.isLt
  simp only [key, BitVec.toNat_shiftLeft, toNat_setWidth64, Nat.shiftLeft_eq]
  exact Nat.mod_eq_of_lt (by omega)

theorem get_tag_size_model (id : BitVec 32) : (Extract.get_tag_size id).ok = true ∧ (Extract.get_tag_size id).ret.toNat = keyLen id.toNat := by
  obtain ⟨a, b⟩ := Refine.get_tag_size_spec id
  exact ⟨a, by rw [b, vlen_eq, key_toNat]; rfl⟩

/-! fixed-width and bool encoders -/
theorem winBytes_four (d : BitVec 80) : winBytes d 4 = [byteAt d 0, byteAt d 1, byteAt d 2, byteAt d 3] := by
  simp [winBytes, List.range_succ]
theorem winBytes_eight (d : BitVec 80) : winBytes d 8 = [byteAt d 0, byteAt d 1, byteAt d 2, byteAt d 3, byteAt d 4, byteAt d 5, byteAt d 6, byteAt d 7] := by
  simp [winBytes, List.range_succ]

theorem fixed32_pack_model (v : BitVec 32) (out : BitVec 80) (len : BitVec 64) (h : BitVec.ule 4 len) :
    let r := Extract.fixed32_pack v out 0 len
    Writes r.ok r.ret r.out_buf out (scalarBytes .fixed32 (.w32 v)) := by
  obtain ⟨a, b, c⟩ := Refine.fixed32_pack_spec v out len h
  refine ⟨a, by rw [b]; simp [scalarBytes, le32], ?_, ?_⟩
  · rw [b, c]
    have h4 : (4 : BitVec 64).toNat = 4 := rfl
    rw [h4, ← h4, winBytes_blit _ _ _ (by decide), h4, winBytes_four]
    simp only [scalarBytes, le32, Val.asW32, byteAt]
    have : BitVec.setWidth 8 (BitVec.setWidth 80 v >>> (8 * 0)) = BitVec.setWidth 8 v ∧
           BitVec.setWidth 8 (BitVec.setWidth 80 v >>> (8 * 1)) = BitVec.setWidth 8 (v >>> 8) ∧
           BitVec.setWidth 8 (BitVec.setWidth 80 v >>> (8 * 2)) = BitVec.setWidth 8 (v >>> 16) ∧
           BitVec.setWidth 8 (BitVec.setWidth 80 v >>> (8 * 3)) = BitVec.setWidth 8 (v >>> 24) := by bv_decide
    simp [this]
  · intro i h1 h2
    rw [c, byteAt_blit _ _ _ (by decide) h2, if_neg (by rw [b] at h1; exact Nat.not_lt.2 h1)]

theorem fixed64_pack_model (v : BitVec 64) (out : BitVec 80) (len : BitVec 64) (h : BitVec.ule 8 len) :
    let r := Extract.fixed64_pack v out 0 len
    Writes r.ok r.ret r.out_buf out (scalarBytes .fixed64 (.w64 v)) := by
  obtain ⟨a, b, c⟩ := Refine.fixed64_pack_spec v out len h
  refine ⟨a, by rw [b]; simp [scalarBytes, le64, le32], ?_, ?_⟩
  · rw [b, c]
    have h8 : (8 : BitVec 64).toNat = 8 := rfl
    rw [h8, ← h8, winBytes_blit _ _ _ (by decide), h8, winBytes_eight]
    simp only [scalarBytes, le64, le32, Val.asW64, byteAt, List.cons_append, List.nil_append]
    have : BitVec.setWidth 8 (BitVec.setWidth 80 v >>> (8 * 0)) = BitVec.setWidth 8 (BitVec.setWidth 32 v) ∧
           BitVec.setWidth 8 (BitVec.setWidth 80 v >>> (8 * 1)) = BitVec.setWidth 8 (BitVec.setWidth 32 v >>> 8) ∧
           BitVec.setWidth 8 (BitVec.setWidth 80 v >>> (8 * 2)) = BitVec.setWidth 8 (BitVec.setWidth 32 v >>> 16) ∧
           BitVec.setWidth 8 (BitVec.setWidth 80 v >>> (8 * 3)) = BitVec.setWidth 8 (BitVec.setWidth 32 v >>> 24) ∧
           BitVec.setWidth 8 (BitVec.setWidth 80 v >>> (8 * 4)) = BitVec.setWidth 8 (BitVec.setWidth 32 (v >>> 32)) ∧
           BitVec.setWidth 8 (BitVec.setWidth 80 v >>> (8 * 5)) = BitVec.setWidth 8 (BitVec.setWidth 32 (v >>> 32) >>> 8) ∧
           BitVec.setWidth 8 (BitVec.setWidth 80 v >>> (8 * 6)) = BitVec.setWidth 8 (BitVec.setWidth 32 (v >>> 32) >>> 16) ∧
           BitVec.setWidth 8 (BitVec.setWidth 80 v >>> (8 * 7)) = BitVec.setWidth 8 (BitVec.setWidth 32 (v >>> 32) >>> 24) := by bv_decide
    simp [this]
  · intro i h1 h2
    rw [c, byteAt_blit _ _ _ (by decide) h2, if_neg (by rw [b] at h1; exact Nat.not_lt.2 h1)]

theorem boolean_pack_model (v : BitVec 32) (out : BitVec 80) (len : BitVec 64) (h : BitVec.ule 1 len) :
    let r := Extract.boolean_pack v out 0 len
    Writes r.ok r.ret r.out_buf out (scalarBytes .bool (.w32 v)) := by
  obtain ⟨a, b, c⟩ := Refine.boolean_pack_spec v out len h
  refine ⟨a, by rw [b]; rfl, ?_, ?_⟩
  · rw [b, c]
    have h1 : (1 : BitVec 64).toNat = 1 := rfl
    rw [h1, ← h1, winBytes_blit _ _ _ (by decide), h1]
    have hsb : scalarBytes .bool (.w32 v) = [if v = 0 then 0 else 1] := rfl
    rw [hsb]
    simp only [winBytes, List.range_succ, List.range_zero, List.nil_append, List.map_cons, List.map_nil, byteAt]
    by_cases hv : v = 0
    · subst hv; simp
    · have : (v == 0) = false := by simpa using hv
      simp only [this, cond_false, if_neg hv]; rfl
  · intro i h1 h2
    rw [c, byteAt_blit _ _ _ (by decide) h2, if_neg (by rw [b] at h1; exact Nat.not_lt.2 h1)]

/-- `tag_pack` writes the varint of `id << 3` … -/
theorem tag_pack_model (id : BitVec 32) (out : BitVec 80) (len : BitVec 64) (h : BitVec.ule 5 len) :
    let r := Extract.tag_pack id out 0 len
    Writes r.ok r.ret r.out_buf out (varint (id.toNat * 8)) := by
  obtain ⟨a, b, c⟩ := Refine.tag_pack_spec id out len h
  exact writes_of out _ _ _ _ _ a b c (by rw [key_toNat])

theorem ofNat8_or (k w : Nat) (hw : w < 8) : BitVec.ofNat 8 (k * 8 + w) = BitVec.ofNat 8 (k * 8) ||| BitVec.ofNat 8 w := by
  apply BitVec.eq_of_toNat_eq
  have h1 : k * 8 + w = k <<< 3 ||| w := by
    rw [← Nat.shiftLeft_add_eq_or_of_lt (by simpa using hw)]; simp [Nat.shiftLeft_eq]
  have h2 : k * 8 = k <<< 3 := by simp [Nat.shiftLeft_eq]
  simp only [BitVec.toNat_ofNat, BitVec.toNat_or]
  rw [h1, h2, Nat.or_mod_two_pow]

/-- … and the caller's `out[0] |= wire_type` turns that into the model's key bytes -/
theorem keyBytes_or (id wt : Nat) : ∃ b0 rest, varint (id * 8) = b0 :: rest ∧
    keyBytes id wt = (b0 ||| BitVec.ofNat 8 (wt % 8)) :: rest := by
  have hw : wt % 8 < 8 := Nat.mod_lt _ (by omega)
  unfold keyBytes
  generalize wt % 8 = w at hw
  rw [varint_eq (id * 8), varint_eq (id * 8 + w)]
  by_cases h : id * 8 < 128
  · have h' : id * 8 + w < 128 := by omega
    rw [if_pos h, if_pos h']
    exact ⟨_, _, rfl, by rw [ofNat8_or id w hw]⟩
  · have h' : ¬ id * 8 + w < 128 := by omega
    rw [if_neg h, if_neg h']
    refine ⟨_, _, rfl, ?_⟩
    have e1 : (id * 8 + w) / 128 = id * 8 / 128 := by omega
    have e2 : (id * 8 + w) % 128 + 128 = (id * 8 % 128 / 8 + 16) * 8 + w := by omega
    have e3 : id * 8 % 128 + 128 = (id * 8 % 128 / 8 + 16) * 8 := by omega
    rw [e1, e2, e3, ofNat8_or _ w hw]

/-! ### decoders -/

theorem vscan_rec (max : BitVec 64) (d : BitVec 80) (h : max.ule 10 = true) :
    vscan max d = bif max.ult 1 then 0#64 else bif (byteAt d 0).ult 0x80 then 1#64 else
      (bif vscan (max - 1#64) (d >>> 8) == 0#64 then 0#64 else vscan (max - 1#64) (d >>> 8) + 1#64) := by
  simp only [vscan, byteAt]
  bv_decide

theorem vdec_rec (n : BitVec 64) (d : BitVec 80) (h : n.ule 10 = true) :
    vdec n d = bif n.ult 1 then 0#64 else (BitVec.setWidth 64 (byteAt d 0 &&& 0x7f) ||| (vdec (n - 1#64) (d >>> 8) <<< 7)) := by
  simp only [vdec, grp, byteAt]
  bv_decide

theorem byteAt_shift (d : BitVec 80) (i : Nat) : byteAt (d >>> 8) i = byteAt d (i + 1) := by
  simp only [byteAt, ← BitVec.shiftRight_add]
  have : 8 + 8 * i = 8 * (i + 1) := by omega
  rw [this]

theorem winBytes_succ (d : BitVec 80) (m : Nat) : winBytes d (m + 1) = byteAt d 0 :: winBytes (d >>> 8) m := by
  simp only [winBytes, List.range_succ_eq_map, List.map_cons, List.map_map]
  congr 1
  apply List.map_congr_left
  intro i _
  simp [byteAt_shift]

theorem vscan_eq : ∀ (m : Nat) (max : BitVec 64) (d : BitVec 80), m ≤ 10 → max.toNat = m →
    (vscan max d).toNat = (scanVarint m (winBytes d m)).getD 0 := by
  intro m
  induction m with
  | zero =>
    intro max d _ hm
    have : max = 0#64 := by apply BitVec.eq_of_toNat_eq; simpa using hm
    subst this
    rw [vscan_rec _ _ (by decide)]
    simp [scanVarint]
  | succ m ih =>
    intro max d h hm
    have hle : max.ule 10 = true := by simp [BitVec.ule]; omega
    have hult : max.ult 1 = false := by simp [BitVec.ult]; omega
    have hm1 : (max - 1#64).toNat = m := by
      have := max.isLt
      rw [BitVec.toNat_sub]; simp; omega
    rw [vscan_rec _ _ hle, hult, winBytes_succ]
    simp only [cond_false, scanVarint]
    have hb : (byteAt d 0).ult 0x80 = decide ((byteAt d 0).toNat < 128) := by simp [BitVec.ult]
    rw [hb]
    by_cases h0 : (byteAt d 0).toNat < 128
    · simp [h0]
    · simp only [h0, decide_false, cond_false, if_false]
      have ihm := ih (max - 1#64) (d >>> 8) (by omega) hm1
      generalize vscan (max - 1#64) (d >>> 8) = r at ihm ⊢
      cases hs : scanVarint m (winBytes (d >>> 8) m) with
      | none =>
        rw [hs] at ihm
        have : r = 0#64 := by apply BitVec.eq_of_toNat_eq; simpa using ihm
        subst this
        simp
      | some k =>
        rw [hs] at ihm
        have hk := scanVarint_le hs
        simp only [Option.getD_some] at ihm
        have hne : (r == 0#64) = false := by
          apply beq_false_of_ne
          intro hz; rw [hz] at ihm; simp at ihm; omega
        rw [hne]
        simp only [cond_false, Option.map_some, Option.getD_some, BitVec.toNat_add, ihm]
        simp; omega

theorem or_shl7 (x : BitVec 8) (y : BitVec 64) :
    BitVec.setWidth 64 (x &&& 0x7f) ||| (y <<< 7) = BitVec.setWidth 64 (x % 128#8) + y * 128#64 := by
  bv_decide

theorem vdec_eq : ∀ (m : Nat) (n : BitVec 64) (d : BitVec 80), m ≤ 10 → n.toNat = m →
    vdec n d = BitVec.ofNat 64 (decGroups (winBytes d m)) := by
  intro m
  induction m with
  | zero =>
    intro n d _ hm
    have : n = 0#64 := by apply BitVec.eq_of_toNat_eq; simpa using hm
    subst this
    rw [vdec_rec _ _ (by decide)]
    simp [winBytes, decGroups]
  | succ m ih =>
    intro n d h hm
    have hle : n.ule 10 = true := by simp [BitVec.ule]; omega
    have hult : n.ult 1 = false := by simp [BitVec.ult]; omega
    have hm1 : (n - 1#64).toNat = m := by
      have := n.isLt
      rw [BitVec.toNat_sub]; simp; omega
    rw [vdec_rec _ _ hle, hult, winBytes_succ, ih (n - 1#64) (d >>> 8) (by omega) hm1]
    simp only [cond_false, decGroups]
    rw [or_shl7]
    apply BitVec.eq_of_toNat_eq
    simp only [BitVec.toNat_add, BitVec.toNat_mul, BitVec.toNat_setWidth, BitVec.toNat_umod, BitVec.toNat_ofNat, Nat.reducePow, Nat.reduceMod]
    omega

theorem umin_toNat (a b : BitVec 64) : (umin a b).toNat = min a.toNat b.toNat := by
  simp only [umin, BitVec.ult]
  by_cases h : a.toNat < b.toNat <;> simp [h] <;> omega

theorem vscan_le (max : BitVec 64) (d : BitVec 80) : (vscan max d).toNat ≤ 10 := by
  have : (vscan max d).ule 10 = true := by simp only [vscan]; bv_decide
  simpa [BitVec.ule] using this

theorem decGroups_lt : ∀ (l : Bytes), decGroups l < 128 ^ l.length
  | [] => by simp [decGroups]
  | b :: bs => by
    have := decGroups_lt bs
    simp only [decGroups, List.length_cons, Nat.pow_succ]
    omega

theorem scanVarint_take : ∀ (m : Nat) (b : Bytes), scanVarint m b = scanVarint m (b.take m)
  | 0, b => by cases b <;> simp [scanVarint]
  | m+1, [] => by simp [scanVarint]
  | m+1, x :: xs => by simp only [scanVarint, List.take_succ_cons]; rw [scanVarint_take m xs]

theorem winBytes_take (d : BitVec 80) (m L : Nat) (h : m ≤ L) : (winBytes d L).take m = winBytes d m := by
  simp only [winBytes, ← List.map_take, List.take_range, Nat.min_eq_left h]

/-- `scan_varint`: the translated C function computes the model's scan of the first min(len,10) bytes -/
theorem scan_varint_model (len : BitVec 32) (d : BitVec 80) :
    let r := Extract.scan_varint len d 0 (umin (BitVec.setWidth 64 len) 10)
    let m := min len.toNat 10
    r.ok = true ∧ r.ret.toNat = (scanVarint m (winBytes d m)).getD 0 := by
  obtain ⟨a, b⟩ := Refine.scan_varint_spec len d
  refine ⟨a, ?_⟩
  have hm : (umin (BitVec.setWidth 64 len) 10).toNat = min len.toNat 10 := by
    rw [umin_toNat, toNat_setWidth64]; rfl
  have hv := vscan_eq (min len.toNat 10) (umin (BitVec.setWidth 64 len) 10) d (Nat.min_le_right _ _) hm
  have h10 := vscan_le (umin (BitVec.setWidth 64 len) 10) d
  rw [b, BitVec.toNat_setWidth, Nat.mod_eq_of_lt (by omega), hv]

/-- varint value decoders -/
theorem parse_uint64_model (len : BitVec 32) (d : BitVec 80) (h1 : BitVec.ule 1 len) (h2 : BitVec.ule len 10) :
    let r := Extract.parse_uint64 len d 0 (BitVec.setWidth 64 len)
    r.ok = true ∧ parseScalar .uint64 (winBytes d len.toNat) = .w64 r.ret := by
  obtain ⟨a, b⟩ := Refine.parse_uint64_spec len d h1 h2
  have hl : len.toNat ≤ 10 := by simpa [BitVec.ule] using h2
  refine ⟨a, ?_⟩
  rw [b, vdec_eq len.toNat _ d hl (toNat_setWidth64 len)]
  rfl

theorem setWidth32_ofNat64 (x : Nat) : BitVec.setWidth 32 (BitVec.ofNat 64 x) = BitVec.ofNat 32 x := by
  apply BitVec.eq_of_toNat_eq
  simp only [BitVec.toNat_setWidth, BitVec.toNat_ofNat]
  omega

theorem parse_uint32_model (len : BitVec 32) (d : BitVec 80) (h1 : BitVec.ule 1 len) (h2 : BitVec.ule len 10) :
    let r := Extract.parse_uint32 len d 0 (BitVec.setWidth 64 len)
    r.ok = true ∧ parseScalar .uint32 (winBytes d len.toNat) = .w32 r.ret := by
  obtain ⟨a, b⟩ := Refine.parse_uint32_spec len d h1 h2
  have hl : len.toNat ≤ 10 := by simpa [BitVec.ule] using h2
  refine ⟨a, ?_⟩
  rw [b, vdec_eq len.toNat _ d hl (toNat_setWidth64 len), setWidth32_ofNat64]
  rfl

theorem parse_int32_model (len : BitVec 32) (d : BitVec 80) (h1 : BitVec.ule 1 len) (h2 : BitVec.ule len 10) :
    let r := Extract.parse_int32 len d 0 (BitVec.setWidth 64 len)
    r.ok = true ∧ parseScalar .int32 (winBytes d len.toNat) = .w32 r.ret := by
  obtain ⟨a, b⟩ := Refine.parse_int32_spec len d h1 h2
  have hl : len.toNat ≤ 10 := by simpa [BitVec.ule] using h2
  refine ⟨a, ?_⟩
  rw [b, vdec_eq len.toNat _ d hl (toNat_setWidth64 len), setWidth32_ofNat64]
  rfl


theorem byteAt_toNat (d : BitVec 80) (i : Nat) : (byteAt d i).toNat = d.toNat / 2 ^ (8 * i) % 256 := by
  simp [byteAt, BitVec.toNat_setWidth, BitVec.toNat_ushiftRight, Nat.shiftRight_eq_div_pow]

theorem loadLE4 (b0 b1 b2 b3 : Byte) : loadLE [b0, b1, b2, b3] 4 = b0.toNat + 256 * (b1.toNat + 256 * (b2.toNat + 256 * b3.toNat)) := by
  simp [loadLE]

theorem load32 (d : BitVec 80) :
    BitVec.ofNat 32 (loadLE [byteAt d 0, byteAt d 1, byteAt d 2, byteAt d 3] 4) = BitVec.setWidth 32 d := by
  rw [loadLE4]
  apply BitVec.eq_of_toNat_eq
  simp only [BitVec.toNat_ofNat, BitVec.toNat_setWidth, byteAt_toNat]
  generalize d.toNat = D
  simp only [Nat.reducePow, Nat.reduceMul]
  omega

theorem loadLE8 (b0 b1 b2 b3 b4 b5 b6 b7 : Byte) : loadLE [b0, b1, b2, b3, b4, b5, b6, b7] 8 =
    b0.toNat + 256 * (b1.toNat + 256 * (b2.toNat + 256 * (b3.toNat + 256 * (b4.toNat + 256 * (b5.toNat + 256 * (b6.toNat + 256 * b7.toNat)))))) := by
  simp [loadLE]

theorem load64 (d : BitVec 80) :
    BitVec.ofNat 64 (loadLE [byteAt d 0, byteAt d 1, byteAt d 2, byteAt d 3, byteAt d 4, byteAt d 5, byteAt d 6, byteAt d 7] 8) = BitVec.setWidth 64 d := by
  rw [loadLE8]
  apply BitVec.eq_of_toNat_eq
  simp only [BitVec.toNat_ofNat, BitVec.toNat_setWidth, byteAt_toNat]
  generalize d.toNat = D
  simp only [Nat.reducePow, Nat.reduceMul]
  omega

/-- little-endian loads -/
theorem parse_fixed_uint32_model (d : BitVec 80) :
    let r := Extract.parse_fixed_uint32 d 0 4
    r.ok = true ∧ parseScalar .fixed32 (winBytes d 4) = .w32 r.ret := by
  obtain ⟨a, b⟩ := Refine.parse_fixed_uint32_spec d
  refine ⟨a, ?_⟩
  rw [b, winBytes_four]
  simp only [parseScalar, Val.w32.injEq]
  exact load32 d

theorem parse_fixed_uint64_model (d : BitVec 80) :
    let r := Extract.parse_fixed_uint64 d 0 8
    r.ok = true ∧ parseScalar .fixed64 (winBytes d 8) = .w64 r.ret := by
  obtain ⟨a, b⟩ := Refine.parse_fixed_uint64_spec d
  refine ⟨a, ?_⟩
  rw [b, winBytes_eight]
  simp only [parseScalar, Val.w64.injEq]
  exact load64 d

/-! key and length-prefix scanners -/

theorem scanKey_take10 (b : Bytes) : scanKey b = scanKey (b.take 10) := by
  cases b with
  | nil => rfl
  | cons b0 rest =>
    simp only [scanKey, List.take_succ_cons, List.length_cons, List.length_take]
    have hm : min (rest.length + 1) 5 = min (min 9 rest.length + 1) 5 := by omega
    rw [← hm]
    split
    · rfl
    · rw [scanVarint_take (min (rest.length + 1) 5) (b0 :: rest), scanVarint_take (min (rest.length + 1) 5) (b0 :: List.take 9 rest)]
      have ht : List.take (min (rest.length + 1) 5) (b0 :: List.take 9 rest) = List.take (min (rest.length + 1) 5) (b0 :: rest) := by
        rw [← List.take_succ_cons, List.take_take]
        congr 1; omega
      rw [ht]
      cases hs : scanVarint (min (rest.length + 1) 5) (List.take (min (rest.length + 1) 5) (b0 :: rest)) with
      | none => rfl
      | some n =>
        have hn := (scanVarint_le hs).2.1
        simp only []
        have ht2 : List.take n (b0 :: List.take 9 rest) = List.take n (b0 :: rest) := by
          rw [← List.take_succ_cons, List.take_take]
          congr 1; omega
        simp only [ht2]

theorem and7_toNat (x : BitVec 8) : (x &&& 7).toNat = x.toNat % 8 := by
  have : x &&& 7 = x % 8#8 := by bv_decide
  rw [this]; simp

theorem tag_toNat (raw : Nat) (h : raw < 2 ^ 64) : (BitVec.setWidth 32 (BitVec.ofNat 64 raw >>> 3)).toNat = raw / 8 % 2 ^ 32 := by
  simp only [BitVec.toNat_setWidth, BitVec.toNat_ushiftRight, BitVec.toNat_ofNat, Nat.shiftRight_eq_div_pow]
  rw [Nat.mod_eq_of_lt h]

/-- `parse_tag_and_wiretype`: the translated C function computes the model's `scanKey` on the bytes it may read -/
theorem parse_tag_and_wiretype_model (len : BitVec 64) (d : BitVec 80) (t0 : BitVec 32) (w0 : BitVec 8)
    (h1 : BitVec.ule 1 len) :
    let r := Extract.parse_tag_and_wiretype len d 0 (umin len 10) t0 w0
    r.ok = true ∧
    match scanKey (winBytes d (min len.toNat 10)) with
    | none => r.ret = 0
    | some (n, tag, wt) => r.ret.toNat = n ∧ r.tag_out_val.toNat = tag ∧ r.wiretype_out_val.toNat = wt := by
  have hok := Refine.parse_tag_and_wiretype_ok len d t0 w0 h1
  obtain ⟨hret, hout⟩ := Refine.parse_tag_and_wiretype_spec len d t0 w0 h1
  refine ⟨hok, ?_⟩
  have hlen : 1 ≤ len.toNat := by simpa [BitVec.ule] using h1
  obtain ⟨L', hL⟩ : ∃ L', min len.toNat 10 = L' + 1 := ⟨min len.toNat 10 - 1, by omega⟩
  have hm : (umin len 5).toNat = min (L' + 1) 5 := by rw [umin_toNat]; show min len.toNat 5 = _; omega
  rw [hL, winBytes_succ]
  simp only [scanKey, List.length_cons, winBytes_length]
  by_cases hb0 : (byteAt d 0 &&& 0xf8) = 0
  · rw [if_pos hb0]
    simp only [hret, hb0, beq_self_eq_true, cond_true]
  · rw [if_neg hb0]
    have hb0' : ((byteAt d 0 &&& 0xf8) == 0) = false := by simpa using hb0
    rw [hb0'] at hret
    simp only [cond_false] at hret
    rw [← winBytes_succ, scanVarint_take, winBytes_take _ _ _ (Nat.min_le_left _ _)]
    have hv := vscan_eq (min (L' + 1) 5) (umin len 5) d (by omega) hm
    cases hs : scanVarint (min (L' + 1) 5) (winBytes d (min (L' + 1) 5)) with
    | none =>
      rw [hs] at hv
      have hz : vscan (umin len 5) d = 0#64 := by apply BitVec.eq_of_toNat_eq; simpa using hv
      simp only [hret, hz]
      cases (BitVec.setWidth 32 (vdec 0#64 d >>> 3) == 0) <;> rfl
    | some k =>
      rw [hs] at hv
      simp only [Option.getD_some] at hv
      have hk := scanVarint_le hs
      have hk5 : k ≤ 5 := by omega
      simp only []
      rw [winBytes_take _ _ _ (by omega)]
      have hraw := decGroups_lt (winBytes d k)
      rw [winBytes_length] at hraw
      have hraw64 : decGroups (winBytes d k) < 2 ^ 64 := by
        have : 128 ^ k ≤ 128 ^ 5 := Nat.pow_le_pow_right (by omega) hk5
        have : (128 : Nat) ^ 5 < 2 ^ 64 := by decide
        omega
      have hvd := vdec_eq k (vscan (umin len 5) d) d (by omega) hv
      have htag := tag_toNat _ hraw64
      rw [← hvd] at htag
      by_cases ht : decGroups (winBytes d k) / 8 % 2 ^ 32 = 0
      · rw [if_pos ht]
        have : (BitVec.setWidth 32 (vdec (vscan (umin len 5) d) d >>> 3) == 0) = true := by
          rw [beq_iff_eq]; apply BitVec.eq_of_toNat_eq; rw [htag, ht]; rfl
        simp only [hret, this, cond_true]
      · rw [if_neg ht]
        have hne : (BitVec.setWidth 32 (vdec (vscan (umin len 5) d) d >>> 3) == 0) = false := by
          apply beq_false_of_ne
          intro hz; rw [hz] at htag; exact ht htag.symm
        rw [hne] at hret
        simp only [cond_false] at hret
        have hnz : (Extract.parse_tag_and_wiretype len d 0 (umin len 10) t0 w0).ret != 0 := by
          rw [hret]; apply bne_iff_ne.2
          intro hz; rw [hz] at hv; simp at hv; omega
        obtain ⟨ho1, ho2⟩ := hout hnz
        exact ⟨by rw [hret, hv], by rw [ho1, htag], by rw [ho2, and7_toNat]⟩

/-- the window holds the first min(len,10) bytes of the input `b` -/
def Loaded (d : BitVec 80) (b : Bytes) : Prop := b.take 10 = winBytes d (min b.length 10)

theorem loaded_take (d : BitVec 80) (b : Bytes) (h : Loaded d b) (m : Nat) (hm : m ≤ min b.length 10) :
    b.take m = winBytes d m := by
  have : b.take m = (b.take 10).take m := by rw [List.take_take]; congr 1; omega
  rw [this, h, winBytes_take _ _ _ hm]

/-- `scan_length_prefixed_data` computes the model's `scanLen` -/
theorem scan_length_prefixed_data_model (len : BitVec 64) (d : BitVec 80) (p0 : BitVec 64) (b : Bytes)
    (hb : b.length = len.toNat) (hw : Loaded d b) :
    let r := Extract.scan_length_prefixed_data len d 0 (umin len 10) p0
    r.ok = true ∧
    match scanLen b with
    | none => r.ret = 0
    | some (p, tot) => r.ret.toNat = tot ∧ r.prefix_len_out_val.toNat = p := by
  obtain ⟨hok, hret, hout⟩ := Refine.scan_length_prefixed_data_spec len d p0
  refine ⟨hok, ?_⟩
  have hm : (umin len 5).toNat = min b.length 5 := by rw [umin_toNat, hb]; rfl
  have hv := vscan_eq (min b.length 5) (umin len 5) d (by omega) hm
  simp only [scanLen]
  rw [scanVarint_take, loaded_take d b hw _ (by omega)]
  cases hs : scanVarint (min b.length 5) (winBytes d (min b.length 5)) with
  | none =>
    rw [hs] at hv
    have hz : vscan (umin len 5) d = 0#64 := by apply BitVec.eq_of_toNat_eq; simpa using hv
    simp only [hret, hz]
    rfl
  | some k =>
    rw [hs] at hv
    simp only [Option.getD_some] at hv
    have hk := scanVarint_le hs
    have hk5 : k ≤ 5 := by omega
    simp only []
    rw [loaded_take d b hw k (by omega)]
    have hraw := decGroups_lt (winBytes d k)
    rw [winBytes_length] at hraw
    have hraw35 : decGroups (winBytes d k) < 2 ^ 35 := by
      have : 128 ^ k ≤ 128 ^ 5 := Nat.pow_le_pow_right (by omega) hk5
      have : (128 : Nat) ^ 5 = 2 ^ 35 := by decide
      omega
    have hvd := vdec_eq k (vscan (umin len 5) d) d (by omega) hv
    have hnz : (vscan (umin len 5) d == 0) = false := by
      apply beq_false_of_ne
      intro hz; rw [hz] at hv; simp at hv; omega
    rw [hnz, hvd] at hret
    simp only [cond_false] at hret
    generalize decGroups (winBytes d k) = raw at *
    have hvt : (BitVec.ofNat 64 raw).toNat = raw := by simp; omega
    have hlt := len.isLt
    have hsum : (vscan (umin len 5) d + BitVec.ofNat 64 raw).toNat = k + raw := by
      rw [BitVec.toNat_add, hv, hvt]; omega
    by_cases h1 : raw > 2147483647
    · rw [if_pos h1]
      have : BitVec.ult 0x7fffffff (BitVec.ofNat 64 raw) = true := by simp only [BitVec.ult, hvt]; simpa using h1
      simp only [hret, this, cond_true]
    · rw [if_neg h1]
      have h1' : BitVec.ult 0x7fffffff (BitVec.ofNat 64 raw) = false := by simp only [BitVec.ult, hvt]; simpa using h1
      rw [h1'] at hret
      simp only [cond_false] at hret
      by_cases h2 : k + raw > b.length
      · rw [if_pos h2]
        have : BitVec.ult len (vscan (umin len 5) d + BitVec.ofNat 64 raw) = true := by
          simp only [BitVec.ult, hsum, ← hb]; simpa using h2
        simp only [hret, this, cond_true]
      · rw [if_neg h2]
        have h2' : BitVec.ult len (vscan (umin len 5) d + BitVec.ofNat 64 raw) = false := by
          simp only [BitVec.ult, hsum, ← hb]; simpa using h2
        rw [h2'] at hret
        simp only [cond_false] at hret
        have hne : (Extract.scan_length_prefixed_data len d 0 (umin len 10) p0).ret != 0 := by
          rw [hret]; apply bne_iff_ne.2
          intro hz
          have := congrArg BitVec.toNat hz
          rw [hsum] at this; simp at this; omega
        exact ⟨by rw [hret, hsum], by rw [hout hne, hv]⟩

/-- `parse_tag_and_wiretype` on an input `b` of `len` bytes -/
theorem parse_tag_and_wiretype_model' (len : BitVec 64) (d : BitVec 80) (t0 : BitVec 32) (w0 : BitVec 8) (b : Bytes)
    (hb : b.length = len.toNat) (hw : Loaded d b) (h1 : b ≠ []) :
    let r := Extract.parse_tag_and_wiretype len d 0 (umin len 10) t0 w0
    r.ok = true ∧
    match scanKey b with
    | none => r.ret = 0
    | some (n, tag, wt) => r.ret.toNat = n ∧ r.tag_out_val.toNat = tag ∧ r.wiretype_out_val.toNat = wt := by
  have hl : BitVec.ule 1 len = true := by
    have : 0 < b.length := List.length_pos_iff.2 h1
    simp [BitVec.ule]; omega
  have := parse_tag_and_wiretype_model len d t0 w0 hl
  rw [scanKey_take10, hw, hb]
  exact this


/-! zig-zag -/
theorem zigzag32_model (v : BitVec 32) : (Extract.zigzag32 v).ok = true ∧ (Extract.zigzag32 v).ret = Model.zigzag32 v := Refine.zigzag32_spec v
theorem zigzag64_model (v : BitVec 64) : (Extract.zigzag64 v).ok = true ∧ (Extract.zigzag64 v).ret = Model.zigzag64 v := Refine.zigzag64_spec v
theorem unzigzag32_model (v : BitVec 32) : (Extract.unzigzag32 v).ok = true ∧ (Extract.unzigzag32 v).ret = Model.unzigzag32 v := Refine.unzigzag32_spec v
theorem unzigzag64_model (v : BitVec 64) : (Extract.unzigzag64 v).ok = true ∧ (Extract.unzigzag64 v).ret = Model.unzigzag64 v := Refine.unzigzag64_spec v

end Pbc.Refine.Bridge
