import Std.Tactic.BVDecide
import Pbc.Extract.Leaves
import Pbc.Model.Unpack
import Pbc.Model.Lookup
import Pbc.Lemmas.Ranges
/-
  Refinement of the leaf functions that contain a loop (translated with a fuel argument):
  by induction on the fuel, the translated C loop computes the hand-written model function.
-/
set_option maxRecDepth 100000
set_option maxHeartbeats 1000000
namespace Pbc.Refine.Loops
open Pbc.Extract

/-! ### parse_boolean -/

/-- one iteration of the translated loop, in closed form (proved equal by `bv_decide`-free unfolding) -/
theorem parse_boolean_step (dlen : BitVec 64) (len : BitVec 32) (off : BitVec 64) (mem : Nat → BitVec 8)
    (fuel : Nat) (s : parse_boolean.Loop1) (hr : s.returned = false) :
    parse_boolean.loop1 dlen len off mem true (fuel+1) s =
      if BitVec.ult s.v_i len then
        let ix := off + BitVec.setWidth 64 s.v_i
        let hit := (BitVec.setWidth 32 (mem ix.toNat) &&& 127#32) != 0#32
        parse_boolean.loop1 dlen len off mem true fuel
          ⟨bif hit then s.v_i else s.v_i + 1#32, s.ok && BitVec.ult ix dlen, hit, bif hit then 1#32 else s.ret⟩
      else s := by
  rw [parse_boolean.loop1]
  cases h : BitVec.ult s.v_i len <;> simp [hr]
  cases s; simp_all

theorem parse_boolean_done (dlen : BitVec 64) (len : BitVec 32) (off : BitVec 64) (mem : Nat → BitVec 8)
    (fuel : Nat) (s : parse_boolean.Loop1) (hr : s.returned = true) :
    parse_boolean.loop1 dlen len off mem true fuel s = s := by
  cases fuel with
  | zero => rw [parse_boolean.loop1]; cases s; simp_all
  | succ f => rw [parse_boolean.loop1]; cases s; simp_all

/-- the bytes `mem[off+i .. off+L)` -/
def seg (mem : Nat → BitVec 8) (off i L : Nat) : Pbc.Bytes := (List.range (L - i)).map (fun j => mem (off + i + j))

theorem seg_cons (mem : Nat → BitVec 8) (off i L : Nat) (h : i < L) : seg mem off i L = mem (off + i) :: seg mem off (i + 1) L := by
  unfold seg
  have : L - i = (L - (i + 1)) + 1 := by omega
  rw [this, List.range_succ_eq_map]
  simp only [List.map_cons, List.map_map, Nat.add_zero]
  congr 1
  apply List.map_congr_left
  intro j _
  simp only [Function.comp]
  congr 1; omega

theorem seg_nil (mem : Nat → BitVec 8) (off i L : Nat) (h : L ≤ i) : seg mem off i L = [] := by
  unfold seg
  have : L - i = 0 := by omega
  rw [this]; rfl

theorem hit_iff (x : BitVec 8) : ((BitVec.setWidth 32 x &&& 127#32) != 0#32) = decide (x.toNat % 128 ≠ 0) := by
  have h1 : ((BitVec.setWidth 32 x &&& 127#32) != 0#32) = ((x % 128#8) != 0#8) := by
    cases h : ((x % 128#8) != 0#8) <;> bv_decide
  rw [h1]
  by_cases h : x.toNat % 128 = 0
  · have : x % 128#8 = 0#8 := by apply BitVec.eq_of_toNat_eq; simpa using h
    simp [this, h]
  · have : x % 128#8 ≠ 0#8 := by
      intro hz; apply h
      have := congrArg BitVec.toNat hz
      simpa using this
    simp [this, h]

theorem parse_boolean_loop (dlen : BitVec 64) (len : BitVec 32) (off : BitVec 64) (mem : Nat → BitVec 8)
    (hb : off.toNat + len.toNat ≤ dlen.toNat) :
    ∀ (fuel : Nat) (s : parse_boolean.Loop1), s.returned = false → s.ok = true → s.v_i.toNat ≤ len.toNat →
      len.toNat - s.v_i.toNat ≤ fuel →
      let r := parse_boolean.loop1 dlen len off mem true fuel s
      r.ok = true ∧ (r.returned = true → r.ret = 1#32) ∧
      r.returned = (seg mem off.toNat s.v_i.toNat len.toNat).any (fun b => decide (b.toNat % 128 ≠ 0)) := by
  intro fuel
  induction fuel with
  | zero =>
    intro s hr hok hi hf
    have hge : ¬ s.v_i.toNat < len.toNat := by omega
    have hult : BitVec.ult s.v_i len = false := by simp [BitVec.ult]; omega
    rw [parse_boolean.loop1]
    simp only [hr, hok, hult, Bool.not_false, Bool.and_true, Bool.and_false, Bool.true_and]
    rw [seg_nil _ _ _ _ (by omega)]
    simp
  | succ fuel ih =>
    intro s hr hok hi hf
    rw [parse_boolean_step _ _ _ _ _ _ hr]
    by_cases hlt : s.v_i.toNat < len.toNat
    · have hult : BitVec.ult s.v_i len = true := by simp [BitVec.ult]; omega
      have hdl := dlen.isLt
      have hix : (off + BitVec.setWidth 64 s.v_i).toNat = off.toNat + s.v_i.toNat := by
        rw [BitVec.toNat_add, BitVec.toNat_setWidth]
        have := s.v_i.isLt
        rw [Nat.mod_eq_of_lt (by omega : s.v_i.toNat < 2 ^ 64)]
        exact Nat.mod_eq_of_lt (by omega)
      have hin : BitVec.ult (off + BitVec.setWidth 64 s.v_i) dlen = true := by simp [BitVec.ult, hix]; omega
      rw [if_pos hult, seg_cons _ _ _ _ hlt]
      simp only [hix, hit_iff, hok, hin, Bool.and_self, List.any_cons]
      by_cases hh : (mem (off.toNat + s.v_i.toNat)).toNat % 128 = 0
      · have hd : decide ((mem (off.toNat + s.v_i.toNat)).toNat % 128 ≠ 0) = false := by simp [hh]
        rw [hd]
        simp only [cond_false, Bool.false_or]
        have hlen := len.isLt
        have h1 : (s.v_i + 1#32).toNat = s.v_i.toNat + 1 := by
          rw [BitVec.toNat_add]; simp; omega
        have := ih ⟨s.v_i + 1#32, true, false, s.ret⟩ rfl rfl (by simp only [h1]; omega) (by simp only [h1]; omega)
        simp only [h1] at this
        exact this
      · have hd : decide ((mem (off.toNat + s.v_i.toNat)).toNat % 128 ≠ 0) = true := by simp [hh]
        rw [hd]
        simp only [cond_true, Bool.true_or]
        rw [parse_boolean_done _ _ _ _ _ _ rfl]
        simp
    · have hult : BitVec.ult s.v_i len = false := by simp [BitVec.ult]; omega
      rw [if_neg (by simp [hult])]
      rw [seg_nil _ _ _ _ (by omega)]
      simp [hok, hr]

/-- **`parse_boolean`**: the translated C loop computes the model's `parseBool` on `data[0..len)` -/
theorem parse_boolean_model (len : BitVec 32) (mem : Nat → BitVec 8) (off dlen : BitVec 64) (fuel : Nat)
    (hb : off.toNat + len.toNat ≤ dlen.toNat) (hf : len.toNat ≤ fuel) :
    (parse_boolean len mem off dlen fuel).ok = true ∧
    (parse_boolean len mem off dlen fuel).ret = Pbc.Model.parseBool (seg mem off.toNat 0 len.toNat) := by
  have h := parse_boolean_loop dlen len off mem hb fuel ⟨0#32, true, false, 0#32⟩ rfl rfl (by simp) (by simpa using hf)
  simp only [BitVec.toNat_ofNat, Nat.zero_mod] at h
  obtain ⟨h1, h2, h3⟩ := h
  simp only [parse_boolean, parse_boolean.ok, parse_boolean.ret, Pbc.Model.parseBool]
  generalize parse_boolean.loop1 dlen len off mem true fuel ⟨0#32, true, false, 0#32⟩ = r at h1 h2 h3
  rw [← h3]
  cases hr : r.returned
  · simp [h1]
  · simp [h1, h2 hr]

/-! ### max_b128_numbers -/

theorem seg_shift (mem : Nat → BitVec 8) (o n : Nat) : seg mem o 0 (n + 1) = mem o :: seg mem (o + 1) 0 n := by
  unfold seg
  simp only [Nat.sub_zero, Nat.add_zero, List.range_succ_eq_map, List.map_cons, List.map_map]
  congr 1
  apply List.map_congr_left
  intro j _
  simp only [Function.comp]
  congr 1; omega

theorem max_b128_step (dlen : BitVec 64) (mem : Nat → BitVec 8) (fuel : Nat) (s : max_b128_numbers.Loop1)
    (hr : s.returned = false) :
    max_b128_numbers.loop1 dlen mem true (fuel+1) s =
      if s.v_len != 0#64 then
        max_b128_numbers.loop1 dlen mem true fuel
          ⟨s.v_len - 1#64,
           bif (BitVec.setWidth 32 (mem s.o_data.toNat) &&& 128#32) == 0#32 then s.v_rv + 1#64 else s.v_rv,
           s.o_data + 1#64, s.ok && BitVec.ult s.o_data dlen, false, s.ret⟩
      else ⟨s.v_len - 1#64, s.v_rv, s.o_data, s.ok, false, s.ret⟩ := by
  rw [max_b128_numbers.loop1]
  cases h : (s.v_len != 0#64) <;> simp [hr, h]

theorem top_iff (x : BitVec 8) : ((BitVec.setWidth 32 x &&& 128#32) == 0#32) = decide (x.toNat < 128) := by
  have h1 : ((BitVec.setWidth 32 x &&& 128#32) == 0#32) = x.ult 128#8 := by
    cases h : x.ult 128#8 <;> bv_decide
  rw [h1]; simp [BitVec.ult]

def cnt (l : Pbc.Bytes) : Nat := (l.filter (fun b => b.toNat < 128)).length

theorem max_b128_loop (dlen : BitVec 64) (mem : Nat → BitVec 8) :
    ∀ (fuel : Nat) (s : max_b128_numbers.Loop1), s.returned = false → s.ok = true →
      s.o_data.toNat + s.v_len.toNat ≤ dlen.toNat → s.v_len.toNat ≤ fuel →
      let r := max_b128_numbers.loop1 dlen mem true fuel s
      r.ok = true ∧ r.returned = false ∧
      r.v_rv = s.v_rv + BitVec.ofNat 64 (cnt (seg mem s.o_data.toNat 0 s.v_len.toNat)) := by
  intro fuel
  induction fuel with
  | zero =>
    intro s hr hok _ hf
    have hz : s.v_len = 0#64 := by apply BitVec.eq_of_toNat_eq; simp; omega
    rw [max_b128_numbers.loop1]
    simp [hr, hok, hz, seg, cnt]
  | succ fuel ih =>
    intro s hr hok hb hf
    rw [max_b128_step _ _ _ _ hr]
    by_cases hz : s.v_len = 0#64
    · simp [hz, hok, hr, seg, cnt]
    · have hne : (s.v_len != 0#64) = true := by simpa using hz
      rw [if_pos hne]
      have hpos : 0 < s.v_len.toNat := by
        rcases Nat.eq_zero_or_pos s.v_len.toNat with h | h
        · exact absurd (BitVec.eq_of_toNat_eq (by simpa using h)) hz
        · exact h
      have hdl := dlen.isLt
      have h1 : (s.v_len - 1#64).toNat = s.v_len.toNat - 1 := by
        have := s.v_len.isLt
        rw [BitVec.toNat_sub]; simp; omega
      have h2 : (s.o_data + 1#64).toNat = s.o_data.toNat + 1 := by
        rw [BitVec.toNat_add]; simp; omega
      have hin : BitVec.ult s.o_data dlen = true := by simp [BitVec.ult]; omega
      have := ih ⟨s.v_len - 1#64, bif (BitVec.setWidth 32 (mem s.o_data.toNat) &&& 128#32) == 0#32 then s.v_rv + 1#64 else s.v_rv,
                  s.o_data + 1#64, s.ok && BitVec.ult s.o_data dlen, false, s.ret⟩ rfl (by simp [hok, hin])
                  (by simp only [h1, h2]; omega) (by simp only [h1]; omega)
      simp only [h1, h2] at this
      obtain ⟨a, b, c⟩ := this
      refine ⟨a, b, ?_⟩
      rw [c]
      obtain ⟨n, hn⟩ : ∃ n, s.v_len.toNat = n + 1 := ⟨s.v_len.toNat - 1, by omega⟩
      rw [hn, seg_shift, Nat.add_sub_cancel, top_iff]
      by_cases ht : (mem s.o_data.toNat).toNat < 128
      · simp only [ht, decide_true, cond_true, cnt, List.filter_cons_of_pos, List.length_cons]
        rw [BitVec.add_assoc]
        congr 1
        apply BitVec.eq_of_toNat_eq
        simp [BitVec.toNat_add]; omega
      · simp only [ht, decide_false, cond_false, cnt]
        rw [List.filter_cons_of_neg (by simpa using ht)]

/-- **`max_b128_numbers`**: the translated C loop counts the bytes of `data[0..len)` without continuation bit -/
theorem max_b128_numbers_model (len : BitVec 64) (mem : Nat → BitVec 8) (off dlen : BitVec 64) (fuel : Nat)
    (hb : off.toNat + len.toNat ≤ dlen.toNat) (hf : len.toNat ≤ fuel) :
    (max_b128_numbers len mem off dlen fuel).ok = true ∧
    (max_b128_numbers len mem off dlen fuel).ret = BitVec.ofNat 64 (cnt (seg mem off.toNat 0 len.toNat)) := by
  have h := max_b128_loop dlen mem fuel ⟨len, 0#64, off, true, false, 0#64⟩ rfl rfl hb hf
  obtain ⟨h1, h2, h3⟩ := h
  simp only [max_b128_numbers, max_b128_numbers.ok, max_b128_numbers.ret]
  have e : BitVec.signExtend 64 0#32 = 0#64 := by decide
  rw [e]
  generalize max_b128_numbers.loop1 dlen mem true fuel ⟨len, 0#64, off, true, false, 0#64⟩ = r at h1 h2 h3
  simp [h1, h2, h3]

/-! ### int_range_lookup -/

theorem toInt_ofInt32 (v : Int) (h1 : -2147483648 ≤ v) (h2 : v < 2147483648) : (BitVec.ofInt 32 v).toInt = v := by
  rw [BitVec.toInt_ofInt]
  exact Int.bmod_eq_of_le h1 h2

theorem slt_ofInt (v s : Int) (h1 : -2147483648 ≤ v) (h2 : v < 2147483648) (h3 : -2147483648 ≤ s) (h4 : s < 2147483648) :
    BitVec.slt (BitVec.ofInt 32 v) (BitVec.ofInt 32 s) = decide (v < s) := by
  simp only [BitVec.slt, toInt_ofInt32 v h1 h2, toInt_ofInt32 s h3 h4]

theorem sle_ofInt (v s : Int) (h1 : -2147483648 ≤ v) (h2 : v < 2147483648) (h3 : -2147483648 ≤ s) (h4 : s < 2147483648) :
    BitVec.sle (BitVec.ofInt 32 s) (BitVec.ofInt 32 v) = decide (s ≤ v) := by
  simp only [BitVec.sle, toInt_ofInt32 v h1 h2, toInt_ofInt32 s h3 h4]

theorem sub_toNat (v s : Int) (h1 : -2147483648 ≤ v) (h2 : v < 2147483648) (h3 : -2147483648 ≤ s) (h4 : s < 2147483648) (h : s ≤ v) :
    (BitVec.ofInt 32 v - BitVec.ofInt 32 s).toNat = (v - s).toNat := by
  rw [BitVec.toNat_sub, BitVec.toNat_ofInt, BitVec.toNat_ofInt]
  simp only [Nat.reducePow]
  omega

theorem ssub_ok (v s : Int) (h1 : -2147483648 ≤ v) (h2 : v < 2147483648) (h3 : -2147483648 ≤ s) (h4 : s < 2147483648)
    (h : s ≤ v) (h5 : v - s < 2147483648) :
    BitVec.ssubOverflow (BitVec.ofInt 32 v) (BitVec.ofInt 32 s) = false := by
  simp only [BitVec.ssubOverflow, toInt_ofInt32 v h1 h2, toInt_ofInt32 s h3 h4]
  simp only [Nat.reduceSub, Nat.reducePow]
  simp; omega

theorem irl_step (sv oi : Nat → BitVec 32) (rlen : BitVec 64) (nr value : BitVec 32) (o : BitVec 64)
    (fuel : Nat) (s : int_range_lookup.Loop1) (hr : s.returned = false) :
    int_range_lookup.loop1 sv oi rlen nr value o true (fuel+1) s =
      if BitVec.ult 1#32 s.v_n then
        let mid := s.v_start + s.v_n / 2#32
        let svm := sv (BitVec.setWidth 64 mid).toNat
        let lt := BitVec.slt value svm
        let sz := oi (BitVec.setWidth 64 (mid + 1#32)).toNat - oi (BitVec.setWidth 64 mid).toNat
        let ge := BitVec.ule sz (value - svm)
        let inb := BitVec.ult (BitVec.setWidth 64 mid) rlen
        let inb1 := BitVec.ult (BitVec.setWidth 64 (mid + 1#32)) rlen
        let okk := s.ok && inb && (lt || (inb1 && (ge || !BitVec.ssubOverflow value svm)))
        if lt then int_range_lookup.loop1 sv oi rlen nr value o true fuel ⟨mid - s.v_start, s.v_start, okk, false, s.ret⟩
        else if ge then int_range_lookup.loop1 sv oi rlen nr value o true fuel ⟨s.v_start + s.v_n - (mid + 1#32), mid + 1#32, okk, false, s.ret⟩
        else int_range_lookup.loop1 sv oi rlen nr value o true fuel ⟨s.v_n, s.v_start, okk, true, (value - svm) + oi (BitVec.setWidth 64 mid).toNat⟩
      else s := by
  rw [int_range_lookup.loop1]
  dsimp only
  generalize s.v_start + s.v_n / 2#32 = M
  generalize sv (BitVec.setWidth 64 M).toNat = svm
  generalize oi (BitVec.setWidth 64 M).toNat = oim
  generalize oi (BitVec.setWidth 64 (M + 1#32)).toNat = oim1
  generalize BitVec.ult (BitVec.setWidth 64 M) rlen = inb
  generalize BitVec.ult (BitVec.setWidth 64 (M + 1#32)) rlen = inb1
  generalize BitVec.ssubOverflow value svm = sso
  cases h1 : BitVec.ult 1#32 s.v_n
  · cases s; simp_all
  · cases h2 : BitVec.slt value svm <;> cases h3 : BitVec.ule (oim1 - oim) (value - svm) <;>
      cases inb <;> cases inb1 <;> cases sso <;> cases hok : s.ok <;> simp [hr, h1, h2, h3, hok]

open Pbc.Model

theorem irl_done (sv oi : Nat → BitVec 32) (rlen : BitVec 64) (nr value : BitVec 32) (o : BitVec 64)
    (fuel : Nat) (s : int_range_lookup.Loop1) (hr : s.returned = true) :
    int_range_lookup.loop1 sv oi rlen nr value o true fuel s = s := by
  cases fuel with
  | zero => rw [int_range_lookup.loop1]; cases s; simp_all
  | succ f => rw [int_range_lookup.loop1]; cases s; simp_all

theorem irl_off (sv oi : Nat → BitVec 32) (rlen : BitVec 64) (nr value : BitVec 32) (o : BitVec 64)
    (fuel : Nat) (s : int_range_lookup.Loop1) :
    int_range_lookup.loop1 sv oi rlen nr value o false fuel s = s := by
  cases fuel with
  | zero => rw [int_range_lookup.loop1]; cases s; simp_all
  | succ f => rw [int_range_lookup.loop1]; cases s; simp_all

/-- the `while (n > 1)` part of the model's `bsearch`: a hit, or the remaining interval -/
def bloop (cmp : Nat → Ordering) : Nat → Nat → Nat → Sum Nat (Nat × Nat)
  | 0, st, c => .inr (st, c)
  | f+1, st, c =>
    if c > 1 then
      match cmp (st + c / 2) with
      | .eq => .inl (st + c / 2)
      | .gt => bloop cmp f (st + c / 2 + 1) (st + c - (st + c / 2 + 1))
      | .lt => bloop cmp f st (st + c / 2 - st)
    else .inr (st, c)

theorem bloop_small (cmp : Nat → Ordering) : ∀ (f st c : Nat), c ≤ f →
    match bloop cmp f st c with
    | .inl _ => True
    | .inr (_, c') => c' ≤ 1 := by
  intro f
  induction f with
  | zero => intro st c h; simp only [bloop]; omega
  | succ f ih =>
    intro st c h
    simp only [bloop]
    by_cases hc : c > 1
    · rw [if_pos hc]
      cases cmp (st + c / 2) with
      | eq => trivial
      | gt => exact ih _ _ (by omega)
      | lt => exact ih _ _ (by omega)
    · rw [if_neg hc]; simp only []; omega

/-- the model's `bsearch` = that loop followed by one probe -/
theorem bsearch_bloop (cmp : Nat → Ordering) : ∀ (f st c : Nat), c ≤ f →
    bsearch cmp (f + 1) st c =
      match bloop cmp f st c with
      | .inl i => some i
      | .inr (st', c') => if c' = 0 then none else if cmp st' = .eq then some st' else none := by
  intro f
  induction f with
  | zero =>
    intro st c h
    have : c = 0 := by omega
    subst this
    simp [bsearch, bloop]
  | succ f ih =>
    intro st c h
    rw [bsearch]
    simp only [bloop]
    by_cases hc : c > 1
    · rw [if_pos hc, if_pos hc]
      cases hcm : cmp (st + c / 2) with
      | eq => rfl
      | gt => simp only []; rw [ih _ _ (by omega)]
      | lt => simp only []; rw [ih _ _ (by omega)]
    · rw [if_neg hc, if_neg hc]

/-- the C arrays hold the model's table `r` (n runs + the sentinel entry) -/
structure TableAt (r : Ranges) (sv oi : Nat → BitVec 32) (rlen : BitVec 64) : Prop where
  len : r.runs.length + 1 ≤ rlen.toNat
  sv : ∀ i, i < r.runs.length → sv i = BitVec.ofInt 32 (r.startOf i)
  oi : ∀ i, i ≤ r.runs.length → oi i = BitVec.ofNat 32 (r.origOf i)
  startR : ∀ i, i < r.runs.length → -2147483648 ≤ r.startOf i ∧ r.startOf i < 2147483648
  origM : ∀ i, i < r.runs.length → r.origOf i ≤ r.origOf (i + 1)
  origB : ∀ i, i ≤ r.runs.length → r.origOf i < 2147483648
  nB : r.runs.length < 2147483648

theorem ofNat32_toNat (k : Nat) (h : k < 4294967296) : (BitVec.ofNat 32 k).toNat = k := by
  simp only [BitVec.toNat_ofNat, Nat.reducePow]; exact Nat.mod_eq_of_lt h

theorem setWidth64_toNat (x : BitVec 32) : (BitVec.setWidth 64 x).toNat = x.toNat := by
  have := x.isLt
  rw [BitVec.toNat_setWidth]; exact Nat.mod_eq_of_lt (by omega)

theorem irl_loop (r : Ranges) (sv oi : Nat → BitVec 32) (rlen : BitVec 64) (T : TableAt r sv oi rlen)
    (v : Int) (hv1 : -2147483648 ≤ v) (hv2 : v < 2147483648) (nr : BitVec 32) (o : BitVec 64) :
    ∀ (fuel : Nat) (s : int_range_lookup.Loop1), s.returned = false → s.ok = true →
      s.v_start.toNat + s.v_n.toNat ≤ r.runs.length → s.v_n.toNat ≤ fuel →
      let res := int_range_lookup.loop1 sv oi rlen nr (BitVec.ofInt 32 v) o true fuel s
      res.ok = true ∧
      match bloop (rangeCmp r v) fuel s.v_start.toNat s.v_n.toNat with
      | .inl i => res.returned = true ∧ res.ret = BitVec.ofNat 32 ((v - r.startOf i).toNat + r.origOf i)
      | .inr (st, c) => res.returned = false ∧ res.v_start.toNat = st ∧ res.v_n.toNat = c ∧ res.ret = s.ret := by
  intro fuel
  induction fuel with
  | zero =>
    intro s hr hok _ hf
    have hult : BitVec.ult 1#32 s.v_n = false := by simp [BitVec.ult]; omega
    rw [int_range_lookup.loop1]
    simp [hr, hok, hult, bloop]
  | succ fuel ih =>
    intro s hr hok hb hf
    rw [irl_step _ _ _ _ _ _ _ _ hr]
    by_cases hc : s.v_n.toNat > 1
    · have hult : BitVec.ult 1#32 s.v_n = true := by simp [BitVec.ult]; omega
      rw [if_pos hult]
      simp only [bloop, if_pos hc]
      -- the probe index
      have hN := T.nB
      have hmid : (s.v_start + s.v_n / 2#32).toNat = s.v_start.toNat + s.v_n.toNat / 2 := by
        rw [BitVec.toNat_add, BitVec.toNat_udiv]
        simp only [BitVec.toNat_ofNat, Nat.reducePow, Nat.reduceMod]
        exact Nat.mod_eq_of_lt (by omega)
      have hmidN : s.v_start.toNat + s.v_n.toNat / 2 < r.runs.length := by omega
      have hmid1 : (s.v_start + s.v_n / 2#32 + 1#32).toNat = s.v_start.toNat + s.v_n.toNat / 2 + 1 := by
        rw [BitVec.toNat_add, hmid]
        simp only [BitVec.toNat_ofNat, Nat.reducePow, Nat.reduceMod]
        exact Nat.mod_eq_of_lt (by omega)
      generalize hM : s.v_start + s.v_n / 2#32 = M at hmid hmid1 ⊢
      generalize hm : s.v_start.toNat + s.v_n.toNat / 2 = mid at hmid hmid1 hmidN ⊢
      have hsv := T.sv mid hmidN
      have hoi := T.oi mid (by omega)
      have hoi1 := T.oi (mid + 1) (by omega)
      have hsr := T.startR mid hmidN
      have hom := T.origM mid hmidN
      have hob := T.origB (mid + 1) (by omega)
      have hrl := T.len
      simp only [setWidth64_toNat, hmid, hmid1, hsv, hoi, hoi1]
      have hinb : BitVec.ult (BitVec.setWidth 64 M) rlen = true := by
        simp [BitVec.ult, setWidth64_toNat, hmid]; omega
      have hinb1 : BitVec.ult (BitVec.setWidth 64 (M + 1#32)) rlen = true := by
        simp [BitVec.ult, setWidth64_toNat, hmid1]; omega
      have hlt := slt_ofInt v (r.startOf mid) hv1 hv2 hsr.1 hsr.2
      have hsz : (BitVec.ofNat 32 (r.origOf (mid + 1)) - BitVec.ofNat 32 (r.origOf mid)).toNat = r.sizeOf mid := by
        rw [BitVec.toNat_sub, ofNat32_toNat _ (by omega), ofNat32_toNat _ (by omega)]
        simp only [Ranges.sizeOf, Nat.reducePow]
        omega
      rw [hlt, hinb, hinb1, hok]
      simp only [rangeCmp]
      by_cases h1 : v < r.startOf mid
      · -- go left
        simp only [h1, decide_true, if_true, Bool.true_or, Bool.and_self]
        have hn : (M - s.v_start).toNat = mid - s.v_start.toNat := by
          rw [BitVec.toNat_sub, hmid]
          have := s.v_start.isLt
          simp only [Nat.reducePow]
          omega
        have := ih ⟨M - s.v_start, s.v_start, true, false, s.ret⟩ rfl rfl (by simp only [hn]; omega) (by simp only [hn]; omega)
        simp only [hn] at this
        exact this
      · have hge0 : r.startOf mid ≤ v := by omega
        have hsub := sub_toNat v (r.startOf mid) hv1 hv2 hsr.1 hsr.2 hge0
        have hule : BitVec.ule (BitVec.ofNat 32 (r.origOf (mid + 1)) - BitVec.ofNat 32 (r.origOf mid))
            (BitVec.ofInt 32 v - BitVec.ofInt 32 (r.startOf mid)) = decide (v - r.startOf mid ≥ (r.sizeOf mid : Int)) := by
          simp only [BitVec.ule, hsz, hsub]
          congr 1
          apply propext
          constructor <;> intro h <;> omega
        rw [hule]
        simp only [h1, decide_false, if_false, Bool.false_or, Bool.true_and]
        by_cases h2 : v - r.startOf mid ≥ (r.sizeOf mid : Int)
        · -- go right
          simp only [h2, decide_true, if_true, Bool.true_or, Bool.and_self]
          have hn : (s.v_start + s.v_n - (M + 1#32)).toNat = s.v_start.toNat + s.v_n.toNat - (mid + 1) := by
            have e : (s.v_start + s.v_n).toNat = s.v_start.toNat + s.v_n.toNat := by
              rw [BitVec.toNat_add]; exact Nat.mod_eq_of_lt (by omega)
            rw [BitVec.toNat_sub, e, hmid1]
            simp only [Nat.reducePow]
            omega
          have := ih ⟨s.v_start + s.v_n - (M + 1#32), M + 1#32, true, false, s.ret⟩ rfl rfl
            (by simp only [hn, hmid1]; omega) (by simp only [hn]; omega)
          simp only [hn, hmid1] at this
          exact this
        · -- hit
          have hsz2 : r.sizeOf mid ≤ r.origOf (mid + 1) := by simp only [Ranges.sizeOf]; omega
          have hso := ssub_ok v (r.startOf mid) hv1 hv2 hsr.1 hsr.2 hge0 (by omega)
          simp only [h2, decide_false, if_false, Bool.false_or, hso, Bool.not_false, Bool.and_self, Bool.false_eq_true, ite_false]
          rw [irl_done _ _ _ _ _ _ _ _ rfl]
          refine ⟨rfl, rfl, ?_⟩
          have e : BitVec.ofInt 32 v - BitVec.ofInt 32 (r.startOf mid) = BitVec.ofNat 32 (v - r.startOf mid).toNat := by
            apply BitVec.eq_of_toNat_eq
            rw [hsub, ofNat32_toNat _ (by omega)]
          show BitVec.ofInt 32 v - BitVec.ofInt 32 (r.startOf mid) + BitVec.ofNat 32 (r.origOf mid) = _
          rw [e, ← BitVec.ofNat_add]
    · have hult : BitVec.ult 1#32 s.v_n = false := by simp [BitVec.ult]; omega
      rw [if_neg (by simp [hult])]
      simp only [bloop, if_neg hc]
      simp [hok, hr]

theorem bloop_bound (cmp : Nat → Ordering) : ∀ (f st c : Nat),
    match bloop cmp f st c with
    | .inl _ => True
    | .inr (st', c') => st' + c' ≤ st + c := by
  intro f
  induction f with
  | zero => intro st c; simp only [bloop]; omega
  | succ f ih =>
    intro st c
    simp only [bloop]
    by_cases hc : c > 1
    · rw [if_pos hc]
      cases cmp (st + c / 2) with
      | eq => trivial
      | gt =>
        have := ih (st + c / 2 + 1) (st + c - (st + c / 2 + 1))
        revert this
        cases bloop cmp f (st + c / 2 + 1) (st + c - (st + c / 2 + 1)) with
        | inl _ => intro _; trivial
        | inr p => intro h; simp only [] at h ⊢; omega
      | lt =>
        have := ih st (st + c / 2 - st)
        revert this
        cases bloop cmp f st (st + c / 2 - st) with
        | inl _ => intro _; trivial
        | inr p => intro h; simp only [] at h ⊢; omega
    · rw [if_neg hc]; simp only []; omega

theorem bloop_fuel (cmp : Nat → Ordering) : ∀ (f1 f2 st c : Nat), c ≤ f1 → c ≤ f2 → bloop cmp f1 st c = bloop cmp f2 st c := by
  intro f1
  induction f1 with
  | zero =>
    intro f2 st c h1 _
    have : c = 0 := by omega
    subst this
    cases f2 <;> simp [bloop]
  | succ f1 ih =>
    intro f2 st c h1 h2
    cases f2 with
    | zero =>
      have : c = 0 := by omega
      subst this
      simp [bloop]
    | succ f2 =>
      simp only [bloop]
      by_cases hc : c > 1
      · rw [if_pos hc, if_pos hc]
        cases cmp (st + c / 2) with
        | eq => rfl
        | gt => exact ih _ _ _ (by omega) (by omega)
        | lt => exact ih _ _ _ (by omega) (by omega)
      · rw [if_neg hc, if_neg hc]

/-- **`int_range_lookup`**: the translated C function computes the model's `rangeLookup` on the table held in memory -/
theorem int_range_lookup_model (r : Ranges) (sv oi : Nat → BitVec 32) (rlen : BitVec 64) (T : TableAt r sv oi rlen)
    (v : Int) (hv1 : -2147483648 ≤ v) (hv2 : v < 2147483648) (fuel : Nat) (hf : r.runs.length ≤ fuel) :
    (int_range_lookup (BitVec.ofNat 32 r.runs.length) sv oi rlen (BitVec.ofInt 32 v) fuel).ok = true ∧
    (int_range_lookup (BitVec.ofNat 32 r.runs.length) sv oi rlen (BitVec.ofInt 32 v) fuel).ret =
      (match rangeLookup r v with | some k => BitVec.ofNat 32 k | none => -1#32) := by
  have hN := T.nB
  have hno : BitVec.negOverflow 1#32 = false := by decide
  simp only [int_range_lookup, int_range_lookup.ok, int_range_lookup.ret, rangeLookup]
  rw [bsearch_bloop _ _ _ _ (Nat.le_refl _), bloop_fuel _ r.runs.length fuel 0 r.runs.length (Nat.le_refl _) hf]
  by_cases h0 : r.runs.length = 0
  · -- empty table: early return
    have hb0 : bloop (rangeCmp r v) fuel 0 0 = .inr (0, 0) := by cases fuel <;> simp [bloop]
    simp [h0, irl_off, hb0, hno]
  · have hz : (BitVec.ofNat 32 r.runs.length == 0#32) = false := by
      apply beq_false_of_ne
      intro h
      have := congrArg BitVec.toNat h
      rw [ofNat32_toNat _ (by omega)] at this
      exact h0 (by simpa using this)
    simp only [hz, hno, Bool.not_false, Bool.or_false, Bool.and_true, Bool.true_and, Bool.false_or, cond_false, cond_true,
      Bool.not_true, Bool.and_false, Bool.or_self, Bool.or_true, Bool.true_or]
    have hl := irl_loop r sv oi rlen T v hv1 hv2 (BitVec.ofNat 32 r.runs.length) 0#64 fuel
      ⟨BitVec.ofNat 32 r.runs.length, 0#32, true, false, 0#32⟩ rfl rfl
      (by simp only [ofNat32_toNat _ (by omega : r.runs.length < 4294967296)]; simp)
      (by simp only [ofNat32_toNat _ (by omega : r.runs.length < 4294967296)]; exact hf)
    simp only [ofNat32_toNat _ (by omega : r.runs.length < 4294967296), BitVec.toNat_ofNat, Nat.zero_mod] at hl
    generalize int_range_lookup.loop1 sv oi rlen (BitVec.ofNat 32 r.runs.length) (BitVec.ofInt 32 v) 0#64 true fuel
      ⟨BitVec.ofNat 32 r.runs.length, 0#32, true, false, 0#32⟩ = res at hl ⊢
    obtain ⟨hok, hm⟩ := hl
    have hsm := bloop_small (rangeCmp r v) fuel 0 r.runs.length hf
    have hbd := bloop_bound (rangeCmp r v) fuel 0 r.runs.length
    cases hbl : bloop (rangeCmp r v) fuel 0 r.runs.length with
    | inl i =>
      rw [hbl] at hm
      obtain ⟨hret, hval⟩ := hm
      simp [hok, hret, hval]
    | inr p =>
      obtain ⟨st, c⟩ := p
      rw [hbl] at hm hsm hbd
      simp only [] at hm hsm hbd
      obtain ⟨hret, hst, hc, hr0⟩ := hm
      by_cases hc0 : c = 0
      · have hvn : res.v_n = 0#32 := by apply BitVec.eq_of_toNat_eq; rw [hc, hc0]; rfl
        have hu : BitVec.ult 0#32 (0#32) = false := by decide
        simp [hok, hret, hvn, hc0, hr0, hu]
      · have hc1 : c = 1 := by omega
        subst hc1
        have hvn : BitVec.ult 0#32 res.v_n = true := by simp [BitVec.ult, hc]
        have hstN : st < r.runs.length := by omega
        have hst1 : (res.v_start + 1#32).toNat = st + 1 := by
          rw [BitVec.toNat_add, hst]
          simp only [BitVec.toNat_ofNat, Nat.reducePow, Nat.reduceMod]
          exact Nat.mod_eq_of_lt (by omega)
        have hsv := T.sv st hstN
        have hoi := T.oi st (by omega)
        have hoi1 := T.oi (st + 1) (by omega)
        have hsr := T.startR st hstN
        have hom := T.origM st hstN
        have hob := T.origB (st + 1) (by omega)
        have hrl := T.len
        have hinb : BitVec.ult (BitVec.setWidth 64 res.v_start) rlen = true := by
          simp [BitVec.ult, setWidth64_toNat, hst]; omega
        have hinb1 : BitVec.ult (BitVec.setWidth 64 (res.v_start + 1#32)) rlen = true := by
          simp [BitVec.ult, setWidth64_toNat, hst1]; omega
        have hsle := sle_ofInt v (r.startOf st) hv1 hv2 hsr.1 hsr.2
        have hsz : (BitVec.ofNat 32 (r.origOf (st + 1)) - BitVec.ofNat 32 (r.origOf st)).toNat = r.sizeOf st := by
          rw [BitVec.toNat_sub, ofNat32_toNat _ (by omega), ofNat32_toNat _ (by omega)]
          simp only [Ranges.sizeOf, Nat.reducePow]
          omega
        simp only [hok, hret, hvn, hinb, hinb1, setWidth64_toNat, hst, hst1, hsv, hoi, hoi1, hsle, hr0,
          Bool.not_false, Bool.and_true, Bool.true_and, Bool.or_true, Bool.not_true, Bool.false_or, Bool.and_self,
          Bool.or_false, Bool.true_or, Bool.and_false, rangeCmp]
        by_cases h1 : r.startOf st ≤ v
        · have hsub := sub_toNat v (r.startOf st) hv1 hv2 hsr.1 hsr.2 h1
          have hult : BitVec.ult (BitVec.ofInt 32 v - BitVec.ofInt 32 (r.startOf st))
              (BitVec.ofNat 32 (r.origOf (st + 1)) - BitVec.ofNat 32 (r.origOf st)) = decide (¬ v - r.startOf st ≥ (r.sizeOf st : Int)) := by
            simp only [BitVec.ult, hsz, hsub]
            congr 1
            apply propext
            constructor <;> intro h <;> omega
          have hnlt : ¬ v < r.startOf st := by omega
          rw [hult]
          by_cases h2 : v - r.startOf st ≥ (r.sizeOf st : Int)
          · simp [h1, h2, hnlt]
          · have hsz2 : r.sizeOf st ≤ r.origOf (st + 1) := by simp only [Ranges.sizeOf]; omega
            have hso := ssub_ok v (r.startOf st) hv1 hv2 hsr.1 hsr.2 h1 (by omega)
            have e : BitVec.ofInt 32 v - BitVec.ofInt 32 (r.startOf st) = BitVec.ofNat 32 (v - r.startOf st).toNat := by
              apply BitVec.eq_of_toNat_eq
              rw [hsub, ofNat32_toNat _ (by omega)]
            simp [h1, h2, hnlt, hso, e, ← BitVec.ofNat_add]
        · have hlt : v < r.startOf st := by omega
          simp [h1, hlt]

/-! #### the memory image of a generator-built table -/
open Pbc.Props.C14 in
theorem origOf_le_total (r : Ranges) (h : RangesWF r) : ∀ (k i : Nat), i + k = r.runs.length → r.origOf i ≤ r.total := by
  intro k
  induction k with
  | zero => intro i hi; simp only [Ranges.origOf]; rw [if_neg (by omega)]; exact Nat.le_refl _
  | succ k ih =>
    intro i hi
    have hp := h.pos i (by omega)
    have := ih (i + 1) (by omega)
    simp only [Ranges.sizeOf] at hp
    omega

open Pbc.Props.C14 in
theorem idx_le_origOf (r : Ranges) (h : RangesWF r) : ∀ (i : Nat), i ≤ r.runs.length → i ≤ r.origOf i := by
  intro i
  induction i with
  | zero => intro _; omega
  | succ i ih =>
    intro hi
    have hp := h.pos i (by omega)
    have := ih (by omega)
    simp only [Ranges.sizeOf] at hp
    omega

open Pbc.Props.C14 in
theorem tableAt_of_wf (r : Ranges) (h : RangesWF r) (rlen : BitVec 64) (hl : r.runs.length + 1 ≤ rlen.toNat)
    (hs : ∀ i, i < r.runs.length → -2147483648 ≤ r.startOf i ∧ r.startOf i < 2147483648)
    (ht : r.total < 2147483648) (hn : r.runs.length < 2147483648) :
    TableAt r (fun i => BitVec.ofInt 32 (r.startOf i)) (fun i => BitVec.ofNat 32 (r.origOf i)) rlen where
  len := hl
  sv := fun _ _ => rfl
  oi := fun _ _ => rfl
  startR := hs
  origM := fun i hi => by have := h.pos i hi; simp only [Ranges.sizeOf] at this; omega
  origB := fun i hi => by have := origOf_le_total r h (r.runs.length - i) i (by omega); omega
  nB := hn

open Pbc.Lemmas.Ranges in
theorem blocksOK_head_pos (s : Int) (n : Nat) (bs : List (Int × Nat)) (h : BlocksOK ((s, n) :: bs)) : 1 ≤ n ∧ BlocksOK bs := by
  cases bs with
  | nil => exact ⟨h, trivial⟩
  | cons b bs => obtain ⟨s', n'⟩ := b; exact ⟨h.1, h.2.2⟩

open Pbc.Lemmas.Ranges in
theorem start_mem_flat : ∀ (B : List (Int × Nat)) (o t i : Nat), BlocksOK B → i < B.length →
    Ranges.startOf ⟨entries o B, t⟩ i ∈ flat B
  | [], _, _, _, _, hi => by simp at hi
  | (s, n) :: bs, o, t, i, hB, hi => by
    obtain ⟨hn, hbs⟩ := blocksOK_head_pos s n bs hB
    cases i with
    | zero =>
      simp only [entries, Ranges.startOf, List.getD_cons_zero, flat, List.mem_append, List.mem_map, List.mem_range]
      exact Or.inl ⟨0, by omega, by simp⟩
    | succ i =>
      simp only [entries, flat, List.mem_append]
      rw [startOf_cons]
      exact Or.inr (start_mem_flat bs (o + n) t i hbs (by simpa using hi))

theorem start_mem (vs : List Int) (hsorted : vs.Pairwise (· < ·)) (i : Nat) (hi : i < (mkRanges vs).runs.length) :
    (mkRanges vs).startOf i ∈ vs := by
  rw [Pbc.Lemmas.Ranges.mkRanges_eq] at hi ⊢
  simp only [Pbc.Lemmas.Ranges.entries_length] at hi
  have := start_mem_flat (Pbc.Lemmas.Ranges.blocks vs) 0 vs.length i (Pbc.Lemmas.Ranges.blocksOK_of_sorted vs hsorted) hi
  rwa [Pbc.Lemmas.Ranges.flat_blocks] at this

/-- **end to end**: on the memory image of the table the generator writes for the strictly increasing values `vs`,
    the translated C `int_range_lookup` returns the position of `v` in `vs`, and -1 exactly when `v` is not there -/
theorem int_range_lookup_mkRanges (vs : List Int) (hsorted : vs.Pairwise (· < ·)) (hlen : vs.length < 2147483648)
    (hs : ∀ x, x ∈ vs → -2147483648 ≤ x ∧ x < 2147483648)
    (rlen : BitVec 64) (hl : (mkRanges vs).runs.length + 1 ≤ rlen.toNat)
    (v : Int) (hv1 : -2147483648 ≤ v) (hv2 : v < 2147483648) (fuel : Nat) (hf : (mkRanges vs).runs.length ≤ fuel) :
    let r := mkRanges vs
    let res := int_range_lookup (BitVec.ofNat 32 r.runs.length) (fun i => BitVec.ofInt 32 (r.startOf i))
      (fun i => BitVec.ofNat 32 (r.origOf i)) rlen (BitVec.ofInt 32 v) fuel
    res.ok = true ∧
    (∀ k, vs[k]? = some v → res.ret = BitVec.ofNat 32 k) ∧ (v ∉ vs → res.ret = -1#32) := by
  intro r res
  have hwf := Pbc.Lemmas.Ranges.mkRanges_wf vs hsorted
  have htot : r.total = vs.length := by
    show (mkRanges vs).total = _
    rw [Pbc.Lemmas.Ranges.mkRanges_eq]
  have hrl : r.runs.length ≤ vs.length := by
    have := idx_le_origOf r hwf r.runs.length (Nat.le_refl _)
    simp only [Ranges.origOf, Nat.lt_irrefl, if_false] at this
    omega
  have T := tableAt_of_wf r hwf rlen hl (fun i hi => hs _ (start_mem vs hsorted i hi)) (by omega) (by omega)
  obtain ⟨hok, hret⟩ := int_range_lookup_model r _ _ rlen T v hv1 hv2 fuel hf
  refine ⟨hok, ?_, ?_⟩
  · intro k hk
    have := (Pbc.Lemmas.Ranges.rangeLookup_mkRanges vs hsorted v k).2 hk
    show (int_range_lookup _ _ _ _ _ _).ret = _
    rw [hret, this]
  · intro hv
    have := Pbc.Lemmas.Ranges.rangeLookup_mkRanges_none vs hsorted v hv
    show (int_range_lookup _ _ _ _ _ _).ret = _
    rw [hret, this]

end Pbc.Refine.Loops

/-! non-vacuity: the hypotheses of `int_range_lookup_mkRanges` are met by a concrete table with gaps and runs -/
example : ([-5, 1, 2, 3, 7, 8, 100] : List Int).Pairwise (· < ·) ∧
    (∀ x, x ∈ ([-5, 1, 2, 3, 7, 8, 100] : List Int) → -2147483648 ≤ x ∧ x < 2147483648) ∧
    (Pbc.Model.mkRanges [-5, 1, 2, 3, 7, 8, 100]).runs.length = 4 := by decide
