import Std.Tactic.BVDecide
import Pbc.Extract.Leaves
import Pbc.Extract.LeavesBE
import Pbc.Refine.BvSpec
/-
  C16 (i): the portable byte-by-byte code selected by -DWORDS_BIGENDIAN computes exactly what the
  little-endian memcpy fast path computes -- same bytes written, same values read, same bounds
  behaviour -- for ALL inputs and offsets.  Both sides are regenerated from the C source on every
  run (Pbc.Extract = default build, Pbc.ExtractBE = -DWORDS_BIGENDIAN), so the theorem is about
  the two #if branches as they are now.  (The memcpy of an integer object is modelled as a
  little-endian store/load: the stated host assumption.)
-/
set_option maxRecDepth 100000
set_option maxHeartbeats 2000000
namespace Pbc.Refine.BE
open Pbc

macro "be_bv" : tactic => `(tactic| (simp -zeta only [pbc_leaf, pbc_spec]; bv_decide))

theorem fixed32_pack_same (v : BitVec 32) (out : BitVec 80) (off len : BitVec 64) :
    (ExtractBE.fixed32_pack v out off len).ok = (Extract.fixed32_pack v out off len).ok ∧
    (ExtractBE.fixed32_pack v out off len).ret = (Extract.fixed32_pack v out off len).ret ∧
    (ExtractBE.fixed32_pack v out off len).out_buf = (Extract.fixed32_pack v out off len).out_buf := by be_bv

theorem fixed64_pack_same (v : BitVec 64) (out : BitVec 80) (off len : BitVec 64) :
    (ExtractBE.fixed64_pack v out off len).ok = (Extract.fixed64_pack v out off len).ok ∧
    (ExtractBE.fixed64_pack v out off len).ret = (Extract.fixed64_pack v out off len).ret ∧
    (ExtractBE.fixed64_pack v out off len).out_buf = (Extract.fixed64_pack v out off len).out_buf := by be_bv

theorem parse_fixed_uint32_same (d : BitVec 80) (off len : BitVec 64) :
    (ExtractBE.parse_fixed_uint32 d off len).ok = (Extract.parse_fixed_uint32 d off len).ok ∧
    (ExtractBE.parse_fixed_uint32 d off len).ret = (Extract.parse_fixed_uint32 d off len).ret := by be_bv

theorem parse_fixed_uint64_same (d : BitVec 80) (off len : BitVec 64) :
    (ExtractBE.parse_fixed_uint64 d off len).ok = (Extract.parse_fixed_uint64 d off len).ok ∧
    (ExtractBE.parse_fixed_uint64 d off len).ret = (Extract.parse_fixed_uint64 d off len).ret := by be_bv

end Pbc.Refine.BE
