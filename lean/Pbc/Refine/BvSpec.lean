import Pbc.Extract.Attr
/-
  Closed-form bit-vector specifications of the leaf functions.  The extracted C code
  (Pbc.Extract.*, regenerated from the source on every run) is proved equal to these by
  `bv_decide`; `Pbc.Refine.Bridge` relates them to the list/Nat-level functions of `Pbc.Wire` and `Pbc.Model`
  once and for all (proofs that do not depend on the C source).
-/
namespace Pbc.BvSpec

/-- number of bytes of the shortest varint of a 64-bit value -/
def vlen (v : BitVec 64) : BitVec 64 :=
  bif v.ult 0x80 then 1 else bif v.ult 0x4000 then 2 else bif v.ult 0x200000 then 3
  else bif v.ult 0x10000000 then 4 else bif v.ult 0x800000000 then 5
  else bif v.ult 0x40000000000 then 6 else bif v.ult 0x2000000000000 then 7
  else bif v.ult 0x100000000000000 then 8 else bif v.ult 0x8000000000000000 then 9 else 10

/-- i-th byte of the shortest varint (meaningful for i < vlen v) -/
def vbyte (v : BitVec 64) (i : Nat) : BitVec 8 :=
  let g : BitVec 8 := BitVec.setWidth 8 (v >>> (7 * i)) &&& 0x7f
  bif (v >>> (7 * (i + 1))) == 0 then g else g ||| 0x80

/-- the ten candidate bytes laid out by index in an 80-bit buffer (byte i at bits 8i..8i+7) -/
def vbytes (v : BitVec 64) : BitVec 80 :=
  BitVec.setWidth 80 (vbyte v 0) ||| (BitVec.setWidth 80 (vbyte v 1) <<< 8)
  ||| (BitVec.setWidth 80 (vbyte v 2) <<< 16) ||| (BitVec.setWidth 80 (vbyte v 3) <<< 24)
  ||| (BitVec.setWidth 80 (vbyte v 4) <<< 32) ||| (BitVec.setWidth 80 (vbyte v 5) <<< 40)
  ||| (BitVec.setWidth 80 (vbyte v 6) <<< 48) ||| (BitVec.setWidth 80 (vbyte v 7) <<< 56)
  ||| (BitVec.setWidth 80 (vbyte v 8) <<< 64) ||| (BitVec.setWidth 80 (vbyte v 9) <<< 72)

/-- overwrite the first `n` bytes (n ≤ 10) of `out` with those of `bytes` -/
def blit (out : BitVec 80) (n : BitVec 64) (bytes : BitVec 80) : BitVec 80 :=
  let mask : BitVec 80 := ((1#80) <<< (BitVec.setWidth 80 n * 8#80)) - 1
  (out &&& ~~~mask) ||| (bytes &&& mask)

def zigzag32 (v : BitVec 32) : BitVec 32 := (v <<< 1) ^^^ (BitVec.sshiftRight v 31)
def zigzag64 (v : BitVec 64) : BitVec 64 := (v <<< 1) ^^^ (BitVec.sshiftRight v 63)
def unzigzag32 (v : BitVec 32) : BitVec 32 := (v >>> 1) ^^^ (-(v &&& 1))
def unzigzag64 (v : BitVec 64) : BitVec 64 := (v >>> 1) ^^^ (-(v &&& 1))

/-- key value of a field number (wire type bits zero), as 64 bits -/
def key (id : BitVec 32) : BitVec 64 := BitVec.setWidth 64 id <<< 3

/-- byte i of a 10-byte input window -/
def byteAt (d : BitVec 80) (i : Nat) : BitVec 8 := BitVec.setWidth 8 (d >>> (8 * i))

/-- 7-bit group i, in place -/
def grp (d : BitVec 80) (i : Nat) : BitVec 64 := BitVec.setWidth 64 (byteAt d i &&& 0x7f) <<< (7 * i)

/-- length of the first varint in the window looking at no more than `max` (≤ 10) bytes;
    0 when none of them terminates it -/
def vscan (max : BitVec 64) (d : BitVec 80) : BitVec 64 :=
  bif max.ult 1 then 0 else bif (byteAt d 0).ult 0x80 then 1 else
  bif max.ult 2 then 0 else bif (byteAt d 1).ult 0x80 then 2 else
  bif max.ult 3 then 0 else bif (byteAt d 2).ult 0x80 then 3 else
  bif max.ult 4 then 0 else bif (byteAt d 3).ult 0x80 then 4 else
  bif max.ult 5 then 0 else bif (byteAt d 4).ult 0x80 then 5 else
  bif max.ult 6 then 0 else bif (byteAt d 5).ult 0x80 then 6 else
  bif max.ult 7 then 0 else bif (byteAt d 6).ult 0x80 then 7 else
  bif max.ult 8 then 0 else bif (byteAt d 7).ult 0x80 then 8 else
  bif max.ult 9 then 0 else bif (byteAt d 8).ult 0x80 then 9 else
  bif max.ult 10 then 0 else bif (byteAt d 9).ult 0x80 then 10 else 0

/-- value of the first `n` (≤ 10) groups, truncated to 64 bits -/
def vdec (n : BitVec 64) (d : BitVec 80) : BitVec 64 :=
  (bif n.ult 1 then 0 else grp d 0) ||| (bif n.ult 2 then 0 else grp d 1)
  ||| (bif n.ult 3 then 0 else grp d 2) ||| (bif n.ult 4 then 0 else grp d 3)
  ||| (bif n.ult 5 then 0 else grp d 4) ||| (bif n.ult 6 then 0 else grp d 5)
  ||| (bif n.ult 7 then 0 else grp d 6) ||| (bif n.ult 8 then 0 else grp d 7)
  ||| (bif n.ult 9 then 0 else grp d 8) ||| (bif n.ult 10 then 0 else grp d 9)

def umin (a b : BitVec 64) : BitVec 64 := bif a.ult b then a else b

attribute [pbc_spec] vlen vbyte vbytes blit zigzag32 zigzag64 unzigzag32 unzigzag64 key byteAt grp vscan vdec umin

end Pbc.BvSpec
