import Lean.Meta.Tactic.Simp.RegisterCommand
/- simp sets used by the refinement proofs: `pbc_leaf` = every extracted definition (tagged by
   the generated files), `pbc_spec` = the closed-form specifications. -/
register_simp_attr pbc_leaf
register_simp_attr pbc_spec
