/- Hand-written helpers for the generated leaf dispatcher (argument decoding / printing). -/
namespace Pbc.Extract.Support

def hexDigit (c : Char) : Nat :=
  if '0' ≤ c ∧ c ≤ '9' then c.toNat - '0'.toNat
  else if 'a' ≤ c ∧ c ≤ 'f' then c.toNat - 'a'.toNat + 10
  else if 'A' ≤ c ∧ c ≤ 'F' then c.toNat - 'A'.toNat + 10 else 0

def bytesOfHex (s : String) : List (BitVec 8) :=
  let rec go : List Char → List (BitVec 8)
    | a :: b :: rest => BitVec.ofNat 8 (hexDigit a * 16 + hexDigit b) :: go rest
    | _ => []
  go s.toList

def hexOfByte (b : BitVec 8) : String :=
  let d (n : Nat) : Char := if n < 10 then Char.ofNat (48 + n) else Char.ofNat (87 + n)
  String.ofList [d (b.toNat / 16), d (b.toNat % 16)]

def hexOfBytes (l : List (BitVec 8)) : String := String.join (l.map hexOfByte)

/-- little-endian-by-index buffer: byte i at bits 8i.. -/
def natOfBytes : List (BitVec 8) → Nat
  | [] => 0
  | b :: bs => b.toNat + 256 * natOfBytes bs

def bufOfHex (n : Nat) (s : String) : BitVec (8 * n) := BitVec.ofNat (8 * n) (natOfBytes ((bytesOfHex s).take n))

def hexOfBuf (n : Nat) (b : BitVec (8 * n)) : String :=
  hexOfBytes ((List.range n).map fun i => BitVec.ofNat 8 (b.toNat / 256 ^ i))

def memOfHex (s : String) : Nat → BitVec 8 :=
  let a := (bytesOfHex s).toArray
  fun i => a.getD i 0

def rangesSv (a : Array String) (at_ : Nat) : Nat → BitVec 32 :=
  fun k => BitVec.ofInt 32 ((a.getD (at_ + 1 + 2 * k) "0").toInt!)
def rangesOi (a : Array String) (at_ : Nat) : Nat → BitVec 32 :=
  fun k => BitVec.ofNat 32 ((a.getD (at_ + 2 + 2 * k) "0").toNat!)
def rangesArg (a : Array String) (at_ : Nat) (j : Nat) : Int :=
  let n := (a.getD at_ "0").toNat!
  (a.getD (at_ + 1 + 2 * (n + 1) + j) "0").toInt!

end Pbc.Extract.Support
