import Pbc.Desc
import Pbc.Model.Lookup
/-
  L4: the code generator's semantic function, from the .proto level to the descriptor level.

  A `.proto` message (`PMsg`: fields in DECLARATION order, proto-level labels, options) is mapped to
  what protoc-gen-c emits for it: the field table sorted by number (c_message.cc), each entry's
  label / type / flags / quantifier / default (c_field.cc), the by-name index, the number ranges
  (c_helpers.cc WriteIntRanges), and the four name strings (c_helpers.cc name mangling).  Enums
  (c_enum.cc: unique values by number, first declared name wins, all names in the by-name index) and
  services (c_service.cc: methods in declaration order, by-name index, stubs passing a literal index)
  likewise.  `tools/check.py` runs the real plugin on the same .proto and compares the dump of the
  compiled descriptors with `descLine` / `enumLine` / `svcLine` (Drv.Main ops gendesc/genenum/gensvc).
-/
namespace Pbc.Gen
open Pbc Pbc.Model

/-! ### identifiers (c_helpers.cc) — C-locale `isupper/tolower/toupper` on ASCII -/

def isUpperC (c : Char) : Bool := 'A' ≤ c && c ≤ 'Z'
def isLowerC (c : Char) : Bool := 'a' ≤ c && c ≤ 'z'
def toLowerC (c : Char) : Char := if isUpperC c then Char.ofNat (c.toNat + 32) else c
def toUpperC (c : Char) : Char := if isLowerC c then Char.ofNat (c.toNat - 32) else c

/-- `CamelToLower`: an underscore before every capital that follows a non-capital; all lower case -/
def camelToLowerAux : Bool → List Char → List Char
  | _, [] => []
  | wasUpper, c :: cs =>
    if isUpperC c then (if wasUpper then [toLowerC c] else ['_', toLowerC c]) ++ camelToLowerAux true cs
    else c :: camelToLowerAux false cs
def camelToLower (s : List Char) : List Char := camelToLowerAux true s

/-- `CamelToUpper` -/
def camelToUpperAux : Bool → List Char → List Char
  | _, [] => []
  | wasUpper, c :: cs =>
    if isUpperC c then (if wasUpper then [c] else ['_', c]) ++ camelToUpperAux true cs
    else toUpperC c :: camelToUpperAux false cs
def camelToUpper (s : List Char) : List Char := camelToUpperAux true s

/-- `ToCamel`: drop underscores, capitalise what follows them (and the first character) -/
def toCamelAux : Bool → List Char → List Char
  | _, [] => []
  | nextUpper, c :: cs =>
    if c = '_' then toCamelAux true cs
    else if nextUpper then toUpperC c :: toCamelAux false cs
    else c :: toCamelAux false cs
def toCamel (s : List Char) : List Char := toCamelAux true s

/-- split at dots, dropping empty pieces (`SplitStringUsing` + `if (pieces[i] == "") continue`) -/
def splitDotsAux : List Char → List Char → List (List Char)
  | acc, [] => if acc.isEmpty then [] else [acc.reverse]
  | acc, c :: cs => if c = '.' then (if acc.isEmpty then splitDotsAux [] cs else acc.reverse :: splitDotsAux [] cs)
                    else splitDotsAux (c :: acc) cs
def splitDots (s : List Char) : List (List Char) := splitDotsAux [] s

/-- `OverrideFullName`: the c_package option replaces the package prefix of a full name -/
def overrideFullName (full pkg : List Char) (cpkg : Option (List Char)) : List Char :=
  match cpkg with
  | none => full
  | some c => (if pkg.isEmpty then c ++ ['.'] else c) ++ full.drop pkg.length

def joinDU : List (List Char) → List Char
  | [] => []
  | [a] => a
  | a :: rest => a ++ ['_', '_'] ++ joinDU rest

def fullNameToLower (full pkg : List Char) (cpkg : Option (List Char)) : List Char :=
  joinDU ((splitDots (overrideFullName full pkg cpkg)).map camelToLower)
def fullNameToUpper (full pkg : List Char) (cpkg : Option (List Char)) : List Char :=
  joinDU ((splitDots (overrideFullName full pkg cpkg)).map camelToUpper)
def fullNameToC (full pkg : List Char) (cpkg : Option (List Char)) : List Char :=
  joinDU ((splitDots (overrideFullName full pkg cpkg)).map toCamel)

/-- `FieldName`: lower-cased, with an underscore appended when that is a keyword of `kw` -/
def fieldName (kw : List (List Char)) (n : List Char) : List Char :=
  let l := n.map toLowerC
  if kw.contains l then l ++ ['_'] else l

/-! ### fields -/

/-- label as written in the .proto file -/
inductive PLabel | required | optional | repeated | implicit
  deriving DecidableEq, Repr, Inhabited

structure PField where
  name : String
  number : Nat
  plabel : PLabel
  type : PType
  packedOpt : Option Bool          -- [packed = ...] if written
  oneof : Option (Nat × String)    -- index and name of the containing oneof
  sub : Nat
  dflt : Dflt                      -- [default = ...] (.none if not written)
  stringAsBytes : Bool := false
  deprecated : Bool := false
  deriving Repr, Inhabited

structure POpts where
  syntax3 : Bool
  codeSize : Bool := false         -- option optimize_for = CODE_SIZE
  genInit : Bool := true           -- effective gen_init_helpers for this message
  useOneofName : Bool := false     -- (pb_c_file).use_oneof_field_name
  deriving Repr, Inhabited

/-- emitted field entry: the runtime-relevant `FieldDesc` plus what only the dump shows -/
structure GField where
  d : FieldDesc
  emittedName : Option String      -- none under CODE_SIZE
  deprecated : Bool
  deriving Repr, Inhabited

def genLabel (o : POpts) (f : PField) : Label :=
  match f.plabel with
  | .required => .required
  | .repeated => .repeated
  | .optional => if o.syntax3 then .none else .optional     -- proto3 `optional` is not generated by this plugin version
  | .implicit => .none

def genType (f : PField) : PType :=
  if f.type == .string && f.stringAsBytes then .bytes else f.type

def genPacked (o : POpts) (f : PField) : Bool :=
  f.plabel == .repeated && f.type.packable &&
    (match f.packedOpt with
     | some b => b
     | none => o.syntax3)

def genDflt (o : POpts) (f : PField) : Dflt :=
  match f.dflt with
  | .none => if o.syntax3 && f.type == .string && !f.stringAsBytes then .emptyStr else .none   -- (a string_as_bytes field is a BYTES field)
  | d => d

/-- the name a field descriptor carries: the field's, or — under (pb_c_file).use_oneof_field_name — its oneof's -/
def nameKey (o : POpts) (f : PField) : String :=
  match o.useOneofName, f.oneof with
  | true, some (_, n) => n
  | _, _ => f.name

def genField (o : POpts) (f : PField) : GField :=
  let lab := if f.oneof.isSome then (if o.syntax3 then Label.none else Label.optional) else genLabel o f
  { d := { name := f.name, id := f.number, label := lab, type := genType f, packed := genPacked o f,
           group := f.oneof.map (·.1), sub := f.sub, dflt := genDflt o f, init := none },
    emittedName := if o.codeSize then none else some (nameKey o f),
    deprecated := f.deprecated }

/-! ### messages -/

structure PMsg where
  full : String                    -- fully-qualified proto name (package.Outer.Inner)
  short : String                   -- last component
  pkg : String
  cpkg : Option String
  fields : List PField             -- DECLARATION order
  opts : POpts
  deriving Repr, Inhabited

/-- insertion sort: `x` goes in front of the first element it is `lt` to.  Every qsort in the generator has a
    comparison that is a total order on the keys at hand (distinct field numbers, distinct names, (value, index)
    pairs), so the sorted result is unique and this is it. -/
def insertBy {α} (lt : α → α → Bool) (x : α) : List α → List α
  | [] => [x]
  | y :: ys => if lt x y then x :: y :: ys else y :: insertBy lt x ys
def isort {α} (lt : α → α → Bool) (l : List α) : List α := l.foldr (insertBy lt) []

/-- `compare_pfields_by_number` -/
def sortByNumber (l : List PField) : List PField := isort (fun a b => a.number < b.number) l

/-- the emitted field table -/
def genFields (m : PMsg) : List GField := (sortByNumber m.fields).map (genField m.opts)

def bytesOfString (s : String) : List Nat := s.toUTF8.toList.map (·.toNat)

/-- sort of (name bytes, index) by `std::string::compare` (byte-wise) -/
def sortByName (l : List (List Nat × Nat)) : List (List Nat × Nat) := isort (fun a b => cmpBytes a.1 b.1 != .gt) l
-- (`!= .gt`: equal names keep their order, as the merge sort behind glibc's qsort does; names are pairwise distinct except
--  for members of one oneof under use_oneof_field_name)

def enumFrom {α} : Nat → List α → List (α × Nat)
  | _, [] => []
  | i, a :: as => (a, i) :: enumFrom (i + 1) as

/-- `field_indices_by_name`: indices into the number-sorted table, ordered by the name the descriptor carries -/
def genByName (m : PMsg) : List (List Nat × Nat) :=
  sortByName ((enumFrom 0 (sortByNumber m.fields)).map (fun (f, i) => (bytesOfString (nameKey m.opts f), i)))

def genRanges (m : PMsg) : Ranges := mkRanges ((sortByNumber m.fields).map (fun f => (f.number : Int)))

/-- the runtime-level descriptor the rest of the model (pack / unpack / check / lookup) works on -/
def genMsgDesc (m : PMsg) : MsgDesc :=
  { name := m.full, fields := (genFields m).map (·.d), initGeneric := !m.opts.genInit,
    nGroups := ((m.fields.filterMap (·.oneof)).map (·.1 + 1)).foldl max 0 }

/-! ### which helpers a message gets (c_file.cc, c_message.cc GenerateHelperFunction*, GenerateMessageDescriptor) -/

/-- effective `gen_init_helpers`: the file's value (default true), overridden by every enclosing message
    (outermost first, the message itself last) that sets the option -/
def effInit (file : Option Bool) (chain : List (Option Bool)) : Bool :=
  chain.foldl (fun g o => o.getD g) (file.getD true)

/-- effective `gen_pack_helpers`.  A top-level message takes the file's value (default true) unless it sets its own.
    A nested message inherits its parent's effective value only if the FILE set the option explicitly (or we are already
    below a nested level); otherwise it gets the parent's own message-level option, whose default is false. -/
def effPackAux (deep : Bool) (gp : Bool) : List (Option Bool) → Bool
  | [] => gp
  | [o] => o.getD gp
  | o :: rest => effPackAux true (if deep then o.getD gp else o.getD false) rest
def effPack (file : Option Bool) (chain : List (Option Bool)) : Bool :=
  effPackAux file.isSome (file.getD true) chain

/-! ### enums (c_enum.cc) -/

structure PEnum where
  full : String
  short : String
  pkg : String
  cpkg : Option String
  values : List (String × Int)     -- DECLARATION order; aliases allowed
  codeSize : Bool := false
  deriving Repr, Inhabited

/-- stable sort by value: equal numbers stay in declaration order
    (= qsort with `compare_value_indices_by_value_then_index`, whose key (value, index) is total) -/
def sortByValue (l : List (String × Int)) : List (String × Int) := isort (fun a b => a.2 ≤ b.2) l

/-- keep the first entry of every run of equal values -/
def dedupByValue : List (String × Int) → List (String × Int)
  | [] => []
  | [x] => [x]
  | x :: y :: rest => if x.2 = y.2 then dedupByValue (x :: rest) else x :: dedupByValue (y :: rest)

/-- `enum_values_by_number`: unique numbers ascending, each under the FIRST name declared for it -/
def genEnumValues (e : PEnum) : List (String × Int) := dedupByValue (sortByValue e.values)

def indexOfValue (vals : List (String × Int)) (v : Int) : Nat := (vals.map (·.2)).idxOf v

/-- `enum_values_by_name`: every declared name, sorted, with the index of its number in `genEnumValues` -/
def genEnumByName (e : PEnum) : List (List Nat × Nat) :=
  sortByName (e.values.map (fun (n, v) => (bytesOfString n, indexOfValue (genEnumValues e) v)))

def genEnumRanges (e : PEnum) : Ranges := mkRanges ((genEnumValues e).map (·.2))

/-! ### services (c_service.cc + protobuf_c_service_invoke_internal) -/

structure PSvc where
  full : String
  short : String
  pkg : String
  cpkg : Option String
  methods : List (String × Nat × Nat)   -- DECLARATION order: name, input message index, output message index
  codeSize : Bool := false
  deriving Repr, Inhabited

def genMethodsByName (s : PSvc) : List (List Nat × Nat) :=
  sortByName ((enumFrom 0 s.methods).map (fun (m, i) => (bytesOfString m.1, i)))

/-- what a call leaves behind: which handler slot ran, and the three arguments it was given -/
structure Call where
  slot : Nat
  input : Nat
  closure : Nat
  closureData : Nat
  deriving DecidableEq, Repr

/-- a service object: the handler table laid out after the base, one slot per method in declaration order;
    a handler is modelled by its slot number (it records `Call`) -/
structure Service where
  nMethods : Nat
  handlers : List (Option Nat)      -- none = NULL
  destroyed : Bool := false
  deriving Repr

/-- `protobuf_c_service_invoke_internal`: asserts the index is in range, calls `handlers[index]` -/
def invokeInternal (s : Service) (idx input closure cd : Nat) : Option Call :=
  if idx < s.nMethods then
    match s.handlers.getD idx none with
    | some h => some ⟨h, input, closure, cd⟩
    | none => none                  -- NULL handler: undefined (the code calls through NULL)
  else none                         -- assert fails

/-- the generated stub of the k-th declared method passes the literal index k -/
def stub (s : Service) (k input closure cd : Nat) : Option Call := invokeInternal s k input closure cd

/-- `<service>__INIT(prefix)`: slot k holds prefix##method_k -/
def serviceInit (s : PSvc) : Service := ⟨s.methods.length, (List.range s.methods.length).map some, false⟩

/-- `protobuf_c_service_generated_init`: descriptor + destroy recorded, all handlers cleared -/
def generatedInit (s : PSvc) : Service := ⟨s.methods.length, List.replicate s.methods.length none, false⟩

def destroy (s : Service) : Service := { s with destroyed := true }

end Pbc.Gen
