import Pbc.Model.Pack
/-
  L2: executable model of protobuf_c_message_unpack (scan pass, required-field bitmap with the
  last-field cache, parse pass, merge_messages, message_init) -- the pure, heap-free view.
  `Pbc.Model.Heap` instruments the same algorithm with the allocator.
-/
namespace Pbc.Model
open Pbc Wire

/-- `ScannedMember` -/
structure Scanned where
  tag : Nat
  wt : Nat
  prefLen : Nat
  fidx : Option Nat
  data : Bytes          -- the `len` bytes at `data` (length-delimited: including the prefix)
  deriving Repr, Inhabited

/-- field lookup by number as the parser does it: the tag is passed as `int` -/
def lookupField (fields : List FieldDesc) (tag : Nat) : Option Nat :=
  if tag ≥ 2 ^ 31 then none else fields.findIdx? (fun f => f.id == tag)

/-- `parse_tag_and_wiretype` (after the F6/F7 repairs): (bytes used, field number, wire type) -/
def scanKey (b : Bytes) : Option (Nat × Nat × Nat) :=
  match b with
  | [] => none
  | b0 :: _ =>
    if (b0 &&& 0xf8) = 0 then none else
    match scanVarint (min b.length 5) b with
    | none => none
    | some n =>
      let raw := decGroups (b.take n)
      let tag := raw / 8 % 2 ^ 32
      if tag = 0 then none else some (n, tag, b0.toNat % 8)

/-- `scan_length_prefixed_data`: (prefix length, total length) -/
def scanLen (b : Bytes) : Option (Nat × Nat) :=
  match scanVarint (min b.length 5) b with
  | none => none
  | some n =>
    let val := decGroups (b.take n)
    if val > 2147483647 then none
    else if n + val > b.length then none
    else some (n, n + val)

def maxScanned : Nat := 16 * (2 ^ 23 - 1)

/-- `count_packed_elements` -/
def countPacked (t : PType) (payload : Bytes) : Option Nat :=
  match t with
  | .sfixed32 | .fixed32 | .float => if payload.length % 4 ≠ 0 then none else some (payload.length / 4)
  | .sfixed64 | .fixed64 | .double => if payload.length % 8 ≠ 0 then none else some (payload.length / 8)
  | .enum | .int32 | .sint32 | .uint32 | .int64 | .sint64 | .uint64 =>
    some (payload.filter (fun b => b.toNat < 128)).length
  | .bool => some payload.length
  | _ => none

/-- is this occurrence of a repeated field handled by the packed path? -/
def usesPackedPath (f : FieldDesc) (wt : Nat) : Bool := wt == 2 && (f.packed || f.type.packable)

structure ScanState where
  last : Option Nat            -- last_field (index) or NULL
  lastIdx : Nat                -- last_field_index
  bitmap : List Nat            -- indices whose bit is set
  acc : List Scanned           -- reversed
  counts : List (Nat × Nat)    -- (field index, elements counted) per repeated occurrence, reversed
  nUnknown : Nat
  deriving Inhabited

/-- field lookup with the last-field cache: (field, last_field, last_field_index, n_unknown) -/
def resolveField (fields : List FieldDesc) (st : ScanState) (tag : Nat) : Option Nat × Option Nat × Nat × Nat :=
  let hit := match st.last with
    | some li => (fields.getD li default).id == tag
    | none => false
  if hit then (st.last, st.last, st.lastIdx, st.nUnknown)
  else match lookupField fields tag with
    | none => (none, st.last, st.lastIdx, st.nUnknown + 1)
    | some i => (some i, some i, i, st.nUnknown)

/-- extent of one occurrence by wire type: (len, length-prefix length) -/
def delimit (wt : Nat) (rest : Bytes) : Option (Nat × Nat) :=
  if wt == 0 then (scanVarint (min rest.length 10) rest).map (fun n => (n, 0))
  else if wt == 1 then (if rest.length < 8 then none else some (8, 0))
  else if wt == 2 then (scanLen rest).map (fun (p, tot) => (tot, p))
  else if wt == 5 then (if rest.length < 4 then none else some (4, 0))
  else none

/-- one iteration of the scan pass: the remaining input and the new state -/
def scanStep (fields : List FieldDesc) (b : Bytes) (st : ScanState) : Option (Bytes × ScanState) :=
  match scanKey b with
  | none => none
  | some (used, tag, wt) =>
    let (field, last, lastIdx, nUnknown) := resolveField fields st tag
    let bitmap := match field with
      | some i => if (fields.getD i default).label == .required then lastIdx :: st.bitmap else st.bitmap
      | none => st.bitmap
    let rest := b.drop used
    match delimit wt rest with
    | none => none
    | some (len, pref) =>
      if st.acc.length ≥ maxScanned then none else
      let sm : Scanned := ⟨tag, wt, pref, field, rest.take len⟩
      let cnt : Option (List (Nat × Nat)) :=
        match field with
        | some i =>
          let f := fields.getD i default
          if f.label == .repeated then
            if usesPackedPath f wt then
              (countPacked f.type ((rest.take len).drop pref)).map (fun c => (i, c) :: st.counts)
            else some ((i, 1) :: st.counts)
          else some st.counts
        | none => some st.counts
      match cnt with
      | none => none
      | some counts => some (rest.drop len, ⟨last, lastIdx, bitmap, sm :: st.acc, counts, nUnknown⟩)

/-- the scan pass (`while (rem > 0)`); `fuel` bounds the number of iterations (≤ input length) -/
def scanLoop (fields : List FieldDesc) : Nat → Bytes → ScanState → Option ScanState
  | 0, b, st => if b.isEmpty then some st else none
  | fuel+1, b, st =>
    if b.isEmpty then some st else
    match scanStep fields b st with
    | none => none
    | some (b', st') => scanLoop fields fuel b' st'

/-- `parse_boolean` -/
def parseBool (data : Bytes) : BitVec 32 := if data.any (fun b => b.toNat % 128 ≠ 0) then 1 else 0

def loadLE (data : Bytes) : Nat → Nat
  | 0 => 0
  | n+1 => (data.headD 0).toNat + 256 * loadLE data.tail n

/-- scalar element from its wire bytes (the `data[0..len)` of the scanned member) -/
def parseScalar (t : PType) (data : Bytes) : Val :=
  match t with
  | .int32 | .enum | .uint32 => .w32 (BitVec.ofNat 32 (decGroups data))
  | .sint32 => .w32 (unzigzag32 (BitVec.ofNat 32 (decGroups data)))
  | .int64 | .uint64 => .w64 (BitVec.ofNat 64 (decGroups data))
  | .sint64 => .w64 (unzigzag64 (BitVec.ofNat 64 (decGroups data)))
  | .sfixed32 | .fixed32 | .float => .w32 (BitVec.ofNat 32 (loadLE data 4))
  | .sfixed64 | .fixed64 | .double => .w64 (BitVec.ofNat 64 (loadLE data 8))
  | .bool => .w32 (parseBool data)
  | _ => .zero

/-- wire type `parse_required_member` insists on (bool: none) -/
def wtOk (t : PType) (wt : Nat) : Bool :=
  match t with
  | .bool => true
  | t => wt == t.wireType

/-- elements of a packed payload (`parse_packed_repeated_member`); `fuel` ≥ payload length -/
def parsePackedVarints (t : PType) : Nat → Bytes → Option (List Val)
  | 0, b => if b.isEmpty then some [] else none
  | fuel+1, b =>
    if b.isEmpty then some [] else
    match scanVarint (min b.length 10) b with
    | none => none
    | some s => (parsePackedVarints t fuel (b.drop s)).map (fun vs => parseScalar t (b.take s) :: vs)

def parsePackedFixed (t : PType) (w : Nat) : Nat → Bytes → List Val
  | 0, _ => []
  | n+1, b => parseScalar t (b.take w) :: parsePackedFixed t w n (b.drop w)

def parsePacked (t : PType) (payload : Bytes) : Option (List Val) :=
  match t with
  | .sfixed32 | .fixed32 | .float => some (parsePackedFixed t 4 (payload.length / 4) payload)
  | .sfixed64 | .fixed64 | .double => some (parsePackedFixed t 8 (payload.length / 8) payload)
  | .string | .bytes | .message => none
  | t => parsePackedVarints t payload.length payload

/-! ### slots -/
def getSlot (slots : List Slot) (i : Nat) : Slot := slots.getD i default
def setSlot (slots : List Slot) (i : Nat) (s : Slot) : List Slot := slots.set i s

/-- what `*(uint32_t *)(msg + quantifier_offset)` reads: the member, or for fields without one
    the low word of the descriptor pointer at offset 0 (non-zero) -/
def qRead (f : FieldDesc) (s : Slot) : Nat := if f.hasQ then s.q else 1

/-- write the case of a oneof group into every member's slot (they share one word) -/
def setCase (fields : List FieldDesc) (g : Nat) (c : Nat) : List FieldDesc → List Slot → List Slot
  | f :: fs, s :: ss =>
    (if f.group == some g then (match s with | .one _ v => .one c v | s => s) else s) :: setCase fields g c fs ss
  | _, ss => ss

/-- zero the shared storage of a oneof group -/
def zeroGroup (g : Nat) : List FieldDesc → List Slot → List Slot
  | f :: fs, s :: ss =>
    (if f.group == some g then (match s with | .one q _ => .one q .zero | s => s) else s) :: zeroGroup g fs ss
  | _, ss => ss

/-! ### initialisation -/
def zeroVal (t : PType) : Val :=
  match t with
  | .string => .str .null []
  | .bytes => .bin 0 .null []
  | .message => .msg none
  | t => if t.is32 then .w32 0 else .w64 0

def dfltVal (f : FieldDesc) : Val :=
  match f.dflt with
  | .none => zeroVal f.type
  | .scalar b => if f.type.is32 then .w32 (BitVec.setWidth 32 b) else .w64 b
  | .str s => .str .dflt s
  | .emptyStr => .str .dflt []
  | .bin b => .bin b.length .dflt b

/-- the generated `<msg>__init` (= the static INIT value) -/
def initSlotGen (f : FieldDesc) : Slot :=
  if f.label == .repeated then .rep 0 none
  else if f.isOneof then .one 0 .zero
  else match f.init with
    | some b => .one 0 (if f.type.is32 then .w32 (BitVec.setWidth 32 b) else .w64 b)
    | none => .one 0 (dfltVal f)

/-- `message_init_generic` (no oneof member with a default: see DESIGN F14/F17) -/
def initSlotGeneric (f : FieldDesc) : Slot :=
  if f.label == .repeated then .rep 0 none
  else if f.isOneof then .one 0 .zero
  else .one 0 (dfltVal f)

def initMsg (S : Schema) (t : Nat) : Msg :=
  let d := S.msg t
  .mk t (d.fields.map (if d.initGeneric then initSlotGeneric else initSlotGen)) []

/-! ### merge_messages, parse_member, unpack (mutually recursive; `fuel` bounds nesting depth) -/

/-- a string pointer equal to `field->default_value` (which may be NULL) -/
def strIsDflt (f : FieldDesc) (v : Val) : Bool :=
  match v with
  | .str .null _ => f.dflt == .none
  | .str .dflt _ => true
  | .str _ _ => false
  | _ => f.dflt == .none          -- zeroed storage is a NULL pointer

/-- a string pointer that is neither NULL nor `field->default_value` -/
def strSet (v : Val) : Bool :=
  match v with
  | .str .own _ => true
  | .str .empty _ => true
  | _ => false

def binDataNull (v : Val) : Bool := match v with | .bin _ .null _ => true | .bin _ _ _ => false | _ => true
def binDataDflt (v : Val) : Bool := match v with | .bin _ .dflt _ => true | _ => false

mutual
/-- `merge_messages(earlier, latter)`; `none` = returns FALSE -/
def mergeMsg (S : Schema) : Nat → Msg → Msg → Option Msg
  | 0, _, _ => none
  | fuel+1, .mk _ es eu, .mk ty ls lu =>
    let fields := (S.msg ty).fields
    -- unknown fields of the earlier occurrence come first, in arrival order
    (mergeFields S fuel fields fields.length 0 es ls).map (fun ls' => .mk ty ls' (eu ++ lu))

/-- the `for (i = 0; i < n_fields; i++)` loop; `k` = iterations left -/
def mergeFields (S : Schema) (fuel : Nat) (fields : List FieldDesc) : Nat → Nat → List Slot → List Slot → Option (List Slot)
  | 0, _, _, ls => some ls
  | k+1, i, es, ls =>
    let fi := fields.getD i default
    let next := fun es' ls' => mergeFields S fuel fields k (i + 1) es' ls'
    if fi.label == .repeated then
      match getSlot es i, getSlot ls i with
      | .rep ne ea, .rep nl la =>
        if ne > 0 then
          if nl > 0 then
            next (setSlot es i (.rep 0 none))
                 (setSlot ls i (.rep (ne + nl) (some ((ea.getD []).take ne ++ (la.getD []).take nl))))
          else next (setSlot es i (.rep 0 none)) (setSlot ls i (.rep ne ea))
        else next es ls
      | _, _ => next es ls
    else if fi.label == .optional || fi.label == .none || (fi.label == .required && fi.type == .message) then
      let ecase := qRead fi (getSlot es i)
      let lcase := qRead fi (getSlot ls i)
      let sel : Option (Option Nat) :=          -- none = return FALSE; some none = continue
        if fi.isOneof then
          if lcase == 0 then
            if ecase == 0 then some none          -- unset in both: nothing to merge
            else match lookupField fields ecase with
              | none => none
              | some j => some (some j)
          else if lcase == ecase && fi.id == lcase && fi.type == .message then some (some i)
          else some none
        else some (some i)
      match sel with
      | none => none
      | some none => next es ls
      | some (some j) =>
        let f := fields.getD j default
        let ev := (getSlot es j).v
        let lv := (getSlot ls j).v
        let step : Option (Bool × List Slot) :=     -- (need_to_merge, latter slots)
          match f.type with
          | .message =>
            match ev, lv with
            | .msg (some em), .msg (some lm) =>
              (match fuel with
               | 0 => none
               | fuel'+1 => (mergeMsg S (fuel'+1) em lm).map (fun m => (false, setSlot ls j (match getSlot ls j with | .one q _ => .one q (.msg (some m)) | s => s))))
            | .msg (some _), _ => some (true, ls)
            | _, _ => some (false, ls)
          | .bytes =>
            if f.hasQ then some (ecase != 0 && lcase == 0, ls)     -- has_ member / oneof case decides
            else
            some ((!binDataNull ev && (f.dflt == .none || !binDataDflt ev)) &&
                  (binDataNull lv || (f.dflt != .none && binDataDflt lv)), ls)
          | .string => some (strSet ev && !strSet lv, ls)
          | t =>
            if fi.label == .none && !fi.isOneof then some (!zeroish t ev && zeroish t lv, ls)
            else some (ecase != 0 && lcase == 0, ls)
        match step with
        | none => none
        | some (false, ls1) => next es ls1
        | some (true, ls1) =>
          let ls2 := setSlot ls1 j (match getSlot ls1 j with | .one q _ => .one q ev | s => s)
          let es2 := setSlot es j (match getSlot es j with | .one q _ => .one q .zero | s => s)
          if f.hasQ then
            match f.group with
            | some g => next (setCase fields g 0 fields es2) (setCase fields g ecase fields ls2)
            | none =>
              next (setSlot es2 j (match getSlot es2 j with | .one _ v => .one 0 v | s => s))
                   (setSlot ls2 j (match getSlot ls2 j with | .one _ v => .one ecase v | s => s))
          else next es2 ls2
    else next es ls

/-- `parse_required_member`: new value of the member -/
def parseRequired (S : Schema) (fuel : Nat) (f : FieldDesc) (sm : Scanned) (old : Val) (maybeClear : Bool) : Option Val :=
  if !wtOk f.type sm.wt then none else
  match f.type with
  | .string => some (.str .own ((sm.data.drop sm.prefLen).takeWhile (fun b => b != 0)))
  | .bytes =>
    let d := sm.data.drop sm.prefLen
    some (if d.length > 0 then .bin d.length .own d else .bin 0 .null [])
  | .message =>
    match fuel with
    | 0 => none
    | fuel'+1 =>
      let sub := unpackMsg S fuel' f.sub (sm.data.drop sm.prefLen)
      match old, maybeClear with
      | .msg (some om), true =>
        (match sub with
         | none => none
         | some sm' => mergeMsg S (fuel'+1) om sm' |>.map (fun m => .msg (some m)))
      | _, _ => sub.map (fun m => .msg (some m))
  | t => some (parseScalar t sm.data)

/-- `parse_member` -/
def parseMember (S : Schema) (fuel : Nat) (fields : List FieldDesc) (sm : Scanned) : Msg → Option Msg
  | .mk ty slots unk =>
    match sm.fidx with
    | none => some (.mk ty slots (unk ++ [⟨sm.tag, sm.wt, sm.data⟩]))
    | some i =>
      let f := fields.getD i default
      match f.label with
      | .required =>
        (parseRequired S fuel f sm (getSlot slots i).v true).map
          (fun v => .mk ty (setSlot slots i (.one (getSlot slots i).q v)) unk)
      | .repeated =>
        (match getSlot slots i with
         | .rep n arr =>
           if usesPackedPath f sm.wt then
             (parsePacked f.type (sm.data.drop sm.prefLen)).map
               (fun vs => .mk ty (setSlot slots i (.rep (n + vs.length)
                   (if (arr.getD [] ++ vs).isEmpty then arr else some (arr.getD [] ++ vs)))) unk)   -- no array is allocated for zero elements
           else
             (parseRequired S fuel f sm .zero false).map
               (fun v => .mk ty (setSlot slots i (.rep (n + 1) (some (arr.getD [] ++ [v])))) unk)
         | _ => none)
      | _ =>
        match f.group with
        | some g =>
          let q := (getSlot slots i).q
          let cleared : Option (List Slot) :=
            if q != 0 && !(q == sm.tag && f.type == .message) then
              match lookupField fields q with
              | none => none
              | some _ => some (zeroGroup g fields slots)
            else some slots
          (match cleared with
           | none => none
           | some slots1 =>
             (parseRequired S fuel f sm (getSlot slots1 i).v true).map
               (fun v => .mk ty (setCase fields g sm.tag fields (setSlot slots1 i (.one q v))) unk))
        | none =>
          (parseRequired S fuel f sm (getSlot slots i).v true).map
            (fun v => .mk ty (setSlot slots i (.one (if f.hasQ then 1 else (getSlot slots i).q) v)) unk)

def parseAll (S : Schema) (fuel : Nat) (fields : List FieldDesc) : List Scanned → Msg → Option Msg
  | [], m => some m
  | sm :: rest, m =>
    match parseMember S fuel fields sm m with
    | none => none
    | some m' => parseAll S fuel fields rest m'

/-- `protobuf_c_message_unpack`; `none` = returns NULL -/
def unpackMsg (S : Schema) (fuel : Nat) (t : Nat) (b : Bytes) : Option Msg :=
  let d := S.msg t
  let fields := d.fields
  match scanLoop fields b.length b ⟨if fields.isEmpty then none else some 0, 0, [], [], [], 0⟩ with
  | none => none
  | some st =>
    -- required fields without default must have their bit set
    if (List.range fields.length).any (fun i =>
          let f := fields.getD i default
          f.label == .required && f.dflt == .none && !st.bitmap.contains i) then none
    else parseAll S fuel fields st.acc.reverse (initMsg S t)
end

/-- top level: nesting depth can never exceed the input length -/
def unpack (S : Schema) (t : Nat) (b : Bytes) : Option Msg := unpackMsg S (b.length + 1) t b

end Pbc.Model
