import Pbc.Msg
/-
  L2: executable model of protobuf_c_message_get_packed_size / _pack / _pack_to_buffer.
  It follows the code that exists (presence by pointer class, `has` read through the
  quantifier member, proto3 "zeroish" omission), per label and per type.
-/
namespace Pbc.Model
open Pbc Wire

def le32 (v : BitVec 32) : Bytes :=
  [BitVec.setWidth 8 v, BitVec.setWidth 8 (v >>> 8), BitVec.setWidth 8 (v >>> 16), BitVec.setWidth 8 (v >>> 24)]
def le64 (v : BitVec 64) : Bytes :=
  le32 (BitVec.setWidth 32 v) ++ le32 (BitVec.setWidth 32 (v >>> 32))

def zigzag32 (v : BitVec 32) : BitVec 32 := (v <<< 1) ^^^ (BitVec.sshiftRight v 31)
def zigzag64 (v : BitVec 64) : BitVec 64 := (v <<< 1) ^^^ (BitVec.sshiftRight v 63)
def unzigzag32 (v : BitVec 32) : BitVec 32 := (v >>> 1) ^^^ (-(v &&& 1))
def unzigzag64 (v : BitVec 64) : BitVec 64 := (v >>> 1) ^^^ (-(v &&& 1))

/-- key bytes: `tag_pack(id)` followed by `out[0] |= wire_type` -/
def keyBytes (id wt : Nat) : Bytes := varint (id * 8 + wt % 8)   -- wire types are 3 bits
def keyLen (id : Nat) : Nat := varintLen (id * 8)

/-- payload of one scalar element (no key) -/
def scalarBytes (t : PType) (v : Val) : Bytes :=
  match t with
  | .int32 | .enum => varint ((BitVec.signExtend 64 v.asW32).toNat)
  | .uint32 => varint v.asW32.toNat
  | .sint32 => varint (zigzag32 v.asW32).toNat
  | .int64 | .uint64 => varint v.asW64.toNat
  | .sint64 => varint (zigzag64 v.asW64).toNat
  | .sfixed32 | .fixed32 | .float => le32 v.asW32
  | .sfixed64 | .fixed64 | .double => le64 v.asW64
  | .bool => [if v.asW32 = 0 then 0 else 1]
  | _ => []

def scalarLen (t : PType) (v : Val) : Nat :=
  match t with
  | .int32 | .enum => varintLen ((BitVec.signExtend 64 v.asW32).toNat)
  | .uint32 => varintLen v.asW32.toNat
  | .sint32 => varintLen (zigzag32 v.asW32).toNat
  | .int64 | .uint64 => varintLen v.asW64.toNat
  | .sint64 => varintLen (zigzag64 v.asW64).toNat
  | .sfixed32 | .fixed32 | .float => 4
  | .sfixed64 | .fixed64 | .double => 8
  | .bool => 1
  | _ => 0

/-- contents the serialisers read through a string pointer (`strlen`); NULL → none -/
def strBytes : Val → Option Bytes
  | .str .null _ => none
  | .str _ s => some s
  | _ => none            -- zeroed storage reads as NULL

def lenPrefixed (b : Bytes) : Bytes := varint b.length ++ b

/-- exactly `n` bytes read through a data pointer: the first `n` bytes of `d` (for a C-representable
    value `d` has at least `n` bytes; shorter lists are padded so that the definition is total) -/
def takePad (n : Nat) (d : Bytes) : Bytes := d.take n ++ List.replicate (n - d.length) 0

/-- `field_is_zeroish` (after the F1 repair: floating types are compared as bit patterns) -/
def zeroish (t : PType) (v : Val) : Bool :=
  match t with
  | .string => match v with | .str .null _ => true | .str _ s => s.isEmpty | _ => true
  | .bytes => match v with | .bin len _ _ => len == 0 | _ => true   -- reads the first word of the struct: `len`
  | .message => match v with | .msg (some _) => false | _ => true
  | t => if t.is32 then v.asW32 == 0 else v.asW64 == 0

/-- `ptr == NULL || ptr == field->default_value` for string / message members -/
def ptrAbsent (_f : FieldDesc) (v : Val) : Bool :=
  match v with
  | .str .null _ => true
  | .str .dflt _ => true
  | .str _ _ => false
  | .msg none => true
  | .msg (some _) => false
  | _ => true

mutual
/-- bytes of one element without its key (`required_field_pack` minus `tag_pack`) -/
def elemBytes (S : Schema) (f : FieldDesc) : Val → Bytes
  | .msg (some m) => lenPrefixed (packMsg S m)
  | .msg none => [0]
  | .bin len _ d => varint len ++ takePad len d
  | .str .null _ => [0]
  | .str _ s => lenPrefixed s
  | v => if f.type == .message || f.type == .string then [0]
         else if f.type == .bytes then [0] else scalarBytes f.type v

/-- the first `n` elements of the array (the C loops run `count` times) -/
def elemsBytes (S : Schema) (f : FieldDesc) : Nat → List Val → List Bytes
  | n+1, v :: vs => elemBytes S f v :: elemsBytes S f n vs
  | _, _ => []

def packSlot (S : Schema) (f : FieldDesc) : Slot → Bytes
  | .one q v =>
    match f.label with
    | .required => keyBytes f.id f.type.wireType ++ elemBytes S f v
    | .repeated => []          -- ill-typed slot
    | l =>
      if f.isOneof then
        if q != f.id then []
        else if (f.type == .message || f.type == .string) && ptrAbsent f v then []
        else keyBytes f.id f.type.wireType ++ elemBytes S f v
      else if l == .optional then
        if f.type == .message || f.type == .string then
          (if ptrAbsent f v then [] else keyBytes f.id f.type.wireType ++ elemBytes S f v)
        else if q == 0 then [] else keyBytes f.id f.type.wireType ++ elemBytes S f v
      else -- .none
        if zeroish f.type v then [] else keyBytes f.id f.type.wireType ++ elemBytes S f v
  | .rep _ none => []
  | .rep n (some l) =>
    if n == 0 then [] else
    let es := elemsBytes S f n l
    if f.packed then
      let payload := es.flatten
      keyBytes f.id 2 ++ varint payload.length ++ payload
    else (es.map fun e => keyBytes f.id f.type.wireType ++ e).flatten

def packSlots (S : Schema) : List FieldDesc → List Slot → Bytes
  | f :: fs, s :: ss => packSlot S f s ++ packSlots S fs ss
  | _, _ => []

def packMsg (S : Schema) : Msg → Bytes
  | .mk ty slots unk =>
    packSlots S (S.msg ty).fields slots ++
      (unk.map fun u => keyBytes u.tag u.wt ++ u.data).flatten
end

/-- number of array elements the C loops visit: `count`, for an array that has them -/
def elemsCnt : Nat → List Val → Nat
  | n+1, _ :: vs => 1 + elemsCnt n vs
  | _, _ => 0

mutual
def elemLen (S : Schema) (f : FieldDesc) : Val → Nat
  | .msg (some m) => varintLen (sizeMsg S m) + sizeMsg S m
  | .msg none => 1
  | .bin len _ _ => varintLen len + len
  | .str .null _ => 1
  | .str _ s => varintLen s.length + s.length
  | v => if f.type == .message || f.type == .string then 1
         else if f.type == .bytes then 1 else scalarLen f.type v

def elemsLen (S : Schema) (f : FieldDesc) : Nat → List Val → Nat
  | n+1, v :: vs => elemLen S f v + elemsLen S f n vs
  | _, _ => 0

def sizeSlot (S : Schema) (f : FieldDesc) : Slot → Nat
  | .one q v =>
    match f.label with
    | .required => keyLen f.id + elemLen S f v
    | .repeated => 0
    | l =>
      if f.isOneof then
        if q != f.id then 0
        else if (f.type == .message || f.type == .string) && ptrAbsent f v then 0
        else keyLen f.id + elemLen S f v
      else if l == .optional then
        if f.type == .message || f.type == .string then
          (if ptrAbsent f v then 0 else keyLen f.id + elemLen S f v)
        else if q == 0 then 0 else keyLen f.id + elemLen S f v
      else
        if zeroish f.type v then 0 else keyLen f.id + elemLen S f v
  | .rep _ none => 0
  | .rep n (some l) =>
    if n == 0 then 0 else
    let body := elemsLen S f n l
    if f.packed then keyLen f.id + varintLen body + body
    else keyLen f.id * elemsCnt n l + body

def sizeSlots (S : Schema) : List FieldDesc → List Slot → Nat
  | f :: fs, s :: ss => sizeSlot S f s + sizeSlots S fs ss
  | _, _ => 0

def sizeMsg (S : Schema) : Msg → Nat
  | .mk ty slots unk =>
    sizeSlots S (S.msg ty).fields slots + (unk.map fun u => keyLen u.tag + u.data.length).sum
end

/-! ### `protobuf_c_message_pack_to_buffer`: the sequence of `append` calls -/

def isFixedLE (t : PType) : Bool :=
  match t with
  | .sfixed32 | .fixed32 | .float | .sfixed64 | .fixed64 | .double => true
  | _ => false

mutual
/-- `required_field_pack_to_buffer`: the key and (for length-delimited types) the length
    go out in one chunk from the scratch array, contents in further chunks -/
def elemChunks (S : Schema) (f : FieldDesc) (key : Bytes) : Val → List Bytes
  | .msg (some m) => (key ++ varint (sizeMsg S m)) :: chunksMsg S m
  | .msg none => [key ++ [0]]
  | .bin len _ d => [key ++ varint len, takePad len d]
  | .str .null _ => [key ++ [0], []]
  | .str _ s => [key ++ varint s.length, s]
  | v => if f.type == .message then [key ++ [0]]
         else if f.type == .string || f.type == .bytes then [key ++ [0], []]
         else [key ++ scalarBytes f.type v]

def elemsChunks (S : Schema) (f : FieldDesc) (key : Bytes) : Nat → List Val → List Bytes
  | n+1, v :: vs => elemChunks S f key v ++ elemsChunks S f key n vs
  | _, _ => []

def slotChunks (S : Schema) (f : FieldDesc) : Slot → List Bytes
  | .one q v =>
    let key := keyBytes f.id f.type.wireType
    match f.label with
    | .required => elemChunks S f key v
    | .repeated => []
    | l =>
      if f.isOneof then
        if q != f.id then []
        else if (f.type == .message || f.type == .string) && ptrAbsent f v then []
        else elemChunks S f key v
      else if l == .optional then
        if f.type == .message || f.type == .string then
          (if ptrAbsent f v then [] else elemChunks S f key v)
        else if q == 0 then [] else elemChunks S f key v
      else
        if zeroish f.type v then [] else elemChunks S f key v
  | .rep _ none => []
  | .rep n (some l) =>
    if n == 0 then [] else
    if f.packed then
      let es := elemsBytes S f n l
      let hdr := keyBytes f.id 2 ++ varint es.flatten.length
      if isFixedLE f.type then [hdr, es.flatten] else hdr :: es
    else elemsChunks S f (keyBytes f.id f.type.wireType) n l

def slotsChunks (S : Schema) : List FieldDesc → List Slot → List Bytes
  | f :: fs, s :: ss => slotChunks S f s ++ slotsChunks S fs ss
  | _, _ => []

def chunksMsg (S : Schema) : Msg → List Bytes
  | .mk ty slots unk =>
    slotsChunks S (S.msg ty).fields slots ++
      (unk.map fun u => [keyBytes u.tag u.wt, u.data]).flatten
end

end Pbc.Model
