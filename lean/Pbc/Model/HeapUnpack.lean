import Pbc.Model.Unpack
import Pbc.Model.Buf
/-
  L2 (heap view): the same parser, instrumented with the caller's allocator.  Values carry the
  ids of the blocks that hold them, every request goes through `Heap.alloc σ` (σ = refusal
  schedule), every release through `Heap.free`; both error exits and `free_unpacked` are
  modelled with their exact duties and order, so that the event log can be compared with the
  trace of the real code under a recording / refusing allocator (C07, C08).
  `eraseMsg` forgets the ids; the driver checks `eraseMsg (unpackH σ₀ b) = unpack b` on every case.
-/
namespace Pbc.Model
open Pbc Wire

mutual
inductive HVal
  | w32 (v : BitVec 32)
  | w64 (v : BitVec 64)
  | str (p : PtrC) (id : Nat) (s : Bytes)
  | bin (len : Nat) (p : PtrC) (id : Nat) (d : Bytes)
  | msg (m : Option HMsg)
  | zero
inductive HSlot
  | one (q : Nat) (v : HVal)
  | rep (n : Nat) (arr : Option (Nat × List HVal))        -- (block id of the array, elements parsed so far)
inductive HMsg
  | mk (ty : Nat) (id : Nat) (slots : List HSlot) (unkTbl : Option Nat) (unk : List (Unk × Option Nat))
end

instance : Inhabited HVal := ⟨.zero⟩
instance : Inhabited HSlot := ⟨.one 0 .zero⟩
instance : Inhabited HMsg := ⟨.mk 0 0 [] none []⟩

def HSlot.q : HSlot → Nat | .one q _ => q | .rep n _ => n
def HSlot.v : HSlot → HVal | .one _ v => v | .rep _ _ => .zero
def HMsg.slots : HMsg → List HSlot | .mk _ _ s _ _ => s

/-! layout constants of the harness' dynamic descriptors (LP64) -/
def sizeofField (f : FieldDesc) : Nat :=
  if f.isOneof then 0
  else if f.label == .repeated then 16
  else (if f.hasQ then 8 else 0) + (if f.type == .bytes then 16 else 8)
def sizeofMsg (d : MsgDesc) : Nat := 24 + (d.fields.map sizeofField).sum + 24 * d.nGroups
def sizeofScanned : Nat := 32
def sizeofUnk : Nat := 24

mutual
def eraseVal : HVal → Val
  | .w32 v => .w32 v
  | .w64 v => .w64 v
  | .str p _ s => .str p s
  | .bin l p _ d => .bin l p d
  | .msg none => .msg none
  | .msg (some m) => .msg (some (eraseMsg m))
  | .zero => .zero
def eraseVals : List HVal → List Val
  | [] => []
  | v :: vs => eraseVal v :: eraseVals vs
def eraseSlot : HSlot → Slot
  | .one q v => .one q (eraseVal v)
  | .rep n none => .rep n none
  | .rep n (some (_, l)) => .rep n (some (eraseVals l))
def eraseSlots : List HSlot → List Slot
  | [] => []
  | s :: ss => eraseSlot s :: eraseSlots ss
def eraseMsg : HMsg → Msg
  | .mk ty _ slots _ unk => .mk ty (eraseSlots slots) (unk.map (·.1))
end

def liftVal : Val → HVal
  | .w32 v => .w32 v
  | .w64 v => .w64 v
  | .str p s => .str p 0 s
  | .bin l p d => .bin l p 0 d
  | .msg _ => .msg none          -- initial values never hold messages
  | .zero => .zero
def liftSlot : Slot → HSlot
  | .one q v => .one q (liftVal v)
  | .rep n _ => .rep n none

/-! ### protobuf_c_message_free_unpacked -/
def freeUnkData (h : Heap) (u : Unk × Option Nat) : Heap :=
  match u.2 with | some i => h.free i | none => h

mutual
def freeVal (S : Schema) : HVal → Heap → Heap
  | .str .own id _, h => h.free id
  | .bin _ .own id _, h => h.free id
  | .msg (some m), h => freeMsg S m h
  | _, h => h
def freeVals (S : Schema) : List HVal → Heap → Heap
  | [], h => h
  | v :: vs, h => freeVals S vs (freeVal S v h)
def freeSlot (S : Schema) (f : FieldDesc) : HSlot → Heap → Heap
  | .rep _ none, h => h
  | .rep _ (some (id, l)), h => (freeVals S l h).free id
  | .one q v, h => if f.isOneof && f.id != q then h else freeVal S v h
def freeSlots (S : Schema) : List FieldDesc → List HSlot → Heap → Heap
  | f :: fs, s :: ss, h => freeSlots S fs ss (freeSlot S f s h)
  | _, _, h => h
def freeMsg (S : Schema) : HMsg → Heap → Heap
  | .mk ty id slots tbl unk, h =>
    let h1 := freeSlots S (S.msg ty).fields slots h
    let h2 := unk.foldl freeUnkData h1
    let h3 := match tbl with | some t => h2.free t | none => h2
    h3.free id
end

def hgetSlot (slots : List HSlot) (i : Nat) : HSlot := slots.getD i default
def hsetSlot (slots : List HSlot) (i : Nat) (s : HSlot) : List HSlot := slots.set i s
def hqRead (f : FieldDesc) (s : HSlot) : Nat := if f.hasQ then s.q else 1

def hsetCase (g : Nat) (c : Nat) : List FieldDesc → List HSlot → List HSlot
  | f :: fs, s :: ss =>
    (if f.group == some g then (match s with | .one _ v => .one c v | s => s) else s) :: hsetCase g c fs ss
  | _, ss => ss
def hzeroGroup (g : Nat) : List FieldDesc → List HSlot → List HSlot
  | f :: fs, s :: ss =>
    (if f.group == some g then (match s with | .one q _ => .one q .zero | s => s) else s) :: hzeroGroup g fs ss
  | _, ss => ss

def hstrIsDflt (f : FieldDesc) (v : HVal) : Bool :=
  match v with
  | .str .null _ _ => f.dflt == .none
  | .str .dflt _ _ => true
  | .str _ _ _ => false
  | _ => f.dflt == .none
def hstrSet (v : HVal) : Bool :=
  match v with
  | .str .own _ _ => true
  | .str .empty _ _ => true
  | _ => false
def hbinNull (v : HVal) : Bool := match v with | .bin _ .null _ _ => true | .bin _ _ _ _ => false | _ => true
def hbinDflt (v : HVal) : Bool := match v with | .bin _ .dflt _ _ => true | _ => false

/-- members counted so far at which a new slab is allocated: 16, 48, 112, ...; returns the slab number -/
def slabAt (k : Nat) : Option Nat :=
  (List.range 23).find? (fun j => k == 16 * (2 ^ (j + 1) - 1)) |>.map (· + 1)

/-- did this scan iteration get as far as the slab allocation (key, extent and limit checks passed)? -/
def reachesSlabPoint (b : Bytes) (st : ScanState) : Bool :=
  match scanKey b with
  | none => false
  | some (used, _, wt) =>
    match delimit wt (b.drop used) with
    | none => false
    | some _ => st.acc.length < maxScanned

/-- scan pass with slab allocations; returns (scan state or none, slab block ids, heap) -/
def scanLoopH (σ : Nat → Bool) (fields : List FieldDesc) : Nat → Bytes → ScanState → List Nat → Heap →
    Option ScanState × List Nat × Heap
  | 0, b, st, slabs, h => (if b.isEmpty then some st else none, slabs, h)
  | fuel+1, b, st, slabs, h =>
    if b.isEmpty then (some st, slabs, h) else
    let slabNeeded := if reachesSlabPoint b st then slabAt st.acc.length else none
    match slabNeeded with
    | some j =>
      (match h.alloc σ (sizeofScanned * 2 ^ (j + 4)) with
       | (none, h1) => (none, slabs, h1)
       | (some id, h1) =>
         match scanStep fields b st with
         | none => (none, slabs ++ [id], h1)
         | some (b', st') => scanLoopH σ fields fuel b' st' (slabs ++ [id]) h1)
    | none =>
      match scanStep fields b st with
      | none => (none, slabs, h)
      | some (b', st') => scanLoopH σ fields fuel b' st' slabs h

def freeList (ids : List Nat) (h : Heap) : Heap := ids.foldl (fun h i => h.free i) h

/-- allocate the arrays of the repeated fields (in field order); on refusal returns the slots so far -/
def allocArrays (σ : Nat → Bool) (fields : List FieldDesc) (counts : List (Nat × Nat)) :
    Nat → List FieldDesc → List HSlot → Heap → Bool × List HSlot × Heap
  | _, [], ss, h => (true, ss, h)
  | _, _ :: _, [], h => (true, [], h)
  | i, f :: fs, s :: ss, h =>
    if f.label == .repeated then
      let n := (counts.filter (fun c => c.1 == i)).foldl (fun a c => a + c.2) 0
      if n != 0 then
        match h.alloc σ (f.type.eltSize * n) with
        | (none, h1) => (false, .rep 0 none :: ss.map (fun s => match s with | .rep _ a => .rep 0 a | s => s), h1)
        | (some id, h1) =>
          let (ok, ss', h2) := allocArrays σ fields counts (i + 1) fs ss h1
          (ok, .rep 0 (some (id, [])) :: ss', h2)
      else
        let (ok, ss', h2) := allocArrays σ fields counts (i + 1) fs ss h
        (ok, s :: ss', h2)
    else
      let (ok, ss', h2) := allocArrays σ fields counts (i + 1) fs ss h
      (ok, s :: ss', h2)

mutual
/-- `merge_messages(earlier, latter)`: (success, earlier', latter', heap) -/
def mergeMsgH (S : Schema) (σ : Nat → Bool) : Nat → HMsg → HMsg → Heap → Bool × HMsg × HMsg × Heap
  | 0, e, l, h => (false, e, l, h)
  | fuel+1, .mk ety eid es etbl eunk, .mk ty lid ls ltbl lunk, h =>
    let fields := (S.msg ty).fields
    let (ok, es', ls', h') := mergeFieldsH S σ fuel fields fields.length 0 es ls h
    if !ok then (false, .mk ety eid es' etbl eunk, .mk ty lid ls' ltbl lunk, h')
    else if eunk.length > 0 then
      -- concatenate the unknown-field tables: earlier first; the field data change owner
      match h'.alloc σ ((eunk.length + lunk.length) * sizeofUnk) with
      | (none, h1) => (false, .mk ety eid es' etbl eunk, .mk ty lid ls' ltbl lunk, h1)
      | (some t, h1) =>
        let h2 := match ltbl with | some i => h1.free i | none => h1
        let h3 := match etbl with | some i => h2.free i | none => h2
        (true, .mk ety eid es' none [], .mk ty lid ls' (some t) (eunk ++ lunk), h3)
    else (true, .mk ety eid es' etbl eunk, .mk ty lid ls' ltbl lunk, h')

def mergeFieldsH (S : Schema) (σ : Nat → Bool) (fuel : Nat) (fields : List FieldDesc) :
    Nat → Nat → List HSlot → List HSlot → Heap → Bool × List HSlot × List HSlot × Heap
  | 0, _, es, ls, h => (true, es, ls, h)
  | k+1, i, es, ls, h =>
    let fi := fields.getD i default
    let next := fun es' ls' h' => mergeFieldsH S σ fuel fields k (i + 1) es' ls' h'
    if fi.label == .repeated then
      match hgetSlot es i, hgetSlot ls i with
      | .rep ne ea, .rep nl la =>
        if ne > 0 then
          if nl > 0 then
            match h.alloc σ ((ne + nl) * fi.type.eltSize) with
            | (none, h1) => (false, es, ls, h1)
            | (some id, h1) =>
              let h2 := match la with | some (lid, _) => h1.free lid | none => h1
              let h3 := match ea with | some (eid, _) => h2.free eid | none => h2
              let elems := ((ea.map (·.2)).getD []).take ne ++ ((la.map (·.2)).getD []).take nl
              next (hsetSlot es i (.rep 0 none)) (hsetSlot ls i (.rep (ne + nl) (some (id, elems)))) h3
          else next (hsetSlot es i (.rep 0 none)) (hsetSlot ls i (.rep ne ea)) h
        else next es ls h
      | _, _ => next es ls h
    else if fi.label == .optional || fi.label == .none || (fi.label == .required && fi.type == .message) then
      let ecase := hqRead fi (hgetSlot es i)
      let lcase := hqRead fi (hgetSlot ls i)
      let sel : Option (Option Nat) :=
        if fi.isOneof then
          if lcase == 0 then
            if ecase == 0 then some none
            else match lookupField fields ecase with
              | none => none
              | some j => some (some j)
          else if lcase == ecase && fi.id == lcase && fi.type == .message then some (some i)
          else some none
        else some (some i)
      match sel with
      | none => (false, es, ls, h)
      | some none => next es ls h
      | some (some j) =>
        let f := fields.getD j default
        let ev := (hgetSlot es j).v
        let lv := (hgetSlot ls j).v
        -- (proceed?, need_to_merge, earlier slots, latter slots, heap)
        let step : Bool × Bool × List HSlot × List HSlot × Heap :=
          match f.type with
          | .message =>
            (match ev, lv with
             | .msg (some em), .msg (some lm) =>
               (match fuel with
                | 0 => (false, false, es, ls, h)
                | fuel'+1 =>
                  let (ok, em', lm', h1) := mergeMsgH S σ (fuel'+1) em lm h
                  (ok, false,
                   hsetSlot es j (match hgetSlot es j with | .one q _ => .one q (.msg (some em')) | s => s),
                   hsetSlot ls j (match hgetSlot ls j with | .one q _ => .one q (.msg (some lm')) | s => s), h1))
             | .msg (some _), _ => (true, true, es, ls, h)
             | _, _ => (true, false, es, ls, h))
          | .bytes =>
            if f.hasQ then (true, ecase != 0 && lcase == 0, es, ls, h)
            else
            (true, (!hbinNull ev && (f.dflt == .none || !hbinDflt ev)) &&
                   (hbinNull lv || (f.dflt != .none && hbinDflt lv)), es, ls, h)
          | .string => (true, hstrSet ev && !hstrSet lv, es, ls, h)
          | t =>
            if fi.label == .none && !fi.isOneof then (true, !zeroish t (eraseVal ev) && zeroish t (eraseVal lv), es, ls, h)
            else (true, ecase != 0 && lcase == 0, es, ls, h)
        match step with
        | (false, _, es1, ls1, h1) => (false, es1, ls1, h1)
        | (true, false, es1, ls1, h1) => next es1 ls1 h1
        | (true, true, es1, ls1, h1) =>
          let ls2 := hsetSlot ls1 j (match hgetSlot ls1 j with | .one q _ => .one q ev | s => s)
          let es2 := hsetSlot es1 j (match hgetSlot es1 j with | .one q _ => .one q .zero | s => s)
          if f.hasQ then
            match f.group with
            | some g => next (hsetCase g 0 fields es2) (hsetCase g ecase fields ls2) h1
            | none =>
              next (hsetSlot es2 j (match hgetSlot es2 j with | .one _ v => .one 0 v | s => s))
                   (hsetSlot ls2 j (match hgetSlot ls2 j with | .one _ v => .one ecase v | s => s)) h1
          else next es2 ls2 h1
    else next es ls h

/-- `parse_required_member`: (success, new member value, heap).  On failure the value is what
    the C code leaves in the member (NULL pointer / stale length). -/
def parseRequiredH (S : Schema) (σ : Nat → Bool) (fuel : Nat) (f : FieldDesc) (sm : Scanned) (old : HVal)
    (maybeClear : Bool) (h : Heap) : Bool × HVal × Heap :=
  if !wtOk f.type sm.wt then (false, old, h) else
  match f.type with
  | .string =>
    let h1 := match old, maybeClear with
      | .str .own id _, true => h.free id
      | _, _ => h
    let body := sm.data.drop sm.prefLen
    (match h1.alloc σ (body.length + 1) with
     | (none, h2) => (false, .str .null 0 [], h2)
     | (some id, h2) => (true, .str .own id (body.takeWhile (fun b => b != 0)), h2))
  | .bytes =>
    let h1 := match old, maybeClear with
      | .bin _ .own id _, true => h.free id
      | _, _ => h
    let d := sm.data.drop sm.prefLen
    if d.length > 0 then
      (match h1.alloc σ d.length with
       | (none, h2) => (false, .bin (match old with | .bin l _ _ _ => l | _ => 0) .null 0 [], h2)
       | (some id, h2) => (true, .bin d.length .own id d, h2))
    else (true, .bin 0 .null 0 [], h1)
  | .message =>
    match fuel with
    | 0 => (false, old, h)
    | fuel'+1 =>
      let (sub, h1) := unpackMsgH S σ fuel' f.sub (sm.data.drop sm.prefLen) h
      match old, maybeClear with
      | .msg (some om), true =>
        (match sub with
         | none =>
           let h2 := freeMsg S om h1
           (false, .msg none, h2)
         | some sm' =>
           let (ok, om', lm', h2) := mergeMsgH S σ (fuel'+1) om sm' h1
           let h3 := freeMsg S om' h2
           (ok, .msg (some lm'), h3))
      | _, _ =>
        (match sub with
         | none => (false, .msg none, h1)
         | some m => (true, .msg (some m), h1))
  | t => (true, (match parseScalar t sm.data with | .w32 v => .w32 v | .w64 v => .w64 v | _ => .zero), h)

/-- `parse_member`: (success, message as the C code leaves it, heap) -/
def parseMemberH (S : Schema) (σ : Nat → Bool) (fuel : Nat) (fields : List FieldDesc) (sm : Scanned) :
    HMsg → Heap → Bool × HMsg × Heap
  | .mk ty id slots tbl unk, h =>
    match sm.fidx with
    | none =>
      (match h.alloc σ sm.data.length with
       | (none, h1) => (false, .mk ty id slots tbl (unk ++ [(⟨sm.tag, sm.wt, sm.data⟩, none)]), h1)
       | (some d, h1) => (true, .mk ty id slots tbl (unk ++ [(⟨sm.tag, sm.wt, sm.data⟩, some d)]), h1))
    | some i =>
      let f := fields.getD i default
      match f.label with
      | .required =>
        let (ok, v, h1) := parseRequiredH S σ fuel f sm (hgetSlot slots i).v true h
        (ok, .mk ty id (hsetSlot slots i (.one (hgetSlot slots i).q v)) tbl unk, h1)
      | .repeated =>
        (match hgetSlot slots i with
         | .rep n arr =>
           if usesPackedPath f sm.wt then
             (match parsePacked f.type (sm.data.drop sm.prefLen) with
              | none => (false, .mk ty id slots tbl unk, h)
              | some vs =>
                let hv := vs.map liftVal
                (true, .mk ty id (hsetSlot slots i (.rep (n + vs.length)
                   (match arr with | some (a, l) => some (a, l ++ hv) | none => none))) tbl unk, h))
           else
             let (ok, v, h1) := parseRequiredH S σ fuel f sm .zero false h
             if ok then
               (true, .mk ty id (hsetSlot slots i (.rep (n + 1)
                  (match arr with | some (a, l) => some (a, l ++ [v]) | none => none))) tbl unk, h1)
             else (false, .mk ty id slots tbl unk, h1)
         | _ => (false, .mk ty id slots tbl unk, h))
      | _ =>
        match f.group with
        | some g =>
          let q := (hgetSlot slots i).q
          if q != 0 && !(q == sm.tag && f.type == .message) then
            match lookupField fields q with
            | none => (false, .mk ty id slots tbl unk, h)
            | some oi =>
              -- release the previously selected member, then zero the union
              let h1 := freeVal S (hgetSlot slots oi).v h
              let slots1 := hzeroGroup g fields slots
              let (ok, v, h2) := parseRequiredH S σ fuel f sm (hgetSlot slots1 i).v true h1
              if ok then (true, .mk ty id (hsetCase g sm.tag fields (hsetSlot slots1 i (.one q v))) tbl unk, h2)
              else (false, .mk ty id (hsetSlot slots1 i (.one q v)) tbl unk, h2)
          else
            let (ok, v, h2) := parseRequiredH S σ fuel f sm (hgetSlot slots i).v true h
            if ok then (true, .mk ty id (hsetCase g sm.tag fields (hsetSlot slots i (.one q v))) tbl unk, h2)
            else (false, .mk ty id (hsetSlot slots i (.one q v)) tbl unk, h2)
        | none =>
          let (ok, v, h1) := parseRequiredH S σ fuel f sm (hgetSlot slots i).v true h
          (ok, .mk ty id (hsetSlot slots i (.one (if ok && f.hasQ then 1 else (hgetSlot slots i).q) v)) tbl unk, h1)

def parseAllH (S : Schema) (σ : Nat → Bool) (fuel : Nat) (fields : List FieldDesc) :
    List Scanned → HMsg → Heap → Bool × HMsg × Heap
  | [], m, h => (true, m, h)
  | sm :: rest, m, h =>
    match parseMemberH S σ fuel fields sm m h with
    | (false, m', h') => (false, m', h')
    | (true, m', h') => parseAllH S σ fuel fields rest m' h'

/-- `protobuf_c_message_unpack` with allocator `σ`: (message or NULL, heap) -/
def unpackMsgH (S : Schema) (σ : Nat → Bool) (fuel : Nat) (t : Nat) (b : Bytes) (h : Heap) : Option HMsg × Heap :=
  let d := S.msg t
  let fields := d.fields
  match h.alloc σ (sizeofMsg d) with
  | (none, h1) => (none, h1)
  | (some rv, h1) =>
    let nb := (fields.length + 7) / 8
    let bmr : Option (Option Nat) × Heap :=
      if nb > 16 then (match h1.alloc σ nb with | (none, h2) => (none, h2) | (some i, h2) => (some (some i), h2))
      else (some none, h1)
    match bmr with
    | (none, h2) => (none, h2.free rv)
    | (some bm, h2) =>
      let freeBm := fun (h : Heap) => match bm with | some i => h.free i | none => h
      match scanLoopH σ fields b.length b ⟨if fields.isEmpty then none else some 0, 0, [], [], [], 0⟩ [] h2 with
      | (none, slabs, h3) => (none, freeBm (freeList slabs (h3.free rv)))        -- error_cleanup_during_scan
      | (some st, slabs, h3) =>
        let m0 : HMsg := .mk t rv ((initMsg S t).slots.map liftSlot) none []
        let cleanup := fun (m : HMsg) (h : Heap) => freeBm (freeList slabs (freeMsg S m h))   -- error_cleanup
        -- arrays, in field order, interleaved with the required-field check
        let reqBad := fun (i : Nat) =>
          let f := fields.getD i default
          f.label == .required && f.dflt == .none && !st.bitmap.contains i
        -- first failing required field index (the loop stops there)
        let firstBad := (List.range fields.length).find? reqBad
        let upto := firstBad.getD fields.length
        -- allocate arrays only for fields before the first missing required field
        let counts := st.counts.filter (fun c => c.1 < upto)
        let (okA, slots1, h4) := allocArrays σ fields counts 0 fields m0.slots h3
        let m1 : HMsg := .mk t rv slots1 none []
        if !okA then (none, cleanup m1 h4)
        else if firstBad.isSome then (none, cleanup m1 h4)
        else
          let tblr : Option (Option Nat) × Heap :=
            if st.nUnknown > 0 then (match h4.alloc σ (st.nUnknown * sizeofUnk) with
                                      | (none, h5) => (none, h5) | (some i, h5) => (some (some i), h5))
            else (some none, h4)
          match tblr with
          | (none, h5) => (none, cleanup m1 h5)
          | (some tbl, h5) =>
            let m2 : HMsg := .mk t rv slots1 tbl []
            match parseAllH S σ fuel fields st.acc.reverse m2 h5 with
            | (false, m3, h6) => (none, cleanup m3 h6)
            | (true, m3, h6) => (some m3, freeBm (freeList slabs h6))
end

def unpackH (S : Schema) (σ : Nat → Bool) (t : Nat) (b : Bytes) : Option HMsg × Heap :=
  unpackMsgH S σ (b.length + 1) t b {}

end Pbc.Model
