import Pbc.Desc
/-
  L2: the descriptor lookups.  All four binary searches of protobuf-c.c have one loop shape
  (`while (count > 1) { mid = start + count/2; ... }` followed by a final probe of `start`);
  `bsearch` is that loop over an abstract three-way comparison, instantiated for
  * `int_range_lookup` (key against the run of consecutive numbers starting at ranges[mid]),
  * the three by-name searches (strcmp against the name-sorted index).
  `mkRanges` is the generator's WriteIntRanges (protoc-gen-c/c_helpers.cc).
-/
namespace Pbc.Model

/-- `cmp i` = where the key lies relative to entry i: `.lt` key is before it, `.gt` after, `.eq` hit -/
def bsearch (cmp : Nat → Ordering) : Nat → Nat → Nat → Option Nat
  | 0, _, _ => none
  | fuel+1, start, count =>
    if count > 1 then
      let mid := start + count / 2
      match cmp mid with
      | .eq => some mid
      | .gt => bsearch cmp fuel (mid + 1) (start + count - (mid + 1))
      | .lt => bsearch cmp fuel start (mid - start)
    else if count = 0 then none
    else if cmp start = .eq then some start else none

/-- a ProtobufCIntRange table: (start_value, orig_index) per run, plus the sentinel's orig_index -/
structure Ranges where
  runs : List (Int × Nat)
  total : Nat
  deriving Repr, Inhabited

def Ranges.startOf (r : Ranges) (i : Nat) : Int := (r.runs.getD i (0, 0)).1
def Ranges.origOf (r : Ranges) (i : Nat) : Nat := if i < r.runs.length then (r.runs.getD i (0, 0)).2 else r.total
def Ranges.sizeOf (r : Ranges) (i : Nat) : Nat := r.origOf (i + 1) - r.origOf i

/-- three-way comparison of `int_range_lookup` at run `i` (after the F9 repair: no overflow) -/
def rangeCmp (r : Ranges) (v : Int) (i : Nat) : Ordering :=
  if v < r.startOf i then .lt
  else if v - r.startOf i ≥ (r.sizeOf i : Int) then .gt
  else .eq

/-- `int_range_lookup`: index into the value-sorted array, or none (= -1) -/
def rangeLookup (r : Ranges) (v : Int) : Option Nat :=
  (bsearch (rangeCmp r v) (r.runs.length + 1) 0 r.runs.length).map
    (fun i => (v - r.startOf i).toNat + r.origOf i)

/-- WriteIntRanges: one run per maximal block of consecutive values -/
def mkRunsAux : Int → Nat → List Int → List (Int × Nat)
  | _, _, [] => []
  | prev, idx, v :: vs => if v = prev + 1 then mkRunsAux v (idx + 1) vs else (v, idx) :: mkRunsAux v (idx + 1) vs

def mkRanges : List Int → Ranges
  | [] => ⟨[], 0⟩
  | v :: vs => ⟨(v, 0) :: mkRunsAux v 1 vs, vs.length + 1⟩

/-- `strcmp`-style comparison of byte strings (names are NUL-free): lexicographic on bytes -/
def cmpBytes : List Nat → List Nat → Ordering
  | [], [] => .eq
  | [], _ :: _ => .lt
  | _ :: _, [] => .gt
  | a :: as, b :: bs => if a < b then .lt else if a > b then .gt else cmpBytes as bs

/-- by-name lookup through a name-sorted index (`fields_sorted_by_name`, `values_by_name`,
    `method_indices_by_name`): returns the index stored in the hit entry -/
def nameLookup (sorted : List (List Nat × Nat)) (name : List Nat) : Option Nat :=
  (bsearch (fun i => cmpBytes name (sorted.getD i ([], 0)).1) (sorted.length + 1) 0 sorted.length).map
    (fun i => (sorted.getD i ([], 0)).2)

end Pbc.Model
