import Pbc.Wire
/-
  L2: ProtobufCBufferSimple and protobuf_c_buffer_simple_append, with the allocator events.
-/
namespace Pbc.Model
open Pbc

inductive Ev
  | alloc (id size : Nat)
  | refuse (size : Nat)
  | free (id : Nat)
  deriving DecidableEq, Repr, Inhabited

/-- allocator state: next block id, number of requests so far, event log (oldest first) -/
structure Heap where
  next : Nat := 0
  reqs : Nat := 0
  log : List Ev := []
  deriving Repr, Inhabited

/-- the k-th request (counting from 0) is refused iff `σ k` -/
def Heap.alloc (σ : Nat → Bool) (h : Heap) (size : Nat) : Option Nat × Heap :=
  if σ h.reqs then (none, { h with reqs := h.reqs + 1, log := h.log ++ [.refuse size] })
  else (some h.next, { next := h.next + 1, reqs := h.reqs + 1, log := h.log ++ [.alloc h.next size] })

def Heap.free (h : Heap) (id : Nat) : Heap := { h with log := h.log ++ [.free id] }

/-- blocks outstanding after a log; `none` = a block was freed twice or never allocated -/
def liveAfter : List Ev → List Nat → Option (List Nat)
  | [], live => some live
  | .alloc id _ :: es, live => liveAfter es (id :: live)
  | .refuse _ :: es, live => liveAfter es live
  | .free id :: es, live => if live.contains id then liveAfter es (live.erase id) else none

def Balanced (log : List Ev) : Prop := liveAfter log [] = some []
instance (log : List Ev) : Decidable (Balanced log) := inferInstanceAs (Decidable (_ = _))

/-- ProtobufCBufferSimple: capacity, contents (len = data.length), owning heap block if any -/
structure SimpleBuf where
  alloced : Nat
  data : Bytes
  block : Option Nat        -- some id ↔ must_free_data
  deriving Repr, Inhabited

/-- `while (new_alloced < new_len) new_alloced += new_alloced;` (fuel = iterations allowed) -/
def growTo (need : Nat) : Nat → Nat → Option Nat
  | 0, a => if a < need then none else some a
  | fuel+1, a => if a < need then growTo need fuel (a + a) else some a

/-- `protobuf_c_buffer_simple_append`; `none` = the doubling loop does not terminate (capacity 0) -/
def SimpleBuf.append (σ : Nat → Bool) (b : SimpleBuf) (h : Heap) (d : Bytes) : Option (SimpleBuf × Heap) :=
  let newLen := b.data.length + d.length
  if newLen > b.alloced then
    match growTo newLen newLen (b.alloced * 2) with
    | none => none
    | some na =>
      match h.alloc σ na with
      | (none, h1) => some (b, h1)                      -- refused: silently return, nothing changed
      | (some id, h1) =>
        let h2 := match b.block with | some old => h1.free old | none => h1
        some ({ alloced := na, data := b.data ++ d, block := some id }, h2)
  else some ({ b with data := b.data ++ d }, h)

end Pbc.Model
