import Pbc.Model.Pack
/-
  L2: protobuf_c_message_check, and `Safe` = the serialisers dereference no null pointer
  (what they read unconditionally, per label and type).
-/
namespace Pbc.Model
open Pbc

/-- low word of the descriptor pointer, which is what a quantifier read through
    `quantifier_offset == 0` sees: an address, so neither 0 nor 1 (stated host assumption) -/
def ptrLow : Nat := 8

mutual
/-- `protobuf_c_message_check` on a non-null message -/
def checkMsg (S : Schema) : Msg → Bool
  | .mk ty slots _ => checkSlots S (S.msg ty).fields slots

def checkSlots (S : Schema) : List FieldDesc → List Slot → Bool
  | f :: fs, s :: ss => checkSlot S f s && checkSlots S fs ss
  | _, _ => true

/-- a singular member that is looked at (not an unselected oneof member); value kinds are those
    of a C-representable message (`.zero` = zeroed union storage) -/
def checkSingle (S : Schema) (f : FieldDesc) (q : Nat) : Val → Bool
  | .msg (some m) => checkMsg S m
  | .msg none => f.label != .required
  | .str .null _ => f.label != .required
  | .zero => !((f.type == .message || f.type == .string) && f.label == .required)
  | .bin len .null _ =>
    -- serialised when required, selected oneof member, proto3 (no has_ member) or marked present
    if f.label == .required || f.label == .none || f.isOneof || q != 0 then len == 0 else true
  | _ => true

def checkSlot (S : Schema) (f : FieldDesc) : Slot → Bool
  | .rep n none => if f.label != .repeated then true else n == 0
  | .rep n (some l) => if f.label != .repeated then true else checkElems S f n l
  | .one q v =>
    if f.isOneof && f.id != q then true
    else if f.label == .repeated then true
    else checkSingle S f q v

/-- one element of a repeated field: sub-message checked recursively (NULL fails), string
    non-NULL, bytes with a length have data -/
def checkElem (S : Schema) (f : FieldDesc) : Val → Bool
  | .msg (some m) => checkMsg S m
  | .msg none => false
  | .str .null _ => false
  | .zero => !(f.type == .message || f.type == .string)
  | .bin len .null _ => len == 0
  | _ => true

def checkElems (S : Schema) (f : FieldDesc) : Nat → List Val → Bool
  | n+1, v :: vs => checkElem S f v && checkElems S f n vs
  | 0, _ => true
  | _+1, [] => true       -- fewer elements than n: cannot be expressed by a C array; excluded by Safe/WF
end

mutual
/-- no null pointer is dereferenced by get_packed_size / pack / pack_to_buffer -/
def safeMsg (S : Schema) : Msg → Bool
  | .mk ty slots _ => safeSlots S (S.msg ty).fields slots

def safeSlots (S : Schema) : List FieldDesc → List Slot → Bool
  | f :: fs, s :: ss => safeSlot S f s && safeSlots S fs ss
  | [], [] => true
  | _, _ => false

def safeElem (S : Schema) (_f : FieldDesc) (inArray : Bool) : Val → Bool
  | .msg (some m) => safeMsg S m
  | .msg none => !inArray
  | .str .null _ => !inArray
  | .str _ _ => true
  | .bin len .null _ => len == 0
  | .bin len _ d => len ≤ d.length
  | .zero => !inArray
  | _ => true

def safeElems (S : Schema) (f : FieldDesc) : Nat → List Val → Bool
  | n+1, v :: vs => safeElem S f true v && safeElems S f n vs
  | 0, _ => true
  | _+1, [] => false

def safeSlot (S : Schema) (f : FieldDesc) : Slot → Bool
  | .rep n arr =>
    f.label == .repeated &&
    (match arr with
     | none => n == 0
     | some l => safeElems S f n l)
  | .one q v =>
    match f.label with
    | .required => safeElem S f false v
    | .repeated => false
    | l =>
      if f.isOneof then
        if q != f.id then true
        else if (f.type == .message || f.type == .string) && ptrAbsent f v then true
        else safeElem S f false v
      else if l == .optional then
        if f.type == .message || f.type == .string then (if ptrAbsent f v then true else safeElem S f false v)
        else if q == 0 then true else safeElem S f false v
      else if zeroish f.type v then true else safeElem S f false v
end

end Pbc.Model
