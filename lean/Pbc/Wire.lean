/-
  L1: wire-level encoding primitives of Protocol Buffers, independent of protobuf-c.
  Core Lean only (no Mathlib), so that the driver links as a lean_exe.
-/
namespace Pbc

abbrev Byte := BitVec 8
abbrev Bytes := List Byte

namespace Wire

/-- fuel-indexed worker for `varint` (structural recursion, so that closed terms evaluate by
    `decide`/`rfl`; the fuel `n` is always more than enough, see `varintAux_fuel`) -/
def varintAux : Nat → Nat → Bytes
  | 0, n => [BitVec.ofNat 8 n]
  | fuel+1, n => if n < 128 then [BitVec.ofNat 8 n] else BitVec.ofNat 8 (n % 128 + 128) :: varintAux fuel (n / 128)

/-- Shortest base-128 (varint) encoding of a natural number. -/
def varint (n : Nat) : Bytes := varintAux n n

def varintLenAux : Nat → Nat → Nat
  | 0, _ => 1
  | fuel+1, n => if n < 128 then 1 else 1 + varintLenAux fuel (n / 128)

/-- Number of bytes of the shortest varint. -/
def varintLen (n : Nat) : Nat := varintLenAux n n

theorem varintAux_fuel (f1 f2 n : Nat) (h1 : n ≤ f1) (h2 : n ≤ f2) : varintAux f1 n = varintAux f2 n := by
  induction f1 generalizing f2 n with
  | zero =>
    have : n = 0 := by omega
    subst this
    cases f2 <;> simp [varintAux]
  | succ f1 ih =>
    cases f2 with
    | zero =>
      have : n = 0 := by omega
      subst this; simp [varintAux]
    | succ f2 =>
      simp only [varintAux]
      split
      · rfl
      · rw [ih f2 (n / 128) (by omega) (by omega)]

theorem varintLenAux_fuel (f1 f2 n : Nat) (h1 : n ≤ f1) (h2 : n ≤ f2) : varintLenAux f1 n = varintLenAux f2 n := by
  induction f1 generalizing f2 n with
  | zero =>
    have : n = 0 := by omega
    subst this
    cases f2 <;> simp [varintLenAux]
  | succ f1 ih =>
    cases f2 with
    | zero =>
      have : n = 0 := by omega
      subst this; simp [varintLenAux]
    | succ f2 =>
      simp only [varintLenAux]
      split
      · rfl
      · rw [ih f2 (n / 128) (by omega) (by omega)]

/-- the defining equation -/
theorem varint_eq (n : Nat) :
    varint n = if n < 128 then [BitVec.ofNat 8 n] else BitVec.ofNat 8 (n % 128 + 128) :: varint (n / 128) := by
  unfold varint
  cases n with
  | zero => simp [varintAux]
  | succ n =>
    simp only [varintAux]
    split
    · rfl
    · rw [varintAux_fuel n ((n + 1) / 128) ((n + 1) / 128) (by omega) (Nat.le_refl _)]

theorem varintLen_eq (n : Nat) : varintLen n = if n < 128 then 1 else 1 + varintLen (n / 128) := by
  unfold varintLen
  cases n with
  | zero => simp [varintLenAux]
  | succ n =>
    simp only [varintLenAux]
    split
    · rfl
    · rw [varintLenAux_fuel n ((n + 1) / 128) ((n + 1) / 128) (by omega) (Nat.le_refl _)]

theorem varint_length (n : Nat) : (varint n).length = varintLen n := by
  induction n using Nat.strongRecOn with
  | _ n ih =>
    rw [varint_eq, varintLen_eq]
    split
    · rfl
    · simp [ih (n / 128) (by omega)]; omega

theorem varintLen_pos (n : Nat) : 0 < varintLen n := by
  rw [varintLen_eq]; split <;> omega

theorem varint_ne_nil (n : Nat) : varint n ≠ [] := by
  rw [varint_eq]; split <;> simp

/-- Value of a sequence of 7-bit groups, least significant first; continuation bits ignored.
    This is what `parse_uint32`/`parse_uint64` compute before truncation. -/
def decGroups : Bytes → Nat
  | [] => 0
  | b :: bs => b.toNat % 128 + 128 * decGroups bs

/-- Index of the terminating byte (first byte with the top bit clear) plus one, looking at
    no more than `max` bytes.  `none` = unterminated within `max` bytes / input exhausted.
    This is the loop of the scan pass and of `scan_varint`. -/
def scanVarint : (max : Nat) → Bytes → Option Nat
  | 0, _ => none
  | _, [] => none
  | max+1, b :: bs => if b.toNat < 128 then some 1 else (scanVarint max bs).map (· + 1)

theorem scanVarint_le {max : Nat} {b : Bytes} {n : Nat} (h : scanVarint max b = some n) :
    0 < n ∧ n ≤ max ∧ n ≤ b.length := by
  induction max generalizing b n with
  | zero => simp [scanVarint] at h
  | succ max ih =>
    cases b with
    | nil => simp [scanVarint] at h
    | cons x xs =>
      simp only [scanVarint] at h
      split at h
      · cases h; simp
      · cases hs : scanVarint max xs with
        | none => simp [hs] at h
        | some k =>
          simp [hs] at h; subst h
          have := ih hs; simp; omega

theorem toUInt8_toNat_lt (n : Nat) (h : n < 256) : (BitVec.ofNat 8 n).toNat = n := by
  simp [BitVec.toNat_ofNat]; omega

theorem decGroups_varint (n : Nat) : decGroups (varint n) = n := by
  induction n using Nat.strongRecOn with
  | _ n ih =>
    rw [varint_eq]
    split
    · simp [decGroups, toUInt8_toNat_lt n (by omega)]; omega
    · simp only [decGroups, ih (n / 128) (by omega)]
      rw [toUInt8_toNat_lt _ (by omega)]; omega

theorem decGroups_varint_append (n : Nat) (rest : Bytes) :
    decGroups ((varint n ++ rest).take (varintLen n)) = n := by
  rw [← varint_length, List.take_left']
  exact decGroups_varint n
  rfl

theorem scanVarint_varint (n : Nat) (rest : Bytes) (max : Nat) (h : varintLen n ≤ max) :
    scanVarint max (varint n ++ rest) = some (varintLen n) := by
  induction n using Nat.strongRecOn generalizing max with
  | _ n ih =>
    by_cases hn : n < 128
    · have e1 : varint n = [BitVec.ofNat 8 n] := by rw [varint_eq]; simp [hn]
      have e2 : varintLen n = 1 := by rw [varintLen_eq]; simp [hn]
      rw [e2] at h; rw [e1, e2]
      cases max with
      | zero => omega
      | succ m => simp [scanVarint, toUInt8_toNat_lt n (by omega), hn]
    · have e1 : varint n = BitVec.ofNat 8 (n % 128 + 128) :: varint (n / 128) := by
        rw [varint_eq]; simp [hn]
      have e2 : varintLen n = 1 + varintLen (n / 128) := by
        rw [varintLen_eq]; simp [hn]
      rw [e2] at h; rw [e1, e2]
      cases max with
      | zero => omega
      | succ m =>
        simp only [List.cons_append, scanVarint]
        rw [toUInt8_toNat_lt _ (by omega)]
        have : ¬ (n % 128 + 128 < 128) := by omega
        simp only [this, ite_false]
        rw [ih (n / 128) (by omega) m (by omega)]
        simp; omega

/-- Every byte of a shortest varint except the last has its top bit set; the last has it clear. -/
theorem varintLen_le_of_lt (n k : Nat) (h : n < 128 ^ k) (hk : 0 < k) : varintLen n ≤ k := by
  induction k generalizing n with
  | zero => omega
  | succ k ih =>
    rw [varintLen_eq]
    split
    · omega
    · rename_i hn
      have hk' : 0 < k := by
        cases k with
        | zero => simp at h; omega
        | succ _ => omega
      have : n / 128 < 128 ^ k := by
        rw [Nat.pow_succ] at h
        exact Nat.div_lt_of_lt_mul (by rw [Nat.mul_comm]; exact h)
      have := ih (n / 128) this hk'
      omega

theorem varintLen_u64 (n : Nat) (h : n < 2 ^ 64) : varintLen n ≤ 10 :=
  varintLen_le_of_lt n 10 (by
    have : (2:Nat)^64 ≤ 128^10 := by decide
    omega) (by omega)

theorem varintLen_u32 (n : Nat) (h : n < 2 ^ 32) : varintLen n ≤ 5 :=
  varintLen_le_of_lt n 5 (by
    have : (2:Nat)^32 ≤ 128^5 := by decide
    omega) (by omega)

/-- `varintLen` is monotone. -/
theorem varintLen_mono {a b : Nat} (h : a ≤ b) : varintLen a ≤ varintLen b := by
  induction b using Nat.strongRecOn generalizing a with
  | _ b ih =>
    rw [varintLen_eq a, varintLen_eq b]
    split <;> split
    · omega
    · omega
    · omega
    · have := ih (b / 128) (by omega) (a := a / 128) (Nat.div_le_div_right h)
      omega

theorem lt_pow_varintLen (n : Nat) : n < 128 ^ varintLen n := by
  induction n using Nat.strongRecOn with
  | _ n ih =>
    by_cases hn : n < 128
    · have e2 : varintLen n = 1 := by rw [varintLen_eq]; simp [hn]
      rw [e2]; simpa using hn
    · have e2 : varintLen n = 1 + varintLen (n / 128) := by
        rw [varintLen_eq]; simp [hn]
      have := ih (n / 128) (by omega)
      rw [e2, Nat.add_comm, Nat.pow_succ]
      omega

/-- Multiplying by at most 16 adds at most one byte: the arithmetic fact behind the
    "length guessed one byte short" `memmove` of `repeated_field_pack`
    (payload ≤ 10 · min_size · count, and `assert(actual == min + 1)`). -/
theorem varintLen_mul16 (n m : Nat) (h : m ≤ 16 * n) : varintLen m ≤ varintLen n + 1 := by
  apply varintLen_le_of_lt _ _ _ (by omega)
  have := lt_pow_varintLen n
  rw [Nat.pow_succ]
  omega

end Wire
end Pbc
