import Pbc.Props.C04b
/-
  C04 / C09 at byte level: any encoding that consists of the records of a canonical message in another order — keeping the
  order within each field, among oneof members and among unknown fields — is parsed to the same message.
-/
namespace Pbc.Props.C04
open Pbc Pbc.Model Pbc.Wire Pbc.Lemmas Pbc.Props.C01 List

/-- the scan pass on the concatenation of any list of well-formed records (stage A, for an arbitrary record list) -/
theorem scan_records (fields : List FieldDesc) (hd : IdsDistinct fields) (rs : List (Rec × Nat))
    (hok : ∀ p ∈ rs, RecOK p.1 p.2 ∧ CountOK fields p.1 p.2) (hn : rs.length ≤ maxScanned) :
    ∃ st, scanLoop fields ((rs.map (·.1.bytes)).flatten).length ((rs.map (·.1.bytes)).flatten) (scan0 fields) = some st ∧
      st.acc.reverse = rs.map (toScanned fields) := by
  have hc0 : CacheOK fields (scan0 fields) := by
    intro li hli
    unfold scan0 at hli
    simp only at hli
    split at hli
    · cases hli
    · rename_i hne
      have : li = 0 := by simpa using hli.symm
      subst this
      cases hfl : fields with
      | nil => simp [hfl] at hne
      | cons a as => simp
  have hle := recs_le_bytes rs
  obtain ⟨st', hs', _, hv'⟩ := scanLoop_recs fields hd rs (((rs.map (·.1.bytes)).flatten).length - rs.length) [] (scan0 fields) hok hc0
    (by simp [scan0]; exact hn)
  refine ⟨st', ?_, ?_⟩
  · rw [scanLoop_nil] at hs'
    rw [← hs']
    congr 1
    · omega
    · simp
  · apply of_views
    rw [map_reverse, hv']; simp [scan0]

/-- the parse pass on the records of a canonical message, in serialisation order, rebuilds the message -/
theorem parse_recs (P : Msg → Prop) (S : Schema) (fuel : Nat) (hn : NestedOK P S fuel) (ty : Nat) (slots : List Slot) (unk : List Unk)
    (hsch : SchemaOK (S.msg ty).fields) (cs : Nat → Nat) (hc : CanonO P S (S.msg ty).initGeneric cs (S.msg ty).fields slots)
    (hunk : ∀ u ∈ unk, UnkFramed (S.msg ty).fields u) :
    parseAll S fuel (S.msg ty).fields ((recsMsg S (.mk ty slots unk)).map (toScanned (S.msg ty).fields)) (initMsg S ty) =
      some (.mk ty slots unk) := by
  rw [initMsg_eq]
  simp only [recsMsg, map_append, parseAll_append]
  have hids : ∀ f ∈ (S.msg ty).fields, 0 < f.id := fun f hf => (hsch.ids f hf).1
  have h0 := stateAt_zero P S (S.msg ty).initGeneric cs (S.msg ty).fields slots hids hc
  have h1 := parse_from P S (S.msg ty).fields hsch (S.msg ty).initGeneric cs fuel hn slots hc ty [] (S.msg ty).fields.length 0 (by omega)
  simp only [drop_zero] at h1
  rw [← h0, h1, stateAt_full _ cs _ slots hc.len]
  simp only [Option.bind_some, map_map]
  have h2 := parse_unknown S fuel (S.msg ty).fields ty slots unk [] hunk
  simpa [Function.comp_def] using h2

theorem oneofLabels_of_canon (P : Msg → Prop) (S : Schema) (g : Bool) (cs : Nat → Nat) (fields : List FieldDesc) (slots : List Slot)
    (hc : CanonO P S g cs fields slots) : OneofLabelsOK fields := by
  intro i hi
  by_cases hlt : i < fields.length
  · have := hc.slot i hlt
    unfold CanonSlotO at this
    cases hg : (fields.getD i default).group with
    | none => rw [hg] at hi; cases hi
    | some gi => rw [hg] at this; exact this.1
  · have : fields.getD i default = default := by
      rw [getD_eq_getElem?_getD, getElem?_eq_none (by omega)]; rfl
    rw [this] at hi
    cases hi

/-- **C04 / C09, byte level.**  Take the records the serialiser writes for a canonical message and concatenate them in ANY
    order that keeps the relative order of the records of each field outside oneofs, of the oneof members, and of the
    unknown fields (e.g. known fields first and unknown fields last — what a program built against an older schema writes
    back — or unknown fields interleaved anywhere).  The parser reads exactly the same message. -/
theorem unpack_reordered (P : Msg → Prop) (S : Schema) (fuel : Nat) (hn : NestedOK P S fuel) (m : Msg) (hm : CanonMsgO P S m)
    (L' : List (Rec × Nat)) (hperm : L'.Perm (recsMsg S m))
    (hf : ∀ k, (L'.map (toScanned (S.msg m.ty).fields)).filter (fun sm => rkey (S.msg m.ty).fields sm = k) =
      ((recsMsg S m).map (toScanned (S.msg m.ty).fields)).filter (fun sm => rkey (S.msg m.ty).fields sm = k)) :
    unpackMsg S fuel m.ty ((L'.map (·.1.bytes)).flatten) = some m := by
  obtain ⟨hsch, hdf, ⟨cs, hc⟩, hunk, hcnt⟩ := hm
  cases m with
  | mk ty slots unk =>
    simp only [Msg.ty, Msg.slots, Msg.unk] at hsch hdf hc hunk hf
    have hslf : SlotsFramed S (S.msg ty).fields slots :=
      slotsFramed_of_index S _ _ hc.len.symm (fun j hj =>
        canonO_slotFramed P S _ cs _ (hdf _ (by rw [getD_fields _ j hj]; exact getElem_mem hj)) _ (hc.slot j hj))
    have hfr : MsgFramed S (.mk ty slots unk) := ⟨hslf, hunk⟩
    have hok := recsMsg_ok S (.mk ty slots unk) hsch hfr
    have hok' : ∀ p ∈ L', RecOK p.1 p.2 ∧ CountOK (S.msg ty).fields p.1 p.2 := fun p hp => hok p (hperm.mem_iff.1 hp)
    obtain ⟨st, hscan, hacc⟩ := scan_records (S.msg ty).fields hsch.distinct L' hok' (by rw [hperm.length_eq]; exact hcnt)
    simp only [unpackMsg, Msg.ty]
    rw [show (⟨if (S.msg ty).fields.isEmpty then none else some 0, 0, [], [], [], 0⟩ : ScanState) = scan0 (S.msg ty).fields from rfl,
      hscan]
    simp only
    have hinv := Pbc.Props.C11.scanLoop_inv (S.msg ty).fields _ _ _ st (Pbc.Props.C11.init_inv _) hscan
    have hbits : ((List.range (S.msg ty).fields.length).any (fun i =>
        let f := (S.msg ty).fields.getD i default
        f.label == .required && f.dflt == .none && !st.bitmap.contains i)) = false := by
      rw [List.any_eq_false]
      intro i hi
      have hi' : i < (S.msg ty).fields.length := by simpa using hi
      simp only [Bool.and_eq_true, beq_iff_eq, Bool.not_eq_true', not_and, Bool.not_eq_false]
      intro hlab0
      have hlab := hlab0.1
      have hslot := hc.slot i hi'
      have hgn : ((S.msg ty).fields.getD i default).group = none := by
        cases hgg : ((S.msg ty).fields.getD i default).group with
        | none => rfl
        | some gi =>
          unfold CanonSlotO at hslot; rw [hgg] at hslot
          rcases hslot.1 with h | h <;> rw [hlab] at h <;> cases h
      unfold CanonSlotO at hslot; rw [hgn] at hslot
      have hrec : ∃ p ∈ recsSlot S ((S.msg ty).fields.getD i default) (slots.getD i default),
          p.1.tag = ((S.msg ty).fields.getD i default).id := by
        cases hsl : slots.getD i default with
        | rep n arr => rw [hsl] at hslot; cases arr <;> (have := hslot.1; rw [hlab] at this; cases this)
        | one q v =>
          have hw : writes ((S.msg ty).fields.getD i default) q v = true := by unfold writes; rw [hlab]
          refine ⟨elemRec S _ v, ?_, rfl⟩
          rw [recsSlot_one S _ q v hgn, hw]
          simp only [if_true, mem_cons, not_mem_nil, or_false]
      obtain ⟨p, hp, htag⟩ := hrec
      have hp' := mem_recsSlots_of_index S _ slots i hi' (by rw [hc.len]; exact hi') p hp
      have hpL : p ∈ L' := hperm.mem_iff.2 (by simp only [recsMsg, mem_append]; exact Or.inl hp')
      have hmem : toScanned (S.msg ty).fields p ∈ st.acc := by
        have : toScanned (S.msg ty).fields p ∈ st.acc.reverse := by rw [hacc]; exact mem_map_of_mem hpL
        simpa using this
      have hfidx : (toScanned (S.msg ty).fields p).fidx = some i := by
        simp only [toScanned, htag]
        exact findIdx_of_id hsch.distinct hi' (by rw [getD_fields _ i hi'])
      have := (hinv.bits i).2 ⟨_, hmem, hfidx, hlab⟩
      simpa using this
    simp only [hbits, Bool.false_eq_true, if_false]
    rw [hacc, parseAll_reorder S fuel (S.msg ty).fields (oneofLabels_of_canon P S _ cs _ slots hc) _ _ hf]
    exact parse_recs P S fuel hn ty slots unk hsch cs hc hunk

end Pbc.Props.C04
