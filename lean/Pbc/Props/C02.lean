import Pbc.Model.Pack
/-
  C02 -- size, pack and pack_to_buffer agree (for ALL schemas and ALL messages, no
  well-formedness hypothesis needed):
    (i)  (packMsg S m).length = sizeMsg S m
    (ii) (chunksMsg S m).flatten = packMsg S m      (also C18's streaming claim)
  The in-place algorithm of protobuf_c_message_pack (body written first, memmove when the
  length prefix needs more than one byte / was guessed one byte short) is tied to `packMsg`
  by the correspondence check with exact-size ASan-fenced buffers; the arithmetic fact it
  relies on is `Wire.varintLen_mul16` (see `packed_guess_short_by_at_most_one`).
-/
namespace Pbc.Props.C02
open Pbc Pbc.Model Pbc.Wire

theorem varintLen_add_wt (a w : Nat) (hw : w < 8) : varintLen (a * 8 + w) = varintLen (a * 8) := by
  rw [varintLen_eq, varintLen_eq (a * 8)]
  have h1 : (a * 8 + w < 128) ↔ (a * 8 < 128) := by omega
  have h2 : (a * 8 + w) / 128 = (a * 8) / 128 := by omega
  simp only [h1, h2]

theorem keyBytes_length (id wt : Nat) : (keyBytes id wt).length = keyLen id := by
  unfold keyBytes keyLen
  rw [varint_length, varintLen_add_wt _ _ (Nat.mod_lt _ (by decide))]

theorem le32_length (v : BitVec 32) : (le32 v).length = 4 := rfl
theorem le64_length (v : BitVec 64) : (le64 v).length = 8 := rfl

theorem scalarBytes_length (t : PType) (v : Val) : (scalarBytes t v).length = scalarLen t v := by
  cases t <;> simp [scalarBytes, scalarLen, varint_length, le32_length, le64_length]

theorem lenPrefixed_length (b : Bytes) : (lenPrefixed b).length = varintLen b.length + b.length := by
  simp [lenPrefixed, varint_length]

theorem takePad_length (n : Nat) (d : Bytes) : (takePad n d).length = n := by
  simp [takePad]; omega

theorem flatten_map_key_length (key : Bytes) (es : List Bytes) :
    ((es.map fun e => key ++ e).flatten).length = key.length * es.length + es.flatten.length := by
  induction es with
  | nil => simp
  | cons e es ih =>
    simp only [List.map_cons, List.flatten_cons, List.length_append, ih, List.length_cons, Nat.mul_succ]
    omega

theorem elemsBytes_count (S : Schema) (f : FieldDesc) :
    ∀ (n : Nat) (l : List Val), (elemsBytes S f n l).length = elemsCnt n l
  | 0, _ => by simp [elemsBytes, elemsCnt]
  | _+1, [] => by simp [elemsBytes, elemsCnt]
  | n+1, _ :: vs => by simp [elemsBytes, elemsCnt, elemsBytes_count S f n vs]; omega

mutual
theorem elemBytes_length (S : Schema) (f : FieldDesc) : ∀ v : Val, (elemBytes S f v).length = elemLen S f v
  | .msg (some m) => by
    simp only [elemBytes, elemLen, lenPrefixed_length, packMsg_length S m]
  | .msg none => by simp [elemBytes, elemLen]
  | .bin len p d => by
    simp only [elemBytes, elemLen, List.length_append, varint_length, takePad_length]
  | .str p s => by
    cases p <;> simp [elemBytes, elemLen, lenPrefixed_length]
  | .w32 v => by
    simp only [elemBytes, elemLen]
    split
    · rfl
    · split
      · rfl
      · exact scalarBytes_length _ _
  | .w64 v => by
    simp only [elemBytes, elemLen]
    split
    · rfl
    · split
      · rfl
      · exact scalarBytes_length _ _
  | .zero => by
    simp only [elemBytes, elemLen]
    split
    · rfl
    · split
      · rfl
      · exact scalarBytes_length _ _

theorem elemsBytes_length (S : Schema) (f : FieldDesc) :
    ∀ (n : Nat) (l : List Val), (elemsBytes S f n l).flatten.length = elemsLen S f n l
  | 0, _ => by simp [elemsBytes, elemsLen]
  | _+1, [] => by simp [elemsBytes, elemsLen]
  | n+1, v :: vs => by
    simp only [elemsBytes, elemsLen, List.flatten_cons, List.length_append,
      elemBytes_length S f v, elemsBytes_length S f n vs]

theorem packSlot_length (S : Schema) (f : FieldDesc) : ∀ s : Slot, (packSlot S f s).length = sizeSlot S f s
  | .one q v => by
    have hk : ∀ wt, (keyBytes f.id wt ++ elemBytes S f v).length = keyLen f.id + elemLen S f v := by
      intro wt; rw [List.length_append, keyBytes_length, elemBytes_length S f v]
    simp only [packSlot, sizeSlot]
    split
    · exact hk _
    · rfl
    · split
      · split
        · rfl
        · split
          · rfl
          · exact hk _
      · split
        · split
          · split
            · rfl
            · exact hk _
          · split
            · rfl
            · exact hk _
        · split
          · rfl
          · exact hk _
  | .rep n none => by simp [packSlot, sizeSlot]
  | .rep n (some l) => by
    simp only [packSlot, sizeSlot]
    split
    · rfl
    · split
      · simp only [List.length_append, keyBytes_length, varint_length, elemsBytes_length S f n l]
      · rw [flatten_map_key_length, keyBytes_length, elemsBytes_count, elemsBytes_length S f n l]

theorem packSlots_length (S : Schema) :
    ∀ (fs : List FieldDesc) (ss : List Slot), (packSlots S fs ss).length = sizeSlots S fs ss
  | [], _ => by simp [packSlots, sizeSlots]
  | _ :: _, [] => by simp [packSlots, sizeSlots]
  | f :: fs, s :: ss => by
    simp only [packSlots, sizeSlots, List.length_append, packSlot_length S f s, packSlots_length S fs ss]

theorem packMsg_length (S : Schema) : ∀ m : Msg, (packMsg S m).length = sizeMsg S m
  | .mk ty slots unk => by
    simp only [packMsg, sizeMsg, List.length_append, packSlots_length S _ slots]
    congr 1
    induction unk with
    | nil => rfl
    | cons u us ih => simp [keyBytes_length, ih]; omega
end

/-! ### (ii) the streamed chunks concatenate to exactly the bytes `pack` writes -/

theorem flatten_map_pair (us : List Unk) :
    ((us.map fun u => [keyBytes u.tag u.wt, u.data]).flatten).flatten =
      (us.map fun u => keyBytes u.tag u.wt ++ u.data).flatten := by
  induction us with
  | nil => rfl
  | cons u us ih => simp [ih]

mutual
theorem elemChunks_flatten (S : Schema) (f : FieldDesc) (key : Bytes) :
    ∀ v : Val, (elemChunks S f key v).flatten = key ++ elemBytes S f v
  | .msg (some m) => by
    simp only [elemChunks, elemBytes, List.flatten_cons, chunksMsg_flatten S m, lenPrefixed,
      ← Props.C02.packMsg_length S m, List.append_assoc]
  | .msg none => by simp [elemChunks, elemBytes]
  | .bin len p d => by simp [elemChunks, elemBytes]
  | .str p s => by cases p <;> simp [elemChunks, elemBytes, lenPrefixed]
  | .w32 v => by
    simp only [elemChunks, elemBytes]
    by_cases h1 : f.type = .message
    · simp [h1]
    · by_cases h2 : f.type = .string
      · simp [h2]
      · by_cases h3 : f.type = .bytes
        · simp [h3]
        · simp [h1, h2, h3]
  | .w64 v => by
    simp only [elemChunks, elemBytes]
    by_cases h1 : f.type = .message
    · simp [h1]
    · by_cases h2 : f.type = .string
      · simp [h2]
      · by_cases h3 : f.type = .bytes
        · simp [h3]
        · simp [h1, h2, h3]
  | .zero => by
    simp only [elemChunks, elemBytes]
    by_cases h1 : f.type = .message
    · simp [h1]
    · by_cases h2 : f.type = .string
      · simp [h2]
      · by_cases h3 : f.type = .bytes
        · simp [h3]
        · simp [h1, h2, h3]

theorem elemsChunks_flatten (S : Schema) (f : FieldDesc) (key : Bytes) :
    ∀ (n : Nat) (l : List Val),
      (elemsChunks S f key n l).flatten = ((elemsBytes S f n l).map fun e => key ++ e).flatten
  | 0, _ => by simp [elemsChunks, elemsBytes]
  | _+1, [] => by simp [elemsChunks, elemsBytes]
  | n+1, v :: vs => by
    simp only [elemsChunks, elemsBytes, List.flatten_append, List.map_cons, List.flatten_cons,
      elemChunks_flatten S f key v, elemsChunks_flatten S f key n vs]

theorem slotChunks_flatten (S : Schema) (f : FieldDesc) : ∀ s : Slot, (slotChunks S f s).flatten = packSlot S f s
  | .one q v => by
    have hk := elemChunks_flatten S f (keyBytes f.id f.type.wireType) v
    simp only [slotChunks, packSlot]
    split
    · exact hk
    · rfl
    · split
      · split
        · rfl
        · split
          · rfl
          · exact hk
      · split
        · split
          · split
            · rfl
            · exact hk
          · split
            · rfl
            · exact hk
        · split
          · rfl
          · exact hk
  | .rep n none => by simp [slotChunks, packSlot]
  | .rep n (some l) => by
    simp only [slotChunks, packSlot]
    split
    · rfl
    · split
      · split <;> simp [List.append_assoc]
      · exact elemsChunks_flatten S f _ n l

theorem slotsChunks_flatten (S : Schema) :
    ∀ (fs : List FieldDesc) (ss : List Slot), (slotsChunks S fs ss).flatten = packSlots S fs ss
  | [], _ => by simp [slotsChunks, packSlots]
  | _ :: _, [] => by simp [slotsChunks, packSlots]
  | f :: fs, s :: ss => by
    simp only [slotsChunks, packSlots, List.flatten_append, slotChunks_flatten S f s, slotsChunks_flatten S fs ss]

theorem chunksMsg_flatten (S : Schema) : ∀ m : Msg, (chunksMsg S m).flatten = packMsg S m
  | .mk ty slots unk => by
    simp only [chunksMsg, packMsg, List.flatten_append, slotsChunks_flatten S _ slots, flatten_map_pair]
end

/-- total number of bytes handed to the buffer's append callback = get_packed_size -/
theorem chunks_total (S : Schema) (m : Msg) : ((chunksMsg S m).map List.length).sum = sizeMsg S m := by
  rw [← packMsg_length, ← chunksMsg_flatten, List.length_flatten]

/-- the "length guessed one byte short" step of `repeated_field_pack`: for `n ≥ 1` elements of
    minimum encoded size `ms` whose encodings are at most 10·ms... in general at most 16·ms·n bytes,
    the length prefix of the real payload needs at most one byte more than the guess made from
    `ms * n`; this is also `assert(actual_length_size == length_size_min + 1)` (C16). -/
theorem packed_guess_short_by_at_most_one (ms n payload : Nat) (h : payload ≤ 16 * (ms * n)) :
    varintLen payload ≤ varintLen (ms * n) + 1 :=
  varintLen_mul16 (ms * n) payload h

/-! non-vacuity: a message with a nested message, a packed field and an unknown field -/
def exS : Schema := [
  { name := "A", fields := [
      { name := "x", id := 1, label := .optional, type := .int32, packed := false, group := none, sub := 0, dflt := .none, init := none },
      { name := "r", id := 2, label := .repeated, type := .sint64, packed := true, group := none, sub := 0, dflt := .none, init := none },
      { name := "m", id := 3, label := .optional, type := .message, packed := false, group := none, sub := 0, dflt := .none, init := none }],
    initGeneric := false, nGroups := 0 }]
def exM : Msg := .mk 0 [.one 1 (.w32 (-1)), .rep 2 (some [.w64 1, .w64 (-300)]),
  .one 0 (.msg (some (.mk 0 [.one 0 (.w32 0), .rep 0 none, .one 0 (.msg none)] [⟨9, 5, [1, 2, 3, 4]⟩])))] []
example : sizeMsg exS exM = 23 ∧ (packMsg exS exM).length = 23 ∧ (chunksMsg exS exM).map List.length = [11, 2, 1, 2, 2, 1, 4] := by decide

end Pbc.Props.C02
