import Pbc.Props.C01c
/-
  C04 — valid re-encodings are read like the canonical one.  Proved here at slot level:
  * a repeated packable field may arrive packed or unpacked, whatever the descriptor's PACKED flag says: the parser
    produces the same array (`parse_repeated_either`);
  * redundant zero groups at the end of a varint (padding up to 10 bytes) do not change the value that is read
    (`decGroups_padded`, `scanVarint_padded`).
  Field order, stale earlier occurrences and split packed records are tied by the reference comparison (tools/oracles.py c04).
-/
namespace Pbc.Props.C04
open Pbc Pbc.Model Pbc.Wire Pbc.Lemmas Pbc.Props.C01 List

theorem packedPath_wt2 (f : FieldDesc) (hp : f.type.packable = true) : usesPackedPath f 2 = true := by
  simp [usesPackedPath, hp]

theorem not_packedPath_packable (f : FieldDesc) (hp : f.type.packable = true) : usesPackedPath f f.type.wireType = false := by
  unfold usesPackedPath
  cases hft : f.type <;> simp_all [PType.wireType, PType.packable]

/-- unpacked occurrences of a packable repeated field are appended one by one — also when the descriptor says PACKED -/
theorem parse_rep_elem_anyflag (S : Schema) (fields : List FieldDesc) (hd : IdsDistinct fields) (fuel : Nat)
    (k : Nat) (f : FieldDesc) (hk : k < fields.length) (hf : fields[k] = f) (hl : f.label = .repeated)
    (hp : f.type.packable = true) (v : Val) (hv : CanonElem1 S f v)
    (ty : Nat) (sl : List Slot) (u : List Unk) (acc : List Val) (hs : getSlot sl k = .rep acc.length (optAcc acc)) :
    parseMember S fuel fields (toScanned fields (elemRec S f v)) (.mk ty sl u) =
      some (.mk ty (setSlot sl k (.rep (acc ++ [v]).length (optAcc (acc ++ [v])))) u) := by
  rw [toScanned_elemRec S fields hd k f hk hf v]
  have hfd : fields.getD k default = f := by rw [getD_eq_getElem?_getD, getElem?_eq_getElem hk]; simpa using hf
  have hsc := canon_scalar_of_packable S f v hv hp
  have hpr := parseRequired_elem S f v hv fuel (some k) .zero false (fun h => by cases h)
    (fun m' hm => by subst hm; exact absurd hsc (by simp [okScalar]))
  have hup := not_packedPath_packable f hp
  unfold parseMember
  simp only [hfd, hl, hs, hup, Bool.false_eq_true, if_false, hpr, Option.map_some, optAcc_getD]
  simp [optAcc]

theorem parse_rep_elems_anyflag (S : Schema) (fields : List FieldDesc) (hd : IdsDistinct fields) (fuel : Nat)
    (k : Nat) (f : FieldDesc) (hk : k < fields.length) (hf : fields[k] = f) (hl : f.label = .repeated)
    (hp : f.type.packable = true) (ty : Nat) (u : List Unk) :
    ∀ (l : List Val) (acc : List Val) (sl : List Slot), k < sl.length → (∀ v ∈ l, CanonElem1 S f v) →
      getSlot sl k = .rep acc.length (optAcc acc) →
      parseAll S fuel fields (l.map (fun v => toScanned fields (elemRec S f v))) (.mk ty sl u) =
        some (.mk ty (if l.isEmpty then sl else setSlot sl k (.rep (acc ++ l).length (optAcc (acc ++ l)))) u)
  | [], acc, sl, _, _, _ => by simp [parseAll]
  | v :: vs, acc, sl, hks, hall, hs => by
    have h1 := parse_rep_elem_anyflag S fields hd fuel k f hk hf hl hp v (hall v (mem_cons_self ..)) ty sl u acc hs
    simp only [map_cons, parseAll, h1]
    have h2 := parse_rep_elems_anyflag S fields hd fuel k f hk hf hl hp ty u vs (acc ++ [v])
      (setSlot sl k (.rep (acc ++ [v]).length (optAcc (acc ++ [v])))) (by rw [setSlot_length]; exact hks)
      (fun w hw => hall w (mem_cons_of_mem _ hw)) (getSlot_setSlot _ _ _ hks)
    rw [h2]
    cases vs with
    | nil => simp
    | cons w ws => simp [setSlot_setSlot]

/-- a packed record of a packable repeated field is accepted — also when the descriptor does NOT say PACKED -/
theorem parse_packed_anyflag (S : Schema) (fields : List FieldDesc) (hd : IdsDistinct fields) (fuel : Nat)
    (k : Nat) (f : FieldDesc) (hk : k < fields.length) (hf : fields[k] = f) (hl : f.label = .repeated)
    (hp : f.type.packable = true) (l : List Val) (hne : l ≠ []) (hall : ∀ v ∈ l, CanonElem1 S f v)
    (ty : Nat) (sl : List Slot) (u : List Unk) (hs : getSlot sl k = .rep 0 none) :
    parseMember S fuel fields
        (toScanned fields (⟨f.id, 2, varint ((elemsBytes S f l.length l).flatten).length ++ (elemsBytes S f l.length l).flatten⟩,
          varintLen ((elemsBytes S f l.length l).flatten).length)) (.mk ty sl u) =
      some (.mk ty (setSlot sl k (.rep l.length (some l))) u) := by
  have hfd : fields.getD k default = f := by rw [getD_eq_getElem?_getD, getElem?_eq_getElem hk]; simpa using hf
  have hsc : ∀ v ∈ l, okScalar f.type v := fun v hv => canon_scalar_of_packable S f v (hall v hv) hp
  have hpay : (elemsBytes S f l.length l).flatten = (l.map (scalarBytes f.type)).flatten := by
    rw [elemsBytes_eq, elemsVals_full]
    congr 1
    apply map_congr_left
    intro v hv; exact elemBytes_scalar S f v (hsc v hv)
  have hpp := parsePacked_elems f.type hp l hsc
  simp only [toScanned]
  rw [findIdx_of_id hd hk (by rw [hf])]
  unfold parseMember
  simp only [hfd, hl, hs, packedPath_wt2 f hp, if_true]
  rw [show drop (varintLen ((elemsBytes S f l.length l).flatten).length)
      (varint ((elemsBytes S f l.length l).flatten).length ++ (elemsBytes S f l.length l).flatten) =
        (elemsBytes S f l.length l).flatten by rw [← varint_length]; exact drop_left]
  rw [hpay, hpp]
  cases l with
  | nil => exact absurd rfl hne
  | cons a as => simp

/-- **packed or unpacked on the wire, declared packed or not: the same array.**  For a repeated field of any packable
    type, parsing the single packed record and parsing one record per element both turn an initial slot into
    `rep n (some l)`. -/
theorem parse_repeated_either (S : Schema) (fields : List FieldDesc) (hd : IdsDistinct fields) (fuel : Nat)
    (k : Nat) (f : FieldDesc) (hk : k < fields.length) (hf : fields[k] = f) (hl : f.label = .repeated)
    (hp : f.type.packable = true) (l : List Val) (hne : l ≠ []) (hall : ∀ v ∈ l, CanonElem1 S f v)
    (ty : Nat) (sl : List Slot) (u : List Unk) (hks : k < sl.length) (hs : getSlot sl k = .rep 0 none) :
    parseAll S fuel fields [toScanned fields (⟨f.id, 2, varint ((elemsBytes S f l.length l).flatten).length ++ (elemsBytes S f l.length l).flatten⟩,
          varintLen ((elemsBytes S f l.length l).flatten).length)] (.mk ty sl u) =
      some (.mk ty (setSlot sl k (.rep l.length (some l))) u) ∧
    parseAll S fuel fields (l.map (fun v => toScanned fields (elemRec S f v))) (.mk ty sl u) =
      some (.mk ty (setSlot sl k (.rep l.length (some l))) u) := by
  constructor
  · simp only [parseAll]
    rw [parse_packed_anyflag S fields hd fuel k f hk hf hl hp l hne hall ty sl u hs]
  · have := parse_rep_elems_anyflag S fields hd fuel k f hk hf hl hp ty u l [] sl hks hall (by simpa [optAcc] using hs)
    rw [this]
    cases l with
    | nil => exact absurd rfl hne
    | cons a as => simp [optAcc]

/-- a packed record arriving when part of the array has been parsed already (from earlier packed or unpacked records) is
    APPENDED: packed payloads may be split over several records and mixed with unpacked elements -/
theorem parse_packed_appends (S : Schema) (fields : List FieldDesc) (hd : IdsDistinct fields) (fuel : Nat)
    (k : Nat) (f : FieldDesc) (hk : k < fields.length) (hf : fields[k] = f) (hl : f.label = .repeated)
    (hp : f.type.packable = true) (l : List Val) (hne : l ≠ []) (hall : ∀ v ∈ l, CanonElem1 S f v)
    (ty : Nat) (sl : List Slot) (u : List Unk) (acc : List Val) (hs : getSlot sl k = .rep acc.length (optAcc acc)) :
    parseMember S fuel fields
        (toScanned fields (⟨f.id, 2, varint ((elemsBytes S f l.length l).flatten).length ++ (elemsBytes S f l.length l).flatten⟩,
          varintLen ((elemsBytes S f l.length l).flatten).length)) (.mk ty sl u) =
      some (.mk ty (setSlot sl k (.rep (acc ++ l).length (optAcc (acc ++ l)))) u) := by
  have hfd : fields.getD k default = f := by rw [getD_eq_getElem?_getD, getElem?_eq_getElem hk]; simpa using hf
  have hsc : ∀ v ∈ l, okScalar f.type v := fun v hv => canon_scalar_of_packable S f v (hall v hv) hp
  have hpay : (elemsBytes S f l.length l).flatten = (l.map (scalarBytes f.type)).flatten := by
    rw [elemsBytes_eq, elemsVals_full]
    congr 1
    apply map_congr_left
    intro v hv; exact elemBytes_scalar S f v (hsc v hv)
  have hpp := parsePacked_elems f.type hp l hsc
  simp only [toScanned]
  rw [findIdx_of_id hd hk (by rw [hf])]
  unfold parseMember
  simp only [hfd, hl, hs, packedPath_wt2 f hp, if_true]
  rw [show drop (varintLen ((elemsBytes S f l.length l).flatten).length)
      (varint ((elemsBytes S f l.length l).flatten).length ++ (elemsBytes S f l.length l).flatten) =
        (elemsBytes S f l.length l).flatten by rw [← varint_length]; exact drop_left]
  rw [hpay, hpp]
  simp only [Option.map_some, optAcc_getD, length_append]
  cases l with
  | nil => exact absurd rfl hne
  | cons a as => simp [optAcc]

/-! ### padded varints -/

/-- `n` in base-128 groups followed by `p ≥ 1` redundant zero groups: every byte but the last carries the continuation bit -/
def padded (n p : Nat) : Bytes := (varint n).map (fun x => x ||| 0x80) ++ List.replicate (p - 1) 0x80 ++ [0]

theorem or80_low : ∀ x : BitVec 8, (x ||| 0x80).toNat % 128 = x.toNat % 128 := by decide
theorem or80_ge : ∀ x : BitVec 8, ¬ ((x ||| 0x80).toNat < 128) := by decide

theorem decGroups_map_or80 : ∀ b : Bytes, decGroups (b.map (fun x => x ||| 0x80)) = decGroups b
  | [] => rfl
  | x :: xs => by
    simp only [map_cons, decGroups]
    rw [or80_low x, decGroups_map_or80 xs]

theorem decGroups_append_zeros : ∀ (b z : Bytes), (∀ x ∈ z, x.toNat % 128 = 0) → decGroups (b ++ z) = decGroups b
  | [], z, hz => by
    induction z with
    | nil => rfl
    | cons x xs ih =>
      have := ih (fun y hy => hz y (mem_cons_of_mem _ hy))
      simp only [nil_append] at this ⊢
      simp only [decGroups, hz x (mem_cons_self ..), this]
  | x :: xs, z, hz => by simp [decGroups, decGroups_append_zeros xs z hz]

/-- padding does not change the value the parser reads -/
theorem decGroups_padded (n p : Nat) : decGroups (padded n p) = n := by
  unfold padded
  rw [append_assoc, decGroups_append_zeros, decGroups_map_or80, decGroups_varint]
  intro x hx
  simp only [mem_append, mem_replicate, mem_cons, not_mem_nil, or_false] at hx
  rcases hx with ⟨_, rfl⟩ | rfl <;> rfl

theorem scanVarint_conts : ∀ (c : Bytes) (rest : Bytes) (max : Nat), (∀ x ∈ c, ¬ x.toNat < 128) → c.length + 1 ≤ max →
    scanVarint max (c ++ (0 : Byte) :: rest) = some (c.length + 1)
  | [], rest, max, _, h => by
    cases max with
    | zero => omega
    | succ m => simp [scanVarint]
  | x :: xs, rest, max, hc, h => by
    cases max with
    | zero => omega
    | succ m =>
      simp only [cons_append, scanVarint, hc x (mem_cons_self ..), if_false, length_cons]
      rw [scanVarint_conts xs rest m (fun y hy => hc y (mem_cons_of_mem _ hy)) (by simp only [length_cons] at h; omega)]
      rfl

/-- ... and the scanner delimits a padded varint exactly (as long as it fits the 10 / 5 byte window) -/
theorem scanVarint_padded (n p : Nat) (hp : 1 ≤ p) (rest : Bytes) (max : Nat) (h : varintLen n + p ≤ max) :
    scanVarint max (padded n p ++ rest) = some (varintLen n + p) := by
  unfold padded
  have hlen : ((varint n).map (fun x => x ||| 0x80) ++ List.replicate (p - 1) (0x80 : Byte)).length = varintLen n + (p - 1) := by
    simp [varint_length]
  rw [append_assoc, append_assoc, singleton_append, ← append_assoc]
  rw [scanVarint_conts _ rest max ?_ (by rw [hlen]; omega), hlen]
  · congr 1; omega
  · intro x hx
    simp only [mem_append, mem_map, mem_replicate] at hx
    rcases hx with ⟨y, _, rfl⟩ | ⟨_, rfl⟩
    · exact or80_ge y
    · decide

example : padded 300 2 = [0xac, 0x82, 0x80, 0x00] ∧ decGroups (padded 300 2) = 300 := by decide

end Pbc.Props.C04
