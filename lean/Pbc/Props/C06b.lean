import Pbc.Props.C06a
/-
  C06, part B — the parse pass keeps the message in parser form.
-/
namespace Pbc.Props.C06
open Pbc Pbc.Model Pbc.Wire Pbc.Lemmas Pbc.Props.C01 Pbc.Props.C04 List

/-- an element as the parser produces it (sizes aside) -/
def Shape1 (f : FieldDesc) : Val → Prop
  | .msg (some m) => f.type = .message ∧ m.ty = f.sub
  | .str .own s => f.type = .string ∧ (0 : Byte) ∉ s
  | .bin len .own d => f.type = .bytes ∧ 0 < len ∧ d.length = len
  | .bin len .null d => f.type = .bytes ∧ len = 0 ∧ d = []
  | .w32 x => okScalar f.type (.w32 x)
  | .w64 x => okScalar f.type (.w64 x)
  | _ => False

def ShapeElemP (P : Msg → Prop) (f : FieldDesc) (v : Val) : Prop := Shape1 f v ∧ ∀ m', v = .msg (some m') → P m'

theorem parseBool_01 (d : Bytes) : parseBool d = 0 ∨ parseBool d = 1 := by
  unfold parseBool; split <;> simp

theorem parseScalar_ok (t : PType) (d : Bytes) (h1 : t ≠ .string) (h2 : t ≠ .bytes) (h3 : t ≠ .message) :
    okScalar t (parseScalar t d) := by
  cases t <;> first
    | (simp_all [parseScalar, okScalar, PType.is32]; done)
    | (simp only [parseScalar, okScalar, PType.is32, true_and]; intro _; exact parseBool_01 d)

theorem shape1_of_okScalar (f : FieldDesc) (v : Val) (h : okScalar f.type v) : Shape1 f v := by
  cases v <;> simp_all [okScalar, Shape1]

theorem mem_takeWhile_sat {α} (p : α → Bool) : ∀ (l : List α) (x : α), x ∈ l.takeWhile p → p x = true
  | [], _, h => by simp at h
  | a :: as, x, h => by
    simp only [takeWhile_cons] at h
    split at h
    · rename_i ha
      rcases mem_cons.1 h with rfl | h'
      · exact ha
      · exact mem_takeWhile_sat p as x h'
    · simp at h

/-! the parser never changes the type of the message it fills in -/
theorem parseMember_ty (S : Schema) (fuel : Nat) (fields : List FieldDesc) (sm : Scanned) (m m' : Msg)
    (h : parseMember S fuel fields sm m = some m') : m'.ty = m.ty := by
  obtain ⟨ty, sl, u⟩ := m
  unfold parseMember at h
  cases hf : sm.fidx with
  | none => simp only [hf, Option.some.injEq] at h; subst h; rfl
  | some i =>
    simp only [hf] at h
    split at h
    · simp only [Option.map_eq_some_iff] at h; obtain ⟨v, _, rfl⟩ := h; rfl
    · split at h
      · split at h
        · simp only [Option.map_eq_some_iff] at h; obtain ⟨v, _, rfl⟩ := h; rfl
        · simp only [Option.map_eq_some_iff] at h; obtain ⟨v, _, rfl⟩ := h; rfl
      · cases h
    · split at h
      · split at h
        · cases h
        · simp only [Option.map_eq_some_iff] at h; obtain ⟨v, _, rfl⟩ := h; rfl
      · simp only [Option.map_eq_some_iff] at h; obtain ⟨v, _, rfl⟩ := h; rfl

theorem parseAll_ty (S : Schema) (fuel : Nat) (fields : List FieldDesc) : ∀ (l : List Scanned) (m m' : Msg),
    parseAll S fuel fields l m = some m' → m'.ty = m.ty
  | [], m, m', h => by simp only [parseAll, Option.some.injEq] at h; subst h; rfl
  | sm :: rest, m, m', h => by
    simp only [parseAll] at h
    cases hp : parseMember S fuel fields sm m with
    | none => simp [hp] at h
    | some m1 =>
      simp only [hp] at h
      rw [parseAll_ty S fuel fields rest m1 m' h, parseMember_ty S fuel fields sm m m1 hp]

theorem unpackMsg_ty (S : Schema) (fuel t : Nat) (b : Bytes) (m : Msg) (h : unpackMsg S fuel t b = some m) : m.ty = t := by
  unfold unpackMsg at h
  simp only at h
  split at h
  · cases h
  · split at h
    · cases h
    · rw [parseAll_ty S fuel _ _ _ _ h]; rfl

theorem mergeMsg_ty (S : Schema) (fuel : Nat) (e l r : Msg) (h : mergeMsg S fuel e l = some r) : r.ty = l.ty := by
  cases fuel with
  | zero => simp [mergeMsg] at h
  | succ fuel =>
    obtain ⟨ety, es, eu⟩ := e
    obtain ⟨ty, ls, lu⟩ := l
    simp only [mergeMsg, Option.map_eq_some_iff] at h
    obtain ⟨ls', _, rfl⟩ := h
    rfl

/-- what the induction supplies about nested messages: `P` holds of what a nested parse returns and is kept by
    `merge_messages` -/
structure NestOK (P : Msg → Prop) (S : Schema) (fuel : Nat) : Prop where
  sub : ∀ fuel' t b m', fuel = fuel' + 1 → unpackMsg S fuel' t b = some m' → P m'
  merge : ∀ fuel' e l r, fuel = fuel' + 1 → P e → P l → e.ty = l.ty → mergeMsg S (fuel' + 1) e l = some r → P r

/-- what `parse_required_member` stores -/
theorem parseRequired_shape (P : Msg → Prop) (S : Schema) (fuel : Nat) (hN : NestOK P S fuel) (f : FieldDesc) (sm : Scanned)
    (old : Val) (mc : Bool) (v : Val)
    (hold : mc = true → ∀ om, old = .msg (some om) → P om ∧ om.ty = f.sub)
    (h : parseRequired S fuel f sm old mc = some v) :
    ShapeElemP P f v := by
  unfold parseRequired at h
  split at h
  · cases h
  · cases hft : f.type with
    | string =>
      simp only [hft, Option.some.injEq] at h
      subst h
      refine ⟨⟨hft, ?_⟩, fun m' hm => by cases hm⟩
      intro hmem
      have := mem_takeWhile_sat _ _ _ hmem
      simp at this
    | bytes =>
      simp only [hft, Option.some.injEq] at h
      subst h
      split
      · rename_i hpos
        exact ⟨⟨hft, hpos, rfl⟩, fun m' hm => by cases hm⟩
      · exact ⟨⟨hft, rfl, rfl⟩, fun m' hm => by cases hm⟩
    | message =>
      simp only [hft] at h
      cases fuel with
      | zero => cases h
      | succ fuel' =>
        simp only at h
        -- the two ways the value is produced
        have plain : (unpackMsg S fuel' f.sub (sm.data.drop sm.prefLen)).map (fun m => Val.msg (some m)) = some v →
            ShapeElemP P f v := by
          intro h'
          simp only [Option.map_eq_some_iff] at h'
          obtain ⟨m', hm', rfl⟩ := h'
          have hty := unpackMsg_ty S fuel' f.sub _ m' hm'
          refine ⟨⟨hft, hty⟩, ?_⟩
          intro m'' he
          cases he
          exact hN.sub fuel' _ _ _ rfl hm'
        cases old with
        | msg oom =>
          cases oom with
          | none => exact plain (by simpa using h)
          | some om =>
            cases mc with
            | false => exact plain (by simpa using h)
            | true =>
              simp only at h
              cases hsub : unpackMsg S fuel' f.sub (sm.data.drop sm.prefLen) with
              | none => simp [hsub] at h
              | some sm' =>
                simp only [hsub, Option.map_eq_some_iff] at h
                obtain ⟨r, hr, rfl⟩ := h
                obtain ⟨hPo, hoty⟩ := hold rfl om rfl
                have hty := unpackMsg_ty S fuel' f.sub _ sm' hsub
                have hrty := mergeMsg_ty S _ om sm' r hr
                refine ⟨⟨hft, by rw [hrty, hty]⟩, ?_⟩
                intro m'' he
                cases he
                exact hN.merge fuel' om sm' _ rfl hPo (hN.sub fuel' _ _ _ rfl hsub) (by rw [hoty, hty]) hr
        | _ => exact plain (by simpa using h)
    | _ =>
      simp only [hft, Option.some.injEq] at h
      subst h
      have := parseScalar_ok f.type sm.data (by simp [hft]) (by simp [hft]) (by simp [hft])
      rw [hft] at this
      refine ⟨shape1_of_okScalar f _ (by rw [hft]; exact this), fun m' hm => ?_⟩
      simp [parseScalar] at hm

/-! ### the invariant of the parse pass -/

/-- a singular slot some record has been parsed into -/
def Touched (P : Msg → Prop) (f : FieldDesc) (s : Slot) : Prop :=
  ∃ q v, s = .one q v ∧ ShapeElemP P f v ∧ q = (if f.hasQ then 1 else 0)

/-- what the schema must look like for this part: oneof members are optional / implicit -/
structure NoMerge (fields : List FieldDesc) : Prop where
  oneof : OneofLabelsOK fields

structure PInv (P : Msg → Prop) (g : Bool) (cs : Nat → Nat) (fields : List FieldDesc) (seen : Nat → Prop)
    (slots : List Slot) : Prop where
  len : slots.length = fields.length
  rep : ∀ j, j < fields.length → (fields.getD j default).group = none → (fields.getD j default).label = .repeated →
      getSlot slots j = .rep 0 none ∨
      ∃ n l, getSlot slots j = .rep n (some l) ∧ 0 < n ∧ l.length = n ∧ ∀ v ∈ l, ShapeElemP P (fields.getD j default) v
  one : ∀ j, j < fields.length → (fields.getD j default).group = none → (fields.getD j default).label ≠ .repeated →
      (getSlot slots j = initSlot' g (fields.getD j default) ∨ Touched P (fields.getD j default) (getSlot slots j)) ∧
      (seen j → Touched P (fields.getD j default) (getSlot slots j))
  grp : ∀ j gi, j < fields.length → (fields.getD j default).group = some gi →
      ∃ v, getSlot slots j = .one (cs gi) v ∧
        (if (fields.getD j default).id = cs gi then ShapeElemP P (fields.getD j default) v else v = .zero)
  sel : ∀ gi, cs gi = 0 ∨ ∃ j, j < fields.length ∧ isSel fields cs gi j = true

theorem getSlot_setSlot_eq (sl : List Slot) (i : Nat) (s : Slot) (h : i < sl.length) : getSlot (setSlot sl i s) i = s := by
  simp [getSlot, setSlot, getD_eq_getElem?_getD, h]

theorem initSlot'_q (g : Bool) (f : FieldDesc) (h : f.label ≠ .repeated) : ∃ v, initSlot' g f = .one 0 v := by
  have hl : (f.label == Label.repeated) = false := by simpa using h
  unfold initSlot'
  cases g <;> simp only [Bool.false_eq_true, if_false, if_true, initSlotGen, initSlotGeneric, hl]
  · split
    · exact ⟨_, rfl⟩
    · split <;> exact ⟨_, rfl⟩
  · split <;> exact ⟨_, rfl⟩

theorem hasQ_false_of (f : FieldDesc) (hg : f.group = none) (hl : f.label ≠ .repeated)
    (h : f.label ≠ .optional ∨ f.type = .string ∨ f.type = .message) : f.hasQ = false := by
  have hl' : (f.label == Label.repeated) = false := by simpa using hl
  unfold FieldDesc.hasQ
  rw [hl', hg]
  rcases h with h | h | h
  · have : (f.label == Label.optional) = false := by simpa using h
    simp [this]
  · simp [h]
  · simp [h]

/-- the quantifier member of a singular slot that was never written or was written by the parser -/
theorem slot_q (P : Msg → Prop) (g : Bool) (f : FieldDesc) (s : Slot) (hl : f.label ≠ .repeated)
    (h : s = initSlot' g f ∨ Touched P f s) : s.q = 0 ∨ (f.hasQ = true ∧ s.q = 1) := by
  rcases h with h | ⟨q, v, hs, _, hq⟩
  · obtain ⟨v, hv⟩ := initSlot'_q g f hl
    rw [h, hv]; left; rfl
  · rw [hs]
    by_cases hh : f.hasQ = true
    · right; exact ⟨hh, by simp [Slot.q, hq, hh]⟩
    · left; simp [Slot.q, hq, hh]

theorem parsePackedVarints_ok (t : PType) (h1 : t ≠ .string) (h2 : t ≠ .bytes) (h3 : t ≠ .message) :
    ∀ (fuel : Nat) (b : Bytes) (vs : List Val), parsePackedVarints t fuel b = some vs → ∀ v ∈ vs, okScalar t v
  | 0, b, vs, h => by
    simp only [parsePackedVarints] at h
    split at h
    · cases h; simp
    · cases h
  | fuel+1, b, vs, h => by
    simp only [parsePackedVarints] at h
    split at h
    · cases h; simp
    · cases hs : scanVarint (min b.length 10) b with
      | none => simp [hs] at h
      | some s =>
        simp only [hs, Option.map_eq_some_iff] at h
        obtain ⟨vs', hvs', rfl⟩ := h
        intro v hv
        rcases mem_cons.1 hv with rfl | hv'
        · exact parseScalar_ok t _ h1 h2 h3
        · exact parsePackedVarints_ok t h1 h2 h3 fuel _ vs' hvs' v hv'

theorem parsePackedFixed_ok (t : PType) (h1 : t ≠ .string) (h2 : t ≠ .bytes) (h3 : t ≠ .message) (w : Nat) :
    ∀ (n : Nat) (b : Bytes), ∀ v ∈ parsePackedFixed t w n b, okScalar t v
  | 0, _ => by simp [parsePackedFixed]
  | n+1, b => by
    intro v hv
    simp only [parsePackedFixed, mem_cons] at hv
    rcases hv with rfl | hv
    · exact parseScalar_ok t _ h1 h2 h3
    · exact parsePackedFixed_ok t h1 h2 h3 w n _ v hv

theorem parsePacked_ok (t : PType) (payload : Bytes) (vs : List Val) (h : parsePacked t payload = some vs) :
    t ≠ .string ∧ t ≠ .bytes ∧ t ≠ .message ∧ ∀ v ∈ vs, okScalar t v := by
  cases t <;> simp only [parsePacked] at h <;>
    first
    | (cases h; done)
    | (simp only [Option.some.injEq] at h; subst h
       exact ⟨by simp, by simp, by simp, parsePackedFixed_ok _ (by simp) (by simp) (by simp) _ _ _⟩)
    | exact ⟨by simp, by simp, by simp, parsePackedVarints_ok _ (by simp) (by simp) (by simp) _ _ _ h⟩

/-- one record of a non-oneof field, at the level of its slot -/
theorem touched_old (P : Msg → Prop) (g : Bool) (f : FieldDesc) (s : Slot) (hs : s = initSlot' g f ∨ Touched P f s) :
    ∀ om, s.v = .msg (some om) → P om ∧ om.ty = f.sub := by
  intro om hv
  rcases hs with hs | ⟨q, v, hs, hsh, _⟩
  · rw [hs] at hv; exact absurd hv (initSlot'_not_msg g f om)
  · rw [hs] at hv
    simp only [Slot.v] at hv
    subst hv
    exact ⟨hsh.2 om rfl, hsh.1.2⟩

theorem slotFn_shape (P : Msg → Prop) (S : Schema) (fuel : Nat) (hN : NestOK P S fuel) (g : Bool) (f : FieldDesc) (hg : f.group = none)
    (sm : Scanned) (s s' : Slot)
    (h : slotFn S fuel f sm s = some s') :
    (f.label = .repeated →
      (s = .rep 0 none ∨ ∃ n l, s = .rep n (some l) ∧ 0 < n ∧ l.length = n ∧ ∀ v ∈ l, ShapeElemP P f v) →
      (s' = .rep 0 none ∨ ∃ n l, s' = .rep n (some l) ∧ 0 < n ∧ l.length = n ∧ ∀ v ∈ l, ShapeElemP P f v)) ∧
    (f.label ≠ .repeated → (s = initSlot' g f ∨ Touched P f s) → Touched P f s') := by
  unfold slotFn at h
  constructor
  · intro hl hs
    simp only [hl] at h
    rcases hs with rfl | ⟨n, l, rfl, hn, hlen, hall⟩
    · simp only at h
      split at h
      · simp only [Option.map_eq_some_iff] at h
        obtain ⟨vs, hvs, rfl⟩ := h
        obtain ⟨_, _, _, hok⟩ := parsePacked_ok _ _ _ hvs
        cases vs with
        | nil => left; simp
        | cons x xs =>
          right
          refine ⟨(x :: xs).length, x :: xs, by simp, by simp, rfl, ?_⟩
          intro v hv
          exact ⟨shape1_of_okScalar f v (hok v hv), fun m' hm => by have := hok v hv; rw [hm] at this; exact absurd this (by simp [okScalar])⟩
      · simp only [Option.map_eq_some_iff] at h
        obtain ⟨v, hv, rfl⟩ := h
        right
        refine ⟨1, [v], by simp, by omega, rfl, ?_⟩
        intro v' hv'
        simp only [mem_singleton] at hv'
        subst hv'
        exact parseRequired_shape P S fuel hN f sm .zero false _ (fun h => by cases h) hv
    · simp only at h
      split at h
      · simp only [Option.map_eq_some_iff] at h
        obtain ⟨vs, hvs, rfl⟩ := h
        obtain ⟨_, _, _, hok⟩ := parsePacked_ok _ _ _ hvs
        right
        have hne : (l ++ vs).isEmpty = false := by
          cases l with
          | nil => simp at hlen; omega
          | cons a as => simp
        refine ⟨n + vs.length, l ++ vs, by simp [hne], by omega, by simp [hlen], ?_⟩
        intro v hv
        rcases mem_append.1 hv with hv | hv
        · exact hall v hv
        · exact ⟨shape1_of_okScalar f v (hok v hv), fun m' hm => by have := hok v hv; rw [hm] at this; exact absurd this (by simp [okScalar])⟩
      · simp only [Option.map_eq_some_iff] at h
        obtain ⟨v, hv, rfl⟩ := h
        right
        refine ⟨n + 1, l ++ [v], by simp, by omega, by simp [hlen], ?_⟩
        intro v' hv'
        rcases mem_append.1 hv' with hv' | hv'
        · exact hall v' hv'
        · simp only [mem_singleton] at hv'
          subst hv'
          exact parseRequired_shape P S fuel hN f sm .zero false _ (fun h => by cases h) hv
  · intro hl hs
    have hold := touched_old P g f s hs
    have hq := slot_q P g f s hl hs
    cases hlab : f.label with
    | repeated => exact absurd hlab hl
    | required =>
      simp only [hlab, Option.map_eq_some_iff] at h
      obtain ⟨v, hv, rfl⟩ := h
      have hh : f.hasQ = false := hasQ_false_of f hg hl (Or.inl (by rw [hlab]; simp))
      refine ⟨s.q, v, rfl, parseRequired_shape P S fuel hN f sm _ true _ (fun _ => hold) hv, ?_⟩
      rcases hq with hq | ⟨hq, _⟩
      · simp [hq, hh]
      · rw [hh] at hq; cases hq
    | optional =>
      simp only [hlab, Option.map_eq_some_iff] at h
      obtain ⟨v, hv, rfl⟩ := h
      refine ⟨_, v, rfl, parseRequired_shape P S fuel hN f sm _ true _ (fun _ => hold) hv, ?_⟩
      by_cases hh : f.hasQ = true
      · simp [hh]
      · rcases hq with hq | ⟨hq, _⟩
        · simp [hh, hq]
        · exact absurd hq hh
    | none =>
      simp only [hlab, Option.map_eq_some_iff] at h
      obtain ⟨v, hv, rfl⟩ := h
      refine ⟨_, v, rfl, parseRequired_shape P S fuel hN f sm _ true _ (fun _ => hold) hv, ?_⟩
      by_cases hh : f.hasQ = true
      · simp [hh]
      · rcases hq with hq | ⟨hq, _⟩
        · simp [hh, hq]
        · exact absurd hq hh

theorem getD_mem (fields : List FieldDesc) (i : Nat) (hi : i < fields.length) : fields.getD i default ∈ fields := by
  rw [getD_eq_getElem?_getD, getElem?_eq_getElem hi]; exact getElem_mem hi

theorem setSlot_length (sl : List Slot) (i : Nat) (s : Slot) : (setSlot sl i s).length = sl.length := by simp [setSlot]

/-- one record of a non-oneof field keeps the invariant and marks the field as seen -/
theorem step_field (P : Msg → Prop) (S : Schema) (fuel : Nat) (hN : NestOK P S fuel) (g : Bool) (cs : Nat → Nat) (fields : List FieldDesc)
    (seen : Nat → Prop) (slots : List Slot) (hinv : PInv P g cs fields seen slots)
    (sm : Scanned) (i : Nat) (hi : i < fields.length) (hgrp : (fields.getD i default).group = none) (s' : Slot)
    (h : slotFn S fuel (fields.getD i default) sm (getSlot slots i) = some s') :
    PInv P g cs fields (fun j => seen j ∨ j = i) (setSlot slots i s') := by
  obtain ⟨hrep, hone⟩ := slotFn_shape P S fuel hN g (fields.getD i default) hgrp sm (getSlot slots i) s' h
  have hil : i < slots.length := by rw [hinv.len]; exact hi
  refine ⟨by rw [setSlot_length, hinv.len], ?_, ?_, ?_, hinv.sel⟩
  · intro j hj hg hl
    by_cases hji : j = i
    · subst hji
      rw [getSlot_setSlot_eq _ _ _ hil]
      exact hrep hl (hinv.rep j hj hg hl)
    · rw [getSlot_setSlot_ne _ _ _ _ (fun h => hji h.symm)]
      exact hinv.rep j hj hg hl
  · intro j hj hg hl
    by_cases hji : j = i
    · subst hji
      rw [getSlot_setSlot_eq _ _ _ hil]
      have := hone hl (hinv.one j hj hg hl).1
      exact ⟨Or.inr this, fun _ => this⟩
    · rw [getSlot_setSlot_ne _ _ _ _ (fun h => hji h.symm)]
      obtain ⟨h1, h2⟩ := hinv.one j hj hg hl
      exact ⟨h1, fun hs => by rcases hs with hs | hs; exact h2 hs; exact absurd hs hji⟩
  · intro j gi hj hg
    have hji : j ≠ i := by intro he; subst he; rw [hgrp] at hg; cases hg
    rw [getSlot_setSlot_ne _ _ _ _ (fun h => hji h.symm)]
    exact hinv.grp j gi hj hg

/-! ### a record of a oneof member -/

theorem zeroGroup_length (g : Nat) : ∀ (fs : List FieldDesc) (ss : List Slot), (zeroGroup g fs ss).length = ss.length
  | [], ss => by simp [zeroGroup]
  | _ :: _, [] => by simp [zeroGroup]
  | f :: fs, s :: ss => by simp [zeroGroup, zeroGroup_length g fs ss]

theorem getD_zeroGroup (g : Nat) : ∀ (fs : List FieldDesc) (ss : List Slot) (j : Nat),
    fs.length = ss.length → j < ss.length →
    (zeroGroup g fs ss).getD j default =
      if (fs.getD j default).group == some g then (match ss.getD j default with | .one q _ => .one q .zero | s => s)
      else ss.getD j default
  | [], [], j, _, hj => by simp at hj
  | [], _ :: _, _, h, _ => by simp at h
  | _ :: _, [], _, h, _ => by simp at h
  | f :: fs, s :: ss, 0, _, _ => by
    simp only [zeroGroup, getD_cons_zero]
    split <;> rfl
  | f :: fs, s :: ss, j+1, h, hj => by
    have := getD_zeroGroup g fs ss j (by simpa using h) (by simpa using hj)
    simpa [zeroGroup] using this

theorem getD_setSlot (sl : List Slot) (i j : Nat) (s : Slot) (hi : i < sl.length) :
    (setSlot sl i s).getD j default = if j = i then s else sl.getD j default := by
  by_cases h : j = i
  · subst h; simp [setSlot, getD_eq_getElem?_getD, hi]
  · simp only [h, if_false]
    have := getSlot_setSlot_ne sl i j s (fun e => h e.symm)
    simpa [getSlot] using this

theorem ids_ne (fields : List FieldDesc) (hd : IdsDistinct fields) (i j : Nat) (hi : i < fields.length) (hj : j < fields.length)
    (hne : i ≠ j) : (fields.getD i default).id ≠ (fields.getD j default).id := by
  rw [getD_fields fields i hi, getD_fields fields j hj]
  have hd' : (fields.map (·.id)).Nodup := hd
  have hp := pairwise_iff_getElem.1 hd'
  rcases Nat.lt_or_gt_of_ne hne with h | h
  · have := hp i j (by simpa using hi) (by simpa using hj) h
    simpa using this
  · have := hp j i (by simpa using hj) (by simpa using hi) h
    intro e; exact this (by simpa using e.symm)

def upd (cs : Nat → Nat) (gi c : Nat) : Nat → Nat := fun x => if x = gi then c else cs x

theorem step_oneof (P : Msg → Prop) (S : Schema) (fuel : Nat) (hN : NestOK P S fuel) (g : Bool) (cs : Nat → Nat) (fields : List FieldDesc)
    (hsch : SchemaOK fields) (seen : Nat → Prop) (slots : List Slot)
    (hinv : PInv P g cs fields seen slots)
    (sm : Scanned) (i gi : Nat) (hi : i < fields.length) (hgrp : (fields.getD i default).group = some gi)
    (htag : (fields.getD i default).id = sm.tag) (sl' : List Slot)
    (h : groupFn S fuel fields (fields.getD i default) gi sm i slots = some sl') :
    PInv P g (upd cs gi sm.tag) fields seen sl' := by
  have hfm := getD_mem fields i hi
  have hlen := hinv.len
  obtain ⟨vi, hsi, hvi⟩ := hinv.grp i gi hi hgrp
  have hq : (getSlot slots i).q = cs gi := by rw [hsi]; rfl
  unfold groupFn at h
  simp only [hq] at h
  -- the slots after the optional clearing: the other members of the group hold no value, everything else is untouched,
  -- and what member i holds is either nothing or a value in parser form
  have key : ∃ sl1, sl1.length = fields.length ∧
      (∀ j, j < fields.length → (fields.getD j default).group = some gi → j ≠ i → sl1.getD j default = .one (cs gi) .zero) ∧
      (∀ j, j < fields.length → (fields.getD j default).group ≠ some gi → sl1.getD j default = slots.getD j default) ∧
      (∀ om, (getSlot sl1 i).v = .msg (some om) → P om ∧ om.ty = (fields.getD i default).sub) ∧
      ∃ v, (parseRequired S fuel (fields.getD i default) sm (getSlot sl1 i).v true) = some v ∧
        sl' = setCase fields gi sm.tag fields (setSlot sl1 i (.one (cs gi) v)) := by
    by_cases hc : (cs gi != 0 && !(cs gi == sm.tag && (fields.getD i default).type == PType.message)) = true
    · simp only [hc, if_true] at h
      cases hlk : lookupField fields (cs gi) with
      | none => simp [hlk] at h
      | some j0 =>
        simp only [hlk, Option.map_eq_some_iff] at h
        obtain ⟨v, hv, rfl⟩ := h
        have hgz : ∀ j, j < fields.length → (fields.getD j default).group = some gi →
            (zeroGroup gi fields slots).getD j default = .one (cs gi) .zero := by
          intro j hj hg
          rw [getD_zeroGroup gi fields slots j hlen.symm (by rw [hlen]; exact hj)]
          obtain ⟨vj, hsj, _⟩ := hinv.grp j gi hj hg
          have : slots.getD j default = .one (cs gi) vj := hsj
          rw [this]
          simp only [hg, beq_self_eq_true, if_true]
        refine ⟨zeroGroup gi fields slots, by rw [zeroGroup_length, hlen], fun j hj hg _ => hgz j hj hg, ?_, ?_, v, hv, rfl⟩
        · intro j hj hg
          rw [getD_zeroGroup gi fields slots j hlen.symm (by rw [hlen]; exact hj)]
          have : ((fields.getD j default).group == some gi) = false := by simpa using hg
          simp only [this, Bool.false_eq_true, if_false]
        · intro om hom
          have : getSlot (zeroGroup gi fields slots) i = .one (cs gi) .zero := hgz i hi hgrp
          rw [this] at hom
          cases hom
    · simp only [hc, Bool.false_eq_true, if_false, Option.map_eq_some_iff] at h
      obtain ⟨v, hv, rfl⟩ := h
      refine ⟨slots, hlen, ?_, fun _ _ _ => rfl, ?_, v, hv, rfl⟩
      · intro j hj hg hji
        obtain ⟨vj, hsj, hvj⟩ := hinv.grp j gi hj hg
        -- either the group is unset, or member i (≠ j) is the selected one
        have hne : (fields.getD j default).id ≠ cs gi := by
          by_cases hc0 : cs gi = 0
          · have hid := (hsch.ids _ (getD_mem fields j hj)).1
            omega
          · have hc0' : (cs gi != 0) = true := by simpa using hc0
            rw [hc0'] at hc
            have hct : cs gi = sm.tag := by
              cases h1 : (cs gi == sm.tag) with
              | true => simpa using h1
              | false => simp [h1] at hc
            rw [hct, ← htag]
            exact ids_ne fields hsch.distinct j i hj hi hji
        rw [if_neg hne] at hvj
        rw [← hvj]; exact hsj
      · intro om hom
        rw [hsi] at hom
        simp only [Slot.v] at hom
        subst hom
        by_cases hid : (fields.getD i default).id = cs gi
        · rw [if_pos hid] at hvi
          exact ⟨hvi.2 om rfl, hvi.1.2⟩
        · rw [if_neg hid] at hvi
          cases hvi
  obtain ⟨sl1, hl1, hmem, hoth, hold, v, hv, rfl⟩ := key
  have hshape := parseRequired_shape P S fuel hN (fields.getD i default) sm _ true v (fun _ => hold) hv
  have hl2 : (setSlot sl1 i (.one (cs gi) v)).length = fields.length := by rw [setSlot_length, hl1]
  have hget : ∀ j, j < fields.length →
      getSlot (setCase fields gi sm.tag fields (setSlot sl1 i (.one (cs gi) v))) j =
        if (fields.getD j default).group = some gi then (if j = i then .one sm.tag v else .one sm.tag .zero)
        else getSlot slots j := by
    intro j hj
    unfold getSlot
    rw [getD_setCase fields gi sm.tag fields _ j hl2.symm (by rw [hl2]; exact hj),
        getD_setSlot sl1 i j _ (by rw [hl1]; exact hi)]
    by_cases hg : (fields.getD j default).group = some gi
    · simp only [hg, beq_self_eq_true, if_true]
      by_cases hji : j = i
      · simp [hji]
      · simp only [hji, if_false]
        rw [hmem j hj hg hji]
    · have : ((fields.getD j default).group == some gi) = false := by simpa using hg
      simp only [this, Bool.false_eq_true, if_false, hg]
      have hji : j ≠ i := by intro e; subst e; exact hg hgrp
      simp only [hji, if_false]
      exact hoth j hj hg
  refine ⟨by rw [setCase_length, hl2], ?_, ?_, ?_, ?_⟩
  · intro j hj hg hl
    rw [hget j hj, if_neg (by rw [hg]; simp)]
    exact hinv.rep j hj hg hl
  · intro j hj hg hl
    rw [hget j hj, if_neg (by rw [hg]; simp)]
    exact hinv.one j hj hg hl
  · intro j gj hj hg
    rw [hget j hj]
    by_cases hgg : gj = gi
    · subst hgg
      simp only [hg, if_true, upd]
      by_cases hji : j = i
      · subst hji
        exact ⟨v, by simp, by rw [if_pos htag]; exact hshape⟩
      · refine ⟨.zero, by simp [hji], ?_⟩
        have := ids_ne fields hsch.distinct j i hj hi hji
        rw [htag] at this
        rw [if_neg this]
    · have hne : (fields.getD j default).group ≠ some gi := by rw [hg]; intro e; exact hgg (Option.some.inj e)
      rw [if_neg hne]
      simp only [upd, hgg, if_false]
      exact hinv.grp j gj hj hg
  · intro g'
    by_cases hgg : g' = gi
    · subst hgg
      right
      exact ⟨i, hi, by simp only [isSel, hgrp, upd, htag, beq_self_eq_true, if_true, Bool.and_self]⟩
    · rcases hinv.sel g' with h0 | ⟨j, hj, hs⟩
      · left; simp [upd, hgg, h0]
      · right
        refine ⟨j, hj, ?_⟩
        simpa [isSel, upd, hgg] using hs

/-! ### the whole parse pass -/

def UnkOK (fields : List FieldDesc) (u : Unk) : Prop :=
  0 < u.tag ∧ u.wt < 8 ∧ Delim u.wt u.data (unkPref u) ∧
    (u.tag < 2 ^ 31 → fields.findIdx? (fun f => f.id == u.tag) = none)

def MInv (P : Msg → Prop) (g : Bool) (fields : List FieldDesc) (seen : Nat → Prop) (m : Msg) : Prop :=
  (∃ cs, PInv P g cs fields seen m.slots) ∧ ∀ u ∈ m.unk, UnkOK fields u

theorem unkPref_of_delim (u : Unk) (pref : Nat) (h : Delim u.wt u.data pref) : unkPref u = pref := by
  have := h []
  simp only [append_nil] at this
  simp [unkPref, this]

theorem step_member (P : Msg → Prop) (S : Schema) (fuel : Nat) (hN : NestOK P S fuel) (g : Bool) (fields : List FieldDesc) (hnm : NoMerge fields)
    (hsch : SchemaOK fields) (seen : Nat → Prop) (m m' : Msg) (hinv : MInv P g fields seen m)
    (sm : Scanned) (hsm : ScOK fields sm) (h : parseMember S fuel fields sm m = some m') :
    MInv P g fields (fun j => seen j ∨ sm.fidx = some j) m' := by
  obtain ⟨ty, sl, unk⟩ := m
  obtain ⟨⟨cs, hp⟩, hu⟩ := hinv
  cases hf : sm.fidx with
  | none =>
    rw [parseMember_unknown S fuel fields sm hf] at h
    cases h
    refine ⟨⟨cs, ?_⟩, ?_⟩
    · exact ⟨hp.len, hp.rep, fun j hj hg hl => ⟨(hp.one j hj hg hl).1, fun hs => by
        rcases hs with hs | hs
        · exact (hp.one j hj hg hl).2 hs
        · cases hs⟩, hp.grp, hp.sel⟩
    · intro u hu'
      rcases mem_append.1 hu' with hu' | hu'
      · exact hu u hu'
      · simp only [mem_singleton] at hu'
        subst hu'
        refine ⟨hsm.tag_pos, hsm.wt_lt, ?_, fun ht => hsm.fnone hf ht⟩
        have := unkPref_of_delim ⟨sm.tag, sm.wt, sm.data⟩ sm.prefLen hsm.delim
        rw [this]; exact hsm.delim
  | some i =>
    obtain ⟨hi, hid⟩ := hsm.fsome i hf
    cases hg : (fields.getD i default).group with
    | none =>
      rw [parseMember_field S fuel fields sm i hf hg] at h
      simp only [Option.map_eq_some_iff] at h
      obtain ⟨s', hs', rfl⟩ := h
      have := step_field P S fuel hN g cs fields seen sl hp sm i hi hg s' hs'
      refine ⟨⟨cs, ?_⟩, hu⟩
      refine ⟨this.len, this.rep, fun j hj hgj hl => ⟨(this.one j hj hgj hl).1, fun hs => (this.one j hj hgj hl).2 ?_⟩, this.grp, this.sel⟩
      rcases hs with hs | hs
      · exact Or.inl hs
      · exact Or.inr (Option.some.inj hs).symm
    | some gi =>
      have hl := hnm.oneof i (by rw [hg]; rfl)
      rw [parseMember_oneof S fuel fields sm i gi hf hg hl] at h
      simp only [Option.map_eq_some_iff] at h
      obtain ⟨sl', hs', rfl⟩ := h
      have := step_oneof P S fuel hN g cs fields hsch seen sl hp sm i gi hi hg hid sl' hs'
      refine ⟨⟨upd cs gi sm.tag, ?_⟩, hu⟩
      refine ⟨this.len, this.rep, fun j hj hgj hl => ⟨(this.one j hj hgj hl).1, fun hs => (this.one j hj hgj hl).2 ?_⟩, this.grp, this.sel⟩
      rcases hs with hs | hs
      · exact hs
      · have : i = j := Option.some.inj hs
        subst this
        rw [hg] at hgj; cases hgj

theorem parseAll_inv (P : Msg → Prop) (S : Schema) (fuel : Nat) (hN : NestOK P S fuel) (g : Bool) (fields : List FieldDesc) (hnm : NoMerge fields)
    (hsch : SchemaOK fields) : ∀ (l : List Scanned) (seen : Nat → Prop) (m m' : Msg),
    MInv P g fields seen m → (∀ sm ∈ l, ScOK fields sm) →
    parseAll S fuel fields l m = some m' →
    MInv P g fields (fun j => seen j ∨ ∃ sm ∈ l, sm.fidx = some j) m'
  | [], seen, m, m', hinv, _, h => by
    simp only [parseAll, Option.some.injEq] at h
    subst h
    obtain ⟨⟨cs, hp⟩, hu⟩ := hinv
    exact ⟨⟨cs, hp.len, hp.rep, fun j hj hg hl => ⟨(hp.one j hj hg hl).1, fun hs => by
      rcases hs with hs | ⟨_, hm, _⟩
      · exact (hp.one j hj hg hl).2 hs
      · simp at hm⟩, hp.grp, hp.sel⟩, hu⟩
  | sm :: rest, seen, m, m', hinv, hall, h => by
    simp only [parseAll] at h
    cases hp : parseMember S fuel fields sm m with
    | none => simp [hp] at h
    | some m1 =>
      simp only [hp] at h
      have h1 := step_member P S fuel hN g fields hnm hsch seen m m1 hinv sm (hall sm (mem_cons_self ..)) hp
      have h2 := parseAll_inv P S fuel hN g fields hnm hsch rest _ m1 m' h1 (fun x hx => hall x (mem_cons_of_mem _ hx)) h
      obtain ⟨⟨cs, hq⟩, hu⟩ := h2
      refine ⟨⟨cs, hq.len, hq.rep, fun j hj hg hl => ⟨(hq.one j hj hg hl).1, fun hs => (hq.one j hj hg hl).2 ?_⟩, hq.grp, hq.sel⟩, hu⟩
      rcases hs with hs | ⟨x, hx, hxi⟩
      · exact Or.inl (Or.inl hs)
      · rcases mem_cons.1 hx with rfl | hx'
        · exact Or.inl (Or.inr hxi)
        · exact Or.inr ⟨x, hx', hxi⟩
