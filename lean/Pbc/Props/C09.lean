import Pbc.Props.C04c
/-
  C09 — forward compatibility.  A program built against an OLDER schema (it knows only the fields selected by `keep`) that
  parses a message of the newer schema and serialises it again writes: its known fields (in its field order), then
  everything it did not know — the removed fields' records and the original unknown fields — verbatim, in arrival order.
  `forward_compat`: the newer program reads exactly the original message from those bytes.
  (That unknown fields are retained with their exact content, in arrival order, and written out again is part of
  `C01.roundtrip`; that the old program's output has the shape assumed here is checked by the C09 correspondence run.)
-/
namespace Pbc.Props.C09
open Pbc Pbc.Model Pbc.Wire Pbc.Lemmas Pbc.Props.C01 Pbc.Props.C04 List

variable {α : Type} {κ : Type} [DecidableEq κ]

/-- splitting a list by a predicate that is constant on every key class preserves every key's subsequence -/
theorem filter_partition (key : α → κ) (p : α → Bool) (l : List α)
    (hp : ∀ a ∈ l, ∀ b ∈ l, key a = key b → p a = p b) (k : κ) :
    (l.filter p ++ l.filter (fun a => !p a)).filter (fun a => key a = k) = l.filter (fun a => key a = k) := by
  rw [filter_append, filter_filter, filter_filter]
  by_cases hex : ∃ a ∈ l, key a = k ∧ p a = true
  · obtain ⟨a, ha, hka, hpa⟩ := hex
    have h1 : l.filter (fun x => decide (key x = k) && p x) = l.filter (fun x => decide (key x = k)) := by
      apply filter_congr
      intro x hx
      by_cases hkx : key x = k
      · have : p x = true := by rw [hp x hx a ha (hkx.trans hka.symm)]; exact hpa
        simp [hkx, this]
      · simp [hkx]
    have h2 : l.filter (fun x => decide (key x = k) && !p x) = [] := by
      rw [filter_eq_nil_iff]
      intro x hx
      by_cases hkx : key x = k
      · have : p x = true := by rw [hp x hx a ha (hkx.trans hka.symm)]; exact hpa
        simp [this]
      · simp [hkx]
    rw [h1, h2, append_nil]
  · have hall : ∀ x ∈ l, key x = k → p x = false := by
      intro x hx hkx
      cases hpx : p x with
      | false => rfl
      | true => exact absurd ⟨x, hx, hkx, hpx⟩ hex
    have h1 : l.filter (fun x => decide (key x = k) && p x) = [] := by
      rw [filter_eq_nil_iff]
      intro x hx
      by_cases hkx : key x = k
      · simp [hall x hx hkx]
      · simp [hkx]
    have h2 : l.filter (fun x => decide (key x = k) && !p x) = l.filter (fun x => decide (key x = k)) := by
      apply filter_congr
      intro x hx
      by_cases hkx : key x = k
      · simp [hkx, hall x hx hkx]
      · simp [hkx]
    rw [h1, h2, nil_append]

/-- does the older schema know the field this record belongs to? (unknown fields: no) -/
def kept (fields : List FieldDesc) (keep : FieldDesc → Bool) (sm : Scanned) : Bool :=
  match sm.fidx with
  | some i => keep (fields.getD i default)
  | none => false

/-- **C09, forward compatibility**: for a canonical message of the newer schema and any older schema that keeps a subset
    `keep` of the fields (all members of the oneofs together, or none), the bytes "kept fields' records, then all other
    records verbatim in arrival order" are parsed by the newer schema to exactly the original message. -/
theorem forward_compat (P : Msg → Prop) (S : Schema) (fuel : Nat) (hn : NestedOK P S fuel) (m : Msg) (hm : CanonMsgO P S m)
    (keep : FieldDesc → Bool)
    (hko : ∀ i j, ((S.msg m.ty).fields.getD i default).group.isSome = true → ((S.msg m.ty).fields.getD j default).group.isSome = true →
      keep ((S.msg m.ty).fields.getD i default) = keep ((S.msg m.ty).fields.getD j default)) :
    let keptR : Rec × Nat → Bool := fun p => kept (S.msg m.ty).fields keep (toScanned (S.msg m.ty).fields p)
    unpackMsg S fuel m.ty ((((recsMsg S m).filter keptR ++ (recsMsg S m).filter (fun p => !keptR p)).map (·.1.bytes)).flatten) = some m := by
  intro keptR
  apply unpack_reordered P S fuel hn m hm
  · exact filter_append_perm keptR (recsMsg S m)
  · intro k
    have hcomm : ∀ (l : List (Rec × Nat)), (l.map (toScanned (S.msg m.ty).fields)).filter (fun sm => rkey (S.msg m.ty).fields sm = k) =
        (l.filter (fun p => rkey (S.msg m.ty).fields (toScanned (S.msg m.ty).fields p) = k)).map (toScanned (S.msg m.ty).fields) := by
      intro l; rw [filter_map]; rfl
    rw [hcomm, hcomm]
    congr 1
    apply filter_partition (fun p => rkey (S.msg m.ty).fields (toScanned (S.msg m.ty).fields p)) keptR
    intro a _ b _ hk
    show kept _ keep (toScanned _ a) = kept _ keep (toScanned _ b)
    unfold rkey at hk
    unfold kept
    cases ha : (toScanned (S.msg m.ty).fields a).fidx with
    | none =>
      cases hb : (toScanned (S.msg m.ty).fields b).fidx with
      | none => rfl
      | some j =>
        rw [ha, hb] at hk
        simp only at hk
        split at hk <;> cases hk
    | some i =>
      cases hb : (toScanned (S.msg m.ty).fields b).fidx with
      | none =>
        rw [ha, hb] at hk
        simp only at hk
        split at hk <;> cases hk
      | some j =>
        rw [ha, hb] at hk
        simp only at hk
        by_cases hgi : ((S.msg m.ty).fields.getD i default).group.isSome = true
        · by_cases hgj : ((S.msg m.ty).fields.getD j default).group.isSome = true
          · exact hko i j hgi hgj
          · simp only [hgi, hgj, if_true, Bool.false_eq_true, if_false] at hk
            cases hk
        · by_cases hgj : ((S.msg m.ty).fields.getD j default).group.isSome = true
          · simp only [hgi, hgj, if_true, Bool.false_eq_true, if_false] at hk
            cases hk
          · simp only [hgi, hgj, Bool.false_eq_true, if_false, RKey.field.injEq] at hk
            rw [hk]

end Pbc.Props.C09
