import Pbc.Props.C04
/-
  C10 — repeated occurrences of a field, at the level of one occurrence arriving in ANY state of the slot
  (not only the initial one, as in the round-trip theorems):
  * numbers, strings, bytes: the arriving occurrence replaces whatever the slot held (`last_wins`);
  * repeated fields: the arriving element is appended to whatever was parsed before (`C01.parse_rep_elem`,
    `C04.parse_rep_elem_anyflag`, restated as `repeated_appends`);
  * a oneof member arriving while ANOTHER member is selected clears the group's storage, stores the new value and
    switches the case of every member (`oneof_last_member_wins`).
  What `merge_messages` does for embedded messages is the model function `mergeMsg` itself (it follows every repaired
  rule F2–F5b, F16, F22); its agreement with the reference implementation is the differential check of C10.
-/
namespace Pbc.Props.C10
open Pbc Pbc.Model Pbc.Wire Pbc.Lemmas Pbc.Props.C01 List

/-- for every type but `message` the old value is irrelevant to what an occurrence is parsed to -/
theorem parseRequired_nonmsg (S : Schema) (f : FieldDesc) (v : Val) (h : CanonElem1 S f v) (hnm : f.type ≠ .message)
    (fuel : Nat) (fi : Option Nat) (old : Val) (mc : Bool) :
    parseRequired S fuel f ⟨f.id, f.type.wireType, elemPref S f v, fi, elemBytes S f v⟩ old mc = some v := by
  have := parseRequired_elem S f v h fuel fi .zero mc (fun _ om => by simp)
    (fun m' hm => by subst hm; exact absurd h.1 hnm)
  unfold parseRequired at this ⊢
  cases hft : f.type <;> simp only [hft] at this ⊢ <;> first | exact this | exact absurd hft hnm

/-- **last one wins**: an occurrence of a singular, non-oneof field of any type but `message` sets the slot to exactly
    the arriving value and marks it present — whatever the slot held before (an earlier occurrence, the default, …) -/
theorem last_wins (S : Schema) (fields : List FieldDesc) (hd : IdsDistinct fields) (fuel : Nat)
    (k : Nat) (f : FieldDesc) (hk : k < fields.length) (hf : fields[k] = f) (hl : f.label ≠ .repeated) (hg : f.group = none)
    (hnm : f.type ≠ .message) (v : Val) (hv : CanonElem1 S f v) (ty : Nat) (sl : List Slot) (u : List Unk) :
    parseMember S fuel fields (toScanned fields (elemRec S f v)) (.mk ty sl u) =
      some (.mk ty (setSlot sl k (.one (if f.hasQ then 1 else (getSlot sl k).q) v)) u) := by
  rw [toScanned_elemRec S fields hd k f hk hf v]
  have hfd : fields.getD k default = f := by rw [getD_eq_getElem?_getD, getElem?_eq_getElem hk]; simpa using hf
  have hpr := parseRequired_nonmsg S f v hv hnm fuel (some k) (getSlot sl k).v true
  unfold parseMember
  simp only [hfd]
  cases hlab : f.label with
  | repeated => exact absurd hlab hl
  | required => simp only [hpr, Option.map_some, hasQ_required f hlab hg, Bool.false_eq_true, if_false]
  | optional => simp only [hg, hpr, Option.map_some]
  | none => simp only [hg, hpr, Option.map_some]

/-- two occurrences in a row: the second value is what remains -/
theorem last_of_two_wins (S : Schema) (fields : List FieldDesc) (hd : IdsDistinct fields) (fuel : Nat)
    (k : Nat) (f : FieldDesc) (hk : k < fields.length) (hf : fields[k] = f) (hl : f.label ≠ .repeated) (hg : f.group = none)
    (hnm : f.type ≠ .message) (v1 v2 : Val) (h1 : CanonElem1 S f v1) (h2 : CanonElem1 S f v2)
    (ty : Nat) (sl : List Slot) (u : List Unk) (hks : k < sl.length) :
    parseAll S fuel fields [toScanned fields (elemRec S f v1), toScanned fields (elemRec S f v2)] (.mk ty sl u) =
      some (.mk ty (setSlot sl k (.one (if f.hasQ then 1 else (getSlot sl k).q) v2)) u) := by
  simp only [parseAll]
  rw [last_wins S fields hd fuel k f hk hf hl hg hnm v1 h1 ty sl u]
  simp only
  rw [last_wins S fields hd fuel k f hk hf hl hg hnm v2 h2 ty _ u]
  simp only [setSlot_setSlot, getSlot_setSlot _ _ _ hks, Slot.q]
  cases f.hasQ <;> simp

/-- ... so an earlier, overridden occurrence of a singular scalar / string / bytes field leaves no trace at all
    (C04: "stale" occurrences in a valid encoding do not change the value that is read) -/
theorem stale_occurrence_irrelevant (S : Schema) (fields : List FieldDesc) (hd : IdsDistinct fields) (fuel : Nat)
    (k : Nat) (f : FieldDesc) (hk : k < fields.length) (hf : fields[k] = f) (hl : f.label ≠ .repeated) (hg : f.group = none)
    (hnm : f.type ≠ .message) (v1 v2 : Val) (h1 : CanonElem1 S f v1) (h2 : CanonElem1 S f v2)
    (ty : Nat) (sl : List Slot) (u : List Unk) (hks : k < sl.length) :
    parseAll S fuel fields [toScanned fields (elemRec S f v1), toScanned fields (elemRec S f v2)] (.mk ty sl u) =
      parseAll S fuel fields [toScanned fields (elemRec S f v2)] (.mk ty sl u) := by
  rw [last_of_two_wins S fields hd fuel k f hk hf hl hg hnm v1 v2 h1 h2 ty sl u hks]
  simp only [parseAll]
  rw [last_wins S fields hd fuel k f hk hf hl hg hnm v2 h2 ty sl u]

/-- **repeated fields concatenate in arrival order**: an arriving element is appended to the array parsed so far -/
theorem repeated_appends (S : Schema) (fields : List FieldDesc) (hd : IdsDistinct fields) (fuel : Nat)
    (k : Nat) (f : FieldDesc) (hk : k < fields.length) (hf : fields[k] = f) (hl : f.label = .repeated)
    (hp : f.type.packable = true) (v : Val) (hv : CanonElem1 S f v)
    (ty : Nat) (sl : List Slot) (u : List Unk) (acc : List Val) (hs : getSlot sl k = .rep acc.length (optAcc acc)) :
    parseMember S fuel fields (toScanned fields (elemRec S f v)) (.mk ty sl u) =
      some (.mk ty (setSlot sl k (.rep (acc ++ [v]).length (optAcc (acc ++ [v])))) u) :=
  Pbc.Props.C04.parse_rep_elem_anyflag S fields hd fuel k f hk hf hl hp v hv ty sl u acc hs

/-- **within a oneof the last member on the wire is the one selected**: a member arriving while a DIFFERENT member
    (case `q ≠ 0`, `q ≠` its own number) is selected zeroes the group's storage, stores its value, and writes its number
    into the case word of every member -/
theorem oneof_last_member_wins (S : Schema) (fields : List FieldDesc) (hd : IdsDistinct fields) (fuel : Nat)
    (k : Nat) (f : FieldDesc) (hk : k < fields.length) (hf : fields[k] = f) (hl : f.label = .optional ∨ f.label = .none)
    (gi : Nat) (hg : f.group = some gi) (hnm : f.type ≠ .message) (v : Val) (hv : CanonElem1 S f v)
    (ty : Nat) (sl : List Slot) (u : List Unk) (hq0 : (getSlot sl k).q ≠ 0) (hqt : (getSlot sl k).q ≠ f.id)
    (hmem : (lookupField fields (getSlot sl k).q).isSome = true) :
    parseMember S fuel fields (toScanned fields (elemRec S f v)) (.mk ty sl u) =
      some (.mk ty (setCase fields gi f.id fields (setSlot (zeroGroup gi fields sl) k (.one (getSlot sl k).q v))) u) := by
  rw [toScanned_elemRec S fields hd k f hk hf v]
  have hfd : fields.getD k default = f := by rw [getD_eq_getElem?_getD, getElem?_eq_getElem hk]; simpa using hf
  obtain ⟨j, hj⟩ := Option.isSome_iff_exists.1 hmem
  have hpr := parseRequired_nonmsg S f v hv hnm fuel (some k) (getSlot (zeroGroup gi fields sl) k).v true
  have hc1 : ((getSlot sl k).q != 0) = true := by simpa using hq0
  have hc2 : ((getSlot sl k).q == f.id) = false := by simpa using hqt
  unfold parseMember
  simp only [hfd]
  rcases hl with hlab | hlab
  · simp only [hlab, hg, hc1, hc2, Bool.false_and, Bool.not_false, Bool.and_true, if_true, hj, hpr, Option.map_some]
  · simp only [hlab, hg, hc1, hc2, Bool.false_and, Bool.not_false, Bool.and_true, if_true, hj, hpr, Option.map_some]

end Pbc.Props.C10
