import Pbc.Model.Unpack
/-
  C05 -- parsing arbitrary bytes is memory-safe and always terminates (the part that is logic).
  * `Model.unpack` is a total function on ALL byte strings and ALL schemas (Lean accepts its
    definition: every recursion is structural on a fuel that the theorems below show is never
    exhausted by the scan pass and that exceeds any possible nesting depth).
  * every scan step consumes at least one byte, so the scan pass needs at most `len` iterations;
  * every scanned occurrence lies inside the input and a nested message body is at least two
    bytes shorter than its parent: nesting depth ≤ len / 2 (linear, no limit in the code: the
    stack-exhaustion risk of finding F8 cannot be exhibited by the model and is recorded);
  * pass-1 element counts are an upper bound of (indeed equal to) what pass 2 produces for every
    payload and type, so pass 2 never writes past the arrays allocated between the passes;
  * the leaf decoders are in bounds and UB-free for all inputs: `Pbc.Refine.*_spec/_ok`.
-/
namespace Pbc.Props.C05
open Pbc Pbc.Model Pbc.Wire

/-! ### pass 1 vs pass 2 on packed payloads -/

def terminators (b : Bytes) : Nat := (b.filter (fun x => x.toNat < 128)).length

theorem terminators_append (a b : Bytes) : terminators (a ++ b) = terminators a + terminators b := by
  simp [terminators, List.filter_append]

/-- the bytes of one scanned varint contain exactly one terminator -/
theorem scanVarint_terminators {max : Nat} {b : Bytes} {s : Nat} (h : scanVarint max b = some s) :
    terminators (b.take s) = 1 := by
  induction max generalizing b s with
  | zero => simp [scanVarint] at h
  | succ max ih =>
    cases b with
    | nil => simp [scanVarint] at h
    | cons x xs =>
      simp only [scanVarint] at h
      split at h
      · rename_i hx
        cases h
        simp [terminators, hx]
      · rename_i hx
        cases hs : scanVarint max xs with
        | none => simp [hs] at h
        | some k =>
          simp [hs] at h; subst h
          have := ih hs
          simp only [List.take_succ_cons, terminators, List.filter_cons, hx] at this ⊢
          simpa using this

theorem parsePackedVarints_count (t : PType) (fuel : Nat) (b : Bytes) (vs : List Val)
    (h : parsePackedVarints t fuel b = some vs) : vs.length = terminators b := by
  induction fuel generalizing b vs with
  | zero =>
    simp only [parsePackedVarints] at h
    split at h
    · cases h; rename_i hb; simp [List.isEmpty_iff.mp hb, terminators]
    · cases h
  | succ fuel ih =>
    simp only [parsePackedVarints] at h
    split at h
    · cases h; rename_i hb; simp [List.isEmpty_iff.mp hb, terminators]
    · split at h
      · cases h
      · rename_i s hs
        cases hr : parsePackedVarints t fuel (b.drop s) with
        | none => simp [hr] at h
        | some rest =>
          simp [hr] at h; subst h
          have h1 := ih _ _ hr
          have h2 := scanVarint_terminators hs
          have : terminators b = terminators (b.take s) + terminators (b.drop s) := by
            rw [← terminators_append, List.take_append_drop]
          simp only [List.length_cons, h1, this, h2]; omega

theorem parsePackedFixed_length (t : PType) (w n : Nat) (b : Bytes) : (parsePackedFixed t w n b).length = n := by
  induction n generalizing b with
  | zero => simp [parsePackedFixed]
  | succ n ih => simp [parsePackedFixed, ih]

/-- C05 (ii): for EVERY payload and EVERY type, if pass 2 produces `vs`, pass 1 had counted
    exactly `vs.length` elements -- the array allocated between the passes is never overrun. -/
theorem pass2_count_le_pass1 (t : PType) (payload : Bytes) (vs : List Val) (c : Nat)
    (h2 : parsePacked t payload = some vs) (h1 : countPacked t payload = some c) : vs.length ≤ c := by
  cases t <;> simp only [parsePacked, countPacked] at h1 h2
  all_goals first
    | (split at h1
       · cases h1
       · cases h1; cases h2; simp [parsePackedFixed_length])
    | (cases h1; have := parsePackedVarints_count _ _ _ _ h2; simp [terminators] at this ⊢; omega)
    | (cases h1; have := parsePackedVarints_count _ _ _ _ h2
       have hle : terminators payload ≤ payload.length := by simp [terminators]; exact List.length_filter_le _ _
       omega)
    | cases h2

/-! ### termination of the scan pass and depth of nesting -/

theorem scanVarint_pos {max : Nat} {b : Bytes} {n : Nat} (h : scanVarint max b = some n) : 0 < n ∧ n ≤ b.length :=
  let ⟨a, _, c⟩ := scanVarint_le h; ⟨a, c⟩

theorem scanKey_used {b : Bytes} {used tag wt : Nat} (h : scanKey b = some (used, tag, wt)) :
    0 < used ∧ used ≤ b.length := by
  unfold scanKey at h
  split at h
  · cases h
  · split at h
    · cases h
    · split at h
      · cases h
      · rename_i n hn
        simp only at h
        split at h
        · cases h
        · simp only [Option.some.injEq, Prod.mk.injEq] at h
          obtain ⟨hu, _, _⟩ := h
          subst hu
          exact scanVarint_pos hn

theorem scanLen_bounds {b : Bytes} {p tot : Nat} (h : scanLen b = some (p, tot)) :
    0 < p ∧ p ≤ tot ∧ tot ≤ b.length := by
  unfold scanLen at h
  split at h
  · cases h
  · rename_i n hn
    simp only at h
    split at h
    · cases h
    · split at h
      · cases h
      · simp only [Option.some.injEq, Prod.mk.injEq] at h
        obtain ⟨h1, h2⟩ := h
        subst h1; subst h2
        have := scanVarint_pos hn
        omega

theorem delimit_bounds {wt : Nat} {rest : Bytes} {len pref : Nat} (h : delimit wt rest = some (len, pref)) :
    0 < len ∧ len ≤ rest.length ∧ pref ≤ len ∧ (wt = 2 → 0 < pref) := by
  unfold delimit at h
  split at h
  · rename_i hw
    cases hs : scanVarint (min rest.length 10) rest with
    | none => simp [hs] at h
    | some n =>
      simp [hs] at h
      obtain ⟨h1, h2⟩ := h; subst h1; subst h2
      have := scanVarint_pos hs
      have : wt = 0 := by simpa using hw
      omega
  · split at h
    · rename_i hw
      split at h
      · cases h
      · cases h
        have : wt = 1 := by simpa using hw
        omega
    · split at h
      · cases hs : scanLen rest with
        | none => simp [hs] at h
        | some pt =>
          obtain ⟨p, tot⟩ := pt
          simp [hs] at h
          obtain ⟨h1, h2⟩ := h; subst h1; subst h2
          have := scanLen_bounds hs
          omega
      · split at h
        · rename_i hw
          split at h
          · cases h
          · cases h
            have : wt = 5 := by simpa using hw
            omega
        · cases h

/-- every scan step consumes at least two bytes (a key and at least one byte of value) -/
theorem scanStep_consumes {fields : List FieldDesc} {b b' : Bytes} {st st' : ScanState}
    (h : scanStep fields b st = some (b', st')) : b'.length + 2 ≤ b.length := by
  unfold scanStep at h
  split at h
  · cases h
  · rename_i used tag wt hk
    have hu := scanKey_used hk
    generalize resolveField fields st tag = r at h
    obtain ⟨field, last, lastIdx, nu⟩ := r
    simp only at h
    split at h
    · cases h
    · rename_i len pref hd
      have hb := delimit_bounds hd
      split at h
      · cases h
      · split at h
        · cases h
        · simp only [Option.some.injEq, Prod.mk.injEq] at h
          obtain ⟨h1, _⟩ := h
          subst h1
          simp only [List.length_drop] at hb ⊢
          omega

/-- C05 (i): the scan loop never runs out of fuel: with fuel = input length (what `unpackMsg`
    passes) the result is the same as with any larger fuel -- the C `while (rem > 0)` terminates. -/
theorem scanLoop_fuel_irrelevant (fields : List FieldDesc) (b : Bytes) (st : ScanState) (f1 f2 : Nat)
    (h1 : b.length ≤ f1) (h2 : b.length ≤ f2) : scanLoop fields f1 b st = scanLoop fields f2 b st := by
  induction f1 generalizing b st f2 with
  | zero =>
    have : b = [] := List.length_eq_zero_iff.mp (by omega)
    subst this
    cases f2 <;> simp [scanLoop]
  | succ f1 ih =>
    cases f2 with
    | zero =>
      have : b = [] := List.length_eq_zero_iff.mp (by omega)
      subst this; simp [scanLoop]
    | succ f2 =>
      simp only [scanLoop]
      split
      · rfl
      · cases hs : scanStep fields b st with
        | none => rfl
        | some r =>
          obtain ⟨b', st'⟩ := r
          have := scanStep_consumes hs
          exact ih b' st' f2 (by omega) (by omega)

/-- every member recorded by one scan step lies inside the remaining input, and the body of a
    length-delimited member (what a nested `unpack` is called on) is at least two bytes shorter
    than the input of the enclosing call: recursion depth ≤ len / 2. -/
theorem scanStep_member_shorter {fields : List FieldDesc} {b b' : Bytes} {st st' : ScanState}
    (h : scanStep fields b st = some (b', st')) :
    ∃ sm, st'.acc = sm :: st.acc ∧ sm.data.length < b.length ∧
      (sm.wt = 2 → (sm.data.drop sm.prefLen).length + 2 ≤ b.length) := by
  unfold scanStep at h
  split at h
  · cases h
  · rename_i used tag wt hk
    have hu := scanKey_used hk
    generalize resolveField fields st tag = r at h
    obtain ⟨field, last, lastIdx, nu⟩ := r
    simp only at h
    split at h
    · cases h
    · rename_i len pref hd
      have hb := delimit_bounds hd
      split at h
      · cases h
      · split at h
        · cases h
        · simp only [Option.some.injEq, Prod.mk.injEq] at h
          obtain ⟨_, h2⟩ := h
          subst h2
          refine ⟨_, rfl, ?_, ?_⟩
          · simp only [List.length_take, List.length_drop] at hb ⊢; omega
          · intro hwt
            simp only [List.length_take, List.length_drop] at hb ⊢
            have := hb.2.2.2 hwt
            omega

end Pbc.Props.C05
