import Pbc.Props.C01
import Pbc.Props.C11
/-
  C01 (message level), stage B/C — the parse pass inverts the serialiser on the records of stage A.
-/
namespace Pbc.Props.C01
open Pbc Pbc.Model Pbc.Wire Pbc.Lemmas List

/-- an element in the form the parser produces it (one level: what a nested message must satisfy is the caller's
    induction hypothesis) -/
def CanonElem1 (S : Schema) (f : FieldDesc) : Val → Prop
  | .msg (some m) => f.type = .message ∧ m.ty = f.sub ∧ (packMsg S m).length < 2 ^ 31
  | .str .own s => f.type = .string ∧ s.length < 2 ^ 31 ∧ (0 : Byte) ∉ s
  | .bin len .own d => f.type = .bytes ∧ 0 < len ∧ d.length = len ∧ len < 2 ^ 31
  | .bin len .null d => f.type = .bytes ∧ len = 0 ∧ d = []
  | .w32 x => okScalar f.type (.w32 x)
  | .w64 x => okScalar f.type (.w64 x)
  | _ => False

theorem okScalar_wire (t : PType) (v : Val) (h : okScalar t v) : t.wireType ≠ 2 ∧ t ≠ .string ∧ t ≠ .bytes ∧ t ≠ .message := by
  cases v with
  | w32 x => obtain ⟨h1, _⟩ := h; cases t <;> simp_all [PType.is32, PType.wireType]
  | w64 x => obtain ⟨h1, h2, h3, h4⟩ := h; cases t <;> simp_all [PType.is32, PType.wireType]
  | _ => exact absurd h (by simp [okScalar])

theorem canon_framed (S : Schema) (f : FieldDesc) (v : Val) (h : CanonElem1 S f v) : ElemFramed S f v := by
  cases v with
  | msg om => cases om with
    | some m => exact ⟨h.1, h.2.2⟩
    | none => exact absurd h (by simp [CanonElem1])
  | str p s =>
    cases p with
    | own => exact ⟨h.1, h.2.1⟩
    | null => exact absurd h (by simp [CanonElem1])
    | dflt => exact absurd h (by simp [CanonElem1])
    | empty => exact absurd h (by simp [CanonElem1])
  | bin len p d =>
    cases p with
    | own => exact ⟨h.1, h.2.2.2⟩
    | null => obtain ⟨h1, h2, _⟩ := h; exact ⟨h1, by omega⟩
    | dflt => exact absurd h (by simp [CanonElem1])
    | empty => exact absurd h (by simp [CanonElem1])
  | w32 x => have h' : okScalar f.type (.w32 x) := h; exact (okScalar_wire _ _ h').1
  | w64 x => have h' : okScalar f.type (.w64 x) := h; exact (okScalar_wire _ _ h').1
  | zero => trivial

theorem takeWhile_no_zero : ∀ (s : Bytes), (0 : Byte) ∉ s → s.takeWhile (fun b => b != 0) = s
  | [], _ => rfl
  | b :: bs, h => by
    have hb : b ≠ 0 := fun hc => h (by rw [hc]; exact mem_cons_self ..)
    have := takeWhile_no_zero bs (fun hc => h (mem_cons_of_mem _ hc))
    have hb' : (b != 0) = true := by simpa using hb
    rw [takeWhile_cons, hb']; simp only [if_true]; exact congrArg _ this

theorem wtOk_self (t : PType) : wtOk t t.wireType = true := by cases t <;> simp [wtOk]

theorem takePad_self (d : Bytes) : takePad d.length d = d := by simp [takePad]

/-- **element level**: the parser reads back from an element's record exactly the element -/
theorem parseRequired_elem (S : Schema) (f : FieldDesc) (v : Val) (h : CanonElem1 S f v) (fuel : Nat) (fi : Option Nat)
    (old : Val) (mc : Bool) (hold : mc = true → ∀ om, old ≠ .msg (some om))
    (ih : ∀ m', v = .msg (some m') → ∃ fuel', fuel = fuel' + 1 ∧ unpackMsg S fuel' f.sub (packMsg S m') = some m') :
    parseRequired S fuel f ⟨f.id, f.type.wireType, elemPref S f v, fi, elemBytes S f v⟩ old mc = some v := by
  unfold parseRequired
  simp only [wtOk_self, Bool.not_true, Bool.false_eq_true, if_false]
  cases v with
  | msg om =>
    cases om with
    | none => exact absurd h (by simp [CanonElem1])
    | some m =>
      obtain ⟨ht, hty, hl⟩ := h
      have hd : drop (elemPref S f (.msg (some m))) (elemBytes S f (.msg (some m))) = packMsg S m := by
        simp only [elemPref, ht, PType.wireType, beq_self_eq_true, if_true, innerLen, elemBytes, lenPrefixed]
        rw [← varint_length]; exact drop_left
      obtain ⟨fuel', hfu, hun⟩ := ih m rfl
      subst hfu
      simp only [ht, hd]
      rw [hun]
      cases old with
      | msg oo =>
        cases oo with
        | none => cases mc <;> rfl
        | some om =>
          cases mc with
          | false => rfl
          | true => exact absurd rfl (hold rfl om)
      | _ => cases mc <;> rfl
  | str p s =>
    cases p with
    | own =>
      obtain ⟨ht, hl, hz⟩ := h
      have hd : drop (elemPref S f (.str .own s)) (elemBytes S f (.str .own s)) = s := by
        simp only [elemPref, ht, PType.wireType, beq_self_eq_true, if_true, innerLen, elemBytes, lenPrefixed]
        rw [← varint_length]; exact drop_left
      simp only [ht, hd, takeWhile_no_zero s hz]
    | null => exact absurd h (by simp [CanonElem1])
    | dflt => exact absurd h (by simp [CanonElem1])
    | empty => exact absurd h (by simp [CanonElem1])
  | bin len p d =>
    cases p with
    | own =>
      obtain ⟨ht, hpos, hdl, hl⟩ := h
      subst hdl
      have hd : drop (elemPref S f (.bin d.length .own d)) (elemBytes S f (.bin d.length .own d)) = d := by
        simp only [elemPref, ht, PType.wireType, beq_self_eq_true, if_true, innerLen, elemBytes, takePad_self]
        rw [← varint_length]; exact drop_left
      simp only [ht, hd]
      simp [hpos]
    | null =>
      obtain ⟨ht, h0, hdn⟩ := h
      subst h0; subst hdn
      have hd : drop (elemPref S f (.bin 0 .null [])) (elemBytes S f (.bin 0 .null [])) = [] := by
        simp only [elemPref, ht, PType.wireType, beq_self_eq_true, if_true, innerLen, elemBytes, takePad]
        rw [← varint_length]; simp
      simp only [ht, hd]
      simp
    | dflt => exact absurd h (by simp [CanonElem1])
    | empty => exact absurd h (by simp [CanonElem1])
  | w32 x =>
    have h : okScalar f.type (.w32 x) := h
    have hw := okScalar_wire _ _ h
    have h1 : (f.type == .message || f.type == .string) = false := by simp [hw.2.2.2, hw.2.1]
    have h2 : (f.type == .bytes) = false := by simp [hw.2.2.1]
    have he : elemBytes S f (.w32 x) = scalarBytes f.type (.w32 x) := by simp [elemBytes, h1, h2]
    rw [he]
    have := parseScalar_scalarBytes f.type (.w32 x) h
    cases hft : f.type <;> simp_all
  | w64 x =>
    have h : okScalar f.type (.w64 x) := h
    have hw := okScalar_wire _ _ h
    have h1 : (f.type == .message || f.type == .string) = false := by simp [hw.2.2.2, hw.2.1]
    have h2 : (f.type == .bytes) = false := by simp [hw.2.2.1]
    have he : elemBytes S f (.w64 x) = scalarBytes f.type (.w64 x) := by simp [elemBytes, h1, h2]
    rw [he]
    have := parseScalar_scalarBytes f.type (.w64 x) h
    cases hft : f.type <;> simp_all
  | zero => exact absurd h (by simp [CanonElem1])

/-! ### packed payloads -/

theorem elemBytes_scalar (S : Schema) (f : FieldDesc) (v : Val) (h : okScalar f.type v) :
    elemBytes S f v = scalarBytes f.type v := by
  have hw := okScalar_wire _ _ h
  have h1 : (f.type == .message || f.type == .string) = false := by simp [hw.2.2.2, hw.2.1]
  have h2 : (f.type == .bytes) = false := by simp [hw.2.2.1]
  cases v with
  | w32 x => simp [elemBytes, h1, h2]
  | w64 x => simp [elemBytes, h1, h2]
  | _ => exact absurd h (by simp [okScalar])

def isVarintType (t : PType) : Bool :=
  match t with
  | .int32 | .sint32 | .uint32 | .int64 | .sint64 | .uint64 | .enum | .bool => true
  | _ => false

theorem scalarBytes_is_varint (t : PType) (v : Val) (ht : isVarintType t = true) :
    ∃ n, n < 2 ^ 64 ∧ scalarBytes t v = varint n := by
  cases t <;> simp only [isVarintType] at ht <;> try cases ht
  case int32 => exact ⟨(BitVec.signExtend 64 v.asW32).toNat, BitVec.isLt _, rfl⟩
  case enum => exact ⟨(BitVec.signExtend 64 v.asW32).toNat, BitVec.isLt _, rfl⟩
  case uint32 => exact ⟨v.asW32.toNat, Nat.lt_trans (BitVec.isLt _) (by decide), rfl⟩
  case sint32 => exact ⟨(zigzag32 v.asW32).toNat, Nat.lt_trans (BitVec.isLt _) (by decide), rfl⟩
  case int64 => exact ⟨v.asW64.toNat, BitVec.isLt _, rfl⟩
  case uint64 => exact ⟨v.asW64.toNat, BitVec.isLt _, rfl⟩
  case sint64 => exact ⟨(zigzag64 v.asW64).toNat, BitVec.isLt _, rfl⟩
  case bool =>
    simp only [scalarBytes]; split
    · exact ⟨0, by decide, by rw [varint_zero]⟩
    · exact ⟨1, by decide, by rw [varint_eq]; simp⟩

theorem parsePackedVarints_elems (t : PType) (ht : isVarintType t = true) :
    ∀ (vs : List Val) (fuel : Nat), (∀ v ∈ vs, okScalar t v) →
      ((vs.map (scalarBytes t)).flatten).length ≤ fuel →
      parsePackedVarints t fuel ((vs.map (scalarBytes t)).flatten) = some vs
  | [], fuel, _, _ => by cases fuel <;> simp [parsePackedVarints]
  | v :: vs, fuel, hall, hf => by
    obtain ⟨n, hn, hb⟩ := scalarBytes_is_varint t v ht
    have hpos : 0 < (scalarBytes t v).length := by rw [hb, varint_length]; exact varintLen_pos n
    simp only [map_cons, flatten_cons, length_append] at hf ⊢
    cases fuel with
    | zero => omega
    | succ fuel =>
      have hne : ((scalarBytes t v ++ (vs.map (scalarBytes t)).flatten).isEmpty) = false := by
        cases hsb : scalarBytes t v with
        | nil => rw [hsb] at hpos; simp at hpos
        | cons a as => simp
      unfold parsePackedVarints
      rw [hne]
      simp only [Bool.false_eq_true, if_false]
      have hscan := scalarBytes_scan_varint n ((vs.map (scalarBytes t)).flatten) hn
      rw [← hb] at hscan
      rw [hscan]
      have hl : varintLen n = (scalarBytes t v).length := by rw [hb, varint_length]
      rw [hl]
      simp only [drop_left, take_left]
      rw [parsePackedVarints_elems t ht vs fuel (fun w hw => hall w (mem_cons_of_mem _ hw)) (by omega)]
      simp [parseScalar_scalarBytes t v (hall v (mem_cons_self ..))]

theorem parsePackedFixed_elems (t : PType) (w : Nat) :
    ∀ (vs : List Val), (∀ v ∈ vs, okScalar t v ∧ (scalarBytes t v).length = w) →
      parsePackedFixed t w vs.length ((vs.map (scalarBytes t)).flatten) = vs
  | [], _ => rfl
  | v :: vs, hall => by
    have hv := hall v (mem_cons_self ..)
    simp only [length_cons, parsePackedFixed, map_cons, flatten_cons]
    rw [← hv.2]
    simp only [take_left, drop_left]
    rw [hv.2, parsePackedFixed_elems t w vs (fun x hx => hall x (mem_cons_of_mem _ hx))]
    rw [parseScalar_scalarBytes t v hv.1]

theorem scalarBytes_fixed_len (t : PType) (v : Val) :
    (t = .sfixed32 ∨ t = .fixed32 ∨ t = .float → (scalarBytes t v).length = 4) ∧
    (t = .sfixed64 ∨ t = .fixed64 ∨ t = .double → (scalarBytes t v).length = 8) := by
  constructor <;> intro h <;> rcases h with h | h | h <;> subst h <;> rfl

/-- the packed-payload parser reads back exactly the elements that were written, for every packable type -/
theorem parsePacked_elems (t : PType) (hp : t.packable = true) (vs : List Val) (hall : ∀ v ∈ vs, okScalar t v) :
    parsePacked t ((vs.map (scalarBytes t)).flatten) = some vs := by
  by_cases hv : isVarintType t = true
  · have := parsePackedVarints_elems t hv vs _ hall (Nat.le_refl _)
    cases t <;> simp only [isVarintType] at hv <;> (try cases hv) <;> simpa [parsePacked] using this
  · have hf : (t = .sfixed32 ∨ t = .fixed32 ∨ t = .float) ∨ (t = .sfixed64 ∨ t = .fixed64 ∨ t = .double) := by
      cases t <;> simp_all [isVarintType, PType.packable]
    rcases hf with hf | hf
    · have hlen : ∀ e ∈ vs.map (scalarBytes t), e.length = 4 := by
        intro e he; obtain ⟨v, _, rfl⟩ := mem_map.1 he; exact (scalarBytes_fixed_len t v).1 hf
      have hfix := parsePackedFixed_elems t 4 vs (fun v hv => ⟨hall v hv, (scalarBytes_fixed_len t v).1 hf⟩)
      have hq : ((vs.map (scalarBytes t)).flatten).length / 4 = vs.length := by
        rw [flatten_len_mul 4 _ hlen]; simp
      rcases hf with h | h | h <;> subst h <;> simp only [parsePacked, hq, hfix]
    · have hlen : ∀ e ∈ vs.map (scalarBytes t), e.length = 8 := by
        intro e he; obtain ⟨v, _, rfl⟩ := mem_map.1 he; exact (scalarBytes_fixed_len t v).2 hf
      have hfix := parsePackedFixed_elems t 8 vs (fun v hv => ⟨hall v hv, (scalarBytes_fixed_len t v).2 hf⟩)
      have hq : ((vs.map (scalarBytes t)).flatten).length / 8 = vs.length := by
        rw [flatten_len_mul 8 _ hlen]; simp
      rcases hf with h | h | h <;> subst h <;> simp only [parsePacked, hq, hfix]

/-! ### canonical (parser-form) messages, one level at a time -/

def toScanned (fields : List FieldDesc) (p : Rec × Nat) : Scanned :=
  ⟨p.1.tag, p.1.wt, p.2, fields.findIdx? (fun f => f.id == p.1.tag), p.1.payload⟩

theorem view_inj (a b : Scanned) (h : view a = view b) : a = b := by
  cases a; cases b; simp only [view, Prod.mk.injEq] at h
  obtain ⟨h1, h2, h3, h4, h5⟩ := h
  subst h1; subst h2; subst h3; subst h4; subst h5; rfl

theorem of_views (fields : List FieldDesc) : ∀ (acc : List Scanned) (rs : List (Rec × Nat)),
    acc.map view = rs.map (fun p => expected fields p.1 p.2) → acc = rs.map (toScanned fields)
  | [], [], _ => rfl
  | [], _ :: _, h => by simp at h
  | _ :: _, [], h => by simp at h
  | a :: acc, r :: rs, h => by
    simp only [map_cons, cons.injEq] at h ⊢
    exact ⟨view_inj a (toScanned fields r) (by rw [h.1]; rfl), of_views fields acc rs h.2⟩

/-- does the serialiser write this singular, non-oneof slot? (`packSlot`) -/
def writes (f : FieldDesc) (q : Nat) (v : Val) : Bool :=
  match f.label with
  | .required => true
  | .repeated => false
  | .optional => if f.type == .message || f.type == .string then !ptrAbsent f v else q != 0
  | .none => !zeroish f.type v

theorem recsSlot_one (S : Schema) (f : FieldDesc) (q : Nat) (v : Val) (hg : f.group = none) :
    recsSlot S f (.one q v) = if writes f q v then [elemRec S f v] else [] := by
  have ho : f.isOneof = false := by simp [FieldDesc.isOneof, hg]
  unfold recsSlot writes
  cases hl : f.label <;> simp only [ho, Bool.false_eq_true, if_false]
  · simp
  · simp only [show (Label.optional == Label.optional) = true from rfl, if_true]
    split
    · split <;> simp_all
    · split <;> simp_all
  · cases hz : zeroish f.type v <;> simp

/-- element in parser form whose nested message (if any) satisfies `P` -/
def CanonElemP (P : Msg → Prop) (S : Schema) (f : FieldDesc) (v : Val) : Prop :=
  CanonElem1 S f v ∧ ∀ m', v = .msg (some m') → P m'

def initSlot' (g : Bool) (f : FieldDesc) : Slot := if g then initSlotGeneric f else initSlotGen f

/-- a slot in parser form (schemas without oneofs) -/
def CanonSlotP (P : Msg → Prop) (S : Schema) (g : Bool) (f : FieldDesc) : Slot → Prop
  | .rep n none => f.label = .repeated ∧ n = 0
  | .rep n (some l) => f.label = .repeated ∧ 0 < n ∧ l.length = n ∧ (∀ v ∈ l, CanonElemP P S f v) ∧
      (f.packed = true → ((elemsBytes S f n l).flatten).length < 2 ^ 31)
  | .one q v => f.label ≠ .repeated ∧
      ((writes f q v = true ∧ CanonElemP P S f v ∧ q = (if f.hasQ then 1 else 0)) ∨
       (writes f q v = false ∧ Slot.one q v = initSlot' g f))

/-! ### the parse pass on the records of one slot -/

theorem parseAll_append (S : Schema) (fuel : Nat) (fields : List FieldDesc) :
    ∀ (a b : List Scanned) (m : Msg),
      parseAll S fuel fields (a ++ b) m = (parseAll S fuel fields a m).bind (parseAll S fuel fields b)
  | [], b, m => by simp [parseAll]
  | x :: a, b, m => by
    simp only [cons_append, parseAll]
    cases parseMember S fuel fields x m with
    | none => simp
    | some m' => simpa using parseAll_append S fuel fields a b m'

theorem zeroVal_not_msg (t : PType) (om : Msg) : zeroVal t ≠ .msg (some om) := by
  cases t <;> simp [zeroVal, PType.is32]

theorem dfltVal_not_msg (f : FieldDesc) (om : Msg) : dfltVal f ≠ .msg (some om) := by
  unfold dfltVal
  cases f.dflt with
  | none => exact zeroVal_not_msg _ om
  | scalar b => simp only; split <;> simp
  | str s => simp
  | bin b => simp
  | emptyStr => simp

theorem initSlot'_not_msg (g : Bool) (f : FieldDesc) (om : Msg) : (initSlot' g f).v ≠ .msg (some om) := by
  unfold initSlot'
  cases g <;> simp only [Bool.false_eq_true, if_false, if_true, initSlotGen, initSlotGeneric]
  · split
    · simp [Slot.v]
    · split
      · simp [Slot.v]
      · cases f.init with
        | none => simpa [Slot.v] using dfltVal_not_msg f om
        | some b => simp only [Slot.v]; split <;> simp
  · split
    · simp [Slot.v]
    · split
      · simp [Slot.v]
      · simpa [Slot.v] using dfltVal_not_msg f om

theorem initSlot'_q (g : Bool) (f : FieldDesc) (hl : f.label ≠ .repeated) : (initSlot' g f).q = 0 := by
  unfold initSlot'
  have hl' : (f.label == Label.repeated) = false := by simpa using hl
  cases g <;> simp only [Bool.false_eq_true, if_false, if_true, initSlotGen, initSlotGeneric, hl']
  all_goals
    split
    · rfl
    · first | rfl | (split <;> rfl)

theorem toScanned_elemRec (S : Schema) (fields : List FieldDesc) (hd : IdsDistinct fields) (k : Nat) (f : FieldDesc)
    (hk : k < fields.length) (hf : fields[k] = f) (v : Val) :
    toScanned fields (elemRec S f v) = ⟨f.id, f.type.wireType, elemPref S f v, some k, elemBytes S f v⟩ := by
  simp only [toScanned, elemRec]
  rw [findIdx_of_id hd hk (by rw [hf])]

theorem hasQ_required (f : FieldDesc) (hl : f.label = .required) (hg : f.group = none) : f.hasQ = false := by
  simp [FieldDesc.hasQ, hl, hg]

/-- parsing the record of a written singular field into a message whose slot still holds the initial value sets
    exactly that slot, to exactly the written value -/
theorem parse_single (S : Schema) (fields : List FieldDesc) (hd : IdsDistinct fields) (g : Bool) (fuel : Nat)
    (k : Nat) (f : FieldDesc) (hk : k < fields.length) (hf : fields[k] = f) (hl : f.label ≠ .repeated) (hg : f.group = none)
    (v : Val) (hv : CanonElem1 S f v)
    (ih : ∀ m', v = .msg (some m') → ∃ fuel', fuel = fuel' + 1 ∧ unpackMsg S fuel' f.sub (packMsg S m') = some m')
    (ty : Nat) (sl : List Slot) (u : List Unk) (hs : getSlot sl k = initSlot' g f) :
    parseMember S fuel fields (toScanned fields (elemRec S f v)) (.mk ty sl u) =
      some (.mk ty (setSlot sl k (.one (if f.hasQ then 1 else 0) v)) u) := by
  rw [toScanned_elemRec S fields hd k f hk hf v]
  have hfd : fields.getD k default = f := by rw [getD_eq_getElem?_getD, getElem?_eq_getElem hk]; simpa using hf
  have hpr := parseRequired_elem S f v hv fuel (some k) (getSlot sl k).v true
    (fun _ om => by rw [hs]; exact initSlot'_not_msg g f om) ih
  have hq : (getSlot sl k).q = 0 := by rw [hs]; exact initSlot'_q g f hl
  unfold parseMember
  simp only [hfd]
  cases hlab : f.label with
  | repeated => exact absurd hlab hl
  | required =>
    simp only [hpr, Option.map_some, hq, hasQ_required f hlab hg, Bool.false_eq_true, if_false]
  | optional =>
    simp only [hg, hpr, Option.map_some, hq]
  | none =>
    simp only [hg, hpr, Option.map_some, hq]

/-! ### repeated fields -/

def optAcc (acc : List Val) : Option (List Val) := if acc.isEmpty then none else some acc

theorem optAcc_getD (acc : List Val) : (optAcc acc).getD [] = acc := by
  unfold optAcc; cases acc <;> simp

theorem getSlot_setSlot (sl : List Slot) (k : Nat) (s : Slot) (hk : k < sl.length) : getSlot (setSlot sl k s) k = s := by
  simp [getSlot, setSlot, getD_eq_getElem?_getD, hk]

theorem setSlot_setSlot (sl : List Slot) (k : Nat) (a b : Slot) : setSlot (setSlot sl k a) k b = setSlot sl k b := by
  simp [setSlot, set_set]

theorem setSlot_length (sl : List Slot) (k : Nat) (s : Slot) : (setSlot sl k s).length = sl.length := by simp [setSlot]

/-- one unpacked element of a repeated field is appended to the array parsed so far -/
theorem parse_rep_elem (S : Schema) (fields : List FieldDesc) (hd : IdsDistinct fields) (fuel : Nat)
    (k : Nat) (f : FieldDesc) (hk : k < fields.length) (hf : fields[k] = f) (hl : f.label = .repeated)
    (hp : f.packed = true → f.type.packable = true) (hnp : f.packed = false)
    (v : Val) (hv : CanonElem1 S f v)
    (ih : ∀ m', v = .msg (some m') → ∃ fuel', fuel = fuel' + 1 ∧ unpackMsg S fuel' f.sub (packMsg S m') = some m')
    (ty : Nat) (sl : List Slot) (u : List Unk) (acc : List Val) (hs : getSlot sl k = .rep acc.length (optAcc acc)) :
    parseMember S fuel fields (toScanned fields (elemRec S f v)) (.mk ty sl u) =
      some (.mk ty (setSlot sl k (.rep (acc ++ [v]).length (optAcc (acc ++ [v])))) u) := by
  rw [toScanned_elemRec S fields hd k f hk hf v]
  have hfd : fields.getD k default = f := by rw [getD_eq_getElem?_getD, getElem?_eq_getElem hk]; simpa using hf
  have hpr := parseRequired_elem S f v hv fuel (some k) .zero false (fun h => by cases h) ih
  have hup := not_packedPath_elem f hp hnp
  unfold parseMember
  simp only [hfd, hl, hs, hup, Bool.false_eq_true, if_false, hpr, Option.map_some, optAcc_getD]
  simp [optAcc]

theorem parse_rep_elems (S : Schema) (fields : List FieldDesc) (hd : IdsDistinct fields) (fuel : Nat)
    (k : Nat) (f : FieldDesc) (hk : k < fields.length) (hf : fields[k] = f) (hl : f.label = .repeated)
    (hp : f.packed = true → f.type.packable = true) (hnp : f.packed = false) (ty : Nat) (u : List Unk) :
    ∀ (l : List Val) (acc : List Val) (sl : List Slot), k < sl.length →
      (∀ v ∈ l, CanonElem1 S f v ∧
        ∀ m', v = .msg (some m') → ∃ fuel', fuel = fuel' + 1 ∧ unpackMsg S fuel' f.sub (packMsg S m') = some m') →
      getSlot sl k = .rep acc.length (optAcc acc) →
      parseAll S fuel fields (l.map (fun v => toScanned fields (elemRec S f v))) (.mk ty sl u) =
        some (.mk ty (if l.isEmpty then sl else setSlot sl k (.rep (acc ++ l).length (optAcc (acc ++ l)))) u)
  | [], acc, sl, _, _, _ => by simp [parseAll]
  | v :: vs, acc, sl, hks, hall, hs => by
    have hv := hall v (mem_cons_self ..)
    have h1 := parse_rep_elem S fields hd fuel k f hk hf hl hp hnp v hv.1 hv.2 ty sl u acc hs
    simp only [map_cons, parseAll, h1]
    have h2 := parse_rep_elems S fields hd fuel k f hk hf hl hp hnp ty u vs (acc ++ [v])
      (setSlot sl k (.rep (acc ++ [v]).length (optAcc (acc ++ [v])))) (by rw [setSlot_length]; exact hks)
      (fun w hw => hall w (mem_cons_of_mem _ hw)) (getSlot_setSlot _ _ _ hks)
    rw [h2]
    cases vs with
    | nil => simp
    | cons w ws => simp [setSlot_setSlot]

theorem canon_scalar_of_packable (S : Schema) (f : FieldDesc) (v : Val) (hv : CanonElem1 S f v) (hp : f.type.packable = true) :
    okScalar f.type v := by
  cases v with
  | msg om => cases om with
    | some m => have := hv.1; simp [this, PType.packable] at hp
    | none => exact absurd hv (by simp [CanonElem1])
  | str p s =>
    cases p with
    | own => have := hv.1; simp [this, PType.packable] at hp
    | null => exact absurd hv (by simp [CanonElem1])
    | dflt => exact absurd hv (by simp [CanonElem1])
    | empty => exact absurd hv (by simp [CanonElem1])
  | bin len p d =>
    cases p with
    | own => have := hv.1; simp [this, PType.packable] at hp
    | null => have := hv.1; simp [this, PType.packable] at hp
    | dflt => exact absurd hv (by simp [CanonElem1])
    | empty => exact absurd hv (by simp [CanonElem1])
  | w32 x => exact hv
  | w64 x => exact hv
  | zero => exact absurd hv (by simp [CanonElem1])

theorem elemsVals_full : ∀ (l : List Val), recsSlot.elemsVals l.length l = l
  | [] => rfl
  | v :: vs => by simp [recsSlot.elemsVals, elemsVals_full vs]

/-- the single record of a packed repeated field is parsed back into exactly the array that was written -/
theorem parse_packed (S : Schema) (fields : List FieldDesc) (hd : IdsDistinct fields) (fuel : Nat)
    (k : Nat) (f : FieldDesc) (hk : k < fields.length) (hf : fields[k] = f) (hl : f.label = .repeated)
    (hpk : f.packed = true) (hp : f.type.packable = true) (l : List Val) (hne : l ≠ []) (hall : ∀ v ∈ l, CanonElem1 S f v)
    (ty : Nat) (sl : List Slot) (u : List Unk) (hs : getSlot sl k = .rep 0 none) :
    parseMember S fuel fields
        (toScanned fields (⟨f.id, 2, varint ((elemsBytes S f l.length l).flatten).length ++ (elemsBytes S f l.length l).flatten⟩,
          varintLen ((elemsBytes S f l.length l).flatten).length)) (.mk ty sl u) =
      some (.mk ty (setSlot sl k (.rep l.length (some l))) u) := by
  have hfd : fields.getD k default = f := by rw [getD_eq_getElem?_getD, getElem?_eq_getElem hk]; simpa using hf
  have hsc : ∀ v ∈ l, okScalar f.type v := fun v hv => canon_scalar_of_packable S f v (hall v hv) hp
  have hpay : (elemsBytes S f l.length l).flatten = (l.map (scalarBytes f.type)).flatten := by
    rw [elemsBytes_eq, elemsVals_full]
    congr 1
    apply map_congr_left
    intro v hv; exact elemBytes_scalar S f v (hsc v hv)
  have hpp := parsePacked_elems f.type hp l hsc
  simp only [toScanned]
  rw [findIdx_of_id hd hk (by rw [hf])]
  unfold parseMember
  simp only [hfd, hl, hs]
  have hup : usesPackedPath f 2 = true := by simp [usesPackedPath, hpk]
  simp only [hup, if_true]
  rw [show drop (varintLen ((elemsBytes S f l.length l).flatten).length)
      (varint ((elemsBytes S f l.length l).flatten).length ++ (elemsBytes S f l.length l).flatten) =
        (elemsBytes S f l.length l).flatten by rw [← varint_length]; exact drop_left]
  rw [hpay, hpp]
  cases l with
  | nil => exact absurd rfl hne
  | cons a as => simp

/-! ### one slot, all slots, unknown fields -/

theorem initSlot'_rep (g : Bool) (f : FieldDesc) (hl : f.label = .repeated) : initSlot' g f = .rep 0 none := by
  unfold initSlot'; cases g <;> simp [initSlotGen, initSlotGeneric, hl]

theorem setSlot_self (sl : List Slot) (k : Nat) (hk : k < sl.length) : setSlot sl k (getSlot sl k) = sl := by
  simp [setSlot, getSlot, getD_eq_getElem?_getD, hk]

/-- what the induction over nesting depth provides for nested messages -/
def NestedOK (P : Msg → Prop) (S : Schema) (fuel : Nat) : Prop :=
  ∀ m', P m' → ∃ fuel', fuel = fuel' + 1 ∧ unpackMsg S fuel' m'.ty (packMsg S m') = some m'

theorem nested_of (P : Msg → Prop) (S : Schema) (fuel : Nat) (hn : NestedOK P S fuel) (f : FieldDesc) (v : Val)
    (hv : CanonElemP P S f v) :
    ∀ m', v = .msg (some m') → ∃ fuel', fuel = fuel' + 1 ∧ unpackMsg S fuel' f.sub (packMsg S m') = some m' := by
  intro m' hm
  obtain ⟨fuel', h1, h2⟩ := hn m' (hv.2 m' hm)
  subst hm
  have hty : m'.ty = f.sub := hv.1.2.1
  exact ⟨fuel', h1, by rw [← hty]; exact h2⟩

/-- **slot level**: parsing the records one canonical slot contributes, into a message whose slot k is still initial,
    sets slot k to exactly that slot and touches nothing else -/
theorem parse_slot (P : Msg → Prop) (S : Schema) (fields : List FieldDesc) (hsch : SchemaOK fields) (g : Bool) (fuel : Nat)
    (hn : NestedOK P S fuel) (k : Nat) (f : FieldDesc) (hk : k < fields.length) (hf : fields[k] = f) (hg : f.group = none)
    (s : Slot) (hc : CanonSlotP P S g f s) (ty : Nat) (sl : List Slot) (u : List Unk) (hks : k < sl.length)
    (hs : getSlot sl k = initSlot' g f) :
    parseAll S fuel fields ((recsSlot S f s).map (toScanned fields)) (.mk ty sl u) = some (.mk ty (setSlot sl k s) u) := by
  have hfm : f ∈ fields := by rw [← hf]; exact getElem_mem hk
  cases s with
  | one q v =>
    obtain ⟨hl, hcase⟩ := hc
    rw [recsSlot_one S f q v hg]
    rcases hcase with ⟨hw, hv, hq⟩ | ⟨hw, hinit⟩
    · simp only [hw, if_true, map_cons, map_nil, parseAll]
      rw [parse_single S fields hsch.distinct g fuel k f hk hf hl hg v hv.1 (nested_of P S fuel hn f v hv) ty sl u hs]
      simp [hq]
    · simp only [hw, Bool.false_eq_true, if_false, map_nil, parseAll]
      rw [hinit, ← hs, setSlot_self sl k hks]
  | rep n arr =>
    cases arr with
    | none =>
      obtain ⟨hl, hn0⟩ := hc
      subst hn0
      simp only [recsSlot, map_nil, parseAll]
      rw [← initSlot'_rep g f hl, ← hs, setSlot_self sl k hks]
    | some l =>
      obtain ⟨hl, hpos, hlen, hall, hpk⟩ := hc
      subst hlen
      have hs0 : getSlot sl k = .rep 0 none := by rw [hs, initSlot'_rep g f hl]
      have hne : l ≠ [] := by intro h; rw [h] at hpos; simp at hpos
      unfold recsSlot
      have hn0 : (l.length == 0) = false := by simpa using (Nat.ne_of_gt hpos)
      simp only [hn0, Bool.false_eq_true, if_false]
      by_cases hp : f.packed = true
      · simp only [hp, if_true, map_cons, map_nil, parseAll]
        rw [parse_packed S fields hsch.distinct fuel k f hk hf hl hp (hsch.packed f hfm hp) l hne
          (fun v hv => (hall v hv).1) ty sl u hs0]
      · have hnp : f.packed = false := by simpa using hp
        simp only [hp, Bool.false_eq_true, if_false, elemsVals_full, map_map]
        have := parse_rep_elems S fields hsch.distinct fuel k f hk hf hl (hsch.packed f hfm) hnp ty u l [] sl hks
          (fun v hv => ⟨(hall v hv).1, nested_of P S fuel hn f v (hall v hv)⟩) (by simpa [optAcc] using hs0)
        rw [show (fun v => toScanned fields (elemRec S f v)) = (toScanned fields ∘ elemRec S f) from rfl] at this
        rw [this]
        cases l with
        | nil => exact absurd rfl hne
        | cons a as => simp [optAcc]

def CanonSlotsP (P : Msg → Prop) (S : Schema) (g : Bool) : List FieldDesc → List Slot → Prop
  | f :: fs, s :: ss => f.group = none ∧ CanonSlotP P S g f s ∧ CanonSlotsP P S g fs ss
  | [], [] => True
  | _, _ => False

/-- **all slots**: parsing the records of the remaining slots fills exactly those slots -/
theorem parse_slots (P : Msg → Prop) (S : Schema) (fields : List FieldDesc) (hsch : SchemaOK fields) (g : Bool) (fuel : Nat)
    (hn : NestedOK P S fuel) (ty : Nat) (u : List Unk) :
    ∀ (fs : List FieldDesc) (ss : List Slot) (pre : List FieldDesc) (spre : List Slot),
      fields = pre ++ fs → spre.length = pre.length → CanonSlotsP P S g fs ss →
      parseAll S fuel fields ((recsSlots S fs ss).map (toScanned fields)) (.mk ty (spre ++ fs.map (initSlot' g)) u) =
        some (.mk ty (spre ++ ss) u)
  | [], [], _, _, _, _, _ => by simp [recsSlots, parseAll]
  | [], _ :: _, _, _, _, _, h => by cases h
  | _ :: _, [], _, _, _, _, h => by cases h
  | f :: fs, s :: ss, pre, spre, hfl, hlen, hc => by
    obtain ⟨hg, hcs, hrest⟩ := hc
    have hk : pre.length < fields.length := by rw [hfl]; simp
    have hf : fields[pre.length] = f := by simp [hfl]
    have hks : pre.length < (spre ++ (f :: fs).map (initSlot' g)).length := by simp [hlen]
    have hs : getSlot (spre ++ (f :: fs).map (initSlot' g)) pre.length = initSlot' g f := by
      simp [getSlot, getD_eq_getElem?_getD, ← hlen]
    simp only [recsSlots, map_append, parseAll_append]
    rw [parse_slot P S fields hsch g fuel hn pre.length f hk hf hg s hcs ty _ u hks hs]
    simp only [Option.bind_some]
    have hset : setSlot (spre ++ (f :: fs).map (initSlot' g)) pre.length s = (spre ++ [s]) ++ fs.map (initSlot' g) := by
      simp [setSlot, ← hlen]
    rw [hset]
    have := parse_slots P S fields hsch g fuel hn ty u fs ss (pre ++ [f]) (spre ++ [s]) (by simp [hfl]) (by simp [hlen]) hrest
    simpa using this

theorem parse_unknown (S : Schema) (fuel : Nat) (fields : List FieldDesc) (ty : Nat) (sl : List Slot) :
    ∀ (us : List Unk) (u0 : List Unk), (∀ u ∈ us, UnkFramed fields u) →
      parseAll S fuel fields (us.map (fun u => toScanned fields (unkRec u (unkPref u)))) (.mk ty sl u0) =
        some (.mk ty sl (u0 ++ us))
  | [], u0, _ => by simp [parseAll]
  | x :: us, u0, h => by
    have hx := h x (mem_cons_self ..)
    have hnone : (toScanned fields (unkRec x (unkPref x))).fidx = none := by simp [toScanned, unkRec, hx.2.2.2.2]
    simp only [map_cons, parseAll]
    have : parseMember S fuel fields (toScanned fields (unkRec x (unkPref x))) (.mk ty sl u0) =
        some (.mk ty sl (u0 ++ [x])) := by
      unfold parseMember
      simp only [hnone]
      simp [toScanned, unkRec]
    rw [this]
    have := parse_unknown S fuel fields ty sl us (u0 ++ [x]) (fun u hu => h u (mem_cons_of_mem _ hu))
    simpa using this

/-! ### the message level -/

/-- the descriptor's default objects have the kind their field type calls for (what the generator emits) -/
def DfltOK (f : FieldDesc) : Prop :=
  (match f.dflt with
   | .none => True
   | .scalar _ => f.type.wireType ≠ 2
   | .str s => f.type = .string ∧ s.length < 2 ^ 31
   | .emptyStr => f.type = .string
   | .bin b => f.type = .bytes ∧ b.length < 2 ^ 31) ∧
  (f.init.isSome = true → f.type.wireType ≠ 2)

theorem zeroVal_framed (S : Schema) (f : FieldDesc) : ElemFramed S f (zeroVal f.type) := by
  cases hft : f.type <;> simp [zeroVal, ElemFramed, PType.is32, hft, PType.wireType]

theorem initVal_framed (S : Schema) (g : Bool) (f : FieldDesc) (hd : DfltOK f) : ElemFramed S f (initSlot' g f).v := by
  have hdv : ElemFramed S f (dfltVal f) := by
    unfold dfltVal
    obtain ⟨h1, _⟩ := hd
    cases hdf : f.dflt with
    | none => exact zeroVal_framed S f
    | scalar b => rw [hdf] at h1; simp only; split <;> exact h1
    | str s => rw [hdf] at h1; exact h1
    | emptyStr => rw [hdf] at h1; exact ⟨h1, by simp⟩
    | bin b => rw [hdf] at h1; exact h1
  unfold initSlot'
  cases g <;> simp only [Bool.false_eq_true, if_false, if_true, initSlotGen, initSlotGeneric]
  · split
    · trivial
    · split
      · trivial
      · cases hi : f.init with
        | none => exact hdv
        | some b =>
          have := hd.2 (by simp [hi])
          simp only [Slot.v]; split <;> exact this
  · split
    · trivial
    · split
      · trivial
      · exact hdv

theorem elems_framed_of_all (S : Schema) (f : FieldDesc) : ∀ (l : List Val), (∀ v ∈ l, ElemFramed S f v) →
    ElemsFramed S f l.length l
  | [], _ => trivial
  | a :: as, h => ⟨h a (mem_cons_self ..), elems_framed_of_all S f as (fun v hv => h v (mem_cons_of_mem _ hv))⟩

theorem canonSlot_framed (P : Msg → Prop) (S : Schema) (g : Bool) (f : FieldDesc) (hd : DfltOK f) (s : Slot)
    (hc : CanonSlotP P S g f s) : SlotFramed S f s := by
  cases s with
  | one q v =>
    obtain ⟨_, hcase⟩ := hc
    rcases hcase with ⟨_, hv, _⟩ | ⟨_, hinit⟩
    · exact canon_framed S f v hv.1
    · have := initVal_framed S g f hd
      rw [← hinit] at this; exact this
  | rep n arr =>
    cases arr with
    | none => trivial
    | some l =>
      obtain ⟨_, _, hlen, hall, hpk⟩ := hc
      refine ⟨?_, hpk⟩
      subst hlen
      exact elems_framed_of_all S f l (fun v hv => canon_framed S f v (hall v hv).1)

theorem canonSlots_framed (P : Msg → Prop) (S : Schema) (g : Bool) : ∀ (fs : List FieldDesc) (ss : List Slot),
    (∀ f ∈ fs, DfltOK f) → CanonSlotsP P S g fs ss → SlotsFramed S fs ss
  | [], [], _, _ => trivial
  | [], _ :: _, _, h => by cases h
  | _ :: _, [], _, h => by cases h
  | f :: fs, s :: ss, hd, h =>
    ⟨canonSlot_framed P S g f (hd f (mem_cons_self ..)) s h.2.1,
     canonSlots_framed P S g fs ss (fun x hx => hd x (mem_cons_of_mem _ hx)) h.2.2⟩

/-- a message in parser form whose nested messages satisfy `P` (schemas without oneofs) -/
def CanonMsgP (P : Msg → Prop) (S : Schema) (m : Msg) : Prop :=
  SchemaOK (S.msg m.ty).fields ∧ (∀ f ∈ (S.msg m.ty).fields, DfltOK f) ∧
  CanonSlotsP P S (S.msg m.ty).initGeneric (S.msg m.ty).fields m.slots ∧
  (∀ u ∈ m.unk, UnkFramed (S.msg m.ty).fields u) ∧ (recsMsg S m).length ≤ maxScanned

/-- every required field of a canonical message has a record -/
theorem req_record (P : Msg → Prop) (S : Schema) (g : Bool) : ∀ (fs : List FieldDesc) (ss : List Slot),
    CanonSlotsP P S g fs ss → ∀ f ∈ fs, f.label = .required → ∃ p ∈ recsSlots S fs ss, p.1.tag = f.id
  | [], [], _, f, hf, _ => by simp at hf
  | [], _ :: _, h, _, _, _ => by cases h
  | _ :: _, [], h, _, _, _ => by cases h
  | f0 :: fs, s :: ss, h, f, hf, hl => by
    rcases mem_cons.1 hf with rfl | hf'
    · obtain ⟨hg, hc, _⟩ := h
      cases s with
      | rep n arr => cases arr <;> (have := hc.1; rw [hl] at this; cases this)
      | one q v =>
        refine ⟨elemRec S f v, ?_, rfl⟩
        simp only [recsSlots, mem_append]
        left
        rw [recsSlot_one S f q v hg]
        simp [writes, hl]
    · obtain ⟨p, hp, ht⟩ := req_record P S g fs ss h.2.2 f hf' hl
      exact ⟨p, by simp only [recsSlots, mem_append]; exact Or.inr hp, ht⟩

theorem initMsg_eq (S : Schema) (t : Nat) :
    initMsg S t = .mk t ((S.msg t).fields.map (initSlot' (S.msg t).initGeneric)) [] := by
  unfold initMsg initSlot'
  cases h : (S.msg t).initGeneric <;> simp [h]

/-- **C01, one nesting level**: if nested messages round-trip with one unit of fuel less, the message does -/
theorem roundtrip_level (P : Msg → Prop) (S : Schema) (fuel : Nat) (hn : NestedOK P S fuel) (m : Msg)
    (hm : CanonMsgP P S m) : unpackMsg S fuel m.ty (packMsg S m) = some m := by
  obtain ⟨hsch, hdf, hslots, hunk, hcnt⟩ := hm
  cases m with
  | mk ty slots unk =>
    simp only [Msg.ty, Msg.slots, Msg.unk] at hsch hdf hslots hunk
    have hfr : MsgFramed S (.mk ty slots unk) := ⟨canonSlots_framed _ S _ _ _ hdf hslots, hunk⟩
    obtain ⟨st, hscan, hviews⟩ := pack_scans S (.mk ty slots unk) hsch hfr hcnt
    have hacc := of_views (S.msg ty).fields _ _ hviews
    simp only [Msg.ty] at hscan hacc
    simp only [unpackMsg, Msg.ty]
    rw [show (⟨if (S.msg ty).fields.isEmpty then none else some 0, 0, [], [], [], 0⟩ : ScanState) = scan0 (S.msg ty).fields from rfl,
      hscan]
    simp only
    -- the required-field bitmap
    have hinv := Pbc.Props.C11.scanLoop_inv (S.msg ty).fields _ _ _ st (Pbc.Props.C11.init_inv _) hscan
    have hbits : ((List.range (S.msg ty).fields.length).any (fun i =>
        let f := (S.msg ty).fields.getD i default
        f.label == .required && f.dflt == .none && !st.bitmap.contains i)) = false := by
      rw [List.any_eq_false]
      intro i hi
      have hi' : i < (S.msg ty).fields.length := by simpa using hi
      simp only [Bool.and_eq_true, beq_iff_eq, Bool.not_eq_true', not_and, Bool.not_eq_false]
      intro hlab0
      have hlab := hlab0.1
      have hfi : (S.msg ty).fields.getD i default = (S.msg ty).fields[i] := by
        rw [getD_eq_getElem?_getD, getElem?_eq_getElem hi']; rfl
      rw [hfi] at hlab
      obtain ⟨p, hp, htag⟩ := req_record _ S _ _ _ hslots _ (getElem_mem hi') hlab
      have hmem : toScanned (S.msg ty).fields p ∈ st.acc := by
        have : toScanned (S.msg ty).fields p ∈ st.acc.reverse := by
          rw [hacc]; exact mem_map_of_mem (by simp only [recsMsg, mem_append]; exact Or.inl hp)
        simpa using this
      have hfidx : (toScanned (S.msg ty).fields p).fidx = some i := by
        simp only [toScanned, htag]
        exact findIdx_of_id hsch.distinct hi' rfl
      have := (hinv.bits i).2 ⟨_, hmem, hfidx, by rw [hfi]; exact hlab⟩
      simpa using this
    simp only [hbits, Bool.false_eq_true, if_false]
    rw [hacc, initMsg_eq]
    simp only [recsMsg, map_append, parseAll_append]
    have h1 := parse_slots P S (S.msg ty).fields hsch (S.msg ty).initGeneric fuel hn ty [] (S.msg ty).fields slots [] []
      (by simp) rfl hslots
    simp only [nil_append] at h1
    rw [h1]
    simp only [Option.bind_some, map_map]
    have h2 := parse_unknown S fuel (S.msg ty).fields ty slots unk [] hunk
    simpa [Function.comp_def] using h2

/-- canonical messages of nesting depth at most k (schemas without oneofs) -/
def CanonN (S : Schema) : Nat → Msg → Prop
  | 0, m => CanonMsgP (fun _ => False) S m
  | k+1, m => CanonMsgP (CanonN S k) S m

/-- **C01 (message level, schemas without oneofs): parse ∘ serialise = identity.**  For every schema and every message in
    parser form (every field type, every label, packed and unpacked repeated fields, strings without NUL, bytes, nested
    messages to any depth k, unknown fields), parsing what the serialiser wrote returns exactly the message: every
    value bit for bit, every presence flag, element order, the unknown fields — with any fuel ≥ k. -/
theorem roundtrip_partial (S : Schema) : ∀ (k : Nat) (m : Msg) (fuel : Nat), CanonN S k m → k ≤ fuel →
    unpackMsg S fuel m.ty (packMsg S m) = some m
  | 0, m, fuel, hm, _ => roundtrip_level _ S fuel (fun _ h => absurd h (by simp)) m hm
  | k+1, m, fuel, hm, hf => by
    apply roundtrip_level (CanonN S k) S fuel ?_ m hm
    intro m' hm'
    cases fuel with
    | zero => omega
    | succ fuel' => exact ⟨fuel', rfl, roundtrip_partial S k m' fuel' hm' (by omega)⟩

/-- ... in particular through the public entry point, whose fuel is the input length + 1 -/
theorem unpack_pack_partial (S : Schema) (k : Nat) (m : Msg) (hm : CanonN S k m) (hk : k ≤ (packMsg S m).length + 1) :
    unpack S m.ty (packMsg S m) = some m :=
  roundtrip_partial S k m _ hm hk

/-! non-vacuity: a two-level message satisfies the hypotheses
    message M0 { optional int32 a = 1; optional string s = 2; repeated bool r = 3 [packed = true]; optional M1 sub = 5;
                 required sint64 q = 6; repeated fixed32 x = 2047; }   message M1 { optional bytes b = 1; repeated string t = 2; } -/
def exS2 : Schema := [
  { name := "M0", initGeneric := false, nGroups := 0, fields := [
    { name := "a", id := 1, label := .optional, type := .int32, packed := false, group := none, sub := 0, dflt := .none, init := none },
    { name := "s", id := 2, label := .optional, type := .string, packed := false, group := none, sub := 0, dflt := .none, init := none },
    { name := "r", id := 3, label := .repeated, type := .bool, packed := true, group := none, sub := 0, dflt := .none, init := none },
    { name := "sub", id := 5, label := .optional, type := .message, packed := false, group := none, sub := 1, dflt := .none, init := none },
    { name := "q", id := 6, label := .required, type := .sint64, packed := false, group := none, sub := 0, dflt := .none, init := none },
    { name := "x", id := 2047, label := .repeated, type := .fixed32, packed := false, group := none, sub := 0, dflt := .none, init := none }] },
  { name := "M1", initGeneric := true, nGroups := 0, fields := [
    { name := "b", id := 1, label := .optional, type := .bytes, packed := false, group := none, sub := 0, dflt := .none, init := none },
    { name := "t", id := 2, label := .repeated, type := .string, packed := false, group := none, sub := 0, dflt := .none, init := none }] }]
def exInner : Msg := .mk 1 [.one 1 (.bin 2 .own [0, 255]), .rep 2 (some [.str .own [104, 105], .str .own []])] [⟨7, 0, [150, 1]⟩]
def exOuter : Msg := .mk 0 [.one 1 (.w32 0xffffffff), .one 0 (.str .null []), .rep 2 (some [.w32 1, .w32 0]),
  .one 0 (.msg (some exInner)), .one 0 (.w64 0x8000000000000000), .rep 0 none] []

theorem exInner_canon : CanonN exS2 0 exInner := by
  refine ⟨⟨by unfold IdsDistinct; decide, by decide, by decide⟩, ?_, ?_, ?_, by decide⟩
  · intro f hf
    simp only [exInner, Msg.ty, exS2, Schema.msg, getD_cons_succ, getD_cons_zero, mem_cons, not_mem_nil, or_false] at hf
    rcases hf with rfl | rfl <;> simp [DfltOK]
  · simp only [exInner, Msg.ty, Msg.slots, exS2, Schema.msg, getD_cons_succ, getD_cons_zero, CanonSlotsP, CanonSlotP, CanonElemP,
      CanonElem1, writes, FieldDesc.hasQ]
    simp
  · intro u hu
    simp only [exInner, Msg.unk, mem_cons, not_mem_nil, or_false] at hu
    subst hu
    have hp : unkPref ⟨7, 0, [150, 1]⟩ = 0 := by decide
    refine ⟨by decide, by decide, by decide, ?_, by decide⟩
    rw [hp]
    have := delim_varint 150 (by decide)
    have h150 : varint 150 = [150, 1] := by decide
    rw [h150] at this
    exact this

theorem exOuter_canon : CanonN exS2 1 exOuter := by
  refine ⟨⟨by unfold IdsDistinct; decide, by decide, by decide⟩, ?_, ?_, by simp [exOuter, Msg.unk], by decide⟩
  · intro f hf
    simp only [exOuter, Msg.ty, exS2, Schema.msg, getD_cons_zero, mem_cons, not_mem_nil, or_false] at hf
    rcases hf with rfl | rfl | rfl | rfl | rfl | rfl <;> simp [DfltOK]
  · simp only [exOuter, Msg.ty, Msg.slots, exS2, Schema.msg, getD_cons_zero, CanonSlotsP, CanonSlotP, CanonElemP,
      CanonElem1, writes, FieldDesc.hasQ]
    have hin : CanonN exS2 0 exInner := exInner_canon
    have hlen : (packMsg exS2 exInner).length < 2 ^ 31 := by decide
    simp [okScalar, PType.is32, initSlot', initSlotGen, dfltVal, zeroVal, ptrAbsent, FieldDesc.isOneof]
    exact ⟨by decide, ⟨rfl, hlen⟩, hin⟩

/-- the theorem applies: this two-level message round-trips through the public entry point -/
example : unpack exS2 0 (packMsg exS2 exOuter) = some exOuter :=
  unpack_pack_partial exS2 1 exOuter exOuter_canon (by decide)

example : (packMsg exS2 exOuter).map (·.toNat) =
    [8, 255, 255, 255, 255, 255, 255, 255, 255, 255, 1, 26, 2, 1, 0, 42, 13, 10, 2, 0, 255, 18, 2, 104, 105, 18, 0, 56, 150, 1,
     48, 255, 255, 255, 255, 255, 255, 255, 255, 255, 1] := by decide

end Pbc.Props.C01
