import Pbc.Model.Check
/-
  C19 -- the validity check accepts only messages that are safe to serialise.
  `checkMsg` = protobuf_c_message_check, `safeMsg` = "get_packed_size / pack / pack_to_buffer
  dereference no null pointer" (their unconditional reads, per label and type).
  `shapeMsg` = the message is a C-representable instance of its descriptor (slot kinds match
  labels, value kinds match types, arrays and data blocks are at least as long as their counts).
-/
namespace Pbc.Props.C19
open Pbc Pbc.Model

mutual
def shapeVal (S : Schema) (f : FieldDesc) (inArray : Bool) : Val → Bool
  | .w32 _ => f.type.is32
  | .w64 _ => !f.type.is32 && f.type != .string && f.type != .bytes && f.type != .message
  | .str _ _ => f.type == .string
  | .bin len p d => f.type == .bytes && (p == .null || len ≤ d.length)
  | .msg none => f.type == .message
  | .msg (some m) => f.type == .message && shapeMsg S m
  | .zero => !inArray
def shapeVals (S : Schema) (f : FieldDesc) : List Val → Bool
  | [] => true
  | v :: vs => shapeVal S f true v && shapeVals S f vs
def shapeSlot (S : Schema) (f : FieldDesc) : Slot → Bool
  | .rep _ none => f.label == .repeated
  | .rep n (some l) => f.label == .repeated && n ≤ l.length && shapeVals S f l
  | .one _ v => f.label != .repeated && shapeVal S f false v
def shapeSlots (S : Schema) : List FieldDesc → List Slot → Bool
  | f :: fs, s :: ss => shapeSlot S f s && shapeSlots S fs ss
  | [], [] => true
  | _, _ => false
def shapeMsg (S : Schema) : Msg → Bool
  | .mk ty slots _ => shapeSlots S (S.msg ty).fields slots
end

theorem safeElem_single (S : Schema) (f : FieldDesc) (v : Val)
    (hm : ∀ m, v = .msg (some m) → safeMsg S m = true)
    (hb : ∀ len d, v = .bin len .null d → len = 0)
    (hd : ∀ len p d, v = .bin len p d → p ≠ .null → len ≤ d.length) : safeElem S f false v = true := by
  cases v with
  | msg om => cases om with
    | none => simp [safeElem]
    | some m => simpa [safeElem] using hm m rfl
  | str p s => cases p <;> simp [safeElem]
  | bin len p d =>
    cases p with
    | null => simpa [safeElem] using hb len d rfl
    | dflt => simpa [safeElem] using hd len _ d rfl (by simp)
    | empty => simpa [safeElem] using hd len _ d rfl (by simp)
    | own => simpa [safeElem] using hd len _ d rfl (by simp)
  | w32 _ => simp [safeElem]
  | w64 _ => simp [safeElem]
  | zero => simp [safeElem]

theorem shape_bin (S : Schema) (f : FieldDesc) (a : Bool) (len : Nat) (p : PtrC) (d : Bytes)
    (h : shapeVal S f a (.bin len p d) = true) : f.type = .bytes ∧ (p ≠ .null → len ≤ d.length) := by
  simp only [shapeVal, Bool.and_eq_true, beq_iff_eq, Bool.or_eq_true, decide_eq_true_eq] at h
  exact ⟨h.1, fun hp => h.2.resolve_left hp⟩

theorem shape_msg (S : Schema) (f : FieldDesc) (a : Bool) (m : Msg)
    (h : shapeVal S f a (.msg (some m)) = true) : f.type = .message ∧ shapeMsg S m = true := by
  simpa [shapeVal] using h

/-- descriptor well-formedness used here: a oneof member is never `required` (true of every
    descriptor the generator emits: members are `optional` / proto3 `none`) -/
def OneofOK (S : Schema) : Prop := ∀ d ∈ S, ∀ f ∈ d.fields, f.isOneof = true → f.label ≠ .required

section
variable {S : Schema} (hS : OneofOK S)
include hS

mutual
theorem safeElems_of_check (f : FieldDesc) :
    ∀ (n : Nat) (l : List Val), n ≤ l.length → shapeVals S f l = true → checkElems S f n l = true →
      safeElems S f n l = true
  | 0, _, _, _, _ => by simp [safeElems]
  | _+1, [], hn, _, _ => by simp at hn
  | n+1, v :: vs, hn, hs, hc => by
    simp only [shapeVals, Bool.and_eq_true] at hs
    simp only [checkElems, Bool.and_eq_true] at hc
    simp only [safeElems, Bool.and_eq_true]
    refine ⟨?_, safeElems_of_check f n vs (by simpa using hn) hs.2 hc.2⟩
    have hv := hs.1
    have hcv := hc.1
    cases v with
    | msg om => cases om with
      | none => simp [checkElem] at hcv
      | some m =>
        obtain ⟨_, hsm⟩ := shape_msg S f true m hv
        simp only [checkElem] at hcv
        simp only [safeElem]
        exact safe_of_check m hsm hcv
    | str p s => cases p <;> simp [checkElem] at hcv <;> simp [safeElem]
    | bin len p d =>
      obtain ⟨_, hd⟩ := shape_bin S f true len p d hv
      cases p with
      | null => simp only [checkElem] at hcv; simpa [safeElem] using hcv
      | dflt => simpa [safeElem] using hd (by simp)
      | empty => simpa [safeElem] using hd (by simp)
      | own => simpa [safeElem] using hd (by simp)
    | w32 _ => simp [safeElem]
    | w64 _ => simp [safeElem]
    | zero => simp [shapeVal] at hv

/-- the verdict of the check on a singular member that is looked at -/
theorem single_facts (f : FieldDesc) (q : Nat) : ∀ v : Val,
    shapeVal S f false v = true → checkSingle S f q v = true →
      (∀ m, v = .msg (some m) → safeMsg S m = true) ∧
      ((f.label = .required ∨ f.label = .none ∨ f.isOneof = true ∨ q ≠ 0) → ∀ len d, v = .bin len .null d → len = 0)
  | .msg (some m), hv, hc => by
    obtain ⟨_, hsm⟩ := shape_msg S f false m hv
    simp only [checkSingle] at hc
    refine ⟨fun m' e => ?_, fun _ len d e => (by cases e)⟩
    cases e
    exact safe_of_check m hsm hc
  | .msg none, _, _ => ⟨fun m e => (by cases e), fun _ len d e => (by cases e)⟩
  | .str p s, _, _ => ⟨fun m e => (by cases e), fun _ len d e => (by cases e)⟩
  | .w32 _, _, _ => ⟨fun m e => (by cases e), fun _ len d e => (by cases e)⟩
  | .w64 _, _, _ => ⟨fun m e => (by cases e), fun _ len d e => (by cases e)⟩
  | .zero, _, _ => ⟨fun m e => (by cases e), fun _ len d e => (by cases e)⟩
  | .bin len p d, _, hc => by
    refine ⟨fun m e => (by cases e), fun hcond len' d' e => ?_⟩
    cases e
    simp only [checkSingle] at hc
    have : (f.label == Label.required || f.label == Label.none || f.isOneof || q != 0) = true := by
      rcases hcond with h | h | h | h <;> simp [h]
    simp only [this, ite_true] at hc
    simpa using hc

theorem safeSlot_of_check (f : FieldDesc) : ∀ s : Slot,
    shapeSlot S f s = true → (f.isOneof = true → f.label ≠ .required) → checkSlot S f s = true → safeSlot S f s = true
  | .rep n none, hs, _, hc => by
    simp only [shapeSlot, beq_iff_eq] at hs
    simp only [checkSlot, hs, bne_self_eq_false, Bool.false_eq_true, ite_false] at hc
    simpa [safeSlot, hs] using hc
  | .rep n (some l), hs, _, hc => by
    simp only [shapeSlot, Bool.and_eq_true, beq_iff_eq, decide_eq_true_eq] at hs
    obtain ⟨⟨hl, hn⟩, hvs⟩ := hs
    simp only [checkSlot, hl, bne_self_eq_false, Bool.false_eq_true, ite_false] at hc
    simp only [safeSlot, hl, beq_self_eq_true, Bool.true_and]
    exact safeElems_of_check f n l hn hvs hc
  | .one q v, hs, hone, hc => by
    simp only [shapeSlot, Bool.and_eq_true, bne_iff_ne, ne_eq] at hs
    obtain ⟨hlab, hv⟩ := hs
    have hd : ∀ len p d, v = .bin len p d → p ≠ .null → len ≤ d.length := by
      intro len p d e hp; subst e; exact (shape_bin S f false len p d hv).2 hp
    have hsel : ¬ (f.isOneof = true ∧ f.id ≠ q) →
        (∀ m, v = .msg (some m) → safeMsg S m = true) ∧
        ((f.label = .required ∨ f.label = .none ∨ f.isOneof = true ∨ q ≠ 0) → ∀ len d, v = .bin len .null d → len = 0) := by
      intro hns
      have hns' : (f.isOneof && f.id != q) = false := by
        cases h1 : f.isOneof <;> simp_all
      have hlab' : (f.label == Label.repeated) = false := by simpa using hlab
      simp only [checkSlot, hns', hlab', Bool.false_eq_true, ite_false] at hc
      exact single_facts f q v hv hc
    simp only [safeSlot]
    cases hl : f.label with
    | repeated => exact absurd hl hlab
    | required =>
      simp only
      have hns : ¬ (f.isOneof = true ∧ f.id ≠ q) := fun ⟨h1, _⟩ => hone h1 hl
      obtain ⟨hm, hb⟩ := hsel hns
      exact safeElem_single S f v hm (hb (Or.inl hl)) hd
    | optional =>
      simp only
      by_cases ho : f.isOneof = true
      · simp only [ho, ite_true]
        by_cases hq : q = f.id
        · subst hq
          simp only [bne_self_eq_false, Bool.false_eq_true, ite_false]
          split
          · rfl
          · obtain ⟨hm, hb⟩ := hsel (fun ⟨_, h2⟩ => h2 rfl)
            exact safeElem_single S f v hm (hb (Or.inr (Or.inr (Or.inl ho)))) hd
        · have : (q != f.id) = true := by simpa using hq
          simp [this]
      · have ho' : f.isOneof = false := by simpa using ho
        simp only [ho', Bool.false_eq_true, ite_false, beq_self_eq_true, ite_true]
        obtain ⟨hm, hb⟩ := hsel (fun ⟨h1, _⟩ => ho h1)
        split
        · split
          · rfl
          · exact safeElem_single S f v hm (fun len d e => by
              subst e; have := (shape_bin S f false len .null d hv).1; simp_all) hd
        · split
          · rfl
          · rename_i hq0
            exact safeElem_single S f v hm (hb (Or.inr (Or.inr (Or.inr (by simpa using hq0))))) hd
    | none =>
      simp only
      by_cases ho : f.isOneof = true
      · simp only [ho, ite_true]
        by_cases hq : q = f.id
        · subst hq
          simp only [bne_self_eq_false, Bool.false_eq_true, ite_false]
          split
          · rfl
          · obtain ⟨hm, hb⟩ := hsel (fun ⟨_, h2⟩ => h2 rfl)
            exact safeElem_single S f v hm (hb (Or.inr (Or.inl hl))) hd
        · have : (q != f.id) = true := by simpa using hq
          simp [this]
      · have ho' : f.isOneof = false := by simpa using ho
        simp only [ho', Bool.false_eq_true, ite_false]
        obtain ⟨hm, hb⟩ := hsel (fun ⟨h1, _⟩ => ho h1)
        have : (Label.none == Label.optional) = false := by decide
        simp only [this, Bool.false_eq_true, ite_false]
        split
        · rfl
        · exact safeElem_single S f v hm (hb (Or.inr (Or.inl hl))) hd

theorem safeSlots_of_check : ∀ (fs : List FieldDesc) (ss : List Slot),
    shapeSlots S fs ss = true → (∀ f ∈ fs, f.isOneof = true → f.label ≠ .required) →
    checkSlots S fs ss = true → safeSlots S fs ss = true
  | [], [], _, _, _ => by simp [safeSlots]
  | [], _ :: _, hs, _, _ => by simp [shapeSlots] at hs
  | _ :: _, [], hs, _, _ => by simp [shapeSlots] at hs
  | f :: fs, s :: ss, hs, hw, hc => by
    simp only [shapeSlots, Bool.and_eq_true] at hs
    simp only [checkSlots, Bool.and_eq_true] at hc
    simp only [safeSlots, Bool.and_eq_true]
    exact ⟨safeSlot_of_check f s hs.1 (hw f (by simp)) hc.1,
           safeSlots_of_check fs ss hs.2 (fun g hg => hw g (by simp [hg])) hc.2⟩

/-- C19 (first half): for every schema whose oneof members are not `required` (`S.OneofOK`, true of
    everything the generator emits), every C-representable message accepted by
    `protobuf_c_message_check` can be measured and serialised by all three serialisers without
    dereferencing a null pointer -- at any nesting depth, in every kind of field. -/
theorem safe_of_check :
    ∀ m : Msg, shapeMsg S m = true → checkMsg S m = true → safeMsg S m = true
  | .mk ty slots unk, hs, hc => by
    simp only [shapeMsg] at hs
    simp only [checkMsg] at hc
    simp only [safeMsg]
    refine safeSlots_of_check _ slots hs ?_ hc
    intro f hf
    unfold Schema.msg at hf
    by_cases hty : ty < S.length
    · have : S.getD ty default = S[ty] := by simp [List.getD_eq_getElem?_getD, hty]
      rw [this] at hf
      exact hS _ (List.getElem_mem hty) f hf
    · have : S.getD ty default = default := by
        simp [List.getD_eq_getElem?_getD, List.getElem?_eq_none (by omega : S.length ≤ ty)]
      rw [this] at hf
      have he : (default : MsgDesc).fields = [] := rfl
      rw [he] at hf
      cases hf
end
end

/-! ### second half: every defect the property lists is rejected -/
mutual
/-- the property's defect list, at any depth, in whichever kind of field serialisation needs -/
def defElem (S : Schema) : Val → Bool            -- an element of a repeated field
  | .msg none => true                            -- null element of a repeated message field
  | .msg (some m) => defMsg S m
  | .str .null _ => true                         -- null element of a repeated string field
  | .bin len .null _ => len > 0                  -- bytes with a length but no data
  | _ => false
def defElems (S : Schema) : Nat → List Val → Bool
  | n+1, v :: vs => defElem S v || defElems S n vs
  | _, _ => false
def defSingle (S : Schema) (f : FieldDesc) (q : Nat) : Val → Bool
  | .msg none => f.label == .required            -- required sub-message missing
  | .msg (some m) => defMsg S m
  | .str .null _ => f.label == .required         -- required string missing
  | .bin len .null _ => len > 0 && (f.label == .required || f.label == .none || f.isOneof || q != 0)
  | _ => false
def defSlot (S : Schema) (f : FieldDesc) : Slot → Bool
  | .rep n none => f.label == .repeated && n > 0
  | .rep n (some l) => f.label == .repeated && defElems S n l
  | .one q v => !(f.isOneof && f.id != q) && f.label != .repeated && defSingle S f q v
def defSlots (S : Schema) : List FieldDesc → List Slot → Bool
  | f :: fs, s :: ss => defSlot S f s || defSlots S fs ss
  | _, _ => false
def defMsg (S : Schema) : Msg → Bool
  | .mk ty slots _ => defSlots S (S.msg ty).fields slots
end

mutual
theorem defElem_rejected (S : Schema) (f : FieldDesc) : ∀ v, defElem S v = true → checkElem S f v = false
  | .msg none, _ => by simp [checkElem]
  | .msg (some m), h => by simp only [defElem] at h; simp only [checkElem]; exact defMsg_rejected S m h
  | .str p s, h => by cases p <;> simp [defElem] at h <;> simp [checkElem]
  | .bin len p d, h => by
    cases p <;> simp [defElem] at h
    simp only [checkElem]; simp; omega
  | .w32 _, h => by simp [defElem] at h
  | .w64 _, h => by simp [defElem] at h
  | .zero, h => by simp [defElem] at h
theorem defElems_rejected (S : Schema) (f : FieldDesc) : ∀ n l, defElems S n l = true → checkElems S f n l = false
  | 0, _, h => by simp [defElems] at h
  | _+1, [], h => by simp [defElems] at h
  | n+1, v :: vs, h => by
    simp only [defElems, Bool.or_eq_true] at h
    simp only [checkElems, Bool.and_eq_false_iff]
    rcases h with h | h
    · exact Or.inl (defElem_rejected S f v h)
    · exact Or.inr (defElems_rejected S f n vs h)
theorem defSingle_rejected (S : Schema) (f : FieldDesc) (q : Nat) : ∀ v, defSingle S f q v = true → checkSingle S f q v = false
  | .msg none, h => by simp only [defSingle, beq_iff_eq] at h; simp [checkSingle, h]
  | .msg (some m), h => by simp only [defSingle] at h; simp only [checkSingle]; exact defMsg_rejected S m h
  | .str p s, h => by cases p <;> simp [defSingle] at h <;> simp [checkSingle, h]
  | .bin len p d, h => by
    cases p <;> simp [defSingle] at h
    obtain ⟨hl, hc⟩ := h
    have : (f.label == Label.required || f.label == Label.none || f.isOneof || q != 0) = true := by
      rcases hc with ((h | h) | h) | h <;> simp [h]
    simp only [checkSingle, this, ite_true]; simp; omega
  | .w32 _, h => by simp [defSingle] at h
  | .w64 _, h => by simp [defSingle] at h
  | .zero, h => by simp [defSingle] at h
theorem defSlot_rejected (S : Schema) (f : FieldDesc) : ∀ s, defSlot S f s = true → checkSlot S f s = false
  | .rep n none, h => by
    simp only [defSlot, Bool.and_eq_true, beq_iff_eq, decide_eq_true_eq] at h
    simp [checkSlot, h.1]; omega
  | .rep n (some l), h => by
    simp only [defSlot, Bool.and_eq_true, beq_iff_eq] at h
    simp only [checkSlot, h.1, bne_self_eq_false, Bool.false_eq_true, ite_false]
    exact defElems_rejected S f n l h.2
  | .one q v, h => by
    simp only [defSlot, Bool.and_eq_true, Bool.not_eq_true', bne_iff_ne, ne_eq] at h
    obtain ⟨⟨h1, h2⟩, h3⟩ := h
    have h2' : (f.label == Label.repeated) = false := by simpa using h2
    simp only [checkSlot, h1, h2', Bool.false_eq_true, ite_false]
    exact defSingle_rejected S f q v h3
theorem defSlots_rejected (S : Schema) : ∀ fs ss, defSlots S fs ss = true → checkSlots S fs ss = false
  | [], _, h => by simp [defSlots] at h
  | _ :: _, [], h => by simp [defSlots] at h
  | f :: fs, s :: ss, h => by
    simp only [defSlots, Bool.or_eq_true] at h
    simp only [checkSlots, Bool.and_eq_false_iff]
    rcases h with h | h
    · exact Or.inl (defSlot_rejected S f s h)
    · exact Or.inr (defSlots_rejected S fs ss h)
/-- C19 (second half): a message with any of the listed defects, at any nesting depth, in a
    required / present optional / implicit-presence / selected oneof / repeated field, is rejected -/
theorem defMsg_rejected (S : Schema) : ∀ m, defMsg S m = true → checkMsg S m = false
  | .mk ty slots unk, h => by
    simp only [defMsg] at h
    simp only [checkMsg]
    exact defSlots_rejected S _ slots h
end

/-! non-vacuity: a selected oneof bytes member (field number 2) with a length and no data is
    representable, defective, and rejected; the same message with data is accepted and safe -/
def exS : Schema := [
  { name := "A", fields := [
      { name := "i", id := 1, label := .optional, type := .int32, packed := false, group := some 0, sub := 0, dflt := .none, init := none },
      { name := "b", id := 2, label := .optional, type := .bytes, packed := false, group := some 0, sub := 0, dflt := .none, init := none }],
    initGeneric := false, nGroups := 1 }]
def exBad : Msg := .mk 0 [.one 2 .zero, .one 2 (.bin 3 .null [])] []
def exGood : Msg := .mk 0 [.one 2 .zero, .one 2 (.bin 3 .own [1, 2, 3])] []
example : shapeMsg exS exBad = true ∧ defMsg exS exBad = true ∧ checkMsg exS exBad = false := by decide
example : shapeMsg exS exGood = true ∧ checkMsg exS exGood = true ∧ safeMsg exS exGood = true := by decide
example : OneofOK exS := by
  intro d hd f hf ho
  simp [exS] at hd; subst hd
  simp at hf
  rcases hf with h | h <;> subst h <;> decide

end Pbc.Props.C19
