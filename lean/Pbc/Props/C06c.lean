import Pbc.Props.C06m
/-
  C06, part C — what the parser returns is in the canonical form of the round-trip theorem, hence re-serialising it and
  parsing the bytes again gives the same message back.
-/
namespace Pbc.Props.C06
open Pbc Pbc.Model Pbc.Wire Pbc.Lemmas Pbc.Props.C01 Pbc.Props.C04 List

/-! ### the size side conditions of the round-trip theorem, as a predicate on the returned message -/

def FitsElem (Q : Msg → Prop) (S : Schema) : Val → Prop
  | .msg (some m) => (packMsg S m).length < 2 ^ 31 ∧ Q m
  | .str _ s => s.length < 2 ^ 31
  | .bin len _ _ => len < 2 ^ 31
  | _ => True

def FitsSlot (Q : Msg → Prop) (S : Schema) (g : Bool) (f : FieldDesc) : Slot → Prop
  | .one q v => FitsElem Q S v ∧
      -- an implicit-presence field holds a non-zero value or is untouched (no explicitly transmitted empty string)
      (f.label = .none → f.group = none → writes f q v = false → Slot.one q v = initSlot' g f)
  | .rep _ none => True
  | .rep n (some l) => (∀ v ∈ l, FitsElem Q S v) ∧ (f.packed = true → ((elemsBytes S f n l).flatten).length < 2 ^ 31)

def FitsMsg (Q : Msg → Prop) (S : Schema) (m : Msg) : Prop :=
  (recsMsg S m).length ≤ maxScanned ∧ (∀ u ∈ m.unk, u.tag < 2 ^ 29) ∧
  ∀ j, j < (S.msg m.ty).fields.length →
    FitsSlot Q S (S.msg m.ty).initGeneric ((S.msg m.ty).fields.getD j default) (m.slots.getD j default)

/-- the returned message re-serialises within the limits of the format, to nesting depth k -/
def Fits (S : Schema) : Nat → Msg → Prop
  | 0, m => FitsMsg (fun _ => False) S m
  | k+1, m => FitsMsg (Fits S k) S m

/-- what this part assumes about every message type of the schema -/
structure SchemaGood (S : Schema) : Prop where
  ok : ∀ t, SchemaOK (S.msg t).fields
  dflt : ∀ t, ∀ f ∈ (S.msg t).fields, DfltOK f
  oneof : ∀ t, OneofLabelsOK (S.msg t).fields
  reqNoDflt : ∀ t, ∀ f ∈ (S.msg t).fields, f.label = .required → f.dflt = .none
  zeroInit : ∀ t, ∀ f ∈ (S.msg t).fields, f.label = .none → f.group = none →
    writes f 0 (initSlot' (S.msg t).initGeneric f).v = false

theorem canonElem_of (P Q P' : Msg → Prop) (S : Schema) (f : FieldDesc) (v : Val) (hPQ : ∀ m', P m' → Q m' → P' m')
    (hs : ShapeElemP P f v) (hf : FitsElem Q S v) : CanonElemP P' S f v := by
  obtain ⟨h1, h2⟩ := hs
  constructor
  · cases v with
    | msg om =>
      cases om with
      | none => exact absurd h1 (by simp [Shape1])
      | some m => exact ⟨h1.1, h1.2, hf.1⟩
    | str p s =>
      cases p with
      | own => exact ⟨h1.1, hf, h1.2⟩
      | null => exact absurd h1 (by simp [Shape1])
      | dflt => exact absurd h1 (by simp [Shape1])
      | empty => exact absurd h1 (by simp [Shape1])
    | bin len p d =>
      cases p with
      | own => exact ⟨h1.1, h1.2.1, h1.2.2, hf⟩
      | null => exact h1
      | dflt => exact absurd h1 (by simp [Shape1])
      | empty => exact absurd h1 (by simp [Shape1])
    | w32 x => exact h1
    | w64 x => exact h1
    | zero => exact absurd h1 (by simp [Shape1])
  · intro m' hm
    subst hm
    exact hPQ m' (h2 m' rfl) hf.2

theorem shape_not_absent (P : Msg → Prop) (f : FieldDesc) (v : Val) (h : ShapeElemP P f v)
    (ht : f.type = .string ∨ f.type = .message) : ptrAbsent f v = false := by
  obtain ⟨h1, _⟩ := h
  cases v with
  | msg om => cases om with
    | none => exact absurd h1 (by simp [Shape1])
    | some m => rfl
  | str p s =>
    cases p with
    | own => rfl
    | null => exact absurd h1 (by simp [Shape1])
    | dflt => exact absurd h1 (by simp [Shape1])
    | empty => exact absurd h1 (by simp [Shape1])
  | bin len p d =>
    have : f.type = .bytes := by
      cases p with
      | own => exact h1.1
      | null => exact h1.1
      | dflt => exact absurd h1 (by simp [Shape1])
      | empty => exact absurd h1 (by simp [Shape1])
    rcases ht with ht | ht <;> rw [this] at ht <;> cases ht
  | w32 x =>
    have hw := okScalar_wire _ _ (show okScalar f.type (.w32 x) from h1)
    rcases ht with ht | ht
    · exact absurd ht hw.2.1
    · exact absurd ht hw.2.2.2
  | w64 x =>
    have hw := okScalar_wire _ _ (show okScalar f.type (.w64 x) from h1)
    rcases ht with ht | ht
    · exact absurd ht hw.2.1
    · exact absurd ht hw.2.2.2
  | zero => exact absurd h1 (by simp [Shape1])

/-- an optional field that was never written is not serialised -/
theorem init_not_written_opt (g : Bool) (f : FieldDesc) (hd : DfltOK f) (hl : f.label = .optional) (hg : f.group = none) :
    ∃ v, initSlot' g f = .one 0 v ∧ writes f 0 v = false := by
  have hlr : (f.label == Label.repeated) = false := by rw [hl]; rfl
  have ho : f.isOneof = false := by simp [FieldDesc.isOneof, hg]
  unfold writes
  simp only [hl]
  by_cases hs : f.type = .string ∨ f.type = .message
  · -- a pointer member holds NULL or the default object
    have hw2 : f.type.wireType = 2 := by rcases hs with h | h <;> rw [h] <;> rfl
    have hinit : f.init = none := by
      cases hi : f.init with
      | none => rfl
      | some b => have := hd.2 (by simp [hi]); exact absurd hw2 this
    have hv : ∃ v, initSlot' g f = .one 0 v ∧ ptrAbsent f v = true := by
      unfold initSlot'
      have hdv : ptrAbsent f (dfltVal f) = true := by
        unfold dfltVal
        cases hdf : f.dflt with
        | none => rcases hs with h | h <;> simp [zeroVal, h, ptrAbsent]
        | scalar b => have := hd.1; rw [hdf] at this; exact absurd hw2 this
        | str s => rfl
        | emptyStr => rfl
        | bin b =>
          have := hd.1; rw [hdf] at this; have h' := this.1
          rcases hs with h | h <;> rw [h] at h' <;> cases h'
      cases g <;> simp only [Bool.false_eq_true, if_false, if_true, initSlotGen, initSlotGeneric, hlr, ho, hinit]
      · exact ⟨_, rfl, hdv⟩
      · exact ⟨_, rfl, hdv⟩
    obtain ⟨v, h1, h2⟩ := hv
    refine ⟨v, h1, ?_⟩
    have : (f.type == PType.message || f.type == PType.string) = true := by
      rcases hs with h | h <;> simp [h]
    simp [this, h2]
  · obtain ⟨v, hv⟩ := initSlot'_q g f (by rw [hl]; simp)
    refine ⟨v, hv, ?_⟩
    have h1 : (f.type == PType.message || f.type == PType.string) = false := by
      simp only [Bool.or_eq_false_iff]
      exact ⟨by simpa using (fun h => hs (Or.inr h)), by simpa using (fun h => hs (Or.inl h))⟩
    simp [h1]

/-- a singular, non-oneof slot as the parse pass leaves it, with the size conditions, is in canonical form -/
theorem classify_one (P Q P' : Msg → Prop) (S : Schema) (g : Bool) (f : FieldDesc) (hPQ : ∀ m', P m' → Q m' → P' m')
    (hd : DfltOK f) (hg : f.group = none) (hl : f.label ≠ .repeated)
    (hzero : f.label = .none → writes f 0 (initSlot' g f).v = false)
    (s : Slot) (h1 : s = initSlot' g f ∨ Touched P f s) (h2 : f.label = .required → Touched P f s)
    (hfit : FitsSlot Q S g f s) : CanonSlotP P' S g f s := by
  -- the touched case
  have touched : Touched P f s → (f.label = .none → ∃ q v, s = .one q v ∧ writes f q v = true) → CanonSlotP P' S g f s := by
    intro ⟨q, v, hs, hsh, hq⟩ hw
    subst hs
    refine ⟨hl, Or.inl ⟨?_, canonElem_of P Q P' S f v hPQ hsh hfit.1, hq⟩⟩
    unfold writes
    cases hlab : f.label with
    | required => rfl
    | repeated => exact absurd hlab hl
    | optional =>
      simp only
      by_cases hs : f.type = .string ∨ f.type = .message
      · have : (f.type == PType.message || f.type == PType.string) = true := by
          rcases hs with h | h <;> simp [h]
        simp [this, shape_not_absent P f v hsh hs]
      · have hns : f.type ≠ .string := fun h => hs (Or.inl h)
        have hnm : f.type ≠ .message := fun h => hs (Or.inr h)
        have h1 : (f.type == PType.message || f.type == PType.string) = false := by
          simp only [Bool.or_eq_false_iff]; exact ⟨by simpa using hnm, by simpa using hns⟩
        have hh : f.hasQ = true := by
          unfold FieldDesc.hasQ
          simp only [hlab, hg]
          simp [hns, hnm]
        simp [h1, hq, hh]
    | none =>
      obtain ⟨q', v', he, hw'⟩ := hw hlab
      cases he
      simpa [writes, hlab] using hw'
  by_cases hreq : f.label = .required
  · exact touched (h2 hreq) (fun hn => by rw [hreq] at hn; cases hn)
  · rcases h1 with hinit | ht
    · -- untouched: not serialised, equal to its initial value
      obtain ⟨v0, hv0⟩ := initSlot'_q g f hl
      rw [hinit, hv0]
      refine ⟨hl, Or.inr ⟨?_, hv0.symm⟩⟩
      cases hlab : f.label with
      | required => exact absurd hlab hreq
      | repeated => exact absurd hlab hl
      | optional =>
        obtain ⟨v1, hv1, hw⟩ := init_not_written_opt g f hd hlab hg
        rw [hv0] at hv1; cases hv1; exact hw
      | none =>
        have := hzero hlab
        rw [hv0] at this; exact this
    · by_cases hn : f.label = .none
      · obtain ⟨q, v, hs, hsh, hq⟩ := ht
        by_cases hw : writes f q v = true
        · exact touched ⟨q, v, hs, hsh, hq⟩ (fun _ => ⟨q, v, hs, hw⟩)
        · -- zero value: by `Fits` the slot is the initial one
          have hw' : writes f q v = false := by simpa using hw
          subst hs
          have he := hfit.2 hn hg hw'
          refine ⟨hl, Or.inr ⟨hw', he⟩⟩
      · exact touched ht (fun h => absurd h hn)

/-! ### the message level -/

theorem init_minv (P : Msg → Prop) (S : Schema) (t : Nat) (hsch : SchemaOK (S.msg t).fields)
    (ho : OneofLabelsOK (S.msg t).fields) :
    MInv P (S.msg t).initGeneric (S.msg t).fields (fun _ => False) (initMsg S t) := by
  rw [initMsg_eq]
  refine ⟨⟨fun _ => 0, ?_⟩, by simp [Msg.unk]⟩
  have hget : ∀ j, j < (S.msg t).fields.length →
      getSlot ((S.msg t).fields.map (initSlot' (S.msg t).initGeneric)) j =
        initSlot' (S.msg t).initGeneric ((S.msg t).fields.getD j default) := by
    intro j hj
    simp [getSlot, getD_eq_getElem?_getD, hj]
  refine ⟨by simp [Msg.slots], ?_, ?_, ?_, fun _ => Or.inl rfl⟩
  · intro j hj _ hl
    simp only [Msg.slots]
    rw [hget j hj, initSlot'_rep _ _ hl]
    exact Or.inl rfl
  · intro j hj _ _
    simp only [Msg.slots]
    rw [hget j hj]
    exact ⟨Or.inl rfl, fun h => h.elim⟩
  · intro j gi hj hg
    simp only [Msg.slots]
    rw [hget j hj]
    have hl := ho j (by rw [hg]; rfl)
    rw [initSlot'_oneof _ _ gi hg (label_ne_rep hl)]
    refine ⟨.zero, rfl, ?_⟩
    have := (hsch.ids _ (getD_mem _ j hj)).1
    rw [if_neg (by omega)]

theorem mergeSch_of (S : Schema) (hS : SchemaGood S) (t : Nat) : MergeSch (S.msg t).initGeneric (S.msg t).fields :=
  ⟨hS.ok t, hS.oneof t, hS.dflt t, hS.zeroInit t⟩

/-- **what the parser returns is in parser form**, to the nesting depth its fuel allows: on ANY input, merges of
    repeated occurrences of embedded messages included -/
theorem parsed_pfn (S : Schema) (hS : SchemaGood S) : ∀ (fuel t : Nat) (b : Bytes) (m : Msg),
    unpackMsg S fuel t b = some m → PFN S fuel m := by
  intro fuel
  induction fuel using Nat.strongRecOn with
  | _ fuel ih =>
    intro t b m hun
    have hty := unpackMsg_ty S fuel t b m hun
    obtain ⟨st, hscan, hreq⟩ := Pbc.Props.C11.success_implies_required_present S fuel t b m hun
    have hacc := scanLoop_acc (S.msg t).fields (hS.ok t).distinct _ _ _ _ (scan0_acc (S.msg t).fields) hscan
    have hpa : parseAll S fuel (S.msg t).fields st.acc.reverse (initMsg S t) = some m := by
      unfold unpackMsg at hun
      simp only at hun
      have hscan' : scanLoop (S.msg t).fields b.length b
          ⟨if (S.msg t).fields.isEmpty then none else some 0, 0, [], [], [], 0⟩ = some st := hscan
      rw [hscan'] at hun
      simp only at hun
      split at hun
      · cases hun
      · exact hun
    -- the parse pass with any predicate on nested messages that the recursion supplies
    have main : ∀ (P : Msg → Prop), NestOK P S fuel → PFMsg P S m := by
      intro P hN
      have hminv := parseAll_inv P S fuel hN (S.msg t).initGeneric (S.msg t).fields ⟨hS.oneof t⟩ (hS.ok t)
        st.acc.reverse (fun _ => False) (initMsg S t) m
        (init_minv P S t (hS.ok t) (hS.oneof t))
        (fun sm hsm => hacc.2 sm (by simpa using hsm)) hpa
      obtain ⟨⟨cs, hp⟩, hunk⟩ := hminv
      unfold PFMsg
      rw [hty]
      refine ⟨⟨cs, hp.len, hp.rep, ?_, hp.grp, hp.sel⟩, hunk⟩
      intro j hj hg hl
      refine ⟨(hp.one j hj hg hl).1, fun hr => (hp.one j hj hg hl).2 ?_⟩
      right
      obtain ⟨sm, hsm, hfx⟩ := hreq j hj hr (hS.reqNoDflt t _ (getD_mem _ j hj) hr)
      exact ⟨sm, by simpa using hsm, hfx⟩
    cases fuel with
    | zero =>
      exact main (fun _ => False) ⟨fun fuel' _ _ _ h => by omega, fun fuel' _ _ _ h => by omega⟩
    | succ f =>
      refine main (PFN S f) ⟨?_, ?_⟩
      · intro fuel' t' b' m' hf hm'
        have : fuel' = f := by omega
        subst this
        exact ih fuel' (by omega) t' b' m' hm'
      · intro fuel' e l r hf he hl hty' hm
        exact merge_pfn S (mergeSch_of S hS) f _ e l r he hl hty' hm

/-- **parser form + size limits = the canonical form of the round-trip theorem** -/
theorem pfn_canon (S : Schema) (hS : SchemaGood S) : ∀ (k n : Nat) (m : Msg), PFN S n m → Fits S k m → CanonNO S k m := by
  -- one level, for any predicates on nested messages
  have main : ∀ (P Q P' : Msg → Prop) (m : Msg), (∀ m', P m' → Q m' → P' m') → PFMsg P S m → FitsMsg Q S m →
      CanonMsgO P' S m := by
    intro P Q P' m hPQ hpf hfm
    obtain ⟨⟨cs, hp⟩, hunk⟩ := hpf
    obtain ⟨hrecs, htags, hslots⟩ := hfm
    generalize htt : m.ty = t at hp hunk hslots
    unfold CanonMsgO
    rw [htt]
    refine ⟨hS.ok t, hS.dflt t, ⟨cs, hp.len, ?_, hp.sel⟩, ?_, hrecs⟩
    · intro j hj
      have hfj := getD_mem (S.msg t).fields j hj
      have hfs := hslots j hj
      unfold CanonSlotO
      cases hg : ((S.msg t).fields.getD j default).group with
      | none =>
        simp only
        by_cases hl : ((S.msg t).fields.getD j default).label = .repeated
        · rcases hp.rep j hj hg hl with h0 | ⟨n, l, hs, hn, hlen, hall⟩
          · have : m.slots.getD j default = .rep 0 none := h0
            rw [this]; exact ⟨hl, rfl⟩
          · have hs' : m.slots.getD j default = .rep n (some l) := hs
            rw [hs'] at hfs ⊢
            exact ⟨hl, hn, hlen, fun v hv => canonElem_of _ Q P' S _ v hPQ (hall v hv) (hfs.1 v hv), hfs.2⟩
        · obtain ⟨h1, h2⟩ := hp.one j hj hg hl
          exact classify_one P Q P' S _ _ hPQ (hS.dflt t _ hfj) hg hl
            (fun hn => hS.zeroInit t _ hfj hn hg) _ h1 (fun hr => h2 hr) hfs
      | some gi =>
        simp only
        obtain ⟨v, hs, hv⟩ := hp.grp j gi hj hg
        have hs' : m.slots.getD j default = .one (cs gi) v := hs
        refine ⟨hS.oneof t j (by rw [hg]; rfl), v, hs', ?_⟩
        split
        · rename_i hid
          rw [if_pos hid] at hv
          rw [hs'] at hfs
          exact canonElem_of _ Q P' S _ v hPQ hv hfs.1
        · rename_i hid
          rw [if_neg hid] at hv
          exact hv
    · intro u hu
      obtain ⟨h1, h2, h3, h4⟩ := hunk u hu
      have ht := htags u hu
      exact ⟨h1, ht, h2, h3, h4 (by omega)⟩
  intro k
  induction k with
  | zero =>
    intro n m hpf hfit
    cases n with
    | zero => exact main (fun _ => False) (fun _ => False) (fun _ => False) m (fun _ h _ => h) hpf hfit
    | succ n => exact main (PFN S n) (fun _ => False) (fun _ => False) m (fun _ _ h => h) hpf hfit
  | succ k ih =>
    intro n m hpf hfit
    cases n with
    | zero => exact main (fun _ => False) (Fits S k) (CanonNO S k) m (fun _ h _ => h.elim) hpf hfit
    | succ n => exact main (PFN S n) (Fits S k) (CanonNO S k) m (fun m' h1 h2 => ih n m' h1 h2) hpf hfit

/-- **what the parser returns is canonical**: every message `protobuf_c_message_unpack` returns on ANY input, if it
    fits the size limits of the format (`Fits`), is in the parser form of the round-trip theorem -/
theorem parsed_canon (S : Schema) (hS : SchemaGood S) (fuel t : Nat) (b : Bytes) (m : Msg) (k : Nat)
    (h : unpackMsg S fuel t b = some m) (hf : Fits S k m) : CanonNO S k m :=
  pfn_canon S hS k fuel m (parsed_pfn S hS fuel t b m h) hf

/-- **C06, re-parse**: whatever input the parser accepted, serialising the
    result and parsing those bytes gives the same message back — provided the result fits the format's size limits -/
theorem reparse_partial (S : Schema) (hS : SchemaGood S) (t : Nat) (b : Bytes) (m : Msg) (k : Nat)
    (h : unpack S t b = some m) (hf : Fits S k m) : unpack S t (packMsg S m) = some m := by
  have hc := parsed_canon S hS _ t b m k h hf
  have hty := unpackMsg_ty S _ t b m h
  have := unpack_pack_canonical S k m hc
  rwa [hty] at this

/-- **C06, stability**: … and serialising that second result reproduces the bytes exactly -/
theorem stable_partial (S : Schema) (hS : SchemaGood S) (t : Nat) (b : Bytes) (m : Msg) (k : Nat)
    (h : unpack S t b = some m) (hf : Fits S k m) :
    ∃ m', unpack S t (packMsg S m) = some m' ∧ packMsg S m' = packMsg S m :=
  ⟨m, reparse_partial S hS t b m k h hf, rfl⟩

/-! non-vacuity: M0 { optional int32 a = 1; repeated M1 kids = 2; oneof g { sint32 o = 4; string s = 5; }; implicit uint32 z = 6; }
    M1 { required uint32 x = 1; repeated bytes names = 2 [unpacked]; }, a non-canonical input (padded varint, an unknown
    field, the oneof set twice, an explicit zero for the implicit field) -/
def exS : Schema := [
  { name := "M0", initGeneric := false, nGroups := 1, fields := [
    { name := "a", id := 1, label := .optional, type := .int32, packed := false, group := none, sub := 0, dflt := .none, init := none },
    { name := "kids", id := 2, label := .repeated, type := .message, packed := false, group := none, sub := 1, dflt := .none, init := none },
    { name := "o", id := 4, label := .optional, type := .sint32, packed := false, group := some 0, sub := 0, dflt := .none, init := none },
    { name := "s", id := 5, label := .optional, type := .string, packed := false, group := some 0, sub := 0, dflt := .none, init := none },
    { name := "z", id := 6, label := .none, type := .uint32, packed := false, group := none, sub := 0, dflt := .none, init := none }] },
  { name := "M1", initGeneric := false, nGroups := 0, fields := [
    { name := "x", id := 1, label := .required, type := .uint32, packed := false, group := none, sub := 0, dflt := .none, init := none },
    { name := "names", id := 2, label := .repeated, type := .bytes, packed := false, group := none, sub := 0, dflt := .none, init := none }] }]

def exInput : Bytes := [0x08, 0x96, 0x81, 0x00,  0x12, 0x05, 0x08, 0x07, 0x12, 0x01, 0xff,  0x48, 0x01,  0x20, 0x03,  0x2a, 0x02, 0x68, 0x69,  0x30, 0x00]

def exOut : Msg := .mk 0 [.one 1 (.w32 150), .rep 1 (some [.msg (some (.mk 1 [.one 0 (.w32 7), .rep 1 (some [.bin 1 .own [0xff]])] []))]),
  .one 5 .zero, .one 5 (.str .own [0x68, 0x69]), .one 0 (.w32 0)] [⟨9, 0, [0x01]⟩]


def exKid : Msg := .mk 1 [.one 0 (.w32 7), .rep 1 (some [.bin 1 .own [0xff]])] []

theorem exS_good : SchemaGood exS := by
  have h2 : ∀ t, exS.msg (t + 2) = default := fun t => by simp [Schema.msg, exS]
  have hdf : (default : MsgDesc).fields = [] := rfl
  have hdg : (default : FieldDesc).group = none := rfl
  have hbig : ∀ (fs : List FieldDesc) (i : Nat), fs.length ≤ i → (fs.getD i default).group.isSome = true → False := by
    intro fs i h hi
    rw [getD_eq_getElem?_getD, getElem?_eq_none h] at hi
    simp only [Option.getD_none] at hi
    rw [hdg] at hi
    cases hi
  refine ⟨?_, ?_, ?_, ?_, ?_⟩
  · intro t
    match t with
    | 0 => exact ⟨by unfold IdsDistinct; decide, by decide, by decide⟩
    | 1 => exact ⟨by unfold IdsDistinct; decide, by decide, by decide⟩
    | t+2 => rw [h2, hdf]; exact ⟨by unfold IdsDistinct; decide, by simp, by simp⟩
  · intro t f hf
    match t with
    | 0 =>
      simp only [exS, Schema.msg, getD_cons_zero, mem_cons, not_mem_nil, or_false] at hf
      rcases hf with rfl | rfl | rfl | rfl | rfl <;> simp [DfltOK]
    | 1 =>
      simp only [exS, Schema.msg, getD_cons_succ, getD_cons_zero, mem_cons, not_mem_nil, or_false] at hf
      rcases hf with rfl | rfl <;> simp [DfltOK]
    | t+2 => rw [h2, hdf] at hf; simp at hf
  · intro t
    match t with
    | 0 =>
      intro i hi
      have : i < 5 ∨ 5 ≤ i := by omega
      rcases this with h | h
      · have : i = 0 ∨ i = 1 ∨ i = 2 ∨ i = 3 ∨ i = 4 := by omega
        rcases this with rfl | rfl | rfl | rfl | rfl <;> simp [exS, Schema.msg] at hi ⊢
      · exact (hbig _ i (by simpa [exS, Schema.msg] using h) hi).elim
    | 1 =>
      intro i hi
      have : i < 2 ∨ 2 ≤ i := by omega
      rcases this with h | h
      · have : i = 0 ∨ i = 1 := by omega
        rcases this with rfl | rfl <;> simp [exS, Schema.msg] at hi ⊢
      · exact (hbig _ i (by simpa [exS, Schema.msg] using h) hi).elim
    | t+2 =>
      rw [h2]
      intro i hi
      exact (hbig _ i (by rw [hdf]; simp) hi).elim
  · intro t f hf
    match t with
    | 0 => revert f; decide
    | 1 => revert f; decide
    | t+2 => rw [h2, hdf] at hf; simp at hf
  · intro t f hf
    match t with
    | 0 =>
      simp only [exS, Schema.msg, getD_cons_zero, mem_cons, not_mem_nil, or_false] at hf
      rcases hf with rfl | rfl | rfl | rfl | rfl <;>
        simp [writes, initSlot', initSlotGen, dfltVal, zeroVal, zeroish, PType.is32, FieldDesc.isOneof, Val.asW32, Slot.v, exS, Schema.msg]
    | 1 =>
      simp only [exS, Schema.msg, getD_cons_succ, getD_cons_zero, mem_cons, not_mem_nil, or_false] at hf
      rcases hf with rfl | rfl <;> simp
    | t+2 => rw [h2, hdf] at hf; simp at hf

theorem exKid_canon : CanonNO exS 0 exKid := by
  refine ⟨exS_good.ok 1, exS_good.dflt 1, ⟨fun _ => 0, ⟨rfl, ?_, fun _ => Or.inl rfl⟩⟩, by simp [exKid, Msg.unk], by decide⟩
  intro j hj
  have hj2 : j < 2 := hj
  have : j = 0 ∨ j = 1 := by omega
  rcases this with rfl | rfl <;>
    simp [exKid, Msg.ty, Msg.slots, exS, Schema.msg, CanonSlotO, CanonSlotP, CanonElemP, CanonElem1, writes, okScalar,
      initSlot', initSlotGen, dfltVal, zeroVal, PType.is32, FieldDesc.isOneof, FieldDesc.hasQ]

theorem exKid_fits : Fits exS 0 exKid := by
  refine ⟨by decide, by simp [exKid, Msg.unk], ?_⟩
  intro j hj
  have hj2 : j < 2 := hj
  have : j = 0 ∨ j = 1 := by omega
  rcases this with rfl | rfl <;> simp [exKid, Msg.ty, Msg.slots, exS, Schema.msg, FitsSlot, FitsElem]

def exCs : Nat → Nat := fun gi => if gi = 0 then 5 else 0

theorem exOut_canon : CanonNO exS 1 exOut := by
  refine ⟨exS_good.ok 0, exS_good.dflt 0, ⟨exCs, ⟨rfl, ?_, ?_⟩⟩, ?_, by decide⟩
  · intro j hj
    have hj5 : j < 5 := hj
    have : j = 0 ∨ j = 1 ∨ j = 2 ∨ j = 3 ∨ j = 4 := by omega
    rcases this with rfl | rfl | rfl | rfl | rfl
    · simp [exOut, Msg.ty, Msg.slots, exS, Schema.msg, CanonSlotO, CanonSlotP, CanonElemP, CanonElem1, writes, okScalar,
        PType.is32, FieldDesc.hasQ]
    · simp only [exOut, Msg.ty, Msg.slots, exS, Schema.msg, CanonSlotO, CanonSlotP, getD_cons_zero, getD_cons_succ]
      refine ⟨by simp, by decide, by simp, ?_, by simp⟩
      intro v hv
      simp only [mem_singleton] at hv
      subst hv
      refine ⟨?_, ?_⟩
      · simp only [CanonElem1, Msg.ty, true_and]
        decide
      · intro m' hm'
        cases hm'
        exact exKid_canon
    · simp [exOut, Msg.ty, Msg.slots, exS, Schema.msg, CanonSlotO, exCs]
    · simp [exOut, Msg.ty, Msg.slots, exS, Schema.msg, CanonSlotO, CanonElemP, CanonElem1, exCs]
    · simp [exOut, Msg.ty, Msg.slots, exS, Schema.msg, CanonSlotO, CanonSlotP, writes, zeroish, Val.asW32,
        initSlot', initSlotGen, dfltVal, zeroVal, PType.is32, FieldDesc.isOneof]
  · intro gi
    by_cases h : gi = 0
    · subst h; right; exact ⟨3, by decide, by decide⟩
    · left; simp [exCs, h]
  · intro u hu
    simp only [exOut, Msg.unk, mem_singleton] at hu
    subst hu
    refine ⟨by decide, by decide, by decide, ?_, by decide⟩
    have : unkPref ⟨9, 0, [0x01]⟩ = 0 := by decide
    rw [this]
    exact delim_bool 1 (Or.inr rfl)

theorem exOut_fits : Fits exS 1 exOut := by
  refine ⟨by decide, by simp [exOut, Msg.unk], ?_⟩
  intro j hj
  have hj5 : j < 5 := hj
  have : j = 0 ∨ j = 1 ∨ j = 2 ∨ j = 3 ∨ j = 4 := by omega
  rcases this with rfl | rfl | rfl | rfl | rfl
  · simp [exOut, Msg.ty, Msg.slots, exS, Schema.msg, FitsSlot, FitsElem]
  · simp only [exOut, Msg.ty, Msg.slots, exS, Schema.msg, FitsSlot, getD_cons_zero, getD_cons_succ]
    refine ⟨?_, by simp⟩
    intro v hv
    simp only [mem_singleton] at hv
    subst hv
    exact ⟨by decide, exKid_fits⟩
  · simp [exOut, Msg.ty, Msg.slots, exS, Schema.msg, FitsSlot, FitsElem]
  · simp [exOut, Msg.ty, Msg.slots, exS, Schema.msg, FitsSlot, FitsElem]
  · simp [exOut, Msg.ty, Msg.slots, exS, Schema.msg, FitsSlot, FitsElem, writes, zeroish, Val.asW32,
      initSlot', initSlotGen, dfltVal, zeroVal, PType.is32, FieldDesc.isOneof]

/-- the hypotheses of `reparse_partial` are met by a message with a nested message, a selected oneof member, an
    unknown field and an implicit-presence field -/
example : unpack exS 0 (packMsg exS exOut) = some exOut :=
  reparse_partial exS exS_good 0 (packMsg exS exOut) exOut 1 (unpack_pack_canonical exS 1 exOut exOut_canon) exOut_fits

end Pbc.Props.C06
