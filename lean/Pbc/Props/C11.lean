import Pbc.Model.Unpack
/-
  C11 -- missing required fields are always detected, never misjudged.
  The parser model keeps the code's required-field bitmap WITH its last-field cache and
  last_field_index; the invariant below says the bit of field i is set exactly when some
  scanned occurrence resolved to field i and field i is required -- for any arrival order,
  any interleaving of unknown fields, any number of fields.
-/
namespace Pbc.Props.C11
open Pbc Pbc.Model

structure ScanInv (fields : List FieldDesc) (st : ScanState) : Prop where
  cache : ∀ li, st.last = some li → st.lastIdx = li
  bits : ∀ i, i ∈ st.bitmap ↔ ∃ sm ∈ st.acc, sm.fidx = some i ∧ (fields.getD i default).label = .required

theorem resolveField_spec (fields : List FieldDesc) (st : ScanState) (tag : Nat)
    (hc : ∀ li, st.last = some li → st.lastIdx = li) :
    (∀ j, (resolveField fields st tag).1 = some j → (resolveField fields st tag).2.2.1 = j) ∧
    (∀ li, (resolveField fields st tag).2.1 = some li → (resolveField fields st tag).2.2.1 = li) := by
  unfold resolveField
  cases hl : st.last with
  | none =>
    simp only [Bool.false_eq_true, ite_false]
    cases lookupField fields tag with
    | none => simp [hl]
    | some i => simp
  | some li =>
    simp only
    by_cases hid : ((fields.getD li default).id == tag) = true
    · simp only [hid, ite_true]
      exact ⟨fun j hj => hc j (by rw [hl]; exact hj), fun l2 hl2 => hc l2 (by rw [hl]; exact hl2)⟩
    · simp only [hid, ite_false]
      cases lookupField fields tag with
      | none =>
        simp only
        exact ⟨fun j hj => (by cases hj), fun l2 hl2 => hc l2 (by rw [hl]; exact hl2)⟩
      | some i => simp

theorem scanStep_inv (fields : List FieldDesc) (b b' : Bytes) (st st' : ScanState)
    (hi : ScanInv fields st) (hs : scanStep fields b st = some (b', st')) : ScanInv fields st' := by
  unfold scanStep at hs
  split at hs
  · cases hs
  · rename_i used tag wt _
    have hr := resolveField_spec fields st tag hi.cache
    generalize hrf : resolveField fields st tag = r at hs hr
    obtain ⟨field, last, lastIdx, nu⟩ := r
    simp only [List.getD_eq_getElem?_getD] at hs hr
    split at hs
    · cases hs
    · rename_i len pref _
      split at hs
      · cases hs
      · split at hs
        · cases hs
        · rename_i counts _
          simp only [Option.some.injEq, Prod.mk.injEq] at hs
          obtain ⟨_, hst⟩ := hs
          subst hst
          constructor
          · intro li hli; exact hr.2 li hli
          · intro i
            simp only [List.mem_cons]
            cases field with
            | none =>
              have hb := hi.bits
              simp only [List.getD_eq_getElem?_getD] at hb
              simp only [hb i]
              constructor
              · rintro ⟨sm, hm, h1, h2⟩; exact ⟨sm, Or.inr hm, h1, h2⟩
              · rintro ⟨sm, hm | hm, h1, h2⟩
                · subst hm; simp at h1
                · exact ⟨sm, hm, h1, h2⟩
            | some j =>
              have hj : lastIdx = j := hr.1 j rfl
              subst hj
              have hb := hi.bits
              simp only [List.getD_eq_getElem?_getD] at hb
              by_cases hreq : (fields[lastIdx]?.getD default).label = .required
              · simp only [hreq, beq_self_eq_true, ite_true, List.mem_cons, hb i]
                constructor
                · rintro (h | ⟨sm, hm, h1, h2⟩)
                  · subst h; exact ⟨_, Or.inl rfl, rfl, hreq⟩
                  · exact ⟨sm, Or.inr hm, h1, h2⟩
                · rintro ⟨sm, hm | hm, h1, h2⟩
                  · subst hm; simp at h1; exact Or.inl h1.symm
                  · exact Or.inr ⟨sm, hm, h1, h2⟩
              · have : ((fields[lastIdx]?.getD default).label == Label.required) = false := by
                  simp [hreq]
                simp only [this, Bool.false_eq_true, ite_false, hb i]
                constructor
                · rintro ⟨sm, hm, h1, h2⟩; exact ⟨sm, Or.inr hm, h1, h2⟩
                · rintro ⟨sm, hm | hm, h1, h2⟩
                  · subst hm; simp at h1; subst h1; exact absurd h2 hreq
                  · exact ⟨sm, hm, h1, h2⟩

theorem scanLoop_inv (fields : List FieldDesc) (fuel : Nat) (b : Bytes) (st st' : ScanState)
    (hi : ScanInv fields st) (hs : scanLoop fields fuel b st = some st') : ScanInv fields st' := by
  induction fuel generalizing b st with
  | zero =>
    simp only [scanLoop] at hs
    split at hs
    · cases hs; exact hi
    · cases hs
  | succ fuel ih =>
    simp only [scanLoop] at hs
    split at hs
    · cases hs; exact hi
    · split at hs
      · cases hs
      · rename_i b1 st1 hstep
        exact ih b1 st1 (scanStep_inv fields b b1 st st1 hi hstep) hs

def initScan (fields : List FieldDesc) : ScanState :=
  ⟨if fields.isEmpty then none else some 0, 0, [], [], [], 0⟩

theorem init_inv (fields : List FieldDesc) : ScanInv fields (initScan fields) := by
  constructor
  · intro li h
    simp only [initScan] at h ⊢
    split at h
    · cases h
    · cases h; rfl
  · intro i; simp [initScan]

/-- what "field i occurs on the wire" means for the parser: some scanned occurrence resolved to it -/
def Occurs (st : ScanState) (i : Nat) : Prop := ∃ sm ∈ st.acc, sm.fidx = some i

/-- C11, soundness: if parsing succeeds, the scan succeeded and every required field that has no
    declared default occurs at least once (at this level; nested occurrences are parsed by the
    recursive call, to which the same theorem applies). -/
theorem success_implies_required_present (S : Schema) (fuel t : Nat) (b : Bytes) (m : Msg)
    (h : unpackMsg S fuel t b = some m) :
    ∃ st, scanLoop (S.msg t).fields b.length b (initScan (S.msg t).fields) = some st ∧
      ∀ i, i < (S.msg t).fields.length → ((S.msg t).fields.getD i default).label = .required →
        ((S.msg t).fields.getD i default).dflt = .none → Occurs st i := by
  rw [unpackMsg] at h
  simp only at h
  split at h
  · cases h
  · rename_i st hscan
    refine ⟨st, hscan, ?_⟩
    split at h
    · cases h
    · rename_i hany
      intro i hi hreq hd
      have hinv := scanLoop_inv _ _ _ _ _ (init_inv (S.msg t).fields) hscan
      simp only [List.any_eq_true, not_exists, not_and, List.mem_range] at hany
      have := hany i hi
      simp only [hreq, hd, beq_self_eq_true, Bool.true_and, Bool.not_eq_true', Bool.not_eq_false',
        Bool.and_eq_true, not_and, Bool.not_eq_true] at this
      have hmem : i ∈ st.bitmap := by
        have := this
        simpa [List.contains_iff_mem] using this
      obtain ⟨sm, hm, h1, _⟩ := (hinv.bits i).1 hmem
      exact ⟨sm, hm, h1⟩

/-- C11, completeness: a required field without default that never occurs makes parsing fail,
    whichever field it is, among however many, whatever else is on the wire. -/
theorem missing_required_rejected (S : Schema) (fuel t : Nat) (b : Bytes) (i : Nat)
    (hi : i < (S.msg t).fields.length)
    (hreq : ((S.msg t).fields.getD i default).label = .required)
    (hd : ((S.msg t).fields.getD i default).dflt = .none)
    (hmiss : ∀ st, scanLoop (S.msg t).fields b.length b (initScan (S.msg t).fields) = some st → ¬ Occurs st i) :
    unpackMsg S fuel t b = none := by
  rw [unpackMsg]
  simp only
  split
  · rfl
  · rename_i st hscan
    have hinv := scanLoop_inv _ _ _ _ _ (init_inv (S.msg t).fields) hscan
    have hno : i ∉ st.bitmap := by
      intro hmem
      obtain ⟨sm, hm, h1, _⟩ := (hinv.bits i).1 hmem
      exact hmiss st hscan ⟨sm, hm, h1⟩
    have : (List.range (S.msg t).fields.length).any (fun i =>
        ((S.msg t).fields.getD i default).label == .required &&
        ((S.msg t).fields.getD i default).dflt == .none && !st.bitmap.contains i) = true := by
      simp only [List.any_eq_true, List.mem_range]
      refine ⟨i, hi, ?_⟩
      simp only [List.getD_eq_getElem?_getD] at hreq hd
      simp [hreq, hd, hno]
    simp only [this, ite_true]

/-- C11, "never misjudged": the required-field check looks at nothing but required fields without
    default -- when all of those occur, the outcome is exactly that of the parse pass. -/
theorem only_required_fields_matter (S : Schema) (fuel t : Nat) (b : Bytes) (st : ScanState)
    (hscan : scanLoop (S.msg t).fields b.length b (initScan (S.msg t).fields) = some st)
    (hall : ∀ i, i < (S.msg t).fields.length → ((S.msg t).fields.getD i default).label = .required →
        ((S.msg t).fields.getD i default).dflt = .none → Occurs st i) :
    unpackMsg S fuel t b = parseAll S fuel (S.msg t).fields st.acc.reverse (initMsg S t) := by
  rw [unpackMsg]
  simp only
  have hs : scanLoop (S.msg t).fields b.length b
      ⟨if (S.msg t).fields.isEmpty then none else some 0, 0, [], [], [], 0⟩ = some st := hscan
  rw [hs]
  simp only
  have hinv := scanLoop_inv _ _ _ _ _ (init_inv (S.msg t).fields) hscan
  have : (List.range (S.msg t).fields.length).any (fun i =>
      ((S.msg t).fields.getD i default).label == .required &&
      ((S.msg t).fields.getD i default).dflt == .none && !st.bitmap.contains i) = false := by
    rw [Bool.eq_false_iff]
    intro hany
    simp only [List.any_eq_true, List.mem_range] at hany
    obtain ⟨i, hi, hc⟩ := hany
    simp only [Bool.and_eq_true, beq_iff_eq, Bool.not_eq_true', ] at hc
    obtain ⟨⟨hreq, hd⟩, hnc⟩ := hc
    obtain ⟨sm, hm, h1⟩ := hall i hi hreq hd
    have hmem : i ∈ st.bitmap := (hinv.bits i).2 ⟨sm, hm, h1, hreq⟩
    simp [List.contains_iff_mem, hmem] at hnc
  simp only [this, Bool.false_eq_true, ite_false]

end Pbc.Props.C11
