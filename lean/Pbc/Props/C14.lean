import Pbc.Model.Lookup
/-
  C14 -- descriptor lookups find every key and reject every non-key.
  One theorem for the loop shape shared by int_range_lookup and the three by-name searches
  (`bsearch`), for ANY table size and ANY key, under the sortedness the generator establishes;
  then the instances.
-/
namespace Pbc.Props.C14
open Pbc Pbc.Model

/-- the table is sorted relative to the key: entries before a hit compare `.gt`, after it `.lt`,
    and `.lt` / `.gt` are monotone along the table -/
structure Sorted (cmp : Nat → Ordering) (N : Nat) : Prop where
  lt_mono : ∀ i j, i ≤ j → j < N → cmp i = .lt → cmp j = .lt
  gt_mono : ∀ i j, i ≤ j → j < N → cmp j = .gt → cmp i = .gt
  eq_lt : ∀ i j, i < j → j < N → cmp i = .eq → cmp j = .lt
  eq_gt : ∀ i j, i < j → j < N → cmp j = .eq → cmp i = .gt

/-- soundness: whatever the search returns is a hit inside the searched window -/
theorem bsearch_sound (cmp : Nat → Ordering) : ∀ (fuel start count i : Nat),
    bsearch cmp fuel start count = some i → start ≤ i ∧ i < start + count ∧ cmp i = .eq := by
  intro fuel
  induction fuel with
  | zero => intro start count i h; simp [bsearch] at h
  | succ fuel ih =>
    intro start count i h
    simp only [bsearch] at h
    split at h
    · rename_i hc
      split at h
      · rename_i heq
        cases h
        exact ⟨by omega, by omega, heq⟩
      · obtain ⟨a, b, c⟩ := ih _ _ _ h; exact ⟨by omega, by omega, c⟩
      · obtain ⟨a, b, c⟩ := ih _ _ _ h; exact ⟨by omega, by omega, c⟩
    · split at h
      · cases h
      · split at h
        · rename_i heq; cases h; exact ⟨Nat.le_refl _, by omega, heq⟩
        · cases h

/-- completeness: a hit inside the window is found, for every window size (given enough fuel,
    and `count + 1` always is) -/
theorem bsearch_complete (cmp : Nat → Ordering) (N : Nat) (hs : Sorted cmp N) : ∀ (fuel start count t : Nat),
    start + count ≤ N → start ≤ t → t < start + count → cmp t = .eq → count ≤ fuel →
    bsearch cmp fuel start count = some t := by
  intro fuel
  induction fuel with
  | zero => intro start count t _ h1 h2 _ hf; omega
  | succ fuel ih =>
    intro start count t hN h1 h2 heq hf
    simp only [bsearch]
    split
    · rename_i hc
      have hmidN : start + count / 2 < N := by omega
      have htN : t < N := by omega
      split
      · rename_i hm
        -- two hits: they coincide
        by_cases hlt : t < start + count / 2
        · have := hs.eq_lt t _ hlt hmidN heq; rw [hm] at this; cases this
        · by_cases hgt : start + count / 2 < t
          · have := hs.eq_gt _ t hgt htN heq; rw [hm] at this; cases this
          · congr; omega
      · rename_i hm
        -- key is after mid: the hit lies to the right
        have : start + count / 2 < t := by
          by_cases h : start + count / 2 < t
          · exact h
          · exfalso
            by_cases he : t = start + count / 2
            · subst he; rw [heq] at hm; cases hm
            · have := hs.eq_lt t (start + count / 2) (by omega) hmidN heq
              rw [hm] at this; cases this
        exact ih _ _ t (by omega) (by omega) (by omega) heq (by omega)
      · rename_i hm
        have : t < start + count / 2 := by
          by_cases h : t < start + count / 2
          · exact h
          · exfalso
            by_cases he : t = start + count / 2
            · subst he; rw [heq] at hm; cases hm
            · have := hs.eq_gt (start + count / 2) t (by omega) htN heq
              rw [hm] at this; cases this
        exact ih _ _ t (by omega) (by omega) (by omega) heq (by omega)
    · have hc1 : count = 1 := by omega
      subst hc1
      have : t = start := by omega
      subst this
      simp [heq]

/-- no hit anywhere in the window ⇒ not found -/
theorem bsearch_none (cmp : Nat → Ordering) (fuel start count : Nat)
    (h : ∀ i, start ≤ i → i < start + count → cmp i ≠ .eq) : bsearch cmp fuel start count = none := by
  cases hb : bsearch cmp fuel start count with
  | none => rfl
  | some i =>
    obtain ⟨h1, h2, h3⟩ := bsearch_sound cmp fuel start count i hb
    exact absurd h3 (h i h1 h2)

/-! ### instance 1: `int_range_lookup` -/

/-- what the generator's tables satisfy: every run is non-empty and ends before the next begins -/
structure RangesWF (r : Ranges) : Prop where
  pos : ∀ i, i < r.runs.length → 1 ≤ r.sizeOf i
  gap : ∀ i, i + 1 < r.runs.length → r.startOf i + (r.sizeOf i : Int) ≤ r.startOf (i + 1)

theorem chain (r : Ranges) (h : RangesWF r) : ∀ j i, i < j → j < r.runs.length →
    r.startOf i + (r.sizeOf i : Int) ≤ r.startOf j := by
  intro j
  induction j with
  | zero => intro i hi; omega
  | succ j ih =>
    intro i hi hj
    by_cases he : i = j
    · subst he; exact h.gap i hj
    · have h1 := ih i (by omega) (by omega)
      have h2 := h.gap j hj
      have h3 := h.pos j (by omega)
      omega

theorem ranges_sorted (r : Ranges) (h : RangesWF r) (v : Int) : Sorted (rangeCmp r v) r.runs.length := by
  constructor
  · intro i j hij hj hc
    unfold rangeCmp at hc ⊢
    split at hc
    · rename_i hlt
      by_cases he : i = j
      · subst he; simp [hlt]
      · have := chain r h j i (by omega) hj
        have := h.pos i (by omega)
        have : v < r.startOf j := by omega
        simp [this]
    · split at hc <;> cases hc
  · intro i j hij hj hc
    unfold rangeCmp at hc ⊢
    split at hc
    · cases hc
    · split at hc
      · rename_i h1 h2
        by_cases he : i = j
        · subst he; simp [h1, h2]
        · have := chain r h j i (by omega) hj
          have := h.pos j hj
          have h3 : ¬ v < r.startOf i := by omega
          have h4 : v - r.startOf i ≥ (r.sizeOf i : Int) := by omega
          simp [h3, h4]
      · cases hc
  · intro i j hij hj hc
    unfold rangeCmp at hc ⊢
    split at hc
    · cases hc
    · split at hc
      · cases hc
      · rename_i h1 h2
        have := chain r h j i hij hj
        have : v < r.startOf j := by omega
        simp [this]
  · intro i j hij hj hc
    unfold rangeCmp at hc ⊢
    split at hc
    · cases hc
    · split at hc
      · cases hc
      · rename_i h1 h2
        have := chain r h j i hij hj
        have h3 : ¬ v < r.startOf i := by omega
        have h4 : v - r.startOf i ≥ (r.sizeOf i : Int) := by omega
        simp [h3, h4]

theorem rangeCmp_eq (r : Ranges) (v : Int) (i : Nat) :
    rangeCmp r v i = .eq ↔ r.startOf i ≤ v ∧ v < r.startOf i + (r.sizeOf i : Int) := by
  unfold rangeCmp
  split
  · constructor
    · intro h; cases h
    · intro h; omega
  · split
    · constructor
      · intro h; cases h
      · intro h; omega
    · constructor
      · intro _; omega
      · intro _; rfl

/-- C14 (i): over any well-formed range table and for EVERY integer key, `int_range_lookup`
    returns the index of the key iff the key lies in some run, and "not found" otherwise. -/
theorem rangeLookup_spec (r : Ranges) (h : RangesWF r) (v : Int) (idx : Nat) :
    rangeLookup r v = some idx ↔
      ∃ i, i < r.runs.length ∧ r.startOf i ≤ v ∧ v < r.startOf i + (r.sizeOf i : Int) ∧
           idx = (v - r.startOf i).toNat + r.origOf i := by
  unfold rangeLookup
  constructor
  · intro hl
    cases hb : bsearch (rangeCmp r v) (r.runs.length + 1) 0 r.runs.length with
    | none => rw [hb] at hl; simp at hl
    | some i =>
      rw [hb] at hl; simp at hl
      obtain ⟨_, h2, h3⟩ := bsearch_sound _ _ _ _ _ hb
      have h4 := (rangeCmp_eq r v i).1 h3
      exact ⟨i, by omega, h4.1, h4.2, hl.symm⟩
  · rintro ⟨i, hi, h1, h2, he⟩
    have heq : rangeCmp r v i = .eq := (rangeCmp_eq r v i).2 ⟨h1, h2⟩
    have := bsearch_complete _ _ (ranges_sorted r h v) (r.runs.length + 1) 0 r.runs.length i
      (by omega) (by omega) (by omega) heq (by omega)
    rw [this]; simp [he]

/-- ... and a key outside every run is reported as not found (incl. INT32_MIN / INT32_MAX neighbours) -/
theorem rangeLookup_none (r : Ranges) (v : Int)
    (hno : ∀ i, i < r.runs.length → ¬ (r.startOf i ≤ v ∧ v < r.startOf i + (r.sizeOf i : Int))) :
    rangeLookup r v = none := by
  unfold rangeLookup
  rw [bsearch_none]
  · rfl
  · intro i _ hi hc
    exact hno i (by omega) ((rangeCmp_eq r v i).1 hc)

/-! ### instance 2: the by-name searches (strcmp over the name-sorted index) -/

theorem cmpBytes_eq {a b : List Nat} : cmpBytes a b = .eq ↔ a = b := by
  induction a generalizing b with
  | nil => cases b <;> simp [cmpBytes]
  | cons x xs ih =>
    cases b with
    | nil => simp [cmpBytes]
    | cons y ys =>
      simp only [cmpBytes]
      by_cases h1 : x < y
      · simp [h1]; omega
      · by_cases h2 : x > y
        · simp [h1, h2]; omega
        · have : x = y := by omega
          subst this
          simp [ih]

theorem cmpBytes_swap {a b : List Nat} : cmpBytes a b = .lt ↔ cmpBytes b a = .gt := by
  induction a generalizing b with
  | nil => cases b <;> simp [cmpBytes]
  | cons x xs ih =>
    cases b with
    | nil => simp [cmpBytes]
    | cons y ys =>
      simp only [cmpBytes]
      by_cases h1 : x < y
      · have : ¬ y < x := by omega
        simp [h1, this]
      · by_cases h2 : x > y
        · simp [h1, h2]
        · have : x = y := by omega
          subst this
          simp [ih]

theorem cmpBytes_trans {a b c : List Nat} (h1 : cmpBytes a b = .lt) (h2 : cmpBytes b c = .lt) : cmpBytes a c = .lt := by
  induction a generalizing b c with
  | nil =>
    cases b with
    | nil => simp [cmpBytes] at h1
    | cons y ys => cases c with
      | nil => simp [cmpBytes] at h2
      | cons z zs => simp [cmpBytes]
  | cons x xs ih =>
    cases b with
    | nil => simp [cmpBytes] at h1
    | cons y ys =>
      cases c with
      | nil => simp [cmpBytes] at h2
      | cons z zs =>
        simp only [cmpBytes] at h1 h2 ⊢
        by_cases a1 : x < y
        · by_cases b1 : y < z
          · have : x < z := by omega
            simp [this]
          · by_cases b2 : y > z
            · simp [b1, b2] at h2
            · have : y = z := by omega
              subst this; simp [a1]
        · by_cases a2 : x > y
          · simp [a1, a2] at h1
          · have : x = y := by omega
            subst this
            simp only [a1, a2, ite_false] at h1
            by_cases b1 : x < z
            · simp [b1]
            · by_cases b2 : x > z
              · simp [b1, b2] at h2
              · simp only [b1, b2, ite_false] at h2 ⊢
                exact ih h1 h2

/-- the index is sorted by name, strictly (names are pairwise distinct) -/
def NamesSorted (l : List (List Nat × Nat)) : Prop :=
  ∀ i j, i < j → j < l.length → cmpBytes (l.getD i ([], 0)).1 (l.getD j ([], 0)).1 = .lt

theorem names_sorted_cmp (l : List (List Nat × Nat)) (hl : NamesSorted l) (key : List Nat) :
    Sorted (fun i => cmpBytes key (l.getD i ([], 0)).1) l.length := by
  constructor
  · intro i j hij hj hc
    by_cases he : i = j
    · subst he; exact hc
    · exact cmpBytes_trans hc (hl i j (by omega) hj)
  · intro i j hij hj hc
    by_cases he : i = j
    · subst he; exact hc
    · have h1 := hl i j (by omega) hj
      have h2 := cmpBytes_swap.2 hc
      exact cmpBytes_swap.1 (cmpBytes_trans h1 h2)
  · intro i j hij hj hc
    show cmpBytes key _ = .lt
    rw [cmpBytes_eq.1 hc]
    exact hl i j hij hj
  · intro i j hij hj hc
    show cmpBytes key _ = .gt
    rw [cmpBytes_eq.1 hc]
    exact cmpBytes_swap.1 (hl i j hij hj)

/-- C14 (ii): over any strictly name-sorted index and for EVERY string, the by-name search
    returns the entry with that name iff there is one (aliases are separate entries), else none. -/
theorem nameLookup_spec (l : List (List Nat × Nat)) (hl : NamesSorted l) (key : List Nat) (idx : Nat) :
    nameLookup l key = some idx ↔ ∃ i, i < l.length ∧ (l.getD i ([], 0)).1 = key ∧ (l.getD i ([], 0)).2 = idx := by
  unfold nameLookup
  constructor
  · intro h
    cases hb : bsearch (fun i => cmpBytes key (l.getD i ([], 0)).1) (l.length + 1) 0 l.length with
    | none => rw [hb] at h; simp at h
    | some i =>
      rw [hb] at h; simp at h
      obtain ⟨_, h2, h3⟩ := bsearch_sound _ _ _ _ _ hb
      exact ⟨i, by omega, (cmpBytes_eq.1 h3).symm, h⟩
  · rintro ⟨i, hi, hn, hx⟩
    have heq : (fun i => cmpBytes key (l.getD i ([], 0)).1) i = .eq := by
      simp only; rw [hn]; exact cmpBytes_eq.2 rfl
    have := bsearch_complete _ _ (names_sorted_cmp l hl key) (l.length + 1) 0 l.length i
      (by omega) (by omega) (by omega) heq (by omega)
    rw [this]; simpa using hx

/-! non-vacuity: the table of the values {-2147483648, -1, 0, 1, 7, 2147483646, 2147483647} -/
def exR : Ranges := mkRanges [-2147483648, -1, 0, 1, 7, 2147483646, 2147483647]
example : exR.runs = [(-2147483648, 0), (-1, 1), (7, 4), (2147483646, 5)] ∧ exR.total = 7 := by decide
example : rangeLookup exR 2147483647 = some 6 ∧ rangeLookup exR (-2147483648) = some 0 ∧ rangeLookup exR 1 = some 3 ∧
    rangeLookup exR 2 = none ∧ rangeLookup exR 2147483645 = none := by decide
example : nameLookup [([97], 2), ([97, 98], 0), ([98], 1)] [97, 98] = some 0 ∧
    nameLookup [([97], 2), ([97, 98], 0), ([98], 1)] [97, 99] = none := by decide

end Pbc.Props.C14
