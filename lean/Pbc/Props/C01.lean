import Pbc.Lemmas.Elem
import Pbc.Model.Unpack
/-
  C01 (message level), stage A — FRAMING: whatever the serialiser writes is, for the scan pass of the parser, exactly
  the sequence of records it was written as.  A record is a key followed by a payload that is self-delimiting under
  its wire type.  For every list of well-formed records and whatever follows, `scanLoop` cuts the input at exactly
  the record boundaries, resolves each field number, and accumulates one `Scanned` entry per record in order.
-/
namespace Pbc.Props.C01
open Pbc Pbc.Model Pbc.Wire Pbc.Lemmas List

/-- a wire record -/
structure Rec where
  tag : Nat
  wt : Nat
  payload : Bytes
  deriving Repr, Inhabited

def Rec.bytes (r : Rec) : Bytes := keyBytes r.tag r.wt ++ r.payload

/-- the payload is self-delimiting under wire type `wt`: whatever follows it, the scanner cuts exactly at its end
    and reports a length prefix of `pref` bytes -/
def Delim (wt : Nat) (P : Bytes) (pref : Nat) : Prop :=
  ∀ rest, delimit wt (P ++ rest) = some (P.length, pref)

structure RecOK (r : Rec) (pref : Nat) : Prop where
  tag_pos : 0 < r.tag
  tag_lt : r.tag < 2 ^ 29
  wt_lt : r.wt < 8
  delim : Delim r.wt r.payload pref

/-! ### the payload shapes the serialiser produces are self-delimiting -/

theorem delim_varint (n : Nat) (hn : n < 2 ^ 64) : Delim 0 (varint n) 0 := by
  intro rest
  unfold delimit
  simp only [beq_self_eq_true, if_true]
  rw [scalarBytes_scan_varint n rest hn, varint_length]
  rfl

theorem le32_length (v : BitVec 32) : (le32 v).length = 4 := rfl
theorem le64_length (v : BitVec 64) : (le64 v).length = 8 := rfl

theorem delim_fixed32 (v : BitVec 32) : Delim 5 (le32 v) 0 := by
  intro rest
  unfold delimit
  have : ¬ ((le32 v ++ rest).length < 4) := by simp [le32_length]
  simp [this, le32_length]

theorem delim_fixed64 (v : BitVec 64) : Delim 1 (le64 v) 0 := by
  intro rest
  unfold delimit
  have : ¬ ((le64 v ++ rest).length < 8) := by simp [le64_length]
  simp [this, le64_length]

theorem delim_bool (b : BitVec 8) (hb : b = 0 ∨ b = 1) : Delim 0 [b] 0 := by
  rcases hb with rfl | rfl
  · have := delim_varint 0 (by decide); simpa [varint_eq] using this
  · have := delim_varint 1 (by decide); simpa [varint_eq] using this

theorem delim_len (p : Bytes) (hp : p.length < 2 ^ 31) : Delim 2 (lenPrefixed p) (varintLen p.length) := by
  intro rest
  unfold delimit
  simp only [show ((2 : Nat) == 0) = false from rfl, show ((2 : Nat) == 1) = false from rfl, beq_self_eq_true,
    Bool.false_eq_true, if_false, if_true]
  rw [scanLen_lenPrefixed p rest hp]
  simp [lenPrefixed, varint_length]

/-! ### one step of the scan pass on a record -/

/-- the cache of the last field always points into the field table -/
def CacheOK (fields : List FieldDesc) (st : ScanState) : Prop := ∀ li, st.last = some li → li < fields.length

def IdsDistinct (fields : List FieldDesc) : Prop := (fields.map (·.id)).Nodup

theorem findIdx_of_id {fields : List FieldDesc} (hd : IdsDistinct fields) {li : Nat} (hli : li < fields.length)
    {tag : Nat} (hid : fields[li].id = tag) : fields.findIdx? (fun f => f.id == tag) = some li := by
  rw [findIdx?_eq_some_iff_getElem]
  refine ⟨hli, by simp [hid], ?_⟩
  intro j hj
  have hjl : j < fields.length := by omega
  intro hc
  have he : fields[j].id = fields[li].id := by rw [hid]; simpa using hc
  have hd' : (fields.map (·.id)).Nodup := hd
  have := (pairwise_iff_getElem.1 hd') j li (by simpa using hjl) (by simpa using hli) hj
  exact this (by simpa using he)

/-- with pairwise distinct field numbers the last-field cache is invisible: the field found is the one a plain search finds -/
theorem resolveField_eq (fields : List FieldDesc) (st : ScanState) (tag : Nat) (hd : IdsDistinct fields)
    (hc : CacheOK fields st) (ht : tag < 2 ^ 31) :
    (resolveField fields st tag).1 = fields.findIdx? (fun f => f.id == tag) := by
  unfold resolveField
  cases hl : st.last with
  | none =>
    simp only [Bool.false_eq_true, if_false, lookupField, Nat.not_le.2 ht]
    cases fields.findIdx? (fun f => f.id == tag) <;> rfl
  | some li =>
    have hli := hc li hl
    simp only
    by_cases hid : ((fields.getD li default).id == tag) = true
    · simp only [hid, if_true]
      have : fields[li].id = tag := by
        rw [getD_eq_getElem?_getD, getElem?_eq_getElem hli] at hid; simpa using hid
      rw [findIdx_of_id hd hli this]
    · simp only [hid, if_false, lookupField, Nat.not_le.2 ht]
      cases fields.findIdx? (fun f => f.id == tag) <;> rfl

theorem resolveField_cache (fields : List FieldDesc) (st : ScanState) (tag : Nat) (hc : CacheOK fields st) :
    ∀ li, (resolveField fields st tag).2.1 = some li → li < fields.length := by
  unfold resolveField
  cases hl : st.last with
  | none =>
    simp only [Bool.false_eq_true, if_false]
    cases hlk : lookupField fields tag with
    | none => intro li h; simp at h
    | some i =>
      intro li h
      have : i = li := by simpa using h
      subst this
      unfold lookupField at hlk
      split at hlk
      · cases hlk
      · exact (findIdx?_eq_some_iff_getElem.1 hlk).1
  | some l0 =>
    simp only
    split
    · intro li h
      have h' : l0 = li := by simpa using h
      subst h'; exact hc _ hl
    · cases hlk : lookupField fields tag with
      | none =>
        intro li h
        have h' : l0 = li := by simpa using h
        subst h'; exact hc _ hl
      | some i =>
        intro li h
        have : i = li := by simpa using h
        subst this
        unfold lookupField at hlk
        split at hlk
        · cases hlk
        · exact (findIdx?_eq_some_iff_getElem.1 hlk).1

/-- the packed-path element count of a record succeeds (the only way a well-framed record can still be refused) -/
def CountOK (fields : List FieldDesc) (r : Rec) (pref : Nat) : Prop :=
  ∀ i, fields.findIdx? (fun f => f.id == r.tag) = some i →
    (fields.getD i default).label = .repeated → usesPackedPath (fields.getD i default) r.wt = true →
    (countPacked (fields.getD i default).type (r.payload.drop pref)).isSome = true

/-- view of a scanned member that does not depend on the scan state -/
def view (s : Scanned) : Nat × Nat × Nat × Option Nat × Bytes := (s.tag, s.wt, s.prefLen, s.fidx, s.data)

def expected (fields : List FieldDesc) (r : Rec) (pref : Nat) : Nat × Nat × Nat × Option Nat × Bytes :=
  (r.tag, r.wt, pref, fields.findIdx? (fun f => f.id == r.tag), r.payload)

theorem scanStep_rec (fields : List FieldDesc) (hd : IdsDistinct fields) (r : Rec) (pref : Nat) (rest : Bytes)
    (st : ScanState) (hr : RecOK r pref) (hc : CacheOK fields st) (hacc : st.acc.length < maxScanned)
    (hcnt : CountOK fields r pref) :
    ∃ st', scanStep fields (r.bytes ++ rest) st = some (rest, st') ∧ CacheOK fields st' ∧
      st'.acc.map view = expected fields r pref :: st.acc.map view := by
  have hkey := scanKey_keyBytes r.tag r.wt (r.payload ++ rest) hr.tag_pos hr.tag_lt hr.wt_lt
  have hres := resolveField_eq fields st r.tag hd hc (by have := hr.tag_lt; omega)
  have hcache := resolveField_cache fields st r.tag hc
  unfold scanStep
  rw [show r.bytes ++ rest = keyBytes r.tag r.wt ++ (r.payload ++ rest) by simp [Rec.bytes]]
  rw [hkey]
  simp only
  generalize hrf : resolveField fields st r.tag = rf at hres hcache
  obtain ⟨field, last, lastIdx, nu⟩ := rf
  simp only at hres hcache
  simp only [drop_left]
  rw [hr.delim rest]
  simp only [Nat.not_le.2 hacc, if_false, take_left, drop_left]
  cases field with
  | none =>
    refine ⟨_, rfl, ?_, ?_⟩
    · intro li hli; exact hcache li hli
    · simp [view, expected, ← hres]
  | some i =>
    simp only
    by_cases hrep : ((fields.getD i default).label == Label.repeated) = true
    · by_cases hpk : usesPackedPath (fields.getD i default) r.wt = true
      · obtain ⟨c, hcc⟩ := Option.isSome_iff_exists.1 (hcnt i hres.symm (by simpa using hrep) hpk)
        simp only [hrep, hpk, if_true, hcc, Option.map_some]
        refine ⟨_, rfl, ?_, ?_⟩
        · intro li hli; exact hcache li hli
        · simp [view, expected, ← hres]
      · simp only [hrep, hpk, if_true, if_false]
        refine ⟨_, rfl, ?_, ?_⟩
        · intro li hli; exact hcache li hli
        · simp [view, expected, ← hres]
    · simp only [hrep, if_false]
      refine ⟨_, rfl, ?_, ?_⟩
      · intro li hli; exact hcache li hli
      · simp [view, expected, ← hres]

/-! ### the scan pass on a sequence of records -/

theorem scanLoop_recs (fields : List FieldDesc) (hd : IdsDistinct fields) :
    ∀ (rs : List (Rec × Nat)) (fuel : Nat) (tail : Bytes) (st : ScanState),
      (∀ p ∈ rs, RecOK p.1 p.2 ∧ CountOK fields p.1 p.2) → CacheOK fields st →
      st.acc.length + rs.length ≤ maxScanned →
      ∃ st', scanLoop fields (fuel + rs.length) ((rs.map (·.1.bytes)).flatten ++ tail) st = scanLoop fields fuel tail st' ∧
        CacheOK fields st' ∧
        st'.acc.map view = (rs.map (fun p => expected fields p.1 p.2)).reverse ++ st.acc.map view
  | [], fuel, tail, st, _, hc, _ => ⟨st, by simp, hc, by simp⟩
  | (r, pref) :: rs, fuel, tail, st, hall, hc, hlen => by
    have hr := (hall (r, pref) (mem_cons_self ..)).1
    have hcn := (hall (r, pref) (mem_cons_self ..)).2
    obtain ⟨st1, hs1, hc1, hv1⟩ := scanStep_rec fields hd r pref ((rs.map (·.1.bytes)).flatten ++ tail) st hr hc
      (by simp only [length_cons] at hlen; omega) hcn
    have hlen1 : st1.acc.length + rs.length ≤ maxScanned := by
      have : st1.acc.length = st.acc.length + 1 := by
        have := congrArg List.length hv1; simpa using this
      simp only [length_cons] at hlen; omega
    obtain ⟨st', hs', hc', hv'⟩ := scanLoop_recs fields hd rs fuel tail st1
      (fun p hp => hall p (mem_cons_of_mem _ hp)) hc1 hlen1
    refine ⟨st', ?_, hc', ?_⟩
    · have hne : ((r.bytes ++ ((rs.map (·.1.bytes)).flatten ++ tail)).isEmpty) = false := by
        have : r.bytes ≠ [] := by
          unfold Rec.bytes keyBytes; intro h
          exact varint_ne_nil _ (append_eq_nil_iff.1 h).1
        cases hb : r.bytes with
        | nil => exact absurd hb this
        | cons a as => simp
      simp only [map_cons, flatten_cons, length_cons, append_assoc]
      rw [show fuel + (rs.length + 1) = (fuel + rs.length) + 1 by omega]
      simp only [scanLoop, hne, Bool.false_eq_true, if_false, hs1]
      exact hs'
    · rw [hv', hv1]; simp

/-! ### the records of a message -/

/-- prefix length of a length-delimited element: the varint of the inner length -/
def innerLen (S : Schema) (f : FieldDesc) : Val → Nat
  | .msg (some m) => (packMsg S m).length
  | .bin len _ _ => len
  | .str .null _ => 0
  | .str _ s => s.length
  | _ => 0

def elemPref (S : Schema) (f : FieldDesc) (v : Val) : Nat :=
  if f.type.wireType == 2 then varintLen (innerLen S f v) else 0

def elemRec (S : Schema) (f : FieldDesc) (v : Val) : Rec × Nat :=
  (⟨f.id, f.type.wireType, elemBytes S f v⟩, elemPref S f v)

/-- mirrors `packSlot`: the records one slot contributes -/
def recsSlot (S : Schema) (f : FieldDesc) : Slot → List (Rec × Nat)
  | .one q v =>
    match f.label with
    | .required => [elemRec S f v]
    | .repeated => []
    | l =>
      if f.isOneof then
        if q != f.id then []
        else if (f.type == .message || f.type == .string) && ptrAbsent f v then []
        else [elemRec S f v]
      else if l == .optional then
        if f.type == .message || f.type == .string then
          (if ptrAbsent f v then [] else [elemRec S f v])
        else if q == 0 then [] else [elemRec S f v]
      else
        if zeroish f.type v then [] else [elemRec S f v]
  | .rep _ none => []
  | .rep n (some l) =>
    if n == 0 then [] else
    if f.packed then
      let payload := (elemsBytes S f n l).flatten
      [(⟨f.id, 2, varint payload.length ++ payload⟩, varintLen payload.length)]
    else (elemsVals n l).map (elemRec S f)
where
  elemsVals : Nat → List Val → List Val
    | n+1, v :: vs => v :: elemsVals n vs
    | _, _ => []

def recsSlots (S : Schema) : List FieldDesc → List Slot → List (Rec × Nat)
  | f :: fs, s :: ss => recsSlot S f s ++ recsSlots S fs ss
  | _, _ => []

def unkRec (u : Unk) (pref : Nat) : Rec × Nat := (⟨u.tag, u.wt, u.data⟩, pref)

/-- length-prefix size of an unknown field's raw data (what the scanner will report) -/
def unkPref (u : Unk) : Nat := ((delimit u.wt u.data).map (·.2)).getD 0

def recsMsg (S : Schema) : Msg → List (Rec × Nat)
  | .mk ty slots unk => recsSlots S (S.msg ty).fields slots ++ unk.map (fun u => unkRec u (unkPref u))

theorem elemsBytes_eq (S : Schema) (f : FieldDesc) : ∀ (n : Nat) (l : List Val),
    elemsBytes S f n l = (recsSlot.elemsVals n l).map (elemBytes S f)
  | 0, l => by cases l <;> simp [elemsBytes, recsSlot.elemsVals]
  | n+1, [] => by simp [elemsBytes, recsSlot.elemsVals]
  | n+1, v :: vs => by simp [elemsBytes, recsSlot.elemsVals, elemsBytes_eq S f n vs]

theorem bytes_elemRec (S : Schema) (f : FieldDesc) (v : Val) :
    (elemRec S f v).1.bytes = keyBytes f.id f.type.wireType ++ elemBytes S f v := rfl

/-- the serialiser's output for one slot is the concatenation of that slot's records -/
theorem packSlot_recs (S : Schema) (f : FieldDesc) (s : Slot) :
    packSlot S f s = ((recsSlot S f s).map (·.1.bytes)).flatten := by
  cases s with
  | one q v =>
    unfold packSlot recsSlot
    cases hl : f.label <;> simp only [hl]
    · simp [bytes_elemRec]
    · split
      · split
        · simp
        · split <;> simp [bytes_elemRec]
      · simp only [show (Label.optional == Label.optional) = true from rfl, if_true]
        split
        · split <;> simp [bytes_elemRec]
        · split <;> simp [bytes_elemRec]
    · simp
    · split
      · split
        · simp
        · split <;> simp [bytes_elemRec]
      · simp only [show (Label.none == Label.optional) = false from rfl, Bool.false_eq_true, if_false]
        split <;> simp [bytes_elemRec]
  | rep n arr =>
    cases arr with
    | none => simp [packSlot, recsSlot]
    | some l =>
      unfold packSlot recsSlot
      by_cases hn : (n == 0) = true
      · simp [hn]
      · by_cases hp : f.packed = true
        · simp [hn, hp, Rec.bytes]
        · simp only [hn, hp, Bool.false_eq_true, if_false]
          rw [elemsBytes_eq]
          simp only [map_map]
          congr 1

theorem packSlots_recs (S : Schema) : ∀ (fs : List FieldDesc) (ss : List Slot),
    packSlots S fs ss = ((recsSlots S fs ss).map (·.1.bytes)).flatten
  | [], _ => by simp [packSlots, recsSlots]
  | _ :: _, [] => by simp [packSlots, recsSlots]
  | f :: fs, s :: ss => by
    simp [packSlots, recsSlots, packSlot_recs S f s, packSlots_recs S fs ss]

/-- C01 stage A (i): the serialiser's output is the concatenation of the message's records -/
theorem packMsg_recs (S : Schema) (m : Msg) : packMsg S m = ((recsMsg S m).map (·.1.bytes)).flatten := by
  cases m with
  | mk ty slots unk =>
    unfold packMsg recsMsg
    rw [packSlots_recs]
    simp [unkRec, Rec.bytes, Function.comp_def]

/-! ### every record of a framed message is well formed -/

/-- the element has the shape its field type calls for and is small enough to be length-prefixed -/
def ElemFramed (S : Schema) (f : FieldDesc) : Val → Prop
  | .msg (some m) => f.type = .message ∧ (packMsg S m).length < 2 ^ 31
  | .msg none => f.type = .message
  | .bin len _ _ => f.type = .bytes ∧ len < 2 ^ 31
  | .str _ s => f.type = .string ∧ s.length < 2 ^ 31
  | .w32 _ => f.type.wireType ≠ 2
  | .w64 _ => f.type.wireType ≠ 2
  | .zero => True

theorem varint_zero : varint 0 = [0] := by rw [varint_eq]; simp

theorem lenPrefixed_nil : lenPrefixed [] = [0] := by simp [lenPrefixed, varint_zero]

theorem takePad_length (n : Nat) (d : Bytes) : (takePad n d).length = n := by
  simp [takePad]; omega

theorem delim_boolbytes (v : Val) : Delim 0 [if v.asW32 = 0 then (0 : BitVec 8) else 1] 0 := by
  split
  · exact delim_bool 0 (Or.inl rfl)
  · exact delim_bool 1 (Or.inr rfl)

theorem delim_scalar (t : PType) (v : Val) (ht : t.wireType ≠ 2) : Delim t.wireType (scalarBytes t v) 0 := by
  cases t <;> simp only [PType.wireType, scalarBytes] at ht ⊢
  all_goals first
    | exact delim_varint _ (BitVec.isLt _)
    | exact delim_varint _ (Nat.lt_trans (BitVec.isLt _) (by decide))
    | exact delim_fixed32 _
    | exact delim_fixed64 _
    | exact delim_boolbytes v
    | exact absurd rfl ht

theorem elemRec_ok (S : Schema) (f : FieldDesc) (v : Val) (hid : 0 < f.id ∧ f.id < 2 ^ 29) (hv : ElemFramed S f v) :
    RecOK (elemRec S f v).1 (elemRec S f v).2 := by
  have hwt : f.type.wireType < 8 := by cases f.type <;> simp [PType.wireType]
  refine ⟨hid.1, hid.2, hwt, ?_⟩
  show Delim f.type.wireType (elemBytes S f v) (elemPref S f v)
  unfold elemPref
  cases v with
  | msg om =>
    cases om with
    | some m =>
      obtain ⟨ht, hl⟩ := hv
      simp only [ht, PType.wireType, beq_self_eq_true, if_true, elemBytes, innerLen]
      exact delim_len _ hl
    | none =>
      have ht : f.type = .message := hv
      simp only [ht, PType.wireType, beq_self_eq_true, if_true, elemBytes, innerLen]
      have := delim_len [] (by simp)
      simpa [lenPrefixed_nil, varintLen_eq] using this
  | bin len p d =>
    obtain ⟨ht, hl⟩ := hv
    simp only [ht, PType.wireType, beq_self_eq_true, if_true, elemBytes, innerLen]
    have := delim_len (takePad len d) (by rw [takePad_length]; exact hl)
    simpa [lenPrefixed, takePad_length] using this
  | str p s =>
    obtain ⟨ht, hl⟩ := hv
    cases p <;> simp only [ht, PType.wireType, beq_self_eq_true, if_true, elemBytes, innerLen]
    · have := delim_len [] (by simp)
      simpa [lenPrefixed_nil, varintLen_eq] using this
    all_goals exact delim_len _ hl
  | w32 x =>
    have ht : f.type.wireType ≠ 2 := hv
    have h1 : (f.type == .message || f.type == .string) = false := by cases hft : f.type <;> simp_all [PType.wireType]
    have h2 : (f.type == .bytes) = false := by cases hft : f.type <;> simp_all [PType.wireType]
    have h3 : (f.type.wireType == 2) = false := by simpa using ht
    simp only [elemBytes, h1, h2, h3, Bool.false_eq_true, if_false]
    exact delim_scalar _ _ ht
  | w64 x =>
    have ht : f.type.wireType ≠ 2 := hv
    have h1 : (f.type == .message || f.type == .string) = false := by cases hft : f.type <;> simp_all [PType.wireType]
    have h2 : (f.type == .bytes) = false := by cases hft : f.type <;> simp_all [PType.wireType]
    have h3 : (f.type.wireType == 2) = false := by simpa using ht
    simp only [elemBytes, h1, h2, h3, Bool.false_eq_true, if_false]
    exact delim_scalar _ _ ht
  | zero =>
    by_cases ht : f.type.wireType = 2
    · have h12 : (f.type == .message || f.type == .string) = true ∨ (f.type == .bytes) = true := by
        cases hft : f.type <;> simp_all [PType.wireType]
      have hb : elemBytes S f .zero = [0] := by
        simp only [elemBytes]
        rcases h12 with h | h
        · simp [h]
        · by_cases h1 : (f.type == .message || f.type == .string) = true <;> simp [h1, h]
      rw [hb, ht]
      simp only [beq_self_eq_true, if_true, innerLen]
      have := delim_len [] (by simp)
      simpa [lenPrefixed_nil, varintLen_eq] using this
    · have h1 : (f.type == .message || f.type == .string) = false := by cases hft : f.type <;> simp_all [PType.wireType]
      have h2 : (f.type == .bytes) = false := by cases hft : f.type <;> simp_all [PType.wireType]
      have h3 : (f.type.wireType == 2) = false := by simpa using ht
      simp only [elemBytes, h1, h2, h3, Bool.false_eq_true, if_false]
      exact delim_scalar _ _ ht

/-! ### framed messages -/

structure SchemaOK (fields : List FieldDesc) : Prop where
  distinct : IdsDistinct fields
  ids : ∀ f ∈ fields, 0 < f.id ∧ f.id < 2 ^ 29
  packed : ∀ f ∈ fields, f.packed = true → f.type.packable = true

def ElemsFramed (S : Schema) (f : FieldDesc) : Nat → List Val → Prop
  | n+1, v :: vs => ElemFramed S f v ∧ ElemsFramed S f n vs
  | _, _ => True

def SlotFramed (S : Schema) (f : FieldDesc) : Slot → Prop
  | .one _ v => ElemFramed S f v
  | .rep _ none => True
  | .rep n (some l) => ElemsFramed S f n l ∧ (f.packed = true → ((elemsBytes S f n l).flatten).length < 2 ^ 31)

def SlotsFramed (S : Schema) : List FieldDesc → List Slot → Prop
  | f :: fs, s :: ss => SlotFramed S f s ∧ SlotsFramed S fs ss
  | _, _ => True

def UnkFramed (fields : List FieldDesc) (u : Unk) : Prop :=
  0 < u.tag ∧ u.tag < 2 ^ 29 ∧ u.wt < 8 ∧ Delim u.wt u.data (unkPref u) ∧
    fields.findIdx? (fun f => f.id == u.tag) = none

def MsgFramed (S : Schema) : Msg → Prop
  | .mk ty slots unk => SlotsFramed S (S.msg ty).fields slots ∧ ∀ u ∈ unk, UnkFramed (S.msg ty).fields u

theorem found_is (fields : List FieldDesc) (hd : IdsDistinct fields) (f : FieldDesc) (hf : f ∈ fields) (i : Nat)
    (hi : fields.findIdx? (fun g => g.id == f.id) = some i) : fields.getD i default = f := by
  obtain ⟨k, hk, hfk⟩ := getElem_of_mem hf
  have := findIdx_of_id hd hk (tag := f.id) (by rw [hfk])
  rw [this] at hi
  have : k = i := by simpa using hi
  subst this
  rw [getD_eq_getElem?_getD, getElem?_eq_getElem hk]; simpa using hfk

theorem not_packedPath_elem (f : FieldDesc) (hp : f.packed = true → f.type.packable = true) (hnp : f.packed = false) :
    usesPackedPath f f.type.wireType = false := by
  unfold usesPackedPath
  cases hft : f.type <;> simp_all [PType.wireType, PType.packable]

theorem elemRec_count (S : Schema) (fields : List FieldDesc) (hs : SchemaOK fields) (f : FieldDesc) (hf : f ∈ fields)
    (v : Val) (hnp : f.packed = false) : CountOK fields (elemRec S f v).1 (elemRec S f v).2 := by
  intro i hi _ hpk
  have hfi := found_is fields hs.distinct f hf i hi
  rw [hfi] at hpk
  have := not_packedPath_elem f (hs.packed f hf) hnp
  simp [elemRec, this] at hpk

theorem elemRec_count_single (S : Schema) (fields : List FieldDesc) (hs : SchemaOK fields) (f : FieldDesc) (hf : f ∈ fields)
    (v : Val) (hl : f.label ≠ .repeated) : CountOK fields (elemRec S f v).1 (elemRec S f v).2 := by
  intro i hi hrep _
  have hfi := found_is fields hs.distinct f hf i hi
  rw [hfi] at hrep
  exact absurd hrep hl

theorem elemsVals_framed (S : Schema) (f : FieldDesc) : ∀ (n : Nat) (l : List Val), ElemsFramed S f n l →
    ∀ v ∈ recsSlot.elemsVals n l, ElemFramed S f v
  | 0, l, _ => by cases l <;> simp [recsSlot.elemsVals]
  | n+1, [], _ => by simp [recsSlot.elemsVals]
  | n+1, v :: vs, h => by
    intro w hw
    simp only [recsSlot.elemsVals, mem_cons] at hw
    rcases hw with rfl | hw
    · exact h.1
    · exact elemsVals_framed S f n vs h.2 w hw

/-- in a packed payload every element of a fixed-width type is exactly 4 / 8 bytes -/
theorem elemBytes_fixed_len (S : Schema) (f : FieldDesc) (v : Val) (hv : ElemFramed S f v) :
    (f.type = .sfixed32 ∨ f.type = .fixed32 ∨ f.type = .float → (elemBytes S f v).length = 4) ∧
    (f.type = .sfixed64 ∨ f.type = .fixed64 ∨ f.type = .double → (elemBytes S f v).length = 8) := by
  constructor
  · intro ht
    cases v with
    | msg om => cases om <;> (simp only [ElemFramed] at hv; rcases ht with h | h | h <;> simp_all)
    | bin len p d => obtain ⟨h1, _⟩ := hv; rcases ht with h | h | h <;> simp_all
    | str p s => obtain ⟨h1, _⟩ := hv; rcases ht with h | h | h <;> simp_all
    | w32 x => rcases ht with h | h | h <;> simp [elemBytes, h, scalarBytes, le32_length]
    | w64 x => rcases ht with h | h | h <;> simp [elemBytes, h, scalarBytes, le32_length]
    | zero => rcases ht with h | h | h <;> simp [elemBytes, h, scalarBytes, le32_length]
  · intro ht
    cases v with
    | msg om => cases om <;> (simp only [ElemFramed] at hv; rcases ht with h | h | h <;> simp_all)
    | bin len p d => obtain ⟨h1, _⟩ := hv; rcases ht with h | h | h <;> simp_all
    | str p s => obtain ⟨h1, _⟩ := hv; rcases ht with h | h | h <;> simp_all
    | w32 x => rcases ht with h | h | h <;> simp [elemBytes, h, scalarBytes, le64_length]
    | w64 x => rcases ht with h | h | h <;> simp [elemBytes, h, scalarBytes, le64_length]
    | zero => rcases ht with h | h | h <;> simp [elemBytes, h, scalarBytes, le64_length]

theorem flatten_len_mul (k : Nat) : ∀ (l : List Bytes), (∀ e ∈ l, e.length = k) → l.flatten.length = k * l.length
  | [], _ => by simp
  | e :: es, h => by
    simp only [flatten_cons, length_append, length_cons]
    rw [h e (mem_cons_self ..), flatten_len_mul k es (fun x hx => h x (mem_cons_of_mem _ hx))]
    rw [Nat.mul_succ]; omega

theorem packed_len4 (S : Schema) (f : FieldDesc) (n : Nat) (l : List Val) (hl : ElemsFramed S f n l)
    (ht : f.type = .sfixed32 ∨ f.type = .fixed32 ∨ f.type = .float) :
    ((recsSlot.elemsVals n l).map (elemBytes S f)).flatten.length % 4 = 0 := by
  have hall := elemsVals_framed S f n l hl
  have hlen : ∀ e ∈ (recsSlot.elemsVals n l).map (elemBytes S f), e.length = 4 := by
    intro e he
    obtain ⟨v, hv, rfl⟩ := mem_map.1 he
    exact (elemBytes_fixed_len S f v (hall v hv)).1 ht
  rw [flatten_len_mul 4 _ hlen]; simp

theorem packed_len8 (S : Schema) (f : FieldDesc) (n : Nat) (l : List Val) (hl : ElemsFramed S f n l)
    (ht : f.type = .sfixed64 ∨ f.type = .fixed64 ∨ f.type = .double) :
    ((recsSlot.elemsVals n l).map (elemBytes S f)).flatten.length % 8 = 0 := by
  have hall := elemsVals_framed S f n l hl
  have hlen : ∀ e ∈ (recsSlot.elemsVals n l).map (elemBytes S f), e.length = 8 := by
    intro e he
    obtain ⟨v, hv, rfl⟩ := mem_map.1 he
    exact (elemBytes_fixed_len S f v (hall v hv)).2 ht
  rw [flatten_len_mul 8 _ hlen]; simp

theorem countPacked_some (S : Schema) (f : FieldDesc) (hp : f.type.packable = true) (n : Nat) (l : List Val)
    (hl : ElemsFramed S f n l) : (countPacked f.type ((elemsBytes S f n l).flatten)).isSome = true := by
  rw [elemsBytes_eq]
  unfold countPacked
  cases hft : f.type <;> simp only [hft, PType.packable] at hp ⊢ <;> try (first | rfl | cases hp)
  case sfixed32 => have h := packed_len4 S f n l hl (Or.inl hft); simp only [h, ne_eq, not_true_eq_false, if_false, Option.isSome_some]
  case fixed32 => have h := packed_len4 S f n l hl (Or.inr (Or.inl hft)); simp only [h, ne_eq, not_true_eq_false, if_false, Option.isSome_some]
  case float => have h := packed_len4 S f n l hl (Or.inr (Or.inr hft)); simp only [h, ne_eq, not_true_eq_false, if_false, Option.isSome_some]
  case sfixed64 => have h := packed_len8 S f n l hl (Or.inl hft); simp only [h, ne_eq, not_true_eq_false, if_false, Option.isSome_some]
  case fixed64 => have h := packed_len8 S f n l hl (Or.inr (Or.inl hft)); simp only [h, ne_eq, not_true_eq_false, if_false, Option.isSome_some]
  case double => have h := packed_len8 S f n l hl (Or.inr (Or.inr hft)); simp only [h, ne_eq, not_true_eq_false, if_false, Option.isSome_some]

theorem recsSlot_ok (S : Schema) (fields : List FieldDesc) (hs : SchemaOK fields) (f : FieldDesc) (hf : f ∈ fields)
    (s : Slot) (hsl : SlotFramed S f s) :
    ∀ p ∈ recsSlot S f s, RecOK p.1 p.2 ∧ CountOK fields p.1 p.2 := by
  have hid := hs.ids f hf
  cases s with
  | one q v =>
    have hv : ElemFramed S f v := hsl
    have hone : ∀ p ∈ [elemRec S f v], f.label ≠ .repeated → RecOK p.1 p.2 ∧ CountOK fields p.1 p.2 := by
      intro p hp hl
      have : p = elemRec S f v := by simpa using hp
      subst this
      exact ⟨elemRec_ok S f v hid hv, elemRec_count_single S fields hs f hf v hl⟩
    unfold recsSlot
    cases hl : f.label <;> simp only
    · intro p hp; exact hone p hp (by simp [hl])
    · split
      · split
        · intro p hp; simp at hp
        · split
          · intro p hp; simp at hp
          · intro p hp; exact hone p hp (by simp [hl])
      · simp only [show (Label.optional == Label.optional) = true from rfl, if_true]
        split
        · split
          · intro p hp; simp at hp
          · intro p hp; exact hone p hp (by simp [hl])
        · split
          · intro p hp; simp at hp
          · intro p hp; exact hone p hp (by simp [hl])
    · intro p hp; simp at hp
    · split
      · split
        · intro p hp; simp at hp
        · split
          · intro p hp; simp at hp
          · intro p hp; exact hone p hp (by simp [hl])
      · simp only [show (Label.none == Label.optional) = false from rfl, Bool.false_eq_true, if_false]
        split
        · intro p hp; simp at hp
        · intro p hp; exact hone p hp (by simp [hl])
  | rep n arr =>
    cases arr with
    | none => intro p hp; simp [recsSlot] at hp
    | some l =>
      obtain ⟨hel, hpk⟩ := hsl
      unfold recsSlot
      by_cases hn : (n == 0) = true
      · intro p hp; simp [hn] at hp
      · by_cases hp : f.packed = true
        · simp only [hn, hp, Bool.false_eq_true, if_false, if_true]
          intro p hpm
          have : p = (⟨f.id, 2, varint ((elemsBytes S f n l).flatten).length ++ (elemsBytes S f n l).flatten⟩,
              varintLen ((elemsBytes S f n l).flatten).length) := by simpa using hpm
          subst this
          refine ⟨⟨hid.1, hid.2, (by show (2 : Nat) < 8; omega), ?_⟩, ?_⟩
          · exact delim_len _ (hpk hp)
          · intro i hi _ _
            have hfi := found_is fields hs.distinct f hf i hi
            rw [hfi]
            simp only
            rw [show drop (varintLen ((elemsBytes S f n l).flatten).length)
                (varint ((elemsBytes S f n l).flatten).length ++ (elemsBytes S f n l).flatten) = (elemsBytes S f n l).flatten by
              rw [← varint_length]; exact drop_left]
            exact countPacked_some S f (hs.packed f hf hp) n l hel
        · have hnp : f.packed = false := by simpa using hp
          simp only [hn, hp, Bool.false_eq_true, if_false]
          intro p hpm
          obtain ⟨v, hv, rfl⟩ := mem_map.1 hpm
          exact ⟨elemRec_ok S f v hid (elemsVals_framed S f n l hel v hv), elemRec_count S fields hs f hf v hnp⟩

theorem recsSlots_ok (S : Schema) (fields : List FieldDesc) (hs : SchemaOK fields) :
    ∀ (fs : List FieldDesc) (ss : List Slot), (∀ f ∈ fs, f ∈ fields) → SlotsFramed S fs ss →
      ∀ p ∈ recsSlots S fs ss, RecOK p.1 p.2 ∧ CountOK fields p.1 p.2
  | [], _, _, _ => by intro p hp; simp [recsSlots] at hp
  | _ :: _, [], _, _ => by intro p hp; simp [recsSlots] at hp
  | f :: fs, s :: ss, hsub, hfr => by
    intro p hp
    simp only [recsSlots, mem_append] at hp
    rcases hp with hp | hp
    · exact recsSlot_ok S fields hs f (hsub f (mem_cons_self ..)) s hfr.1 p hp
    · exact recsSlots_ok S fields hs fs ss (fun g hg => hsub g (mem_cons_of_mem _ hg)) hfr.2 p hp

theorem recsMsg_ok (S : Schema) (m : Msg) (hs : SchemaOK (S.msg m.ty).fields) (hm : MsgFramed S m) :
    ∀ p ∈ recsMsg S m, RecOK p.1 p.2 ∧ CountOK (S.msg m.ty).fields p.1 p.2 := by
  cases m with
  | mk ty slots unk =>
    obtain ⟨hsl, hu⟩ := hm
    intro p hp
    simp only [recsMsg, mem_append, mem_map] at hp
    rcases hp with hp | ⟨u, hum, rfl⟩
    · exact recsSlots_ok S _ hs _ _ (fun f hf => hf) hsl p hp
    · obtain ⟨h1, h2, h3, h4, h5⟩ := hu u hum
      refine ⟨⟨h1, h2, h3, h4⟩, ?_⟩
      intro i hi
      simp only [unkRec, Msg.ty] at hi
      rw [h5] at hi; cases hi

/-- the state `protobuf_c_message_unpack` starts its scan pass in -/
def scan0 (fields : List FieldDesc) : ScanState := ⟨if fields.isEmpty then none else some 0, 0, [], [], [], 0⟩

theorem scanLoop_nil (fields : List FieldDesc) (fuel : Nat) (st : ScanState) : scanLoop fields fuel [] st = some st := by
  cases fuel <;> simp [scanLoop]

theorem rec_bytes_pos (r : Rec) : 0 < r.bytes.length := by
  unfold Rec.bytes keyBytes
  have := varintLen_pos (r.tag * 8 + r.wt % 8)
  simp only [length_append, varint_length]; omega

theorem recs_le_bytes : ∀ (rs : List (Rec × Nat)), rs.length ≤ ((rs.map (·.1.bytes)).flatten).length
  | [] => by simp
  | p :: rs => by
    have := recs_le_bytes rs
    have := rec_bytes_pos p.1
    simp only [map_cons, flatten_cons, length_append, length_cons]; omega

/-- **C01 stage A (framing).**  For every schema with pairwise distinct field numbers in 1 .. 2^29-1 and every framed
    message of it (elements shaped as their field types say, length-delimited parts shorter than 2^31, unknown fields
    self-delimiting), the scan pass of the parser run on the serialiser's output — with exactly the fuel
    `protobuf_c_message_unpack` gives it — succeeds and yields, in order, one scanned member per record the serialiser
    wrote: same field number, wire type, length-prefix size, resolved field and payload bytes. -/
theorem pack_scans (S : Schema) (m : Msg) (hs : SchemaOK (S.msg m.ty).fields) (hm : MsgFramed S m)
    (hn : (recsMsg S m).length ≤ maxScanned) :
    ∃ st, scanLoop (S.msg m.ty).fields (packMsg S m).length (packMsg S m) (scan0 (S.msg m.ty).fields) = some st ∧
      st.acc.reverse.map view = (recsMsg S m).map (fun p => expected (S.msg m.ty).fields p.1 p.2) := by
  have hok := recsMsg_ok S m hs hm
  have hc0 : CacheOK (S.msg m.ty).fields (scan0 (S.msg m.ty).fields) := by
    intro li hli
    unfold scan0 at hli
    simp only at hli
    split at hli
    · cases hli
    · rename_i hne
      have : li = 0 := by simpa using hli.symm
      subst this
      cases hfl : (S.msg m.ty).fields with
      | nil => simp [hfl] at hne
      | cons a as => simp
  rw [packMsg_recs]
  have hle := recs_le_bytes (recsMsg S m)
  obtain ⟨st', hs', _, hv'⟩ := scanLoop_recs (S.msg m.ty).fields hs.distinct (recsMsg S m)
    (((recsMsg S m).map (·.1.bytes)).flatten.length - (recsMsg S m).length) [] (scan0 (S.msg m.ty).fields) hok hc0
    (by simp [scan0]; exact hn)
  refine ⟨st', ?_, ?_⟩
  · rw [scanLoop_nil] at hs'
    rw [← hs']
    congr 1
    · omega
    · simp
  · rw [map_reverse, hv']; simp [scan0]

/-! non-vacuity: proto2 message {optional int32 a = 1; optional string s = 2; repeated bool r = 3 [packed]; repeated fixed32 x = 2047;
    oneof {sint32 o = 4}} with a = 7, s = "x", r = [true, false], x = [1, 2], o selected -/
def exS : Schema := [{ name := "M", initGeneric := false, nGroups := 1, fields := [
  { name := "a", id := 1, label := .optional, type := .int32, packed := false, group := none, sub := 0, dflt := .none, init := none },
  { name := "s", id := 2, label := .optional, type := .string, packed := false, group := none, sub := 0, dflt := .none, init := none },
  { name := "r", id := 3, label := .repeated, type := .bool, packed := true, group := none, sub := 0, dflt := .none, init := none },
  { name := "o", id := 4, label := .optional, type := .sint32, packed := false, group := some 0, sub := 0, dflt := .none, init := none },
  { name := "x", id := 2047, label := .repeated, type := .fixed32, packed := false, group := none, sub := 0, dflt := .none, init := none }] }]
def exM : Msg := .mk 0 [.one 1 (.w32 7), .one 0 (.str .own [120]), .rep 2 (some [.w32 1, .w32 0]), .one 4 (.w32 5),
  .rep 2 (some [.w32 1, .w32 2])] []

theorem exS_ok : SchemaOK (exS.msg 0).fields :=
  ⟨by unfold IdsDistinct; decide, by decide, by decide⟩

theorem exM_framed : MsgFramed exS exM := by
  simp only [MsgFramed, exM, exS, Schema.msg, getD_cons_zero, SlotsFramed, SlotFramed, ElemsFramed, ElemFramed,
    PType.wireType]
  refine ⟨⟨by decide, ⟨trivial, by decide⟩, ⟨⟨by decide, by decide, trivial⟩, fun _ => by decide⟩, by decide,
    ⟨⟨by decide, by decide, trivial⟩, fun h => by cases h⟩, trivial⟩, by simp⟩

example : ∃ st, scanLoop (exS.msg 0).fields (packMsg exS exM).length (packMsg exS exM) (scan0 (exS.msg 0).fields) = some st ∧
    st.acc.reverse.map view = (recsMsg exS exM).map (fun p => expected (exS.msg 0).fields p.1 p.2) :=
  pack_scans exS exM exS_ok exM_framed (by decide)

example : (recsMsg exS exM).map (fun p => (p.1.tag, p.1.wt, p.1.payload.map (·.toNat))) =
    [(1, 0, [7]), (2, 2, [1, 120]), (3, 2, [2, 1, 0]), (4, 0, [10]), (2047, 5, [1, 0, 0, 0]), (2047, 5, [2, 0, 0, 0])] := by decide

end Pbc.Props.C01
