import Pbc.Model.Unpack
import Pbc.Model.Gen
/-
  C12 — fresh messages hold the declared defaults; presence decides what is written.
  Statements over the runtime model (Pbc.Model.Unpack `initMsg`, Pbc.Model.Pack `packSlot`) and the generator model
  (Pbc.Gen `genField`).  The two tie points checked on every run: the generated `<MSG>__INIT` objects, the generated
  `__init` functions and `unpack(∅)` are dumped member by member and compared with `initMsg` of the Lean driver
  (bit-exact for float/double: the dump prints raw bits), and the emitted default objects are compared with the
  defaults declared in the .proto (harness op `desc` vs `gendesc`).
-/
namespace Pbc.Props.C12
open Pbc Pbc.Model Pbc.Gen List

/-- the slot a fresh message holds for field `f` (generated init / static INIT, or the generic fallback) -/
def initSlot (generic : Bool) (f : FieldDesc) : Slot := if generic then initSlotGeneric f else initSlotGen f

theorem initMsg_slots (S : Schema) (t : Nat) :
    (initMsg S t).slots = (S.msg t).fields.map (initSlot (S.msg t).initGeneric) := by
  unfold initMsg initSlot
  cases h : (S.msg t).initGeneric <;> simp [Msg.slots, h]

theorem initMsg_no_unknown (S : Schema) (t : Nat) : (initMsg S t).unk = [] := rfl

/-- every repeated field is empty (count 0, no array) -/
theorem init_repeated_empty (g : Bool) (f : FieldDesc) (h : f.label = .repeated) : initSlot g f = .rep 0 none := by
  cases g <;> simp [initSlot, initSlotGeneric, initSlotGen, h]

/-- every oneof is unset: case 0 and zeroed storage -/
theorem init_oneof_unset (g : Bool) (f : FieldDesc) (h : f.label ≠ .repeated) (ho : f.isOneof = true) :
    initSlot g f = .one 0 .zero := by
  cases g <;> simp [initSlot, initSlotGeneric, initSlotGen, h, ho]

/-- every singular field is marked absent (quantifier 0) and holds the DECLARED default: the exact 32/64 bits of a
    numeric default, the exact bytes of a string default (through the static default object), the exact bytes and length
    of a bytes default; zero / NULL / empty where none is declared -/
theorem init_singular_default (f : FieldDesc) (h : f.label ≠ .repeated) (ho : f.isOneof = false) :
    initSlot true f = .one 0 (dfltVal f) ∧
    (f.init = none → initSlot false f = .one 0 (dfltVal f)) := by
  constructor
  · simp [initSlot, initSlotGeneric, h, ho]
  · intro hi; simp [initSlot, initSlotGen, h, ho, hi]

theorem dfltVal_scalar32 (f : FieldDesc) (b : BitVec 64) (h : f.dflt = .scalar b) (h32 : f.type.is32 = true) :
    dfltVal f = .w32 (BitVec.setWidth 32 b) := by simp [dfltVal, h, h32]
theorem dfltVal_scalar64 (f : FieldDesc) (b : BitVec 64) (h : f.dflt = .scalar b) (h32 : f.type.is32 = false) :
    dfltVal f = .w64 b := by simp [dfltVal, h, h32]
theorem dfltVal_str (f : FieldDesc) (s : Bytes) (h : f.dflt = .str s) : dfltVal f = .str .dflt s := by simp [dfltVal, h]
theorem dfltVal_bin (f : FieldDesc) (b : Bytes) (h : f.dflt = .bin b) : dfltVal f = .bin b.length .dflt b := by simp [dfltVal, h]

/-- the generator hands the declared default through unchanged (and gives proto3 strings the shared empty string) -/
theorem genField_default (o : POpts) (f : PField) :
    (genField o f).d.dflt = (match f.dflt with
      | .none => if o.syntax3 && f.type == .string && !f.stringAsBytes then Dflt.emptyStr else Dflt.none
      | d => d) := by
  unfold genField genDflt; rfl

/-! ### what is written -/

theorem keyBytes_ne_nil (id wt : Nat) : keyBytes id wt ≠ [] := Pbc.Wire.varint_ne_nil _

/-- an absent optional field (proto2, with a has_ flag) is not serialised, whatever value it holds -/
theorem absent_optional_not_written (S : Schema) (f : FieldDesc) (v : Val)
    (hl : f.label = .optional) (ho : f.isOneof = false) (ht : f.type ≠ .message ∧ f.type ≠ .string) :
    packSlot S f (.one 0 v) = [] := by
  simp [packSlot, hl, ho, ht.1, ht.2]

/-- an optional string / message field is absent exactly when its pointer is NULL or the static default -/
theorem absent_pointer_not_written (S : Schema) (f : FieldDesc) (q : Nat) (v : Val)
    (hl : f.label = .optional) (ho : f.isOneof = false) (ht : f.type = .message ∨ f.type = .string)
    (ha : ptrAbsent f v = true) : packSlot S f (.one q v) = [] := by
  rcases ht with ht | ht <;> simp [packSlot, hl, ho, ht, ha]

/-- a proto2 field explicitly marked present IS serialised — even when it equals the default -/
theorem present_optional_written (S : Schema) (f : FieldDesc) (q : Nat) (v : Val)
    (hl : f.label = .optional) (ho : f.isOneof = false) (ht : f.type ≠ .message ∧ f.type ≠ .string) (hq : q ≠ 0) :
    packSlot S f (.one q v) = keyBytes f.id f.type.wireType ++ elemBytes S f v ∧ packSlot S f (.one q v) ≠ [] := by
  have : packSlot S f (.one q v) = keyBytes f.id f.type.wireType ++ elemBytes S f v := by
    simp [packSlot, hl, ho, ht.1, ht.2, hq]
  exact ⟨this, by rw [this]; simp [keyBytes_ne_nil]⟩

/-- a proto3 implicit-presence field is omitted EXACTLY when it holds the zero value -/
theorem implicit_omitted_iff_zero (S : Schema) (f : FieldDesc) (q : Nat) (v : Val)
    (hl : f.label = .none) (ho : f.isOneof = false) :
    packSlot S f (.one q v) = [] ↔ zeroish f.type v = true := by
  by_cases hz : zeroish f.type v = true
  · simp [packSlot, hl, ho, hz]
  · simp [packSlot, hl, ho, hz, keyBytes_ne_nil]

/-- an unselected oneof member is not serialised -/
theorem unselected_oneof_not_written (S : Schema) (f : FieldDesc) (q : Nat) (v : Val)
    (hl : f.label = .optional ∨ f.label = .none) (ho : f.isOneof = true) (hq : q ≠ f.id) :
    packSlot S f (.one q v) = [] := by
  rcases hl with hl | hl <;> simp [packSlot, hl, ho, hq]

/-- an empty repeated field is not serialised -/
theorem empty_repeated_not_written (S : Schema) (f : FieldDesc) (arr : Option (List Val)) :
    packSlot S f (.rep 0 arr) = [] := by
  cases arr <;> simp [packSlot]

/-- a fresh message serialises to nothing but its required fields: every other slot contributes no byte -/
theorem init_slot_not_written (S : Schema) (g : Bool) (f : FieldDesc) (hr : f.label ≠ .required) (hid : 0 < f.id)
    (hz : f.label = .none → f.isOneof = false → zeroish f.type (dfltVal f) = true ∧ f.init = none) :
    packSlot S f (initSlot g f) = [] := by
  by_cases hrep : f.label = .repeated
  · rw [init_repeated_empty g f hrep]; simp [packSlot]
  by_cases ho : f.isOneof = true
  · rw [init_oneof_unset g f hrep ho]
    have hq : (0 : Nat) ≠ f.id := by omega
    cases hlab : f.label with
    | required => exact absurd hlab hr
    | repeated => exact absurd hlab hrep
    | optional => simp [packSlot, hlab, ho, hq]
    | none => simp [packSlot, hlab, ho, hq]
  · have ho' : f.isOneof = false := by simpa using ho
    cases hlab : f.label with
    | required => exact absurd hlab hr
    | repeated => exact absurd hlab hrep
    | optional =>
      have hs : ∃ v, initSlot g f = .one 0 v ∧ (f.type = .message ∨ f.type = .string → ptrAbsent f v = true) := by
        cases g
        · cases hi : f.init with
          | none =>
            refine ⟨dfltVal f, by simp [initSlot, initSlotGen, hrep, ho', hi], ?_⟩
            intro ht; rcases ht with ht | ht <;> cases hd : f.dflt <;> simp [dfltVal, hd, ht, zeroVal, ptrAbsent, PType.is32]
          | some b =>
            refine ⟨if f.type.is32 then .w32 (BitVec.setWidth 32 b) else .w64 b, by simp [initSlot, initSlotGen, hrep, ho', hi], ?_⟩
            intro ht; rcases ht with ht | ht <;> simp [ht, PType.is32, ptrAbsent]
        · refine ⟨dfltVal f, by simp [initSlot, initSlotGeneric, hrep, ho'], ?_⟩
          intro ht; rcases ht with ht | ht <;> cases hd : f.dflt <;> simp [dfltVal, hd, ht, zeroVal, ptrAbsent, PType.is32]
      obtain ⟨v, hv, hp⟩ := hs
      rw [hv]
      by_cases ht : f.type = .message ∨ f.type = .string
      · exact absent_pointer_not_written S f 0 v hlab ho' ht (hp ht)
      · exact absent_optional_not_written S f v hlab ho' (by simpa [not_or] using ht)
    | none =>
      obtain ⟨hz1, hz2⟩ := hz hlab ho'
      have : initSlot g f = .one 0 (dfltVal f) := by
        cases g
        · simp [initSlot, initSlotGen, hrep, ho', hz2]
        · simp [initSlot, initSlotGeneric, hrep, ho']
      rw [this, implicit_omitted_iff_zero S f 0 _ hlab ho']; exact hz1

/-- parsing empty input yields exactly the initialised message (when nothing is required) — and fails otherwise -/
theorem unpack_empty (S : Schema) (t : Nat)
    (hreq : ∀ f ∈ (S.msg t).fields, ¬ (f.label = .required ∧ f.dflt = .none)) :
    unpack S t [] = some (initMsg S t) := by
  unfold unpack unpackMsg
  simp only [List.length_nil, scanLoop, List.isEmpty_nil, if_true]
  have : ((List.range (S.msg t).fields.length).any (fun i =>
      let f := (S.msg t).fields.getD i default
      f.label == .required && f.dflt == .none && !([] : List Nat).contains i)) = false := by
    rw [List.any_eq_false]
    intro i hi
    have hi' : i < (S.msg t).fields.length := by simpa using hi
    have hm : (S.msg t).fields.getD i default ∈ (S.msg t).fields := by
      rw [List.getD_eq_getElem?_getD, List.getElem?_eq_getElem hi']; exact List.getElem_mem hi'
    have := hreq _ hm
    simp only [List.contains_nil, Bool.not_false, Bool.and_true]
    intro hc
    simp only [Bool.and_eq_true, beq_iff_eq] at hc
    exact this hc
  simp only [this]
  simp [parseAll]

/-! non-vacuity: a proto2 message {optional int32 a = 1 [default = 7]; optional string s = 2 [default = "x"];
    repeated bool r = 3; oneof {sint32 o = 4}} -/
def exS : Schema := [{ name := "M", initGeneric := false, nGroups := 1, fields := [
  { name := "a", id := 1, label := .optional, type := .int32, packed := false, group := none, sub := 0, dflt := .scalar 7, init := none },
  { name := "s", id := 2, label := .optional, type := .string, packed := false, group := none, sub := 0, dflt := .str [120], init := none },
  { name := "r", id := 3, label := .repeated, type := .bool, packed := false, group := none, sub := 0, dflt := .none, init := none },
  { name := "o", id := 4, label := .optional, type := .sint32, packed := false, group := some 0, sub := 0, dflt := .none, init := none }] }]
example : (initMsg exS 0).slots = [.one 0 (.w32 7), .one 0 (.str .dflt [120]), .rep 0 none, .one 0 .zero] := by rfl
example : packMsg exS (initMsg exS 0) = [] := by decide
example : packMsg exS (.mk 0 [.one 1 (.w32 7), .one 0 (.str .dflt [120]), .rep 0 none, .one 0 .zero] []) = [8, 7] := by decide
example : unpack exS 0 [] = some (initMsg exS 0) := unpack_empty exS 0 (by decide)

end Pbc.Props.C12
