import Pbc.Model.Gen
import Pbc.Extract.GenFacts
/-
  C15 — the part of "the generator handles every valid schema and its output always compiles" that is LOGIC and can be
  stated over all inputs: member names never collide with a keyword of the generator's table, the mangled identifiers
  consist of identifier characters only, and which helpers a message gets under every combination of the file / message
  options.  That the emitted text is accepted by gcc and g++, that the plugin terminates normally and deterministically,
  are OBSERVED per run on generated schemas (tools/check.py, C15 correspondence) — no theorem is claimed for them.
-/
namespace Pbc.Props.C15
open Pbc Pbc.Gen List

/-! ### keyword avoidance (c_helpers.cc FieldName, table regenerated from the source on every run) -/

/-- no keyword of the table ends in an underscore (checked over the whole extracted table) -/
theorem keywords_no_trailing_underscore :
    ∀ k ∈ Pbc.Extract.GenFacts.keywordsC, k.getLast? ≠ some '_' := by decide

/-- for EVERY field name, the struct member name is not a keyword of the table -/
theorem fieldName_not_keyword (n : List Char) :
    fieldName Pbc.Extract.GenFacts.keywordsC n ∉ Pbc.Extract.GenFacts.keywordsC := by
  unfold fieldName
  simp only
  split
  · intro h
    have := keywords_no_trailing_underscore _ h
    simp at this
  · rename_i h
    simpa using h

/-- the member name is the lower-cased field name, possibly with one underscore appended — nothing else changes -/
theorem fieldName_shape (kw : List (List Char)) (n : List Char) :
    fieldName kw n = n.map toLowerC ∨ fieldName kw n = n.map toLowerC ++ ['_'] := by
  unfold fieldName; simp only; split <;> simp

/-! ### mangled names are identifiers -/

def isIdentChar (c : Char) : Bool := isUpperC c || isLowerC c || ('0' ≤ c && c ≤ '9') || c == '_'

theorem lower_table : ∀ k, k < 26 →
    isLowerC (Char.ofNat (65 + k + 32)) = true ∧ isUpperC (Char.ofNat (65 + k + 32)) = false := by decide

theorem toLowerC_ident (c : Char) (h : isIdentChar c = true) : isIdentChar (toLowerC c) = true ∧ isUpperC (toLowerC c) = false := by
  unfold toLowerC
  split
  · rename_i hu
    have h1 : 'A' ≤ c ∧ c ≤ 'Z' := by simpa [isUpperC] using hu
    have hv : 65 ≤ c.toNat ∧ c.toNat ≤ 90 := by
      obtain ⟨a, b⟩ := h1
      rw [Char.le_def, UInt32.le_iff_toNat_le] at a b
      exact ⟨a, b⟩
    have := lower_table (c.toNat - 65) (by omega)
    have he : 65 + (c.toNat - 65) + 32 = c.toNat + 32 := by omega
    rw [he] at this
    exact ⟨by simp [isIdentChar, this.1], this.2⟩
  · rename_i hu
    exact ⟨h, by simpa using hu⟩

/-- `CamelToLower` of an identifier is an identifier without capitals -/
theorem camelToLowerAux_ident : ∀ (w : Bool) (s : List Char), (∀ c ∈ s, isIdentChar c = true) →
    ∀ c ∈ camelToLowerAux w s, isIdentChar c = true ∧ isUpperC c = false
  | _, [], _, c, hc => by simp [camelToLowerAux] at hc
  | w, a :: as, h, c, hc => by
    have ha := h a (mem_cons_self ..)
    have has : ∀ c ∈ as, isIdentChar c = true := fun c hc => h c (mem_cons_of_mem _ hc)
    unfold camelToLowerAux at hc
    split at hc
    · rename_i hu
      rw [mem_append] at hc
      rcases hc with hc | hc
      · have hl := toLowerC_ident a ha
        split at hc
        · simp at hc; subst hc; exact hl
        · simp at hc
          rcases hc with rfl | rfl
          · decide
          · exact hl
      · exact camelToLowerAux_ident true as has c hc
    · rename_i hu
      rcases mem_cons.1 hc with rfl | hc
      · exact ⟨ha, by simpa using hu⟩
      · exact camelToLowerAux_ident false as has c hc

/-! ### which helpers a message gets -/

/-- the message's own setting of gen_init_helpers wins over everything it inherits -/
theorem effInit_own (file : Option Bool) (outer : List (Option Bool)) (b : Bool) :
    effInit file (outer ++ [some b]) = b := by
  simp [effInit, foldl_append]

/-- a message that does not set the option inherits from its enclosing scope -/
theorem effInit_inherit (file : Option Bool) (outer : List (Option Bool)) :
    effInit file (outer ++ [none]) = effInit file outer := by
  simp [effInit, foldl_append]

/-- with no option anywhere every message, at any nesting depth, gets its init function -/
theorem effInit_default (n : Nat) : effInit none (replicate n none) = true := by
  induction n with
  | zero => rfl
  | succ n ih =>
    have : replicate (n + 1) (none : Option Bool) = replicate n none ++ [none] := by
      rw [replicate_succ']
    rw [this, effInit_inherit, ih]

/-- by default (no option anywhere) a TOP-LEVEL message gets get_packed_size / pack / pack_to_buffer / unpack /
    free_unpacked ... -/
theorem effPack_default_top : effPack none [none] = true := rfl

/-- ... and a nested one does not -/
theorem effPack_default_nested (n : Nat) : effPack none (replicate (n + 2) none) = false := by
  have h : ∀ k, effPackAux true false (replicate (k + 1) none) = false := by
    intro k
    induction k with
    | zero => rfl
    | succ k ih => simpa [replicate_succ, effPackAux] using ih
  simp only [effPack, Option.isSome_none, Option.getD_none, replicate_succ, effPackAux]
  simpa [replicate_succ] using h n

/-- when the FILE asks for pack helpers, nested messages get them too, at every depth -/
theorem effPack_file_true (n : Nat) : effPack (some true) (replicate (n + 1) none) = true := by
  have h : ∀ k, effPackAux true true (replicate (k + 1) none) = true := by
    intro k
    induction k with
    | zero => rfl
    | succ k ih => simpa [replicate_succ, effPackAux] using ih
  simpa [effPack] using h n

/-- a message's own gen_pack_helpers always decides for that message itself -/
theorem effPack_own (deep gp b : Bool) : effPackAux deep gp [some b] = b := rfl

example : effPack none [some true, none] = true ∧ effPack none [some true, none, none] = true ∧
    effPack (some false) [none, none] = false ∧ effPack (some false) [none, some true] = true := by decide

end Pbc.Props.C15
