import Pbc.Props.C13
import Pbc.Extract.GenFacts
/-
  C20 — generated service stubs dispatch to the right handler, for EVERY service (any number of methods, any names).

  Model (Pbc.Model.Gen): the generated struct has one handler slot per method in DECLARATION order, laid out directly
  after the base; `<svc>__INIT(prefix)` fills slot k with prefix##method_k; the stub emitted for the k-th declared method
  calls `service->invoke(service, k, input, closure, closure_data)`; `protobuf_c_service_invoke_internal` asserts the
  index is in range and calls slot `index` with the three arguments unchanged.  `tools/check.py` ties this to the real
  generator + runtime by running generated stubs on services whose handlers record which one ran (harness op `svc`)
  and comparing with `Drv.Main` `gensvc`; `stub_index_is_loop_counter` pins the generator source to the model.
-/
namespace Pbc.Props.C20
open Pbc Pbc.Gen Pbc.Model List

/-- the stub of the k-th declared method runs exactly handler slot k of the service's table and passes the caller's
    input, closure and closure data through unchanged -/
theorem stub_dispatch (s : PSvc) (k input closure cd : Nat) (hk : k < s.methods.length) :
    stub (serviceInit s) k input closure cd = some ⟨k, input, closure, cd⟩ := by
  simp [stub, invokeInternal, serviceInit, hk]

/-- for an arbitrary handler table (handlers installed by the user after `generated_init`): slot k and nothing else -/
theorem stub_runs_slot (n : Nat) (hs : List (Option Nat)) (k input closure cd h : Nat) (hk : k < n)
    (hh : hs[k]? = some (some h)) :
    stub ⟨n, hs, false⟩ k input closure cd = some ⟨h, input, closure, cd⟩ := by
  simp [stub, invokeInternal, hk, getD_eq_getElem?_getD, hh]

/-- two different methods never reach the same slot -/
theorem stub_injective (s : PSvc) (j k i c d : Nat) (hj : j < s.methods.length) (hk : k < s.methods.length)
    (h : stub (serviceInit s) j i c d = stub (serviceInit s) k i c d) : j = k := by
  rw [stub_dispatch s j i c d hj, stub_dispatch s k i c d hk] at h
  simpa using h

/-- an index outside the method table is refused (the assert), never dispatched -/
theorem stub_out_of_range (sv : Service) (k i c d : Nat) (hk : sv.nMethods ≤ k) : stub sv k i c d = none := by
  simp [stub, invokeInternal, Nat.not_lt.2 hk]

/-- `protobuf_c_service_generated_init` clears every handler and records the method count of the descriptor -/
theorem generatedInit_cleared (s : PSvc) :
    (generatedInit s).nMethods = s.methods.length ∧ (generatedInit s).handlers.length = s.methods.length ∧
    ∀ k, k < s.methods.length → (generatedInit s).handlers[k]? = some none := by
  refine ⟨rfl, by simp [generatedInit], ?_⟩
  intro k hk
  simp [generatedInit, hk]

theorem destroy_invokes_callback (sv : Service) : (destroy sv).destroyed = true := rfl

/-- the descriptor lists the methods in declaration order — the same order as the handler slots — and the by-name index
    leads, for EVERY string, to the declaration index of the method of that name (and to nothing for any other string) -/
theorem method_by_name (s : PSvc) (hd : (s.methods.map (fun m => bytesOfString m.1)).Nodup) (key : List Nat) (idx : Nat) :
    nameLookup (genMethodsByName s) key = some idx ↔ ∃ m, s.methods[idx]? = some m ∧ bytesOfString m.1 = key := by
  have hsrc : (((enumFrom 0 s.methods).map (fun (x : (String × Nat × Nat) × Nat) => (bytesOfString x.1.1, x.2))).map (·.1)).Nodup := by
    have h1 : ((enumFrom 0 s.methods).map (fun (x : (String × Nat × Nat) × Nat) => (bytesOfString x.1.1, x.2))).map (·.1)
        = s.methods.map (fun m => bytesOfString m.1) := by
      rw [map_map]
      have := congrArg (List.map (fun m : String × Nat × Nat => bytesOfString m.1)) (Pbc.Props.C13.enumFrom_map_fst 0 s.methods)
      simpa [map_map, Function.comp_def] using this
    rw [h1]; exact hd
  unfold genMethodsByName
  rw [Pbc.Props.C13.nameLookup_sortByName _ hsrc, mem_map]
  constructor
  · rintro ⟨⟨m, k⟩, hmk, he⟩
    have := Pbc.Props.C13.mem_enumFrom.1 hmk
    simp only [Prod.mk.injEq] at he
    exact ⟨m, by rw [← he.2]; simpa using this.2, he.1⟩
  · rintro ⟨m, hm, hk⟩
    exact ⟨(m, idx), Pbc.Props.C13.mem_enumFrom.2 ⟨Nat.zero_le _, by simpa using hm⟩, by simp [hk]⟩

/-- tie to the generator source (regenerated from protoc-gen-c/c_service.cc on every run): the only thing a stub passes
    as method index is the printer variable `$index$`, and that is set from the declaration-order loop counter `i` -/
theorem stub_index_is_loop_counter :
    Pbc.Extract.GenFacts.stubInvokeArg = ["$index$"] ∧ Pbc.Extract.GenFacts.stubIndexSource = ["i"] := by decide

/-! non-vacuity -/
def exSvc : PSvc := { full := "t.Store", short := "Store", pkg := "t", cpkg := none,
                      methods := [("Put", 0, 1), ("Get", 1, 0), ("List", 0, 0), ("Delete", 1, 1)] }
example : stub (serviceInit exSvc) 3 10 20 30 = some ⟨3, 10, 20, 30⟩ := by decide
/-- (names as byte strings: Put, Get, List, Delete) the by-name index is Delete, Get, List, Put -/
def exIdx : List (List Nat × Nat) := [([80, 117, 116], 0), ([71, 101, 116], 1), ([76, 105, 115, 116], 2), ([68, 101, 108, 101, 116, 101], 3)]
example : (exIdx.map (·.1)).Nodup ∧ (sortByName exIdx).map (·.2) = [3, 1, 2, 0] ∧
    nameLookup (sortByName exIdx) [71, 101, 116] = some 1 ∧ nameLookup (sortByName exIdx) [71, 101] = none := by decide

end Pbc.Props.C20
