import Pbc.Extract.Facts
import Pbc.Refine.BigEndian
import Pbc.Props.C02
/-
  C16 -- behaviour is independent of build configuration and byte-order path (the part that is logic).
  (i)  `Pbc.Refine.BE.*_same`: the WORDS_BIGENDIAN bodies equal the fast-path bodies for all inputs.
  (ii) every assert() of protobuf-c.c is listed here (extracted each run: a new assert is a new
       obligation) and each non-trivial condition is a theorem of the model, so compiling them out
       with NDEBUG changes nothing observable:
         * `actual_length_size == length_size_min + 1` (repeated_field_pack): `guess_off_by_one`
         * `tmp == payload_len` (repeated_field_pack_to_buffer): `streamed_payload_length`
         * `method_index < n_methods` (service invoke): generated stubs pass a literal index < n (C20)
         * the NOT_REACHED / magic-number asserts are preconditions on descriptors (exhaustive type
           switches: `Refine.get_type_min_size_spec` & co. cover all 17 type codes)
  Optimisation levels and compilers are sampled by the variant builds, not modelled.
-/
namespace Pbc.Props.C16
open Pbc Pbc.Model Pbc.Wire Pbc.Extract.Facts

/-- the complete list of assertions in the file; changes to it must be looked at -/
theorem asserts_listed : asserts.map (·.1) =
    ["required_field_get_packed_size", "protobuf_c_message_get_packed_size", "required_field_pack",
     "sizeof_elt_in_repeated_array", "repeated_field_pack", "repeated_field_pack", "protobuf_c_message_pack",
     "required_field_pack_to_buffer", "get_packed_payload_length", "pack_buffer_packed_payload",
     "repeated_field_pack_to_buffer", "protobuf_c_message_pack_to_buffer", "parse_packed_repeated_member",
     "parse_member", "protobuf_c_message_unpack", "protobuf_c_message_unpack", "protobuf_c_message_free_unpacked",
     "protobuf_c_service_invoke_internal", "protobuf_c_service_generated_init"] := by decide

/-- names are read only by the three by-name lookups: wire behaviour cannot depend on the strings that
    optimize_for = CODE_SIZE replaces by NULL -/
theorem names_read_only_by_name_lookups : nameReads =
    ["protobuf_c_enum_descriptor_get_value_by_name", "protobuf_c_message_descriptor_get_field_by_name",
     "protobuf_c_service_descriptor_get_method_by_name"] := by decide

/-- line 1439: when the real payload needs a longer length prefix than guessed from
    `min_size * count`, it is longer by exactly one byte.  Each element of a packable type occupies
    between `ms` and 10 bytes (ms ∈ {1,4,8}; fixed types exactly ms), so payload ≤ 10·count ≤ 16·ms·count. -/
theorem guess_off_by_one (ms n payload : Nat) (hlo : ms * n ≤ payload) (hhi : payload ≤ 16 * (ms * n))
    (hne : varintLen payload ≠ varintLen (ms * n)) : varintLen payload = varintLen (ms * n) + 1 := by
  have h1 := varintLen_mul16 (ms * n) payload hhi
  have h2 := varintLen_mono hlo
  omega

/-- line 1924: the number of payload bytes streamed for a packed field equals the precomputed length -/
theorem streamed_payload_length (S : Schema) (f : FieldDesc) (n : Nat) (l : List Val) :
    (elemsBytes S f n l).flatten.length = elemsLen S f n l := Props.C02.elemsBytes_length S f n l

end Pbc.Props.C16
