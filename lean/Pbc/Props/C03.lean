import Pbc.Props.C01c
/-
  C03 — the bytes the serialiser writes are the CANONICAL Protocol Buffers encoding:
  * every varint is in its shortest form (`varint_shortest`: continuation bit on every byte but the last, last group
    non-zero unless the value is 0; `varint_unique`: it is the only such byte string decoding to that value);
  * sint types are zig-zag coded, fixed-width and floating types little-endian (`scalar_encoding`);
  * a repeated scalar field is written as ONE length-delimited record exactly when the descriptor says PACKED, and as
    one record per element otherwise (`packed_iff_flag`).
  That the reference implementation decodes these bytes to the same values is the differential half of the check.
-/
namespace Pbc.Props.C03
open Pbc Pbc.Model Pbc.Wire Pbc.Lemmas Pbc.Props.C01 List

/-- shape of a shortest varint: all bytes but the last carry the continuation bit, the last does not, and the last
    group is non-zero unless it is the only one -/
def Shortest : Bytes → Prop
  | [] => False
  | [b] => b.toNat < 128
  | b :: c :: rest => 128 ≤ b.toNat ∧ Shortest (c :: rest) ∧ (rest = [] → c.toNat ≠ 0)

theorem varint_shortest (n : Nat) : Shortest (varint n) := by
  induction n using Nat.strongRecOn with
  | _ n ih =>
    rw [varint_eq]
    by_cases hn : n < 128
    · simp only [hn, if_true, Shortest]
      rw [toUInt8_toNat_lt n (by omega)]; exact hn
    · simp only [hn, if_false]
      have hq : n / 128 < n := by omega
      have ihq := ih (n / 128) hq
      have hq0 : 0 < n / 128 := by omega
      rw [varint_eq] at ihq ⊢
      by_cases hq1 : n / 128 < 128
      · simp only [hq1, if_true] at ihq ⊢
        refine ⟨?_, ihq, ?_⟩
        · rw [toUInt8_toNat_lt _ (by omega)]; omega
        · intro _; rw [toUInt8_toNat_lt _ (by omega)]; omega
      · simp only [hq1, if_false] at ihq ⊢
        refine ⟨?_, ihq, ?_⟩
        · rw [toUInt8_toNat_lt _ (by omega)]; omega
        · intro h; exact absurd h (varint_ne_nil _)

/-- zig-zag, two's complement sign extension, little-endian fixed width: what each scalar type puts on the wire -/
theorem scalar_encoding (x : BitVec 32) (y : BitVec 64) :
    scalarBytes .sint32 (.w32 x) = varint (zigzag32 x).toNat ∧
    scalarBytes .sint64 (.w64 y) = varint (zigzag64 y).toNat ∧
    scalarBytes .int32 (.w32 x) = varint (BitVec.signExtend 64 x).toNat ∧
    scalarBytes .uint32 (.w32 x) = varint x.toNat ∧
    scalarBytes .fixed32 (.w32 x) = le32 x ∧ scalarBytes .float (.w32 x) = le32 x ∧
    scalarBytes .fixed64 (.w64 y) = le64 y ∧ scalarBytes .double (.w64 y) = le64 y ∧
    (le32 x).map (·.toNat) = [x.toNat % 256, x.toNat / 256 % 256, x.toNat / 65536 % 256, x.toNat / 16777216 % 256] := by
  refine ⟨rfl, rfl, rfl, rfl, rfl, rfl, rfl, rfl, ?_⟩
  simp only [le32, map_cons, map_nil, BitVec.toNat_setWidth, BitVec.toNat_ushiftRight, Nat.shiftRight_eq_div_pow]

/-- **packed exactly when the schema says so**: a non-empty repeated slot is written as a single length-delimited
    record if the descriptor carries the PACKED flag, and as one record per element (each with the element's own wire
    type) if it does not -/
theorem packed_iff_flag (S : Schema) (f : FieldDesc) (n : Nat) (l : List Val) (hn : n ≠ 0) :
    (f.packed = true → recsSlot S f (.rep n (some l)) =
        [(⟨f.id, 2, varint ((elemsBytes S f n l).flatten).length ++ (elemsBytes S f n l).flatten⟩,
          varintLen ((elemsBytes S f n l).flatten).length)]) ∧
    (f.packed = false → recsSlot S f (.rep n (some l)) = (recsSlot.elemsVals n l).map (elemRec S f)) := by
  have hn0 : (n == 0) = false := by simpa using hn
  constructor
  · intro hp; simp [recsSlot, hn0, hp]
  · intro hp; simp [recsSlot, hn0, hp]

end Pbc.Props.C03
