import Pbc.Model.Buf
/-
  C18 -- the append buffer holds exactly what was appended, for any history.
  Model: `Pbc.Model.SimpleBuf.append` (tied to protobuf_c_buffer_simple_append by the
  correspondence check on append histories).  Everything below is for ALL capacities ≥ 1,
  ALL histories, ALL refusal schedules.
-/
namespace Pbc.Props.C18
open Pbc Pbc.Model

/-- the doubling loop returns a capacity that suffices and does not shrink -/
theorem growTo_ge {need fuel a na : Nat} (h : growTo need fuel a = some na) : need ≤ na ∧ a ≤ na := by
  induction fuel generalizing a with
  | zero =>
    simp only [growTo] at h
    split at h
    · cases h
    · cases h; omega
  | succ fuel ih =>
    simp only [growTo] at h
    split at h
    · have := ih h; omega
    · cases h; omega

/-- it terminates whenever the starting capacity is positive (with capacity 0 the C loop spins
    forever: `0 += 0`; outside the property's quantifier, which starts at capacity 1) -/
theorem growTo_terminates (need fuel a : Nat) (ha : 0 < a) (hf : need ≤ a + fuel) :
    ∃ na, growTo need fuel a = some na := by
  induction fuel generalizing a with
  | zero =>
    simp only [growTo]
    split
    · omega
    · exact ⟨a, rfl⟩
  | succ fuel ih =>
    simp only [growTo]
    split
    · exact ih (a + a) (by omega) (by omega)
    · exact ⟨a, rfl⟩

/-- least doubling: the result is `a * 2^k` for the first k with `a * 2^k ≥ need` -/
theorem growTo_least {need fuel a na : Nat} (h : growTo need fuel a = some na) :
    na = a ∨ na / 2 < need := by
  induction fuel generalizing a with
  | zero =>
    simp only [growTo] at h
    split at h
    · cases h
    · cases h; exact Or.inl rfl
  | succ fuel ih =>
    simp only [growTo] at h
    split at h
    · rename_i hlt
      rcases ih h with h1 | h1
      · right; subst h1; omega
      · right; exact h1
    · cases h; exact Or.inl rfl

/-- the buffer invariant relative to the history of appended chunks -/
structure Inv (cap0 : Nat) (hist : List Bytes) (b : SimpleBuf) : Prop where
  contents : b.data = hist.flatten
  fits : b.data.length ≤ b.alloced
  cap : cap0 ≤ b.alloced

theorem inv_init (cap0 : Nat) : Inv cap0 [] ⟨cap0, [], none⟩ := ⟨rfl, Nat.zero_le _, Nat.le_refl _⟩

/-- one append: either the chunk is appended and the invariant holds for the longer history,
    or the allocation was refused and the buffer is unchanged (C08, second clause) -/
theorem append_inv {cap0 : Nat} {hist : List Bytes} {b b' : SimpleBuf} {h h' : Heap}
    {σ : Nat → Bool} {d : Bytes}
    (hi : Inv cap0 hist b) (ha : b.append σ h d = some (b', h')) :
    Inv cap0 (hist ++ [d]) b' ∨ (b' = b ∧ σ h.reqs = true) := by
  unfold SimpleBuf.append at ha
  simp only at ha
  split at ha
  · -- growth needed
    split at ha
    · cases ha
    · rename_i na hg
      have hge := growTo_ge hg
      by_cases hσ : σ h.reqs = true
      · simp [Heap.alloc, hσ] at ha
        exact Or.inr ⟨ha.1.symm, hσ⟩
      · simp [Heap.alloc, hσ] at ha
        left
        rcases ha with ⟨hb, _⟩
        subst hb
        refine ⟨?_, ?_, ?_⟩
        · simp [hi.contents]
        · simp; omega
        · have := hi.cap; simp; omega
  · rename_i hfit
    simp only [Option.some.injEq, Prod.mk.injEq] at ha
    left
    rcases ha with ⟨hb, _⟩
    subst hb
    refine ⟨?_, ?_, hi.cap⟩
    · simp [hi.contents]
    · simp; omega

/-- an append always returns (the C loop terminates) when the capacity is positive -/
theorem append_total (σ : Nat → Bool) (b : SimpleBuf) (h : Heap) (d : Bytes) (hc : 0 < b.alloced) :
    ∃ r, b.append σ h d = some r := by
  unfold SimpleBuf.append
  simp only
  split
  · have ⟨na, hna⟩ := growTo_terminates (b.data.length + d.length) (b.data.length + d.length) (b.alloced * 2)
      (by omega) (by omega)
    rw [hna]
    simp only
    split <;> exact ⟨_, rfl⟩
  · exact ⟨_, rfl⟩

/-- run a whole history with no refusals -/
def run (σ : Nat → Bool) : SimpleBuf → Heap → List Bytes → Option (SimpleBuf × Heap)
  | b, h, [] => some (b, h)
  | b, h, d :: ds =>
    match b.append σ h d with
    | none => none
    | some (b', h') => run σ b' h' ds

/-- C18 main statement: for any initial capacity ≥ 1 and ANY history, with an allocator that
    never refuses, the run terminates and the contents are exactly the concatenation of
    everything appended, the length their total, and length ≤ capacity. -/
theorem history (cap0 : Nat) (hc : 0 < cap0) (ds : List Bytes) :
    ∃ b h, run (fun _ => false) ⟨cap0, [], none⟩ {} ds = some (b, h) ∧
      b.data = ds.flatten ∧ b.data.length = (ds.map List.length).sum ∧ b.data.length ≤ b.alloced := by
  suffices H : ∀ (ds hist : List Bytes) (b : SimpleBuf) (h : Heap), Inv cap0 hist b →
      ∃ b' h', run (fun _ => false) b h ds = some (b', h') ∧ Inv cap0 (hist ++ ds) b' by
    obtain ⟨b, h, hr, hi⟩ := H ds [] ⟨cap0, [], none⟩ {} (inv_init cap0)
    refine ⟨b, h, hr, ?_, ?_, hi.fits⟩
    · simpa using hi.contents
    · rw [hi.contents]; simp [List.length_flatten]
  intro ds
  induction ds with
  | nil => intro hist b h hi; exact ⟨b, h, rfl, by simpa using hi⟩
  | cons d ds ih =>
    intro hist b h hi
    obtain ⟨⟨b1, h1⟩, h1e⟩ := append_total (fun _ => false) b h d (by have := hi.cap; omega)
    rcases append_inv hi h1e with hin | ⟨_, hσ⟩
    · obtain ⟨b', h', hr, hi'⟩ := ih (hist ++ [d]) b1 h1 hin
      refine ⟨b', h', ?_, by simpa using hi'⟩
      simp [run, h1e, hr]
    · simp at hσ

/-- allocator discipline of one append: the log grows by at most one request and, only when a
    heap block was outgrown, one free of exactly that block.  The caller's scratch array
    (block = none) is never freed. -/
theorem append_log {σ : Nat → Bool} {b b' : SimpleBuf} {h h' : Heap} {d : Bytes}
    (ha : b.append σ h d = some (b', h')) :
    h'.log = h.log ∨
    (∃ sz, h'.log = h.log ++ [.refuse sz] ∧ b' = b) ∨
    (∃ sz, h'.log = h.log ++ [.alloc h.next sz] ∧ b.block = none ∧ b'.block = some h.next) ∨
    (∃ sz old, h'.log = h.log ++ [.alloc h.next sz, .free old] ∧ b.block = some old ∧ b'.block = some h.next) := by
  unfold SimpleBuf.append at ha
  simp only at ha
  split at ha
  · split at ha
    · cases ha
    · by_cases hσ : σ h.reqs = true
      · simp [Heap.alloc, hσ] at ha
        right; left
        exact ⟨_, by rw [← ha.2], ha.1.symm⟩
      · cases hbk : b.block with
        | none =>
          simp [Heap.alloc, hσ, hbk] at ha
          right; right; left
          exact ⟨_, by rw [← ha.2], rfl, by rw [← ha.1]⟩
        | some old =>
          simp [Heap.alloc, hσ, hbk, Heap.free] at ha
          right; right; right
          exact ⟨_, old, by rw [← ha.2], rfl, by rw [← ha.1]⟩
  · simp only [Option.some.injEq, Prod.mk.injEq] at ha
    left; rw [← ha.2]

/-! non-vacuity: a concrete history that grows twice from a 4-byte scratch array -/
example : (run (fun _ => false) ⟨4, [], none⟩ {} [[1,2,3], [4], [], [5,6,7,8,9]]).map (fun r => (r.1.data, r.1.alloced, r.2.log)) =
    some ([1,2,3,4,5,6,7,8,9], 16, [.alloc 0 16]) := by decide

end Pbc.Props.C18
