import Pbc.Lemmas.Sort
import Pbc.Lemmas.Ranges
import Pbc.Props.C14
/-
  C13 — the emitted descriptors mirror the .proto, for EVERY message / enum the generator accepts.
  Statements are about `Pbc.Gen` (the generator's semantic function); `tools/check.py` ties it to the real
  plugin by comparing, for generated schemas, the dump of the compiled descriptors with `Drv.Main`'s
  gendesc / genenum / gensvc output, and the struct layout by an offsetof/type probe.
-/
namespace Pbc.Props.C13
open Pbc Pbc.Gen Pbc.Model List

/-! ### the field table -/

/-- every declared field appears exactly once in the emitted table (translated by `genField`), nothing else does -/
theorem fields_perm (m : PMsg) : (genFields m).Perm (m.fields.map (genField m.opts)) :=
  (isort_perm _ m.fields).map _

theorem fields_length (m : PMsg) : (genFields m).length = m.fields.length := by
  simp [genFields, sortByNumber, isort_length]

/-- the table is sorted by field number -/
theorem fields_sorted (m : PMsg) : (genFields m).Pairwise (fun a b => a.d.id ≤ b.d.id) := by
  unfold genFields
  rw [pairwise_map]
  have := isort_pairwise (lt := fun (a b : PField) => decide (a.number < b.number))
    (le := fun a b => a.number ≤ b.number)
    (fun a b c h1 h2 => Nat.le_trans h1 h2)
    (fun a b h => by simp at h; omega) (fun a b h => by simp at h; omega) m.fields
  exact this.imp (by intro a b h; simpa [genField] using h)

/-- ... strictly, because a .proto cannot declare a number twice -/
theorem fields_strict (m : PMsg) (hd : (m.fields.map (·.number)).Nodup) :
    (genFields m).Pairwise (fun a b => a.d.id < b.d.id) := by
  have hs := fields_sorted m
  have hn : ((genFields m).map (·.d.id)).Nodup := by
    have hp : ((genFields m).map (·.d.id)).Perm (m.fields.map (·.number)) := by
      have := (fields_perm m).map (·.d.id)
      simpa [Function.comp_def, genField] using this
    exact hp.nodup_iff.2 hd
  have hne : (genFields m).Pairwise (fun a b => a.d.id ≠ b.d.id) := by
    simpa [Nodup, pairwise_map] using hn
  exact (hs.and hne).imp (by intro a b h; omega)

/-! ### the by-name indices (fields, enum value names, service methods) -/

theorem mem_enumFrom {α} {a : α} {i : Nat} : ∀ {k : Nat} {l : List α},
    (a, i) ∈ enumFrom k l ↔ k ≤ i ∧ l[i - k]? = some a
  | _, [] => by simp [enumFrom]
  | k, b :: bs => by
    simp only [enumFrom, mem_cons, Prod.mk.injEq]
    rw [mem_enumFrom (k := k + 1) (l := bs)]
    constructor
    · rintro (⟨rfl, rfl⟩ | ⟨h1, h2⟩)
      · simp
      · refine ⟨by omega, ?_⟩
        have : i - k = (i - (k + 1)) + 1 := by omega
        rw [this]; simpa using h2
    · rintro ⟨h1, h2⟩
      by_cases he : i = k
      · subst he; left; simpa using h2.symm
      · right
        refine ⟨by omega, ?_⟩
        have : i - k = (i - (k + 1)) + 1 := by omega
        rw [this] at h2; simpa using h2

theorem enumFrom_map_fst {α} : ∀ (k : Nat) (l : List α), (enumFrom k l).map (·.1) = l
  | _, [] => rfl
  | k, a :: as => by simp [enumFrom, enumFrom_map_fst (k + 1) as]

/-- a name-sorted index over pairwise distinct names is strictly sorted (what the binary searches need) -/
theorem sortByName_sorted (l : List (List Nat × Nat)) (hd : (l.map (·.1)).Nodup) :
    Pbc.Props.C14.NamesSorted (sortByName l) := by
  have hp : (sortByName l).Pairwise (fun a b => cmpBytes a.1 b.1 ≠ .gt) := by
    refine isort_pairwise (lt := fun (a b : List Nat × Nat) => cmpBytes a.1 b.1 != .gt) ?_ ?_ ?_ l
    · intro a b c h1 h2
      cases hab : cmpBytes a.1 b.1 with
      | gt => exact absurd hab h1
      | eq => rw [Pbc.Props.C14.cmpBytes_eq.1 hab]; exact h2
      | lt =>
        cases hbc : cmpBytes b.1 c.1 with
        | gt => exact absurd hbc h2
        | eq => rw [← Pbc.Props.C14.cmpBytes_eq.1 hbc]; simp [hab]
        | lt => simp [Pbc.Props.C14.cmpBytes_trans hab hbc]
    · intro a b h; simpa using h
    · intro a b h
      have hg : cmpBytes a.1 b.1 = .gt := by simpa using h
      have := Pbc.Props.C14.cmpBytes_swap.2 hg
      simp [this]
  have hn : (sortByName l).Pairwise (fun a b => a.1 ≠ b.1) := by
    have : ((sortByName l).map (·.1)).Nodup := ((isort_perm _ l).map (·.1)).nodup_iff.2 hd
    simpa [Nodup, pairwise_map] using this
  have hlt : (sortByName l).Pairwise (fun a b => cmpBytes a.1 b.1 = .lt) := by
    refine (hp.and hn).imp ?_
    intro a b h
    cases hab : cmpBytes a.1 b.1 with
    | gt => exact absurd hab h.1
    | eq => exact absurd (Pbc.Props.C14.cmpBytes_eq.1 hab) h.2
    | lt => rfl
  intro i j hij hj
  have := (pairwise_iff_getElem.1 hlt) i j (by omega) hj hij
  simpa [getD_eq_getElem?_getD, getElem?_eq_getElem, show i < (sortByName l).length by omega, hj] using this

theorem mem_sortByName {x : List Nat × Nat} {l : List (List Nat × Nat)} : x ∈ sortByName l ↔ x ∈ l := by
  unfold sortByName; exact mem_isort

/-- the by-name search over a name-sorted index of pairwise distinct names finds exactly the listed pairs -/
theorem nameLookup_sortByName (l : List (List Nat × Nat)) (hd : (l.map (·.1)).Nodup) (key : List Nat) (idx : Nat) :
    nameLookup (sortByName l) key = some idx ↔ (key, idx) ∈ l := by
  rw [Pbc.Props.C14.nameLookup_spec _ (sortByName_sorted l hd), ← mem_sortByName (l := l)]
  generalize sortByName l = L
  constructor
  · rintro ⟨i, hi, h1, h2⟩
    have : L.getD i ([], 0) = L[i] := by rw [getD_eq_getElem?_getD, getElem?_eq_getElem hi]; rfl
    rw [this] at h1 h2
    have hm : L[i] ∈ L := getElem_mem hi
    have : L[i] = (key, idx) := Prod.ext h1 h2
    rwa [this] at hm
  · intro hm
    obtain ⟨i, hi, he⟩ := getElem_of_mem hm
    have : L.getD i ([], 0) = L[i] := by rw [getD_eq_getElem?_getD, getElem?_eq_getElem hi]; rfl
    exact ⟨i, hi, by rw [this, he], by rw [this, he]⟩

theorem nameKey_plain (o : POpts) (f : PField) (h : o.useOneofName = false) : nameKey o f = f.name := by
  simp [nameKey, h]

/-- C13 / C14 (ii) for generated message descriptors: for EVERY string, the by-name search over the emitted index
    returns position `idx` of the number-sorted field table iff the field there carries exactly that name.
    (Hypothesis: the carried names are pairwise distinct — always true for field names of one message; under
    use_oneof_field_name it excludes oneofs with several members, for which the search returns SOME member.) -/
theorem field_by_name (m : PMsg) (hd : (m.fields.map (fun f => bytesOfString (nameKey m.opts f))).Nodup)
    (key : List Nat) (idx : Nat) :
    nameLookup (genByName m) key = some idx ↔
      ∃ f, (sortByNumber m.fields)[idx]? = some f ∧ bytesOfString (nameKey m.opts f) = key := by
  have hsrc : (((enumFrom 0 (sortByNumber m.fields)).map (fun (x : PField × Nat) => (bytesOfString (nameKey m.opts x.1), x.2))).map (·.1)).Nodup := by
    have h1 : ((enumFrom 0 (sortByNumber m.fields)).map (fun (x : PField × Nat) => (bytesOfString (nameKey m.opts x.1), x.2))).map (·.1)
        = (sortByNumber m.fields).map (fun f => bytesOfString (nameKey m.opts f)) := by
      rw [map_map]
      have := congrArg (List.map (fun f : PField => bytesOfString (nameKey m.opts f))) (enumFrom_map_fst 0 (sortByNumber m.fields))
      simpa [map_map, Function.comp_def] using this
    rw [h1]
    exact ((isort_perm _ m.fields).map _).nodup_iff.2 hd
  unfold genByName
  rw [nameLookup_sortByName _ hsrc, mem_map]
  constructor
  · rintro ⟨⟨f, k⟩, hfk, he⟩
    have := mem_enumFrom.1 hfk
    simp only [Prod.mk.injEq] at he
    exact ⟨f, by rw [← he.2]; simpa using this.2, he.1⟩
  · rintro ⟨f, hf, hk⟩
    exact ⟨(f, idx), mem_enumFrom.2 ⟨Nat.zero_le _, by simpa using hf⟩, by simp [hk]⟩

/-! ### lookups by number over the emitted range tables -/

theorem sortByNumber_strict (l : List PField) (hd : (l.map (·.number)).Nodup) :
    (sortByNumber l).Pairwise (fun a b => a.number < b.number) := by
  have hs := isort_pairwise (lt := fun (a b : PField) => decide (a.number < b.number))
    (le := fun a b => a.number ≤ b.number)
    (fun a b c h1 h2 => Nat.le_trans h1 h2)
    (fun a b h => by simp at h; omega) (fun a b h => by simp at h; omega) l
  have hn : ((sortByNumber l).map (·.number)).Nodup := ((isort_perm _ l).map (·.number)).nodup_iff.2 hd
  have hne : (sortByNumber l).Pairwise (fun a b => a.number ≠ b.number) := by
    simpa [Nodup, pairwise_map] using hn
  exact (hs.and hne).imp (by intro a b h; omega)

/-- C13 + C14 (i) for generated message descriptors: for EVERY integer key, `int_range_lookup` over the emitted
    `number_ranges` returns position k of the emitted field table iff the field there has that number; every other
    key (0, negative, one past a run, INT32 extremes) is reported as not found. -/
theorem field_by_number (m : PMsg) (hd : (m.fields.map (·.number)).Nodup) (v : Int) (k : Nat) :
    rangeLookup (genRanges m) v = some k ↔ ∃ f, (sortByNumber m.fields)[k]? = some f ∧ (f.number : Int) = v := by
  have hs : ((sortByNumber m.fields).map (fun f => (f.number : Int))).Pairwise (· < ·) := by
    rw [pairwise_map]
    exact (sortByNumber_strict m.fields hd).imp (by intro a b h; exact Int.ofNat_lt.2 h)
  unfold genRanges
  rw [Pbc.Lemmas.Ranges.rangeLookup_mkRanges _ hs]
  simp only [getElem?_map, Option.map_eq_some_iff]

/-! ### enums: unique numbers ascending, lookups by number -/

theorem dedup_sub : ∀ (l : List (String × Int)) (a : String × Int), a ∈ dedupByValue l → a ∈ l := by
  intro l
  fun_induction dedupByValue l with
  | case1 => intro a h; simp at h
  | case2 x => intro a h; exact h
  | case3 x y rest heq ih =>
    intro a h
    rcases mem_cons.1 (ih a h) with rfl | h'
    · exact mem_cons_self ..
    · exact mem_cons_of_mem _ (mem_cons_of_mem _ h')
  | case4 x y rest hne ih =>
    intro a h
    rcases mem_cons.1 h with rfl | h'
    · exact mem_cons_self ..
    · exact mem_cons_of_mem _ (ih a h')

theorem dedup_numbers : ∀ (l : List (String × Int)) (v : Int),
    v ∈ (dedupByValue l).map (·.2) ↔ v ∈ l.map (·.2) := by
  intro l
  fun_induction dedupByValue l with
  | case1 => intro v; simp
  | case2 x => intro v; simp
  | case3 x y rest heq ih =>
    intro v
    rw [ih v]
    simp only [map_cons, mem_cons]
    constructor
    · rintro (h | h)
      · exact Or.inl h
      · exact Or.inr (Or.inr h)
    · rintro (h | h | h)
      · exact Or.inl h
      · exact Or.inl (h.trans heq.symm)
      · exact Or.inr h
  | case4 x y rest hne ih =>
    intro v
    simp only [map_cons, mem_cons] at ih ⊢
    rw [ih v]

theorem dedup_strict : ∀ (l : List (String × Int)), l.Pairwise (fun a b => a.2 ≤ b.2) →
    (dedupByValue l).Pairwise (fun a b => a.2 < b.2) := by
  intro l
  fun_induction dedupByValue l with
  | case1 => intro _; exact Pairwise.nil
  | case2 x => intro _; simp
  | case3 x y rest heq ih =>
    intro h
    apply ih
    rw [pairwise_cons] at h ⊢
    exact ⟨fun a ha => h.1 a (mem_cons_of_mem _ ha), (pairwise_cons.1 h.2).2⟩
  | case4 x y rest hne ih =>
    intro h
    have h2 := (pairwise_cons.1 h).2
    refine pairwise_cons.2 ⟨?_, ih h2⟩
    intro a ha
    have hay := dedup_sub _ a ha
    have hxy : x.2 ≤ y.2 := (pairwise_cons.1 h).1 y (mem_cons_self ..)
    rcases mem_cons.1 hay with rfl | har
    · omega
    · have := (pairwise_cons.1 h2).1 a har
      omega

theorem sortByValue_sorted (l : List (String × Int)) : (sortByValue l).Pairwise (fun a b => a.2 ≤ b.2) :=
  isort_pairwise (lt := fun (a b : String × Int) => decide (a.2 ≤ b.2)) (le := fun a b => a.2 ≤ b.2)
    (fun a b c h1 h2 => Int.le_trans h1 h2) (fun a b h => by simpa using h) (fun a b h => by simp at h; omega) l

/-- the emitted `enum_values_by_number` lists every declared number exactly once, in ascending order -/
theorem enumValues_strict (e : PEnum) : ((genEnumValues e).map (·.2)).Pairwise (· < ·) := by
  rw [pairwise_map]
  exact dedup_strict _ (sortByValue_sorted e.values)

theorem enumValues_numbers (e : PEnum) (v : Int) :
    v ∈ (genEnumValues e).map (·.2) ↔ v ∈ e.values.map (·.2) := by
  unfold genEnumValues
  rw [dedup_numbers]
  exact ((isort_perm _ e.values).map (·.2)).mem_iff

/-- C13 + C14 (i) for generated enum descriptors: for EVERY 32-bit key (negative, sparse, INT32_MIN / INT32_MAX
    included), the lookup over the emitted `value_ranges` returns position k iff the k-th emitted value has that
    number, and a number is emitted iff it was declared (aliases share one entry). -/
theorem enum_by_number (e : PEnum) (v : Int) (k : Nat) :
    rangeLookup (genEnumRanges e) v = some k ↔ ((genEnumValues e).map (·.2))[k]? = some v := by
  unfold genEnumRanges
  exact Pbc.Lemmas.Ranges.rangeLookup_mkRanges _ (enumValues_strict e) v k

theorem enum_by_number_none (e : PEnum) (v : Int) (hv : v ∉ e.values.map (·.2)) :
    rangeLookup (genEnumRanges e) v = none := by
  unfold genEnumRanges
  exact Pbc.Lemmas.Ranges.rangeLookup_mkRanges_none _ (enumValues_strict e) v
    (fun h => hv ((enumValues_numbers e v).1 h))

/-! ### enums: the first declared name wins; lookups by name -/

theorem sortByValue_filter (l : List (String × Int)) (v : Int) :
    (sortByValue l).filter (fun p => decide (p.2 = v)) = l.filter (fun p => decide (p.2 = v)) := by
  induction l with
  | nil => rfl
  | cons x xs ih =>
    show (insertBy _ x (sortByValue xs)).filter _ = _
    rw [insertBy_filter_key (key := fun (p : String × Int) => p.2) (lek := fun a b => a ≤ b)
      (lt := fun (a b : String × Int) => decide (a.2 ≤ b.2))
      (by intro a b; simp) (fun k => Int.le_refl k) x v (sortByValue xs) (sortByValue_sorted xs)
      (by intro a _ h1 h2; exact h1 (by omega))]
    rw [ih, filter_cons]
    by_cases hx : x.2 = v <;> simp [hx]

theorem dedup_first : ∀ (l : List (String × Int)), l.Pairwise (fun a b => a.2 ≤ b.2) → ∀ n v,
    (n, v) ∈ dedupByValue l → (l.filter (fun p => decide (p.2 = v))).head? = some (n, v) := by
  intro l
  fun_induction dedupByValue l with
  | case1 => intro _ n v h; simp at h
  | case2 x =>
    intro _ n v h
    have : (n, v) = x := by simpa using h
    subst this; simp
  | case3 x y rest heq ih =>
    intro hs n v h
    have hs' : (x :: rest).Pairwise (fun a b => a.2 ≤ b.2) := by
      rw [pairwise_cons] at hs ⊢
      exact ⟨fun a ha => hs.1 a (mem_cons_of_mem _ ha), (pairwise_cons.1 hs.2).2⟩
    have := ih hs' n v h
    by_cases hx : x.2 = v
    · simp [filter_cons, hx] at this ⊢; exact this
    · have hy : y.2 ≠ v := fun hc => hx (heq.trans hc)
      simp [filter_cons, hx, hy] at this ⊢; exact this
  | case4 x y rest hne ih =>
    intro hs n v h
    have h2 := (pairwise_cons.1 hs).2
    rcases mem_cons.1 h with hxe | h'
    · subst hxe; simp [filter_cons]
    · have := ih h2 n v h'
      have hmem := dedup_sub _ _ h'
      have hxy : x.2 ≤ y.2 := (pairwise_cons.1 hs).1 y (mem_cons_self ..)
      have hyv : y.2 ≤ v := by
        rcases mem_cons.1 hmem with he | hr
        · have : y.2 = v := by rw [← he]
          omega
        · exact (pairwise_cons.1 h2).1 _ hr
      have hx : x.2 ≠ v := by omega
      rw [filter_cons]
      simp only [hx, decide_false, Bool.false_eq_true, if_false]
      exact this

/-- each emitted enum value carries the FIRST name declared for its number (aliases keep only their by-name entry) -/
theorem enum_first_name (e : PEnum) (n : String) (v : Int) (h : (n, v) ∈ genEnumValues e) :
    (e.values.filter (fun p => decide (p.2 = v))).head? = some (n, v) := by
  have := dedup_first _ (sortByValue_sorted e.values) n v h
  rwa [sortByValue_filter] at this

/-- a declared number sits in the emitted table at `indexOfValue` -/
theorem indexOfValue_spec (e : PEnum) (nv : String × Int) (h : nv ∈ e.values) :
    ((genEnumValues e).map (·.2))[indexOfValue (genEnumValues e) nv.2]? = some nv.2 := by
  have hm : nv.2 ∈ (genEnumValues e).map (·.2) := (enumValues_numbers e nv.2).2 (mem_map_of_mem h)
  unfold indexOfValue
  rw [getElem?_eq_getElem (idxOf_lt_length_of_mem hm)]
  simp

/-- C13 + C14 (ii) for generated enum descriptors: for EVERY string, the by-name search over the emitted
    `enum_values_by_name` succeeds iff the string is a declared value name (aliases included), and the index it returns
    is the table position of that name's number -/
theorem enum_by_name (e : PEnum) (hd : (e.values.map (fun nv => bytesOfString nv.1)).Nodup) (key : List Nat) (idx : Nat) :
    nameLookup (genEnumByName e) key = some idx ↔
      ∃ nv ∈ e.values, bytesOfString nv.1 = key ∧ idx = indexOfValue (genEnumValues e) nv.2 := by
  unfold genEnumByName
  have hsrc : ((e.values.map (fun (x : String × Int) => (bytesOfString x.1, indexOfValue (genEnumValues e) x.2))).map (·.1)).Nodup := by
    rw [map_map]; exact hd
  rw [nameLookup_sortByName _ hsrc, mem_map]
  constructor
  · rintro ⟨nv, hm, he⟩
    simp only [Prod.mk.injEq] at he
    exact ⟨nv, hm, he.1, he.2.symm⟩
  · rintro ⟨nv, hm, h1, h2⟩
    exact ⟨nv, hm, by simp [h1, h2]⟩

end Pbc.Props.C13
