import Pbc.Lemmas.Sort
import Pbc.Props.C14
/-
  C13 — the emitted descriptors mirror the .proto, for EVERY message / enum the generator accepts.
  Statements are about `Pbc.Gen` (the generator's semantic function); `tools/check.py` ties it to the real
  plugin by comparing, for generated schemas, the dump of the compiled descriptors with `Drv.Main`'s
  gendesc / genenum / gensvc output, and the struct layout by an offsetof/type probe.
-/
namespace Pbc.Props.C13
open Pbc Pbc.Gen Pbc.Model List

/-! ### the field table -/

/-- every declared field appears exactly once in the emitted table (translated by `genField`), nothing else does -/
theorem fields_perm (m : PMsg) : (genFields m).Perm (m.fields.map (genField m.opts)) :=
  (isort_perm _ m.fields).map _

theorem fields_length (m : PMsg) : (genFields m).length = m.fields.length := by
  simp [genFields, sortByNumber, isort_length]

/-- the table is sorted by field number -/
theorem fields_sorted (m : PMsg) : (genFields m).Pairwise (fun a b => a.d.id ≤ b.d.id) := by
  unfold genFields
  rw [pairwise_map]
  have := isort_pairwise (lt := fun (a b : PField) => decide (a.number < b.number))
    (le := fun a b => a.number ≤ b.number)
    (fun a b c h1 h2 => Nat.le_trans h1 h2)
    (fun a b h => by simp at h; omega) (fun a b h => by simp at h; omega) m.fields
  exact this.imp (by intro a b h; simpa [genField] using h)

/-- ... strictly, because a .proto cannot declare a number twice -/
theorem fields_strict (m : PMsg) (hd : (m.fields.map (·.number)).Nodup) :
    (genFields m).Pairwise (fun a b => a.d.id < b.d.id) := by
  have hs := fields_sorted m
  have hn : ((genFields m).map (·.d.id)).Nodup := by
    have hp : ((genFields m).map (·.d.id)).Perm (m.fields.map (·.number)) := by
      have := (fields_perm m).map (·.d.id)
      simpa [Function.comp_def, genField] using this
    exact hp.nodup_iff.2 hd
  have hne : (genFields m).Pairwise (fun a b => a.d.id ≠ b.d.id) := by
    simpa [Nodup, pairwise_map] using hn
  exact (hs.and hne).imp (by intro a b h; omega)

/-! ### the by-name indices (fields, enum value names, service methods) -/

theorem mem_enumFrom {α} {a : α} {i : Nat} : ∀ {k : Nat} {l : List α},
    (a, i) ∈ enumFrom k l ↔ k ≤ i ∧ l[i - k]? = some a
  | _, [] => by simp [enumFrom]
  | k, b :: bs => by
    simp only [enumFrom, mem_cons, Prod.mk.injEq]
    rw [mem_enumFrom (k := k + 1) (l := bs)]
    constructor
    · rintro (⟨rfl, rfl⟩ | ⟨h1, h2⟩)
      · simp
      · refine ⟨by omega, ?_⟩
        have : i - k = (i - (k + 1)) + 1 := by omega
        rw [this]; simpa using h2
    · rintro ⟨h1, h2⟩
      by_cases he : i = k
      · subst he; left; simpa using h2.symm
      · right
        refine ⟨by omega, ?_⟩
        have : i - k = (i - (k + 1)) + 1 := by omega
        rw [this] at h2; simpa using h2

theorem enumFrom_map_fst {α} : ∀ (k : Nat) (l : List α), (enumFrom k l).map (·.1) = l
  | _, [] => rfl
  | k, a :: as => by simp [enumFrom, enumFrom_map_fst (k + 1) as]

/-- a name-sorted index over pairwise distinct names is strictly sorted (what the binary searches need) -/
theorem sortByName_sorted (l : List (List Nat × Nat)) (hd : (l.map (·.1)).Nodup) :
    Pbc.Props.C14.NamesSorted (sortByName l) := by
  have hp : (sortByName l).Pairwise (fun a b => cmpBytes a.1 b.1 ≠ .gt) := by
    refine isort_pairwise (lt := fun (a b : List Nat × Nat) => cmpBytes a.1 b.1 != .gt) ?_ ?_ ?_ l
    · intro a b c h1 h2
      cases hab : cmpBytes a.1 b.1 with
      | gt => exact absurd hab h1
      | eq => rw [Pbc.Props.C14.cmpBytes_eq.1 hab]; exact h2
      | lt =>
        cases hbc : cmpBytes b.1 c.1 with
        | gt => exact absurd hbc h2
        | eq => rw [← Pbc.Props.C14.cmpBytes_eq.1 hbc]; simp [hab]
        | lt => simp [Pbc.Props.C14.cmpBytes_trans hab hbc]
    · intro a b h; simpa using h
    · intro a b h
      have hg : cmpBytes a.1 b.1 = .gt := by simpa using h
      have := Pbc.Props.C14.cmpBytes_swap.2 hg
      simp [this]
  have hn : (sortByName l).Pairwise (fun a b => a.1 ≠ b.1) := by
    have : ((sortByName l).map (·.1)).Nodup := ((isort_perm _ l).map (·.1)).nodup_iff.2 hd
    simpa [Nodup, pairwise_map] using this
  have hlt : (sortByName l).Pairwise (fun a b => cmpBytes a.1 b.1 = .lt) := by
    refine (hp.and hn).imp ?_
    intro a b h
    cases hab : cmpBytes a.1 b.1 with
    | gt => exact absurd hab h.1
    | eq => exact absurd (Pbc.Props.C14.cmpBytes_eq.1 hab) h.2
    | lt => rfl
  intro i j hij hj
  have := (pairwise_iff_getElem.1 hlt) i j (by omega) hj hij
  simpa [getD_eq_getElem?_getD, getElem?_eq_getElem, show i < (sortByName l).length by omega, hj] using this

theorem mem_sortByName {x : List Nat × Nat} {l : List (List Nat × Nat)} : x ∈ sortByName l ↔ x ∈ l := by
  unfold sortByName; exact mem_isort

/-- the by-name search over a name-sorted index of pairwise distinct names finds exactly the listed pairs -/
theorem nameLookup_sortByName (l : List (List Nat × Nat)) (hd : (l.map (·.1)).Nodup) (key : List Nat) (idx : Nat) :
    nameLookup (sortByName l) key = some idx ↔ (key, idx) ∈ l := by
  rw [Pbc.Props.C14.nameLookup_spec _ (sortByName_sorted l hd), ← mem_sortByName (l := l)]
  generalize sortByName l = L
  constructor
  · rintro ⟨i, hi, h1, h2⟩
    have : L.getD i ([], 0) = L[i] := by rw [getD_eq_getElem?_getD, getElem?_eq_getElem hi]; rfl
    rw [this] at h1 h2
    have hm : L[i] ∈ L := getElem_mem hi
    have : L[i] = (key, idx) := Prod.ext h1 h2
    rwa [this] at hm
  · intro hm
    obtain ⟨i, hi, he⟩ := getElem_of_mem hm
    have : L.getD i ([], 0) = L[i] := by rw [getD_eq_getElem?_getD, getElem?_eq_getElem hi]; rfl
    exact ⟨i, hi, by rw [this, he], by rw [this, he]⟩

theorem nameKey_plain (o : POpts) (f : PField) (h : o.useOneofName = false) : nameKey o f = f.name := by
  simp [nameKey, h]

/-- C13 / C14 (ii) for generated message descriptors: for EVERY string, the by-name search over the emitted index
    returns position `idx` of the number-sorted field table iff the field there carries exactly that name.
    (Hypothesis: the carried names are pairwise distinct — always true for field names of one message; under
    use_oneof_field_name it excludes oneofs with several members, for which the search returns SOME member.) -/
theorem field_by_name (m : PMsg) (hd : (m.fields.map (fun f => bytesOfString (nameKey m.opts f))).Nodup)
    (key : List Nat) (idx : Nat) :
    nameLookup (genByName m) key = some idx ↔
      ∃ f, (sortByNumber m.fields)[idx]? = some f ∧ bytesOfString (nameKey m.opts f) = key := by
  have hsrc : (((enumFrom 0 (sortByNumber m.fields)).map (fun (x : PField × Nat) => (bytesOfString (nameKey m.opts x.1), x.2))).map (·.1)).Nodup := by
    have h1 : ((enumFrom 0 (sortByNumber m.fields)).map (fun (x : PField × Nat) => (bytesOfString (nameKey m.opts x.1), x.2))).map (·.1)
        = (sortByNumber m.fields).map (fun f => bytesOfString (nameKey m.opts f)) := by
      rw [map_map]
      have := congrArg (List.map (fun f : PField => bytesOfString (nameKey m.opts f))) (enumFrom_map_fst 0 (sortByNumber m.fields))
      simpa [map_map, Function.comp_def] using this
    rw [h1]
    exact ((isort_perm _ m.fields).map _).nodup_iff.2 hd
  unfold genByName
  rw [nameLookup_sortByName _ hsrc, mem_map]
  constructor
  · rintro ⟨⟨f, k⟩, hfk, he⟩
    have := mem_enumFrom.1 hfk
    simp only [Prod.mk.injEq] at he
    exact ⟨f, by rw [← he.2]; simpa using this.2, he.1⟩
  · rintro ⟨f, hf, hk⟩
    exact ⟨(f, idx), mem_enumFrom.2 ⟨Nat.zero_le _, by simpa using hf⟩, by simp [hk]⟩

end Pbc.Props.C13
