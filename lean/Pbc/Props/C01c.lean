import Pbc.Props.C01b
/-
  C01 (message level) with oneofs.  A record of the selected member of a oneof sets that member's value AND the case
  word shared by all members of the group, so the state of the parse pass after the records of the first k slots is
  described slot by slot (`stateAt`) instead of as "final prefix ++ initial suffix".
-/
namespace Pbc.Props.C01
open Pbc Pbc.Model Pbc.Wire Pbc.Lemmas List

/-- a slot in parser form, oneof members included: `cs g` is the case value of group g (0 = unset) -/
def CanonSlotO (P : Msg → Prop) (S : Schema) (g : Bool) (cs : Nat → Nat) (f : FieldDesc) (s : Slot) : Prop :=
  match f.group with
  | none => CanonSlotP P S g f s
  | some gi => (f.label = .optional ∨ f.label = .none) ∧
      ∃ v, s = .one (cs gi) v ∧ (if f.id = cs gi then CanonElemP P S f v else v = .zero)

theorem canon_not_absent (S : Schema) (f : FieldDesc) (v : Val) (h : CanonElem1 S f v) :
    ((f.type == .message || f.type == .string) && ptrAbsent f v) = false := by
  cases v with
  | msg om => cases om with
    | some m => simp [ptrAbsent]
    | none => exact absurd h (by simp [CanonElem1])
  | str p s =>
    cases p with
    | own => simp [ptrAbsent]
    | null => exact absurd h (by simp [CanonElem1])
    | dflt => exact absurd h (by simp [CanonElem1])
    | empty => exact absurd h (by simp [CanonElem1])
  | bin len p d =>
    have : f.type = .bytes := by
      cases p with
      | own => exact h.1
      | null => exact h.1
      | dflt => exact absurd h (by simp [CanonElem1])
      | empty => exact absurd h (by simp [CanonElem1])
    simp [this]
  | w32 x => have hw := okScalar_wire _ _ (show okScalar f.type (.w32 x) from h); simp [hw.2.1, hw.2.2.2]
  | w64 x => have hw := okScalar_wire _ _ (show okScalar f.type (.w64 x) from h); simp [hw.2.1, hw.2.2.2]
  | zero => exact absurd h (by simp [CanonElem1])

/-- records of a oneof member's slot: one record iff it is the selected member -/
theorem recsSlot_oneof (P : Msg → Prop) (S : Schema) (f : FieldDesc) (gi : Nat) (hg : f.group = some gi)
    (hl : f.label = .optional ∨ f.label = .none)
    (c : Nat) (v : Val) (hv : if f.id = c then CanonElemP P S f v else v = .zero) :
    recsSlot S f (.one c v) = if f.id = c then [elemRec S f v] else [] := by
  have ho : f.isOneof = true := by simp [FieldDesc.isOneof, hg]
  unfold recsSlot
  by_cases hc : f.id = c
  · simp only [hc, if_true] at hv
    have hna := canon_not_absent S f v hv.1
    rcases hl with hlab | hlab
    · simp [hlab, ho, hc, hna]
    · simp [hlab, ho, hc, hna]
  · have hc' : (c != f.id) = true := by simpa using (fun h : c = f.id => hc h.symm)
    rcases hl with hlab | hlab
    · simp [hlab, ho, hc, hc']
    · simp [hlab, ho, hc, hc']

/-! ### the state of the parse pass after the records of the first k slots -/

def isSel (fields : List FieldDesc) (cs : Nat → Nat) (gi j : Nat) : Bool :=
  (fields.getD j default).group == some gi && (fields.getD j default).id == cs gi

def groupDone (fields : List FieldDesc) (cs : Nat → Nat) (gi k : Nat) : Bool :=
  (List.range fields.length).all (fun j => !isSel fields cs gi j || decide (j < k))

theorem groupDone_iff (fields : List FieldDesc) (cs : Nat → Nat) (gi k : Nat) :
    groupDone fields cs gi k = true ↔ ∀ j, j < fields.length → isSel fields cs gi j = true → j < k := by
  simp only [groupDone, all_eq_true, mem_range, Bool.or_eq_true, Bool.not_eq_true', decide_eq_true_eq]
  constructor
  · intro h j hj hs
    rcases h j hj with h1 | h1
    · rw [hs] at h1; cases h1
    · exact h1
  · intro h j hj
    by_cases hs : isSel fields cs gi j = true
    · exact Or.inr (h j hj hs)
    · exact Or.inl (by simpa using hs)

def entryAt (g : Bool) (cs : Nat → Nat) (fields : List FieldDesc) (slots : List Slot) (k j : Nat) : Slot :=
  match (fields.getD j default).group with
  | none => if j < k then slots.getD j default else initSlot' g (fields.getD j default)
  | some gi => if groupDone fields cs gi k then slots.getD j default else .one 0 .zero

def stateAt (g : Bool) (cs : Nat → Nat) (fields : List FieldDesc) (slots : List Slot) (k : Nat) : List Slot :=
  (List.range fields.length).map (entryAt g cs fields slots k)

theorem stateAt_length (g : Bool) (cs : Nat → Nat) (fields : List FieldDesc) (slots : List Slot) (k : Nat) :
    (stateAt g cs fields slots k).length = fields.length := by simp [stateAt]

theorem getSlot_stateAt (g : Bool) (cs : Nat → Nat) (fields : List FieldDesc) (slots : List Slot) (k j : Nat)
    (hj : j < fields.length) : getSlot (stateAt g cs fields slots k) j = entryAt g cs fields slots k j := by
  simp [getSlot, stateAt, getD_eq_getElem?_getD, hj]

structure CanonO (P : Msg → Prop) (S : Schema) (g : Bool) (cs : Nat → Nat) (fields : List FieldDesc) (slots : List Slot) : Prop where
  len : slots.length = fields.length
  slot : ∀ j, j < fields.length → CanonSlotO P S g cs (fields.getD j default) (slots.getD j default)
  sel : ∀ gi, cs gi = 0 ∨ ∃ j, j < fields.length ∧ isSel fields cs gi j = true

theorem initSlot'_oneof (g : Bool) (f : FieldDesc) (gi : Nat) (hg : f.group = some gi) (hl : f.label ≠ .repeated) :
    initSlot' g f = .one 0 .zero := by
  have ho : f.isOneof = true := by simp [FieldDesc.isOneof, hg]
  have hl' : (f.label == Label.repeated) = false := by simpa using hl
  unfold initSlot'; cases g <;> simp [initSlotGen, initSlotGeneric, hl', ho]

theorem getD_fields (fields : List FieldDesc) (j : Nat) (hj : j < fields.length) : fields.getD j default = fields[j] := by
  rw [getD_eq_getElem?_getD, getElem?_eq_getElem hj]; rfl

/-- slot j of a oneof member in a canonical message -/
theorem oneof_slot (P : Msg → Prop) (S : Schema) (g : Bool) (cs : Nat → Nat) (fields : List FieldDesc) (slots : List Slot)
    (hc : CanonO P S g cs fields slots) (j : Nat) (hj : j < fields.length) (gi : Nat)
    (hg : (fields.getD j default).group = some gi) :
    ((fields.getD j default).label = .optional ∨ (fields.getD j default).label = .none) ∧
    ∃ v, slots.getD j default = .one (cs gi) v ∧
      (if (fields.getD j default).id = cs gi then CanonElemP P S (fields.getD j default) v else v = .zero) := by
  have := hc.slot j hj
  unfold CanonSlotO at this
  rw [hg] at this
  exact this

theorem label_ne_rep {f : FieldDesc} (h : f.label = .optional ∨ f.label = .none) : f.label ≠ .repeated := by
  rcases h with h | h <;> simp [h]

theorem stateAt_zero (P : Msg → Prop) (S : Schema) (g : Bool) (cs : Nat → Nat) (fields : List FieldDesc) (slots : List Slot)
    (hids : ∀ f ∈ fields, 0 < f.id) (hc : CanonO P S g cs fields slots) :
    stateAt g cs fields slots 0 = fields.map (initSlot' g) := by
  apply ext_getElem (by simp [stateAt])
  intro j h1 h2
  have hj : j < fields.length := by simpa [stateAt] using h1
  simp only [stateAt, getElem_map, getElem_range, entryAt]
  rw [getD_fields fields j hj]
  cases hg : fields[j].group with
  | none => simp
  | some gi =>
    simp only
    have hg' : (fields.getD j default).group = some gi := by rw [getD_fields fields j hj]; exact hg
    obtain ⟨hl, v, hs, hv⟩ := oneof_slot P S g cs fields slots hc j hj gi hg'
    rw [getD_fields fields j hj] at hl hv
    rw [initSlot'_oneof g fields[j] gi hg (label_ne_rep hl)]
    by_cases hd : groupDone fields cs gi 0 = true
    · simp only [hd, if_true]
      have hcs : cs gi = 0 := by
        rcases hc.sel gi with h0 | ⟨j', hj', hsel⟩
        · exact h0
        · have := (groupDone_iff fields cs gi 0).1 hd j' hj' hsel; omega
      have hid : fields[j].id ≠ cs gi := by
        have := hids fields[j] (getElem_mem hj); omega
      rw [hs, hcs]
      simp only [hid, if_false] at hv
      rw [hv]
    · simp [hd]

theorem stateAt_full (g : Bool) (cs : Nat → Nat) (fields : List FieldDesc) (slots : List Slot)
    (hlen : slots.length = fields.length) : stateAt g cs fields slots fields.length = slots := by
  apply ext_getElem (by simp [stateAt, hlen])
  intro j h1 h2
  have hj : j < fields.length := by simpa [stateAt] using h1
  simp only [stateAt, getElem_map, getElem_range, entryAt]
  have hsl : slots.getD j default = slots[j] := by rw [getD_eq_getElem?_getD, getElem?_eq_getElem h2]; rfl
  cases hg : (fields.getD j default).group with
  | none => simp [hj, getElem?_eq_getElem h2]
  | some gi =>
    have : groupDone fields cs gi fields.length = true := (groupDone_iff _ _ _ _).2 (fun j' hj' _ => hj')
    simp [this, getElem?_eq_getElem h2]

/-! ### one step of the induction over slots -/

theorem setCase_length (F : List FieldDesc) (g c : Nat) : ∀ (fs : List FieldDesc) (ss : List Slot),
    (setCase F g c fs ss).length = ss.length
  | [], ss => by simp [setCase]
  | _ :: _, [] => by simp [setCase]
  | f :: fs, s :: ss => by simp [setCase, setCase_length F g c fs ss]

theorem getD_setCase (F : List FieldDesc) (g c : Nat) : ∀ (fs : List FieldDesc) (ss : List Slot) (j : Nat),
    fs.length = ss.length → j < ss.length →
    (setCase F g c fs ss).getD j default =
      if (fs.getD j default).group == some g then (match ss.getD j default with | .one _ v => .one c v | s => s)
      else ss.getD j default
  | [], [], j, _, hj => by simp at hj
  | [], _ :: _, _, h, _ => by simp at h
  | _ :: _, [], _, h, _ => by simp at h
  | f :: fs, s :: ss, 0, _, _ => by
    simp only [setCase, getD_cons_zero]
    split <;> rfl
  | f :: fs, s :: ss, j+1, h, hj => by
    have := getD_setCase F g c fs ss j (by simpa using h) (by simpa using hj)
    simpa [setCase] using this

theorem parse_oneof_single (S : Schema) (fields : List FieldDesc) (hd : IdsDistinct fields) (fuel : Nat)
    (k : Nat) (f : FieldDesc) (hk : k < fields.length) (hf : fields[k] = f) (hl : f.label = .optional ∨ f.label = .none)
    (gi : Nat) (hg : f.group = some gi) (v : Val) (hv : CanonElem1 S f v)
    (ih : ∀ m', v = .msg (some m') → ∃ fuel', fuel = fuel' + 1 ∧ unpackMsg S fuel' f.sub (packMsg S m') = some m')
    (ty : Nat) (sl : List Slot) (u : List Unk) (hs : getSlot sl k = .one 0 .zero) :
    parseMember S fuel fields (toScanned fields (elemRec S f v)) (.mk ty sl u) =
      some (.mk ty (setCase fields gi f.id fields (setSlot sl k (.one 0 v))) u) := by
  rw [toScanned_elemRec S fields hd k f hk hf v]
  have hfd : fields.getD k default = f := by rw [getD_eq_getElem?_getD, getElem?_eq_getElem hk]; simpa using hf
  have hpr := parseRequired_elem S f v hv fuel (some k) (getSlot sl k).v true
    (fun _ om => by rw [hs]; simp [Slot.v]) ih
  have hq : (getSlot sl k).q = 0 := by rw [hs]; rfl
  unfold parseMember
  simp only [hfd]
  rcases hl with hlab | hlab
  · simp only [hlab, hg, hq, bne_self_eq_false, Bool.false_and, Bool.false_eq_true, if_false, hpr, Option.map_some]
  · simp only [hlab, hg, hq, bne_self_eq_false, Bool.false_and, Bool.false_eq_true, if_false, hpr, Option.map_some]

theorem isSel_unique (fields : List FieldDesc) (hd : IdsDistinct fields) (cs : Nat → Nat) (gi j j' : Nat)
    (hj : j < fields.length) (hj' : j' < fields.length) (h : isSel fields cs gi j = true) (h' : isSel fields cs gi j' = true) :
    j = j' := by
  simp only [isSel, Bool.and_eq_true, beq_iff_eq] at h h'
  rw [getD_fields fields j hj] at h
  rw [getD_fields fields j' hj'] at h'
  have hd' : (fields.map (·.id)).Nodup := hd
  have he : fields[j].id = fields[j'].id := by rw [h.2, h'.2]
  apply Classical.byContradiction
  intro hne
  rcases Nat.lt_or_gt_of_ne hne with hlt | hgt
  · exact (pairwise_iff_getElem.1 hd') j j' (by simpa using hj) (by simpa using hj') hlt (by simpa using he)
  · exact (pairwise_iff_getElem.1 hd') j' j (by simpa using hj') (by simpa using hj) hgt (by simpa using he.symm)

/-- the done-status of a group changes from k to k+1 only if slot k is its selected member -/
theorem groupDone_succ (fields : List FieldDesc) (cs : Nat → Nat) (gi k : Nat) (hns : isSel fields cs gi k = false) :
    groupDone fields cs gi (k + 1) = groupDone fields cs gi k := by
  rw [Bool.eq_iff_iff, groupDone_iff, groupDone_iff]
  constructor
  · intro h j hj hs
    have := h j hj hs
    by_cases he : j = k
    · subst he; rw [hs] at hns; cases hns
    · omega
  · intro h j hj hs; have := h j hj hs; omega

theorem stateAt_get (g : Bool) (cs : Nat → Nat) (fields : List FieldDesc) (slots : List Slot) (k j : Nat)
    (h : j < (stateAt g cs fields slots k).length) : (stateAt g cs fields slots k)[j] = entryAt g cs fields slots k j := by
  simp [stateAt]

theorem entryAt_none (g : Bool) (cs : Nat → Nat) (fields : List FieldDesc) (slots : List Slot) (k j : Nat)
    (h : (fields.getD j default).group = none) :
    entryAt g cs fields slots k j = if j < k then slots.getD j default else initSlot' g (fields.getD j default) := by
  unfold entryAt; rw [h]

theorem entryAt_some (g : Bool) (cs : Nat → Nat) (fields : List FieldDesc) (slots : List Slot) (k j gi : Nat)
    (h : (fields.getD j default).group = some gi) :
    entryAt g cs fields slots k j = if groupDone fields cs gi k then slots.getD j default else .one 0 .zero := by
  unfold entryAt; rw [h]

theorem isSel_false_of_group (fields : List FieldDesc) (cs : Nat → Nat) (gj k : Nat)
    (h : (fields.getD k default).group ≠ some gj) : isSel fields cs gj k = false := by
  unfold isSel
  have : ((fields.getD k default).group == some gj) = false := by simpa using h
  rw [this]; rfl

theorem isSel_false_of_id (fields : List FieldDesc) (cs : Nat → Nat) (gj k : Nat)
    (h : (fields.getD k default).id ≠ cs gj) : isSel fields cs gj k = false := by
  unfold isSel
  have : ((fields.getD k default).id == cs gj) = false := by simpa using h
  rw [this]; simp

theorem isSel_intro (fields : List FieldDesc) (cs : Nat → Nat) (gj k : Nat)
    (h1 : (fields.getD k default).group = some gj) (h2 : (fields.getD k default).id = cs gj) : isSel fields cs gj k = true := by
  unfold isSel; rw [h1, h2]; simp

theorem lt_succ_of_ne {j k : Nat} (h : j ≠ k) : (j < k + 1) ↔ (j < k) := by omega

theorem ite_lt_succ {α} (j k : Nat) (h : j ≠ k) (a b : α) : (if j < k + 1 then a else b) = (if j < k then a else b) := by
  by_cases hlt : j < k
  · have : j < k + 1 := by omega
    simp only [hlt, this, if_true]
  · have : ¬ j < k + 1 := by omega
    simp only [hlt, this, if_false]

/-- **one step**: parsing the records of slot k takes the state after k slots to the state after k+1 slots -/
theorem step (P : Msg → Prop) (S : Schema) (fields : List FieldDesc) (hsch : SchemaOK fields) (g : Bool) (cs : Nat → Nat)
    (fuel : Nat) (hn : NestedOK P S fuel) (slots : List Slot) (hc : CanonO P S g cs fields slots) (ty : Nat) (u : List Unk)
    (k : Nat) (hk : k < fields.length) :
    parseAll S fuel fields ((recsSlot S (fields.getD k default) (slots.getD k default)).map (toScanned fields))
        (.mk ty (stateAt g cs fields slots k) u) = some (.mk ty (stateAt g cs fields slots (k + 1)) u) := by
  have hfk := getD_fields fields k hk
  have hks : k < (stateAt g cs fields slots k).length := by rw [stateAt_length]; exact hk
  cases hg : (fields.getD k default).group with
  | none =>
    have hcs : CanonSlotP P S g (fields.getD k default) (slots.getD k default) := by
      have := hc.slot k hk; unfold CanonSlotO at this; rw [hg] at this; exact this
    have hs : getSlot (stateAt g cs fields slots k) k = initSlot' g (fields.getD k default) := by
      rw [getSlot_stateAt g cs fields slots k k hk, entryAt_none g cs fields slots k k hg]
      simp only [Nat.lt_irrefl, if_false]
    rw [parse_slot P S fields hsch g fuel hn k (fields.getD k default) hk hfk.symm hg _ hcs ty _ u hks hs]
    congr 2
    apply ext_getElem (by simp only [setSlot, length_set, stateAt_length])
    intro j h1 h2
    have hj : j < fields.length := by rw [stateAt_length] at h2; exact h2
    rw [stateAt_get]
    simp only [setSlot, getElem_set]
    by_cases hjk : k = j
    · subst hjk
      rw [entryAt_none g cs fields slots (k + 1) k hg]
      simp only [Nat.lt_succ_self, if_true]
    · simp only [hjk, if_false, stateAt_get]
      have hjk' : j ≠ k := fun h => hjk h.symm
      cases hgj : (fields.getD j default).group with
      | none =>
        rw [entryAt_none g cs fields slots k j hgj, entryAt_none g cs fields slots (k + 1) j hgj, ite_lt_succ j k hjk']
      | some gj =>
        rw [entryAt_some g cs fields slots k j gj hgj, entryAt_some g cs fields slots (k + 1) j gj hgj,
          groupDone_succ fields cs gj k (isSel_false_of_group fields cs gj k (by rw [hg]; simp))]
  | some gi =>
    obtain ⟨hl, v, hsv, hv⟩ := oneof_slot P S g cs fields slots hc k hk gi hg
    rw [hsv, recsSlot_oneof P S (fields.getD k default) gi hg hl (cs gi) v hv]
    by_cases hsel : (fields.getD k default).id = cs gi
    · -- the selected member: its record sets the value and the case of the whole group
      simp only [hsel, if_true] at hv ⊢
      have hisel : isSel fields cs gi k = true := isSel_intro fields cs gi k hg hsel
      have hnd : groupDone fields cs gi k = false := by
        cases hgd : groupDone fields cs gi k with
        | false => rfl
        | true => have := (groupDone_iff fields cs gi k).1 hgd k hk hisel; omega
      have hdone : groupDone fields cs gi (k + 1) = true := by
        rw [groupDone_iff]; intro j' hj' hs'
        have := isSel_unique fields hsch.distinct cs gi j' k hj' hk hs' hisel; omega
      have hs : getSlot (stateAt g cs fields slots k) k = .one 0 .zero := by
        rw [getSlot_stateAt g cs fields slots k k hk, entryAt_some g cs fields slots k k gi hg, hnd]
        simp only [Bool.false_eq_true, if_false]
      simp only [map_cons, map_nil, parseAll]
      rw [parse_oneof_single S fields hsch.distinct fuel k (fields.getD k default) hk hfk.symm hl gi hg v hv.1
        (nested_of P S fuel hn _ v hv) ty _ u hs]
      simp only [Option.some.injEq]
      congr 1
      have hlen : fields.length = (setSlot (stateAt g cs fields slots k) k (.one 0 v)).length := by
        simp only [setSlot, length_set, stateAt_length]
      apply ext_getElem (by rw [setCase_length, ← hlen, stateAt_length])
      intro j h1 h2
      have hj : j < fields.length := by rw [stateAt_length] at h2; exact h2
      have hget := getD_setCase fields gi (fields.getD k default).id fields (setSlot (stateAt g cs fields slots k) k (.one 0 v)) j hlen
        (by rw [← hlen]; exact hj)
      rw [getD_eq_getElem?_getD, getElem?_eq_getElem h1] at hget
      simp only [Option.getD_some] at hget
      rw [hget, stateAt_get]
      have hsetget : (setSlot (stateAt g cs fields slots k) k (.one 0 v)).getD j default =
          if k = j then .one 0 v else entryAt g cs fields slots k j := by
        rw [getD_eq_getElem?_getD, getElem?_eq_getElem (by rw [← hlen]; exact hj)]
        simp only [Option.getD_some, setSlot, getElem_set, stateAt_get]
      rw [hsetget]
      by_cases hjk : k = j
      · subst hjk
        rw [hg, entryAt_some g cs fields slots (k + 1) k gi hg, hdone, hsv, hsel]
        simp only [beq_self_eq_true, if_true]
      · simp only [hjk, if_false]
        have hjk' : j ≠ k := fun h => hjk h.symm
        cases hgj : (fields.getD j default).group with
        | none =>
          rw [entryAt_none g cs fields slots k j hgj, entryAt_none g cs fields slots (k + 1) j hgj, ite_lt_succ j k hjk']
          simp only [show ((none : Option Nat) == some gi) = false from rfl, Bool.false_eq_true, if_false]
        | some gj =>
          by_cases hgg : gj = gi
          · subst hgg
            obtain ⟨_, vj, hsj, hvj⟩ := oneof_slot P S g cs fields slots hc j hj gj hgj
            have hnsj : (fields.getD j default).id ≠ cs gj := by
              intro hc2
              have := isSel_unique fields hsch.distinct cs gj j k hj hk (isSel_intro fields cs gj j hgj hc2) hisel
              exact hjk' this
            simp only [hnsj, if_false] at hvj
            rw [entryAt_some g cs fields slots k j gj hgj, entryAt_some g cs fields slots (k + 1) j gj hgj, hnd, hdone, hsj, hvj, hsel]
            simp only [beq_self_eq_true, if_true, Bool.false_eq_true, if_false]
          · have hne : (some gj == some gi) = false := by simpa using hgg
            simp only [hne, Bool.false_eq_true, if_false]
            rw [entryAt_some g cs fields slots k j gj hgj, entryAt_some g cs fields slots (k + 1) j gj hgj,
              groupDone_succ fields cs gj k (isSel_false_of_group fields cs gj k (by rw [hg]; simpa using (fun h : gi = gj => hgg h.symm)))]
    · -- a member that is not the selected one: no record, nothing changes
      simp only [hsel, if_false, map_nil, parseAll, Option.some.injEq]
      congr 1
      apply ext_getElem (by rw [stateAt_length, stateAt_length])
      intro j h1 h2
      rw [stateAt_get, stateAt_get]
      cases hgj : (fields.getD j default).group with
      | none =>
        have hjk : j ≠ k := by intro h; subst h; rw [hg] at hgj; cases hgj
        rw [entryAt_none g cs fields slots k j hgj, entryAt_none g cs fields slots (k + 1) j hgj, ite_lt_succ j k hjk]
      | some gj =>
        rw [entryAt_some g cs fields slots k j gj hgj, entryAt_some g cs fields slots (k + 1) j gj hgj]
        have hns : isSel fields cs gj k = false := by
          by_cases hgg : gi = gj
          · subst hgg; exact isSel_false_of_id fields cs gi k hsel
          · exact isSel_false_of_group fields cs gj k (by rw [hg]; simpa using hgg)
        rw [groupDone_succ fields cs gj k hns]

/-! ### all slots, and the message level -/

theorem parse_from (P : Msg → Prop) (S : Schema) (fields : List FieldDesc) (hsch : SchemaOK fields) (g : Bool) (cs : Nat → Nat)
    (fuel : Nat) (hn : NestedOK P S fuel) (slots : List Slot) (hc : CanonO P S g cs fields slots) (ty : Nat) (u : List Unk) :
    ∀ (d k : Nat), k + d = fields.length →
      parseAll S fuel fields ((recsSlots S (fields.drop k) (slots.drop k)).map (toScanned fields))
          (.mk ty (stateAt g cs fields slots k) u) = some (.mk ty (stateAt g cs fields slots fields.length) u)
  | 0, k, h => by
    have : k = fields.length := by omega
    subst this
    simp [recsSlots, parseAll]
  | d+1, k, h => by
    have hk : k < fields.length := by omega
    have hks : k < slots.length := by rw [hc.len]; exact hk
    rw [drop_eq_getElem_cons hk, drop_eq_getElem_cons hks]
    simp only [recsSlots, map_append, parseAll_append]
    have hst := step P S fields hsch g cs fuel hn slots hc ty u k hk
    rw [getD_fields fields k hk] at hst
    have hsl : slots.getD k default = slots[k] := by rw [getD_eq_getElem?_getD, getElem?_eq_getElem hks]; rfl
    rw [hsl] at hst
    rw [hst]
    simp only [Option.bind_some]
    exact parse_from P S fields hsch g cs fuel hn slots hc ty u d (k + 1) (by omega)

theorem slotsFramed_of_index (S : Schema) : ∀ (fs : List FieldDesc) (ss : List Slot), fs.length = ss.length →
    (∀ j, j < fs.length → SlotFramed S (fs.getD j default) (ss.getD j default)) → SlotsFramed S fs ss
  | [], [], _, _ => trivial
  | [], _ :: _, h, _ => by simp at h
  | _ :: _, [], h, _ => by simp at h
  | f :: fs, s :: ss, hl, h => by
    refine ⟨by simpa using h 0 (by simp), slotsFramed_of_index S fs ss (by simpa using hl) ?_⟩
    intro j hj
    have := h (j + 1) (by simpa using hj)
    simpa using this

theorem mem_recsSlots_of_index (S : Schema) : ∀ (fs : List FieldDesc) (ss : List Slot) (j : Nat), j < fs.length → j < ss.length →
    ∀ p, p ∈ recsSlot S (fs.getD j default) (ss.getD j default) → p ∈ recsSlots S fs ss
  | [], _, j, h, _, _, _ => by simp at h
  | _ :: _, [], j, _, h, _, _ => by simp at h
  | f :: fs, s :: ss, 0, _, _, p, hp => by
    simp only [recsSlots, mem_append]; left; simpa using hp
  | f :: fs, s :: ss, j+1, h1, h2, p, hp => by
    simp only [recsSlots, mem_append]; right
    exact mem_recsSlots_of_index S fs ss j (by simpa using h1) (by simpa using h2) p (by simpa using hp)

/-- a message in parser form, oneofs included, whose nested messages satisfy `P` -/
def CanonMsgO (P : Msg → Prop) (S : Schema) (m : Msg) : Prop :=
  SchemaOK (S.msg m.ty).fields ∧ (∀ f ∈ (S.msg m.ty).fields, DfltOK f) ∧
  (∃ cs, CanonO P S (S.msg m.ty).initGeneric cs (S.msg m.ty).fields m.slots) ∧
  (∀ u ∈ m.unk, UnkFramed (S.msg m.ty).fields u) ∧ (recsMsg S m).length ≤ maxScanned

theorem canonO_slotFramed (P : Msg → Prop) (S : Schema) (g : Bool) (cs : Nat → Nat) (f : FieldDesc) (hd : DfltOK f) (s : Slot)
    (h : CanonSlotO P S g cs f s) : SlotFramed S f s := by
  unfold CanonSlotO at h
  cases hg : f.group with
  | none => rw [hg] at h; exact canonSlot_framed P S g f hd s h
  | some gi =>
    rw [hg] at h
    obtain ⟨_, v, hs, hv⟩ := h
    rw [hs]
    show ElemFramed S f v
    by_cases hsel : f.id = cs gi
    · simp only [hsel, if_true] at hv; exact canon_framed S f v hv.1
    · simp only [hsel, if_false] at hv; rw [hv]; trivial

/-- **C01, one nesting level, oneofs included** -/
theorem roundtrip_level_oneof (P : Msg → Prop) (S : Schema) (fuel : Nat) (hn : NestedOK P S fuel) (m : Msg)
    (hm : CanonMsgO P S m) : unpackMsg S fuel m.ty (packMsg S m) = some m := by
  obtain ⟨hsch, hdf, ⟨cs, hc⟩, hunk, hcnt⟩ := hm
  cases m with
  | mk ty slots unk =>
    simp only [Msg.ty, Msg.slots, Msg.unk] at hsch hdf hc hunk
    have hslf : SlotsFramed S (S.msg ty).fields slots :=
      slotsFramed_of_index S _ _ hc.len.symm (fun j hj =>
        canonO_slotFramed P S _ cs _ (hdf _ (by rw [getD_fields _ j hj]; exact getElem_mem hj)) _ (hc.slot j hj))
    have hfr : MsgFramed S (.mk ty slots unk) := ⟨hslf, hunk⟩
    obtain ⟨st, hscan, hviews⟩ := pack_scans S (.mk ty slots unk) hsch hfr hcnt
    have hacc := of_views (S.msg ty).fields _ _ hviews
    simp only [Msg.ty] at hscan hacc
    simp only [unpackMsg, Msg.ty]
    rw [show (⟨if (S.msg ty).fields.isEmpty then none else some 0, 0, [], [], [], 0⟩ : ScanState) = scan0 (S.msg ty).fields from rfl,
      hscan]
    simp only
    have hinv := Pbc.Props.C11.scanLoop_inv (S.msg ty).fields _ _ _ st (Pbc.Props.C11.init_inv _) hscan
    have hbits : ((List.range (S.msg ty).fields.length).any (fun i =>
        let f := (S.msg ty).fields.getD i default
        f.label == .required && f.dflt == .none && !st.bitmap.contains i)) = false := by
      rw [List.any_eq_false]
      intro i hi
      have hi' : i < (S.msg ty).fields.length := by simpa using hi
      simp only [Bool.and_eq_true, beq_iff_eq, Bool.not_eq_true', not_and, Bool.not_eq_false]
      intro hlab0
      have hlab := hlab0.1
      -- a required field is not a oneof member, so its slot is written
      have hslot := hc.slot i hi'
      have hgn : ((S.msg ty).fields.getD i default).group = none := by
        cases hgg : ((S.msg ty).fields.getD i default).group with
        | none => rfl
        | some gi =>
          unfold CanonSlotO at hslot; rw [hgg] at hslot
          rcases hslot.1 with h | h <;> rw [hlab] at h <;> cases h
      unfold CanonSlotO at hslot; rw [hgn] at hslot
      have hrec : ∃ p ∈ recsSlot S ((S.msg ty).fields.getD i default) (slots.getD i default),
          p.1.tag = ((S.msg ty).fields.getD i default).id := by
        cases hsl : slots.getD i default with
        | rep n arr => rw [hsl] at hslot; cases arr <;> (have := hslot.1; rw [hlab] at this; cases this)
        | one q v =>
          have hw : writes ((S.msg ty).fields.getD i default) q v = true := by unfold writes; rw [hlab]
          refine ⟨elemRec S _ v, ?_, rfl⟩
          rw [recsSlot_one S _ q v hgn, hw]
          simp only [if_true, mem_cons, not_mem_nil, or_false]
      obtain ⟨p, hp, htag⟩ := hrec
      have hp' := mem_recsSlots_of_index S _ slots i hi' (by rw [hc.len]; exact hi') p hp
      have hmem : toScanned (S.msg ty).fields p ∈ st.acc := by
        have : toScanned (S.msg ty).fields p ∈ st.acc.reverse := by
          rw [hacc]; exact mem_map_of_mem (by simp only [recsMsg, mem_append]; exact Or.inl hp')
        simpa using this
      have hfidx : (toScanned (S.msg ty).fields p).fidx = some i := by
        simp only [toScanned, htag]
        exact findIdx_of_id hsch.distinct hi' (by rw [getD_fields _ i hi'])
      have := (hinv.bits i).2 ⟨_, hmem, hfidx, hlab⟩
      simpa using this
    simp only [hbits, Bool.false_eq_true, if_false]
    rw [hacc, initMsg_eq]
    simp only [recsMsg, map_append, parseAll_append]
    have hids : ∀ f ∈ (S.msg ty).fields, 0 < f.id := fun f hf => (hsch.ids f hf).1
    have h0 := stateAt_zero P S (S.msg ty).initGeneric cs (S.msg ty).fields slots hids hc
    have h1 := parse_from P S (S.msg ty).fields hsch (S.msg ty).initGeneric cs fuel hn slots hc ty [] (S.msg ty).fields.length 0 (by omega)
    simp only [drop_zero] at h1
    rw [← h0, h1, stateAt_full _ cs _ slots hc.len]
    simp only [Option.bind_some, map_map]
    have h2 := parse_unknown S fuel (S.msg ty).fields ty slots unk [] hunk
    simpa [Function.comp_def] using h2

/-- canonical messages of nesting depth at most k, oneofs included -/
def CanonNO (S : Schema) : Nat → Msg → Prop
  | 0, m => CanonMsgO (fun _ => False) S m
  | k+1, m => CanonMsgO (CanonNO S k) S m

/-- **C01 (message level): parse ∘ serialise = identity**, for every schema — oneofs included — and every message in
    parser form: every field type and label, packed and unpacked repeated fields, oneof groups (unset, or with any member
    selected), NUL-free strings, bytes, unknown fields, nested messages to any depth k; with any fuel ≥ k. -/
theorem roundtrip (S : Schema) : ∀ (k : Nat) (m : Msg) (fuel : Nat), CanonNO S k m → k ≤ fuel →
    unpackMsg S fuel m.ty (packMsg S m) = some m
  | 0, m, fuel, hm, _ => roundtrip_level_oneof _ S fuel (fun _ h => absurd h (by simp)) m hm
  | k+1, m, fuel, hm, hf => by
    apply roundtrip_level_oneof (CanonNO S k) S fuel ?_ m hm
    intro m' hm'
    cases fuel with
    | zero => omega
    | succ fuel' => exact ⟨fuel', rfl, roundtrip S k m' fuel' hm' (by omega)⟩

theorem unpack_pack (S : Schema) (k : Nat) (m : Msg) (hm : CanonNO S k m) (hk : k ≤ (packMsg S m).length + 1) :
    unpack S m.ty (packMsg S m) = some m :=
  roundtrip S k m _ hm hk

/-! non-vacuity: message M { optional int32 a = 1; oneof g0 { sint32 o = 4; string t = 5; M sub = 6; } } with member t selected -/
def exS3 : Schema := [{ name := "M", initGeneric := false, nGroups := 1, fields := [
  { name := "a", id := 1, label := .optional, type := .int32, packed := false, group := none, sub := 0, dflt := .none, init := none },
  { name := "o", id := 4, label := .optional, type := .sint32, packed := false, group := some 0, sub := 0, dflt := .none, init := none },
  { name := "t", id := 5, label := .optional, type := .string, packed := false, group := some 0, sub := 0, dflt := .none, init := none },
  { name := "sub", id := 6, label := .optional, type := .message, packed := false, group := some 0, sub := 0, dflt := .none, init := none }] }]
def exM3 : Msg := .mk 0 [.one 0 (.w32 0), .one 5 .zero, .one 5 (.str .own [104, 105]), .one 5 .zero] []
def exCs : Nat → Nat := fun gi => if gi = 0 then 5 else 0

theorem exM3_canon : CanonNO exS3 0 exM3 := by
  refine ⟨⟨by unfold IdsDistinct; decide, by decide, by decide⟩, ?_, ⟨exCs, ⟨rfl, ?_, ?_⟩⟩, by simp [exM3, Msg.unk], by decide⟩
  · intro f hf
    simp only [exM3, Msg.ty, exS3, Schema.msg, getD_cons_zero, mem_cons, not_mem_nil, or_false] at hf
    rcases hf with rfl | rfl | rfl | rfl <;> simp [DfltOK]
  · intro j hj
    have hj4 : j < 4 := hj
    have : j = 0 ∨ j = 1 ∨ j = 2 ∨ j = 3 := by omega
    rcases this with rfl | rfl | rfl | rfl <;>
      simp [exM3, Msg.ty, Msg.slots, exS3, Schema.msg, CanonSlotO, CanonSlotP, CanonElemP, CanonElem1, writes, exCs,
        initSlot', initSlotGen, dfltVal, zeroVal, PType.is32, FieldDesc.isOneof]
  · intro gi
    by_cases h : gi = 0
    · subst h; right; exact ⟨2, by decide, by decide⟩
    · left; simp [exCs, h]

example : unpack exS3 0 (packMsg exS3 exM3) = some exM3 := unpack_pack exS3 0 exM3 exM3_canon (by decide)
example : (packMsg exS3 exM3).map (·.toNat) = [42, 2, 104, 105] := by decide

end Pbc.Props.C01
