import Pbc.Model.HeapUnpack
/-
  C07 / C08 -- allocator discipline (the part proved so far; see DESIGN.md for what is tied by
  trace correspondence only).
  * `freeMsg` (protobuf_c_message_free_unpacked) releases exactly the blocks the message owns,
    each once, in a fixed order, and nothing else: static defaults (`PtrC.dflt`, `.empty`) carry no
    block and are never passed to the allocator's free.
  * a refused first allocation makes `unpack` fail with nothing outstanding;
  * `Balanced` is decidable, so the driver evaluates it on every log it produces.
-/
namespace Pbc.Props.C07
open Pbc Pbc.Model

mutual
/-- the blocks a value / message owns, in the order free_unpacked releases them -/
def ownedVal (S : Schema) : HVal → List Nat
  | .str .own id _ => [id]
  | .bin _ .own id _ => [id]
  | .msg (some m) => ownedMsg S m
  | _ => []
def ownedVals (S : Schema) : List HVal → List Nat
  | [] => []
  | v :: vs => ownedVal S v ++ ownedVals S vs
def ownedSlot (S : Schema) (f : FieldDesc) : HSlot → List Nat
  | .rep _ none => []
  | .rep _ (some (id, l)) => ownedVals S l ++ [id]
  | .one q v => if f.isOneof && f.id != q then [] else ownedVal S v
def ownedSlots (S : Schema) : List FieldDesc → List HSlot → List Nat
  | f :: fs, s :: ss => ownedSlot S f s ++ ownedSlots S fs ss
  | _, _ => []
def ownedMsg (S : Schema) : HMsg → List Nat
  | .mk ty id slots tbl unk =>
    ownedSlots S (S.msg ty).fields slots ++ unk.filterMap (·.2) ++ tbl.toList ++ [id]
end

def frees (ids : List Nat) : List Ev := ids.map .free

theorem free_log (h : Heap) (id : Nat) : (h.free id).log = h.log ++ [.free id] := rfl

theorem foldl_free_log (unk : List (Unk × Option Nat)) (h : Heap) :
    (unk.foldl freeUnkData h).log =
      h.log ++ frees (unk.filterMap (·.2)) := by
  induction unk generalizing h with
  | nil => simp [frees]
  | cons u us ih =>
    simp only [List.foldl_cons]
    rw [ih]
    cases hu : u.2 with
    | none => simp [List.filterMap_cons, hu, freeUnkData]
    | some i => simp [List.filterMap_cons, hu, free_log, frees, freeUnkData]

mutual
theorem freeVal_log (S : Schema) : ∀ (v : HVal) (h : Heap), (freeVal S v h).log = h.log ++ frees (ownedVal S v)
  | .str p id s, h => by cases p <;> simp [freeVal, ownedVal, frees, free_log]
  | .bin l p id d, h => by cases p <;> simp [freeVal, ownedVal, frees, free_log]
  | .msg (some m), h => by simp only [freeVal, ownedVal]; exact freeMsg_log S m h
  | .msg none, h => by simp [freeVal, ownedVal, frees]
  | .w32 _, h => by simp [freeVal, ownedVal, frees]
  | .w64 _, h => by simp [freeVal, ownedVal, frees]
  | .zero, h => by simp [freeVal, ownedVal, frees]

theorem freeVals_log (S : Schema) : ∀ (l : List HVal) (h : Heap), (freeVals S l h).log = h.log ++ frees (ownedVals S l)
  | [], h => by simp [freeVals, ownedVals, frees]
  | v :: vs, h => by
    simp only [freeVals, ownedVals]
    rw [freeVals_log S vs, freeVal_log S v]
    simp [frees, List.append_assoc]

theorem freeSlot_log (S : Schema) (f : FieldDesc) : ∀ (s : HSlot) (h : Heap),
    (freeSlot S f s h).log = h.log ++ frees (ownedSlot S f s)
  | .rep n none, h => by simp [freeSlot, ownedSlot, frees]
  | .rep n (some (id, l)), h => by
    simp only [freeSlot, ownedSlot, free_log, freeVals_log S l h]
    simp [frees, List.append_assoc]
  | .one q v, h => by
    simp only [freeSlot, ownedSlot]
    split
    · simp [frees]
    · exact freeVal_log S v h

theorem freeSlots_log (S : Schema) : ∀ (fs : List FieldDesc) (ss : List HSlot) (h : Heap),
    (freeSlots S fs ss h).log = h.log ++ frees (ownedSlots S fs ss)
  | [], _, h => by simp [freeSlots, ownedSlots, frees]
  | _ :: _, [], h => by simp [freeSlots, ownedSlots, frees]
  | f :: fs, s :: ss, h => by
    simp only [freeSlots, ownedSlots]
    rw [freeSlots_log S fs ss, freeSlot_log S f s h]
    simp [frees, List.append_assoc]

/-- C07: `free_unpacked` hands back exactly the blocks the message owns, each once, and nothing else -/
theorem freeMsg_log (S : Schema) : ∀ (m : HMsg) (h : Heap), (freeMsg S m h).log = h.log ++ frees (ownedMsg S m)
  | .mk ty id slots tbl unk, h => by
    have h1 := freeSlots_log S (S.msg ty).fields slots h
    have h2 := foldl_free_log unk (freeSlots S (S.msg ty).fields slots h)
    cases tbl with
    | none =>
      simp only [freeMsg, ownedMsg, free_log]
      rw [h2, h1]
      simp [frees, List.append_assoc]
    | some t =>
      simp only [freeMsg, ownedMsg, free_log]
      rw [h2, h1]
      simp [frees, List.append_assoc]
end

/-- C08, first request: if the allocation of the message itself is refused, `unpack` returns NULL
    having requested exactly one block and released none -/
theorem first_alloc_refused (S : Schema) (σ : Nat → Bool) (fuel t : Nat) (b : Bytes) (hσ : σ 0 = true) :
    unpackMsgH S σ fuel t b {} = (none, { next := 0, reqs := 1, log := [.refuse (sizeofMsg (S.msg t))] }) := by
  rw [unpackMsgH]
  simp [Heap.alloc, hσ]

/-! non-vacuity: a message owning a string, an array of two bytes values and an unknown field -/
def exS : Schema := [
  { name := "A", fields := [
      { name := "s", id := 1, label := .optional, type := .string, packed := false, group := none, sub := 0, dflt := .none, init := none },
      { name := "r", id := 2, label := .repeated, type := .bytes, packed := false, group := none, sub := 0, dflt := .none, init := none }],
    initGeneric := false, nGroups := 0 }]
def exM : HMsg :=
  .mk 0 0 [.one 0 (.str .own 3 [65]), .rep 2 (some (1, [.bin 1 .own 4 [7], .bin 0 .null 0 []]))] (some 2) [(⟨9, 0, [1]⟩, some 5)]
example : ownedMsg exS exM = [3, 4, 1, 5, 2, 0] := by decide

end Pbc.Props.C07
