import Pbc.Props.C07
import Pbc.Props.C06b
/-
  C07 / C08 — accounting of the caller's allocator over the whole parse: the blocks outstanding after a log.
-/
namespace Pbc.Props.C07
open Pbc Pbc.Model List

/-! ### the blocks outstanding after a log -/

theorem liveAfter_append : ∀ (l1 l2 : List Ev) (init : List Nat),
    liveAfter (l1 ++ l2) init = (liveAfter l1 init).bind (liveAfter l2)
  | [], l2, init => by simp [liveAfter]
  | .alloc id sz :: es, l2, init => by simp only [cons_append, liveAfter]; exact liveAfter_append es l2 _
  | .refuse sz :: es, l2, init => by simp only [cons_append, liveAfter]; exact liveAfter_append es l2 _
  | .free id :: es, l2, init => by
    simp only [cons_append, liveAfter]
    split
    · exact liveAfter_append es l2 _
    · rfl

/-- `L` is (a permutation of) the blocks outstanding after the heap's log; ids are handed out in increasing order -/
structure Acct (h : Heap) (L : List Nat) : Prop where
  live : ∃ L', liveAfter h.log [] = some L' ∧ L'.Perm L
  fresh : ∀ id ∈ L, id < h.next
  nodup : L.Nodup

theorem acct_perm {h : Heap} {L L2 : List Nat} (a : Acct h L) (p : L.Perm L2) : Acct h L2 := by
  obtain ⟨⟨L', h1, h2⟩, hf, hn⟩ := a
  exact ⟨⟨L', h1, h2.trans p⟩, fun id hid => hf id (p.symm.subset hid), (p.nodup_iff).1 hn⟩

theorem acct_empty : Acct {} [] := ⟨⟨[], rfl, Perm.refl _⟩, by simp, by simp⟩

theorem acct_alloc {σ : Nat → Bool} {h : Heap} {L : List Nat} {n : Nat} (a : Acct h L) (h' : Heap) :
    (∀ id, h.alloc σ n = (some id, h') → Acct h' (id :: L)) ∧ (h.alloc σ n = (none, h') → Acct h' L) := by
  obtain ⟨⟨L', h1, h2⟩, hf, hn⟩ := a
  unfold Heap.alloc
  constructor
  · intro id hh
    split at hh
    · cases hh
    · simp only [Prod.mk.injEq, Option.some.injEq] at hh
      obtain ⟨rfl, rfl⟩ := hh
      refine ⟨⟨h.next :: L', ?_, Perm.cons _ h2⟩, ?_, ?_⟩
      · simp only
        rw [liveAfter_append, h1]
        rfl
      · intro id hid
        simp only [mem_cons] at hid
        rcases hid with rfl | hid
        · simp
        · have := hf id hid; simp; omega
      · refine nodup_cons.2 ⟨?_, hn⟩
        intro hm
        have := hf _ hm
        omega
  · intro hh
    split at hh
    · simp only [Prod.mk.injEq, true_and] at hh
      subst hh
      refine ⟨⟨L', ?_, h2⟩, hf, hn⟩
      simp only
      rw [liveAfter_append, h1]
      rfl
    · cases hh

theorem liveAfter_perm_free (L' L : List Nat) (p : L'.Perm L) (id : Nat) (hid : id ∈ L) :
    id ∈ L' ∧ (L'.erase id).Perm (L.erase id) :=
  ⟨p.symm.subset hid, p.erase id⟩

theorem acct_free {h : Heap} {L : List Nat} (a : Acct h L) (id : Nat) (hid : id ∈ L) : Acct (h.free id) (L.erase id) := by
  obtain ⟨⟨L', h1, h2⟩, hf, hn⟩ := a
  obtain ⟨hm, hp⟩ := liveAfter_perm_free L' L h2 id hid
  refine ⟨⟨L'.erase id, ?_, hp⟩, fun x hx => hf x (mem_of_mem_erase hx), hn.erase id⟩
  show liveAfter (h.log ++ [.free id]) [] = _
  rw [liveAfter_append, h1]
  simp [liveAfter, hm]

/-- freeing a block that heads the list -/
theorem acct_free_head {h : Heap} {L : List Nat} {id : Nat} (a : Acct h (id :: L)) : Acct (h.free id) L := by
  have := acct_free a id (mem_cons_self ..)
  simpa using this

/-- freeing a whole list of owned blocks, in order -/
theorem acct_frees : ∀ (ids : List Nat) {h : Heap} {R : List Nat}, Acct h (ids ++ R) →
    Acct (ids.foldl (fun h i => h.free i) h) R
  | [], h, R, a => by simpa using a
  | i :: ids, h, R, a => by
    simp only [foldl_cons]
    exact acct_frees ids (acct_free_head (by simpa using a))

/-! ### releasing never hands out ids -/
theorem free_next (h : Heap) (id : Nat) : (h.free id).next = h.next := rfl

theorem foldl_free_next (unk : List (Unk × Option Nat)) (h : Heap) : (unk.foldl freeUnkData h).next = h.next := by
  induction unk generalizing h with
  | nil => rfl
  | cons u us ih =>
    simp only [foldl_cons]
    rw [ih]
    unfold freeUnkData
    cases u.2 <;> rfl

mutual
theorem freeVal_next (S : Schema) : ∀ (v : HVal) (h : Heap), (freeVal S v h).next = h.next
  | .str p id s, h => by cases p <;> simp [freeVal, free_next]
  | .bin l p id d, h => by cases p <;> simp [freeVal, free_next]
  | .msg (some m), h => by simp only [freeVal]; exact freeMsg_next S m h
  | .msg none, h => by simp [freeVal]
  | .w32 _, h => by simp [freeVal]
  | .w64 _, h => by simp [freeVal]
  | .zero, h => by simp [freeVal]

theorem freeVals_next (S : Schema) : ∀ (l : List HVal) (h : Heap), (freeVals S l h).next = h.next
  | [], h => by simp [freeVals]
  | v :: vs, h => by simp only [freeVals]; rw [freeVals_next S vs, freeVal_next S v]

theorem freeSlot_next (S : Schema) (f : FieldDesc) : ∀ (s : HSlot) (h : Heap), (freeSlot S f s h).next = h.next
  | .rep n none, h => by simp [freeSlot]
  | .rep n (some (id, l)), h => by simp only [freeSlot, free_next, freeVals_next S l h]
  | .one q v, h => by
    simp only [freeSlot]
    split
    · rfl
    · exact freeVal_next S v h

theorem freeSlots_next (S : Schema) : ∀ (fs : List FieldDesc) (ss : List HSlot) (h : Heap),
    (freeSlots S fs ss h).next = h.next
  | [], _, h => by simp [freeSlots]
  | _ :: _, [], h => by simp [freeSlots]
  | f :: fs, s :: ss, h => by simp only [freeSlots]; rw [freeSlots_next S fs ss, freeSlot_next S f s h]

theorem freeMsg_next (S : Schema) : ∀ (m : HMsg) (h : Heap), (freeMsg S m h).next = h.next
  | .mk ty id slots tbl unk, h => by
    have h1 := freeSlots_next S (S.msg ty).fields slots h
    have h2 := foldl_free_next unk (freeSlots S (S.msg ty).fields slots h)
    cases tbl with
    | none => simp only [freeMsg, free_next]; rw [h2, h1]
    | some t => simp only [freeMsg, free_next]; rw [h2, h1]
end

/-- an `Acct` only looks at the log and the next id -/
theorem acct_of_log {h h2 : Heap} {L : List Nat} (a : Acct h L) (hl : h2.log = h.log) (hn : h2.next = h.next) : Acct h2 L := by
  obtain ⟨⟨L', h1, hp⟩, hf, hnd⟩ := a
  exact ⟨⟨L', by rw [hl]; exact h1, hp⟩, fun id hid => by rw [hn]; exact hf id hid, hnd⟩

theorem foldl_free_log' (ids : List Nat) (h : Heap) : (ids.foldl (fun h i => h.free i) h).log = h.log ++ frees ids := by
  induction ids generalizing h with
  | nil => simp [frees]
  | cons i is ih => simp only [foldl_cons]; rw [ih]; simp [frees, free_log]

theorem foldl_free_next' (ids : List Nat) (h : Heap) : (ids.foldl (fun h i => h.free i) h).next = h.next := by
  induction ids generalizing h with
  | nil => rfl
  | cons i is ih => simp only [foldl_cons]; rw [ih]; rfl

/-- **`free_unpacked` returns exactly what the message owns**: whatever else is outstanding stays outstanding -/
theorem acct_freeMsg (S : Schema) (m : HMsg) {h : Heap} {R : List Nat} (a : Acct h (ownedMsg S m ++ R)) :
    Acct (freeMsg S m h) R := by
  have := acct_frees (ownedMsg S m) a
  exact acct_of_log this (by rw [freeMsg_log, foldl_free_log']) (by rw [freeMsg_next, foldl_free_next'])

theorem acct_freeVal (S : Schema) (v : HVal) {h : Heap} {R : List Nat} (a : Acct h (ownedVal S v ++ R)) :
    Acct (freeVal S v h) R := by
  have := acct_frees (ownedVal S v) a
  exact acct_of_log this (by rw [freeVal_log, foldl_free_log']) (by rw [freeVal_next, foldl_free_next'])

/-- C07: parse, then free: nothing outstanding -/
theorem balanced_of_acct {h : Heap} (a : Acct h []) : Balanced h.log := by
  obtain ⟨⟨L', h1, hp⟩, _, _⟩ := a
  have : L' = [] := by simpa using hp.eq_nil
  subst this
  exact h1

/-! ### what one slot contributes to the blocks a message owns -/

theorem ownedSlots_split (S : Schema) : ∀ (fs : List FieldDesc) (ss : List HSlot) (i : Nat), i < fs.length → i < ss.length →
    ∃ A B, ∀ s', ownedSlots S fs (ss.set i s') = A ++ ownedSlot S (fs.getD i default) s' ++ B
  | [], _, _, h, _ => by simp at h
  | _ :: _, [], _, _, h => by simp at h
  | f :: fs, s :: ss, 0, _, _ => ⟨[], ownedSlots S fs ss, fun s' => by simp [ownedSlots]⟩
  | f :: fs, s :: ss, i+1, h1, h2 => by
    obtain ⟨A, B, hAB⟩ := ownedSlots_split S fs ss i (by simpa using h1) (by simpa using h2)
    refine ⟨ownedSlot S f s ++ A, B, fun s' => ?_⟩
    simp only [set_cons_succ, ownedSlots, getD_cons_succ, hAB s', append_assoc]

theorem set_getD_self (ss : List HSlot) (i : Nat) (h : i < ss.length) : ss.set i (ss.getD i default) = ss := by
  apply ext_getElem
  · simp
  · intro j h1 h2
    by_cases hji : i = j
    · subst hji; simp [getD_eq_getElem?_getD, h]
    · simp [getElem_set_ne hji]

theorem perm_mid (A O T : List Nat) : (A ++ (O ++ T)).Perm (O ++ (A ++ T)) := by
  rw [← append_assoc, ← append_assoc]
  exact Perm.append_right _ perm_append_comm

/-- the blocks of a message, with the contribution of slot i exposed -/
theorem ownedMsg_split (S : Schema) (ty id : Nat) (slots : List HSlot) (tbl : Option Nat) (unk : List (Unk × Option Nat))
    (i : Nat) (h1 : i < (S.msg ty).fields.length) (h2 : i < slots.length) :
    ∃ X, (∀ s' tbl' unk', (ownedMsg S (.mk ty id (hsetSlot slots i s') tbl' unk')).Perm
        (ownedSlot S ((S.msg ty).fields.getD i default) s' ++ (X ++ (unk'.filterMap (·.2) ++ (tbl'.toList ++ [id]))))) := by
  obtain ⟨A, B, hAB⟩ := ownedSlots_split S (S.msg ty).fields slots i h1 h2
  refine ⟨A ++ B, fun s' tbl' unk' => ?_⟩
  simp only [ownedMsg, hsetSlot, hAB s', append_assoc]
  exact perm_mid A _ _

/-! ### one member -/

/-- the statement of the whole-call theorem at one recursion depth -/
def UnpackAcct (S : Schema) (σ : Nat → Bool) (fuel : Nat) : Prop :=
  ∀ (t : Nat) (b : Bytes) (h : Heap) (L : List Nat), Acct h L →
    match unpackMsgH S σ fuel t b h with
    | (none, h') => Acct h' L
    | (some m, h') => Acct h' (ownedMsg S m ++ L)

/-- what the proof for depth `fuel` may assume about embedded messages -/
def RecOk (S : Schema) (σ : Nat → Bool) (fuel : Nat) : Prop := ∀ fuel', fuel = fuel' + 1 → UnpackAcct S σ fuel'

/-- an element of a repeated message field: `parse_required_member` on a zeroed slot -/
theorem parseRequiredH_msg_elem (S : Schema) (σ : Nat → Bool) (fuel' : Nat) (f : FieldDesc) (sm : Scanned) (h : Heap)
    (hw : (!wtOk f.type sm.wt) = false) (hft : f.type = .message) :
    parseRequiredH S σ (fuel' + 1) f sm .zero false h =
      (match unpackMsgH S σ fuel' f.sub (sm.data.drop sm.prefLen) h with
       | (none, h1) => (false, .msg none, h1)
       | (some m, h1) => (true, .msg (some m), h1)) := by
  unfold parseRequiredH
  have hw2 := hw
  rw [hft] at hw2
  simp only [hft, hw2, Bool.false_eq_true, if_false]
  cases unpackMsgH S σ fuel' f.sub (sm.data.drop sm.prefLen) h with
  | mk sub h1 => cases sub <;> rfl

/-- how a value may own memory, given its field's type: exactly what `parse_required_member` releases when it
    overwrites the member -/
def OwnOk (S : Schema) (f : FieldDesc) (v : HVal) : Prop :=
  ownedVal S v = [] ∨ (f.type = .string ∧ ∃ id s, v = .str .own id s) ∨ (f.type = .bytes ∧ ∃ l id d, v = .bin l .own id d)

def relStr (old : HVal) (mc : Bool) (h : Heap) : Heap :=
  match old, mc with
  | .str .own id _, true => h.free id
  | _, _ => h

def relBin (old : HVal) (mc : Bool) (h : Heap) : Heap :=
  match old, mc with
  | .bin _ .own id _, true => h.free id
  | _, _ => h

theorem relStr_acct (S : Schema) (f : FieldDesc) (old : HVal) (mc : Bool) (hft : f.type = .string)
    (hold : OwnOk S f old) (hmc : mc = false → ownedVal S old = []) {h : Heap} {R : List Nat}
    (a : Acct h (ownedVal S old ++ R)) : Acct (relStr old mc h) R := by
  rcases hold with h0 | ⟨_, id, s, rfl⟩ | ⟨hb, _⟩
  · rw [h0] at a
    have a' : Acct h R := by simpa using a
    unfold relStr
    cases old with
    | str p id s => cases p <;> cases mc <;> first | exact a' | (simp [ownedVal] at h0)
    | _ => exact a'
  · cases mc with
    | true => exact acct_free_head (by simpa [ownedVal] using a)
    | false => have := hmc rfl; simp [ownedVal] at this
  · rw [hft] at hb; cases hb

theorem relBin_acct (S : Schema) (f : FieldDesc) (old : HVal) (mc : Bool) (hft : f.type = .bytes)
    (hold : OwnOk S f old) (hmc : mc = false → ownedVal S old = []) {h : Heap} {R : List Nat}
    (a : Acct h (ownedVal S old ++ R)) : Acct (relBin old mc h) R := by
  rcases hold with h0 | ⟨hs, _⟩ | ⟨_, l, id, d, rfl⟩
  · rw [h0] at a
    have a' : Acct h R := by simpa using a
    unfold relBin
    cases old with
    | bin l p id d => cases p <;> cases mc <;> first | exact a' | (simp [ownedVal] at h0)
    | _ => exact a'
  · rw [hft] at hs; cases hs
  · cases mc with
    | true => exact acct_free_head (by simpa [ownedVal] using a)
    | false => have := hmc rfl; simp [ownedVal] at this

theorem parseRequiredH_string (S : Schema) (σ : Nat → Bool) (fuel : Nat) (f : FieldDesc) (sm : Scanned) (old : HVal) (mc : Bool)
    (h : Heap) (hw : (!wtOk f.type sm.wt) = false) (hft : f.type = .string) :
    parseRequiredH S σ fuel f sm old mc h =
      (match (relStr old mc h).alloc σ ((sm.data.drop sm.prefLen).length + 1) with
       | (none, h2) => (false, .str .null 0 [], h2)
       | (some id, h2) => (true, .str .own id ((sm.data.drop sm.prefLen).takeWhile (fun b => b != 0)), h2)) := by
  unfold parseRequiredH relStr
  have hw2 := hw
  rw [hft] at hw2
  simp only [hft, hw2, Bool.false_eq_true, if_false]
  cases old with
  | str p id s => cases p <;> cases mc <;> rfl
  | _ => cases mc <;> rfl

theorem parseRequiredH_bytes (S : Schema) (σ : Nat → Bool) (fuel : Nat) (f : FieldDesc) (sm : Scanned) (old : HVal) (mc : Bool)
    (h : Heap) (hw : (!wtOk f.type sm.wt) = false) (hft : f.type = .bytes) :
    parseRequiredH S σ fuel f sm old mc h =
      (if (sm.data.drop sm.prefLen).length > 0 then
        (match (relBin old mc h).alloc σ (sm.data.drop sm.prefLen).length with
         | (none, h2) => (false, .bin (match old with | .bin l _ _ _ => l | _ => 0) .null 0 [], h2)
         | (some id, h2) => (true, .bin (sm.data.drop sm.prefLen).length .own id (sm.data.drop sm.prefLen), h2))
       else (true, .bin 0 .null 0 [], relBin old mc h)) := by
  unfold parseRequiredH relBin
  have hw2 := hw
  rw [hft] at hw2
  simp only [hft, hw2, Bool.false_eq_true, if_false]
  cases old with
  | bin l p id d => cases p <;> cases mc <;> rfl
  | _ => cases mc <;> rfl

theorem parseRequiredH_acct (S : Schema) (σ : Nat → Bool) (fuel : Nat) (f : FieldDesc) (sm : Scanned) (old : HVal) (mc : Bool)
    (hnm : f.type ≠ .message) (hold : OwnOk S f old) (hmc : mc = false → ownedVal S old = [])
    {h : Heap} {R : List Nat} (a : Acct h (ownedVal S old ++ R)) :
    Acct (parseRequiredH S σ fuel f sm old mc h).2.2 (ownedVal S (parseRequiredH S σ fuel f sm old mc h).2.1 ++ R) ∧
    OwnOk S f (parseRequiredH S σ fuel f sm old mc h).2.1 := by
  by_cases hw : (!wtOk f.type sm.wt) = true
  · have : parseRequiredH S σ fuel f sm old mc h = (false, old, h) := by unfold parseRequiredH; simp [hw]
    rw [this]; exact ⟨a, hold⟩
  · have hw' : (!wtOk f.type sm.wt) = false := by simpa using hw
    cases hft : f.type with
    | message => exact absurd hft hnm
    | string =>
      rw [parseRequiredH_string S σ fuel f sm old mc h hw' hft]
      have h1 := relStr_acct S f old mc hft hold hmc a
      generalize relStr old mc h = hh at h1
      have ha := acct_alloc (σ := σ) (n := (sm.data.drop sm.prefLen).length + 1) h1
      cases hal : hh.alloc σ ((sm.data.drop sm.prefLen).length + 1) with
      | mk oid h2 =>
        cases oid with
        | none => exact ⟨by simpa [ownedVal] using (ha h2).2 hal, Or.inl rfl⟩
        | some id => exact ⟨by simpa [ownedVal] using (ha h2).1 id hal, Or.inr (Or.inl ⟨hft, id, _, rfl⟩)⟩
    | bytes =>
      rw [parseRequiredH_bytes S σ fuel f sm old mc h hw' hft]
      have h1 := relBin_acct S f old mc hft hold hmc a
      generalize relBin old mc h = hh at h1
      split
      · have ha := acct_alloc (σ := σ) (n := (sm.data.drop sm.prefLen).length) h1
        cases hal : hh.alloc σ (sm.data.drop sm.prefLen).length with
        | mk oid h2 =>
          cases oid with
          | none => exact ⟨by simpa [ownedVal] using (ha h2).2 hal, Or.inl rfl⟩
          | some id => exact ⟨by simpa [ownedVal] using (ha h2).1 id hal, Or.inr (Or.inr ⟨hft, _, id, _, rfl⟩)⟩
      · exact ⟨by simpa [ownedVal] using h1, Or.inl rfl⟩
    | _ =>
      have h0 : ownedVal S old = [] := by
        rcases hold with h0 | ⟨hs, _⟩ | ⟨hb, _⟩
        · exact h0
        · rw [hft] at hs; cases hs
        · rw [hft] at hb; cases hb
      rw [h0] at a
      unfold parseRequiredH
      have hw2 := hw'
      rw [hft] at hw2
      simp only [hft, hw2, Bool.false_eq_true, if_false]
      refine ⟨?_, Or.inl ?_⟩ <;> split <;> first | rfl | (simpa [ownedVal] using a)

/-- when `parse_required_member` fails, what it leaves in the member owns nothing (if the old value owned nothing) -/
theorem parseRequiredH_fail_owned (S : Schema) (σ : Nat → Bool) (fuel : Nat) (f : FieldDesc) (sm : Scanned) (old : HVal) (mc : Bool)
    (h : Heap) (hnm : f.type ≠ .message) (hold : ownedVal S old = [])
    (hfail : (parseRequiredH S σ fuel f sm old mc h).1 = false) :
    ownedVal S (parseRequiredH S σ fuel f sm old mc h).2.1 = [] := by
  by_cases hw : (!wtOk f.type sm.wt) = true
  · have : parseRequiredH S σ fuel f sm old mc h = (false, old, h) := by unfold parseRequiredH; simp [hw]
    rw [this]; exact hold
  · have hw' : (!wtOk f.type sm.wt) = false := by simpa using hw
    cases hft : f.type with
    | message => exact absurd hft hnm
    | string =>
      rw [parseRequiredH_string S σ fuel f sm old mc h hw' hft] at hfail ⊢
      cases hal : (relStr old mc h).alloc σ ((sm.data.drop sm.prefLen).length + 1) with
      | mk oid h2 =>
        simp only [hal] at hfail ⊢
        cases oid with
        | none => rfl
        | some id => simp at hfail
    | bytes =>
      rw [parseRequiredH_bytes S σ fuel f sm old mc h hw' hft] at hfail ⊢
      split at hfail
      · rename_i hpos
        rw [if_pos hpos]
        cases hal : (relBin old mc h).alloc σ (sm.data.drop sm.prefLen).length with
        | mk oid h2 =>
          simp only [hal] at hfail ⊢
          cases oid with
          | none => rfl
          | some id => simp at hfail
      · simp at hfail
    | _ =>
      unfold parseRequiredH at hfail
      have hw2 := hw'
      rw [hft] at hw2
      simp [hft, hw2] at hfail

/-- an element of a repeated field (any type, embedded messages through the induction hypothesis): what the new element owns
    is exactly what was handed out; a failed element owns nothing -/
theorem parseRequiredH_elem_acct (S : Schema) (σ : Nat → Bool) (fuel : Nat) (f : FieldDesc) (sm : Scanned)
    (hrec : RecOk S σ fuel) {h : Heap} {R : List Nat} (a : Acct h R) :
    Acct (parseRequiredH S σ fuel f sm .zero false h).2.2 (ownedVal S (parseRequiredH S σ fuel f sm .zero false h).2.1 ++ R) ∧
    ((parseRequiredH S σ fuel f sm .zero false h).1 = false →
      ownedVal S (parseRequiredH S σ fuel f sm .zero false h).2.1 = []) := by
  by_cases hft : f.type = .message
  · by_cases hw : (!wtOk f.type sm.wt) = true
    · have : parseRequiredH S σ fuel f sm .zero false h = (false, .zero, h) := by unfold parseRequiredH; simp [hw]
      rw [this]; exact ⟨by simpa [ownedVal] using a, fun _ => rfl⟩
    · have hw' : (!wtOk f.type sm.wt) = false := by simpa using hw
      cases fuel with
      | zero =>
        have : parseRequiredH S σ 0 f sm .zero false h = (false, .zero, h) := by
          unfold parseRequiredH
          have hw2 := hw'
          rw [hft] at hw2
          simp only [hft, hw2, Bool.false_eq_true, if_false]
        rw [this]; exact ⟨by simpa [ownedVal] using a, fun _ => rfl⟩
      | succ fuel' =>
        rw [parseRequiredH_msg_elem S σ fuel' f sm h hw' hft]
        have ih := hrec fuel' rfl f.sub (sm.data.drop sm.prefLen) h R a
        cases hu : unpackMsgH S σ fuel' f.sub (sm.data.drop sm.prefLen) h with
        | mk sub h1 =>
          rw [hu] at ih
          cases sub with
          | none => exact ⟨by simpa [ownedVal] using ih, fun _ => rfl⟩
          | some m => exact ⟨by simpa [ownedVal] using ih, fun hf => by simp at hf⟩
  · exact ⟨(parseRequiredH_acct S σ fuel f sm .zero false hft (Or.inl rfl) (fun _ => rfl) (by simpa [ownedVal] using a)).1,
      fun hf => parseRequiredH_fail_owned S σ fuel f sm .zero false h hft rfl hf⟩

/-- the message types of this part: embedded messages only as repeated fields (so `merge_messages` is never reached);
    oneof members are singular; field numbers distinct and in range -/
structure FlatS (fields : List FieldDesc) : Prop where
  msgrep : ∀ f ∈ fields, f.type = .message → f.label = .repeated
  oneof : ∀ f ∈ fields, f.group.isSome = true → f.label ≠ .repeated ∧ f.label ≠ .required
  ids : ∀ f ∈ fields, 0 < f.id ∧ f.id < 2 ^ 31
  distinct : Pbc.Props.C01.IdsDistinct fields

/-- per-slot well-formedness of the message under construction: singular members own memory the way their type's code
    path releases it; elements of repeated (scalar) fields own nothing -/
def SlotsOk (S : Schema) (fields : List FieldDesc) (slots : List HSlot) : Prop :=
  slots.length = fields.length ∧
  ∀ i, i < fields.length →
    match hgetSlot slots i with
    | .one q v => (fields.getD i default).label ≠ .repeated ∧
        (if ((fields.getD i default).isOneof && (fields.getD i default).id != q) = true then ownedVal S v = []
         else OwnOk S (fields.getD i default) v)
    | .rep _ none => (fields.getD i default).label = .repeated
    | .rep _ (some _) => (fields.getD i default).label = .repeated

/-- the case words of the oneof groups: members of a group share one, and a set case names a member of the group -/
structure GroupOk (fields : List FieldDesc) (cs : Nat → Nat) (slots : List HSlot) : Prop where
  grp : ∀ i g, i < fields.length → (fields.getD i default).group = some g → (hgetSlot slots i).q = cs g
  sel : ∀ g, cs g = 0 ∨ ∃ j, j < fields.length ∧ (fields.getD j default).group = some g ∧ (fields.getD j default).id = cs g

theorem ownedVals_append (S : Schema) : ∀ (a b : List HVal), ownedVals S (a ++ b) = ownedVals S a ++ ownedVals S b
  | [], b => by simp [ownedVals]
  | x :: xs, b => by simp [ownedVals, ownedVals_append S xs b, append_assoc]

theorem ownedVals_lift (S : Schema) (t : PType) : ∀ (vs : List Val), (∀ v ∈ vs, Pbc.Lemmas.okScalar t v) →
    ownedVals S (vs.map liftVal) = []
  | [], _ => rfl
  | v :: vs, h => by
    simp only [map_cons, ownedVals]
    rw [ownedVals_lift S t vs (fun x hx => h x (mem_cons_of_mem _ hx))]
    have := h v (mem_cons_self ..)
    cases v with
    | w32 x => simp [liftVal, ownedVal]
    | w64 x => simp [liftVal, ownedVal]
    | _ => exact absurd this (by simp [Pbc.Lemmas.okScalar])

theorem hgetSlot_set_eq (sl : List HSlot) (i : Nat) (s : HSlot) (h : i < sl.length) : hgetSlot (hsetSlot sl i s) i = s := by
  simp [hgetSlot, hsetSlot, getD_eq_getElem?_getD, h]

theorem hgetSlot_set_ne (sl : List HSlot) (i j : Nat) (s : HSlot) (h : i ≠ j) : hgetSlot (hsetSlot sl i s) j = hgetSlot sl j := by
  simp [hgetSlot, hsetSlot, getD_eq_getElem?_getD, getElem?_set_ne h]

theorem slotsOk_set (S : Schema) (fields : List FieldDesc) (slots : List HSlot) (h : SlotsOk S fields slots) (i : Nat)
    (hi : i < fields.length) (s : HSlot)
    (hs : match s with
      | .one q v => (fields.getD i default).label ≠ .repeated ∧
          (if ((fields.getD i default).isOneof && (fields.getD i default).id != q) = true then ownedVal S v = []
           else OwnOk S (fields.getD i default) v)
      | .rep _ none => (fields.getD i default).label = .repeated
      | .rep _ (some _) => (fields.getD i default).label = .repeated) :
    SlotsOk S fields (hsetSlot slots i s) := by
  refine ⟨by simp [hsetSlot, h.1], ?_⟩
  intro j hj
  by_cases hji : j = i
  · subst hji
    rw [hgetSlot_set_eq _ _ _ (by rw [h.1]; exact hi)]
    exact hs
  · rw [hgetSlot_set_ne _ _ _ _ (fun e => hji e.symm)]
    exact h.2 j hj

theorem getD_mem' (fields : List FieldDesc) (i : Nat) (hi : i < fields.length) : fields.getD i default ∈ fields := by
  rw [getD_eq_getElem?_getD, getElem?_eq_getElem hi]; exact getElem_mem hi

/-- once a repeated field has its array, it keeps it -/
def ArrMono (a b : List HSlot) : Prop :=
  ∀ j, (∃ n p, hgetSlot a j = .rep n (some p)) → ∃ n p, hgetSlot b j = .rep n (some p)

theorem arrMono_refl (a : List HSlot) : ArrMono a a := fun _ h => h

theorem arrMono_trans {a b c : List HSlot} (h1 : ArrMono a b) (h2 : ArrMono b c) : ArrMono a c := fun j h => h2 j (h1 j h)

theorem arrMono_set (slots : List HSlot) (i : Nat) (hil : i < slots.length) (s2 : HSlot)
    (h : (∃ n p, hgetSlot slots i = .rep n (some p)) → ∃ n p, s2 = .rep n (some p)) : ArrMono slots (hsetSlot slots i s2) := by
  intro j hj
  by_cases hji : j = i
  · subst hji; rw [hgetSlot_set_eq _ _ _ hil]; exact h hj
  · rw [hgetSlot_set_ne _ _ _ _ (fun e => hji e.symm)]; exact hj

theorem ownedSlot_one (S : Schema) (f : FieldDesc) (hg : f.group = none) (q : Nat) (v : HVal) :
    ownedSlot S f (.one q v) = ownedVal S v := by
  have : f.isOneof = false := by unfold FieldDesc.isOneof; rw [hg]; rfl
  simp [ownedSlot, this]

/-- a singular member of a flat message is overwritten -/
theorem singular_step (S : Schema) (σ : Nat → Bool) (fuel ty : Nat) (hfl : FlatS (S.msg ty).fields) (sm : Scanned)
    (i : Nat) (hi : i < (S.msg ty).fields.length) (hl : ((S.msg ty).fields.getD i default).label ≠ .repeated)
    (hng : ((S.msg ty).fields.getD i default).group = none)
    (id : Nat) (slots : List HSlot) (tbl : Option Nat) (unk : List (Unk × Option Nat))
    (hok : SlotsOk S (S.msg ty).fields slots) {h : Heap} {R : List Nat}
    (a : Acct h (ownedMsg S (.mk ty id slots tbl unk) ++ R)) (q2 : Nat) :
    SlotsOk S (S.msg ty).fields (hsetSlot slots i (.one q2
        (parseRequiredH S σ fuel ((S.msg ty).fields.getD i default) sm (hgetSlot slots i).v true h).2.1)) ∧
    Acct (parseRequiredH S σ fuel ((S.msg ty).fields.getD i default) sm (hgetSlot slots i).v true h).2.2
      (ownedMsg S (.mk ty id (hsetSlot slots i (.one q2
        (parseRequiredH S σ fuel ((S.msg ty).fields.getD i default) sm (hgetSlot slots i).v true h).2.1)) tbl unk) ++ R) ∧
    ArrMono slots (hsetSlot slots i (.one q2
        (parseRequiredH S σ fuel ((S.msg ty).fields.getD i default) sm (hgetSlot slots i).v true h).2.1)) := by
  have hfi := getD_mem' _ i hi
  have hnm : ((S.msg ty).fields.getD i default).type ≠ .message := fun e => hl (hfl.msgrep _ hfi e)
  have hno : ((S.msg ty).fields.getD i default).isOneof = false := by unfold FieldDesc.isOneof; rw [hng]; rfl
  have hil : i < slots.length := by rw [hok.1]; exact hi
  obtain ⟨X, hX⟩ := ownedMsg_split S ty id slots tbl unk i hi hil
  have hself : hsetSlot slots i (hgetSlot slots i) = slots := set_getD_self slots i hil
  have hown0 := hX (hgetSlot slots i) tbl unk
  rw [hself] at hown0
  have hsl := hok.2 i hi
  cases hs : hgetSlot slots i with
  | rep n arr =>
    rw [hs] at hsl
    cases arr with
    | none => exact absurd hsl hl
    | some p => exact absurd hsl hl
  | one q0 v0 =>
    have hmono : ∀ s2, ArrMono slots (hsetSlot slots i s2) :=
      fun s2 => arrMono_set slots i hil s2 (fun ⟨n, p, hh⟩ => by rw [hs] at hh; cases hh)
    rw [hs] at hsl hown0
    rw [ownedSlot_one S _ hng] at hown0
    simp only [HSlot.v]
    have a1 : Acct h (ownedVal S v0 ++ ((X ++ (filterMap (·.2) unk ++ (tbl.toList ++ [id]))) ++ R)) := by
      refine acct_perm a ?_
      rw [← append_assoc]
      exact Perm.append_right R hown0
    have hold0 : OwnOk S ((S.msg ty).fields.getD i default) v0 := by
      have := hsl.2
      simp only [hno, Bool.false_and, Bool.false_eq_true, if_false] at this
      exact this
    obtain ⟨a2, hok2⟩ := parseRequiredH_acct S σ fuel _ sm v0 true hnm hold0 (fun hc => by cases hc) a1
    refine ⟨slotsOk_set S _ slots hok i hi _ ⟨hl, by simp only [hno, Bool.false_and, Bool.false_eq_true, if_false]; exact hok2⟩, ?_, hmono _⟩
    refine acct_perm a2 ?_
    have hnew := hX (.one q2 (parseRequiredH S σ fuel ((S.msg ty).fields.getD i default) sm v0 true h).2.1) tbl unk
    rw [ownedSlot_one S _ hng] at hnew
    rw [← append_assoc]
    exact Perm.append_right R hnew.symm

/-! ### oneof groups -/

theorem ownedSlots_congr (S : Schema) : ∀ (fs : List FieldDesc) (a b : List HSlot), a.length = b.length →
    (∀ j, j < fs.length → j < a.length → ownedSlot S (fs.getD j default) (a.getD j default) = ownedSlot S (fs.getD j default) (b.getD j default)) →
    ownedSlots S fs a = ownedSlots S fs b
  | [], _, _, _, _ => by simp [ownedSlots]
  | _ :: _, [], [], _, _ => by simp [ownedSlots]
  | _ :: _, [], _ :: _, h, _ => by simp at h
  | _ :: _, _ :: _, [], h, _ => by simp at h
  | f :: fs, x :: xs, y :: ys, hlen, h => by
    simp only [ownedSlots]
    have h0 := h 0 (by simp) (by simp)
    simp only [getD_cons_zero] at h0
    rw [h0, ownedSlots_congr S fs xs ys (by simpa using hlen)
      (fun j hj hja => by simpa using h (j + 1) (by simpa using hj) (by simpa using hja))]

theorem hzeroGroup_length (g : Nat) : ∀ (fs : List FieldDesc) (ss : List HSlot), (hzeroGroup g fs ss).length = ss.length
  | [], ss => by simp [hzeroGroup]
  | _ :: _, [] => by simp [hzeroGroup]
  | f :: fs, s :: ss => by simp [hzeroGroup, hzeroGroup_length g fs ss]

theorem hsetCase_length (g c : Nat) : ∀ (fs : List FieldDesc) (ss : List HSlot), (hsetCase g c fs ss).length = ss.length
  | [], ss => by simp [hsetCase]
  | _ :: _, [] => by simp [hsetCase]
  | f :: fs, s :: ss => by simp [hsetCase, hsetCase_length g c fs ss]

theorem getD_hzeroGroup (g : Nat) : ∀ (fs : List FieldDesc) (ss : List HSlot) (j : Nat),
    fs.length = ss.length → j < ss.length →
    (hzeroGroup g fs ss).getD j default =
      if (fs.getD j default).group == some g then (match ss.getD j default with | .one q _ => .one q .zero | s => s)
      else ss.getD j default
  | [], [], j, _, hj => by simp at hj
  | [], _ :: _, _, h, _ => by simp at h
  | _ :: _, [], _, h, _ => by simp at h
  | f :: fs, s :: ss, 0, _, _ => by
    simp only [hzeroGroup, getD_cons_zero]
    split <;> rfl
  | f :: fs, s :: ss, j+1, h, hj => by
    have := getD_hzeroGroup g fs ss j (by simpa using h) (by simpa using hj)
    simpa [hzeroGroup] using this

theorem getD_hsetCase (g c : Nat) : ∀ (fs : List FieldDesc) (ss : List HSlot) (j : Nat),
    fs.length = ss.length → j < ss.length →
    (hsetCase g c fs ss).getD j default =
      if (fs.getD j default).group == some g then (match ss.getD j default with | .one _ v => .one c v | s => s)
      else ss.getD j default
  | [], [], j, _, hj => by simp at hj
  | [], _ :: _, _, h, _ => by simp at h
  | _ :: _, [], _, h, _ => by simp at h
  | f :: fs, s :: ss, 0, _, _ => by
    simp only [hsetCase, getD_cons_zero]
    split <;> rfl
  | f :: fs, s :: ss, j+1, h, hj => by
    have := getD_hsetCase g c fs ss j (by simpa using h) (by simpa using hj)
    simpa [hsetCase] using this

theorem hgetD_set (sl : List HSlot) (i j : Nat) (s : HSlot) (hi : i < sl.length) :
    (hsetSlot sl i s).getD j default = if j = i then s else sl.getD j default := by
  by_cases h : j = i
  · subst h; simp [hsetSlot, getD_eq_getElem?_getD, hi]
  · simp only [h, if_false]
    have := hgetSlot_set_ne sl i j s (fun e => h e.symm)
    simpa [hgetSlot] using this

theorem ownedSlot_zero_unsel (S : Schema) (f : FieldDesc) (hg : f.group.isSome = true) (hid : 0 < f.id) :
    ownedSlot S f (.one 0 .zero) = [] := by
  have ho : f.isOneof = true := hg
  have : (f.id != 0) = true := by simp; omega
  simp [ownedSlot, ho, this]

/-- what the blocks of a message are when a whole oneof group is rewritten: at most one member (k) of the group owned
    something before, at most one (i) owns something afterwards, the rest of the message is common -/
theorem group_owned (S : Schema) (ty id : Nat) (tbl : Option Nat) (unk : List (Unk × Option Nat)) (slots T : List HSlot)
    (g k i : Nat) (hk : k < (S.msg ty).fields.length) (hi : i < (S.msg ty).fields.length)
    (hls : slots.length = (S.msg ty).fields.length) (hlt : T.length = (S.msg ty).fields.length)
    (hkg : ((S.msg ty).fields.getD k default).group = some g) (hig : ((S.msg ty).fields.getD i default).group = some g)
    (hkid : 0 < ((S.msg ty).fields.getD k default).id)
    (hsl : ∀ j, j < (S.msg ty).fields.length → ((S.msg ty).fields.getD j default).group = some g → j ≠ k →
      ownedSlot S ((S.msg ty).fields.getD j default) (slots.getD j default) = [])
    (hTn : ∀ j, j < (S.msg ty).fields.length → ((S.msg ty).fields.getD j default).group ≠ some g →
      T.getD j default = slots.getD j default)
    (hTm : ∀ j, j < (S.msg ty).fields.length → ((S.msg ty).fields.getD j default).group = some g → j ≠ i →
      ownedSlot S ((S.msg ty).fields.getD j default) (T.getD j default) = []) :
    ∃ OB, (ownedMsg S (.mk ty id slots tbl unk)).Perm (ownedSlot S ((S.msg ty).fields.getD k default) (slots.getD k default) ++ OB) ∧
      (ownedMsg S (.mk ty id T tbl unk)).Perm (ownedSlot S ((S.msg ty).fields.getD i default) (T.getD i default) ++ OB) := by
  have hkl : k < slots.length := by rw [hls]; exact hk
  let B := hsetSlot slots k (.one 0 .zero)
  have hBlen : B.length = (S.msg ty).fields.length := by simp [B, hsetSlot, hls]
  have hil : i < B.length := by rw [hBlen]; exact hi
  have hz := ownedSlot_zero_unsel S ((S.msg ty).fields.getD k default) (by rw [hkg]; rfl) hkid
  refine ⟨ownedMsg S (.mk ty id B tbl unk), ?_, ?_⟩
  · obtain ⟨X, hX⟩ := ownedMsg_split S ty id slots tbl unk k hk hkl
    have h1 := hX (slots.getD k default) tbl unk
    have hself : hsetSlot slots k (slots.getD k default) = slots := set_getD_self slots k hkl
    rw [hself] at h1
    have h2 := hX (.one 0 .zero) tbl unk
    rw [hz, nil_append] at h2
    exact h1.trans (Perm.append_left _ h2.symm)
  · -- T and (B with slot i replaced by T's) own the same
    have hcongr : ownedSlots S (S.msg ty).fields T = ownedSlots S (S.msg ty).fields (hsetSlot B i (T.getD i default)) := by
      apply ownedSlots_congr S _ _ _ (by simp [hsetSlot, hBlen, hlt])
      intro j hj _
      rw [hgetD_set B i j _ hil]
      by_cases hji : j = i
      · simp only [hji, if_true]
      · simp only [hji, if_false]
        show _ = ownedSlot S _ ((hsetSlot slots k (.one 0 .zero)).getD j default)
        rw [hgetD_set slots k j _ hkl]
        by_cases hjg : ((S.msg ty).fields.getD j default).group = some g
        · rw [hTm j hj hjg hji]
          by_cases hjk : j = k
          · simp only [hjk, if_true]; exact hz.symm
          · simp only [hjk, if_false]; exact (hsl j hj hjg hjk).symm
        · have hjk : j ≠ k := by intro e; subst e; exact hjg hkg
          simp only [hjk, if_false]
          rw [hTn j hj hjg]
    obtain ⟨X, hX⟩ := ownedMsg_split S ty id B tbl unk i hi hil
    have h1 := hX (T.getD i default) tbl unk
    have h2 := hX (B.getD i default) tbl unk
    have hself : hsetSlot B i (B.getD i default) = B := set_getD_self B i hil
    rw [hself] at h2
    have hBi : ownedSlot S ((S.msg ty).fields.getD i default) (B.getD i default) = [] := by
      show ownedSlot S _ ((hsetSlot slots k (.one 0 .zero)).getD i default) = []
      rw [hgetD_set slots k i _ hkl]
      by_cases hik : i = k
      · simp only [hik, if_true]; exact hz
      · simp only [hik, if_false]; exact hsl i hi hig hik
    rw [hBi, nil_append] at h2
    have e : ownedMsg S (.mk ty id T tbl unk) = ownedMsg S (.mk ty id (hsetSlot B i (T.getD i default)) tbl unk) := by
      simp only [ownedMsg, hcongr]
    rw [e]
    exact h1.trans (Perm.append_left _ h2.symm)

/-- what a record of a oneof member does (the oneof branch of `parse_member`) -/
def oneofH (S : Schema) (σ : Nat → Bool) (fuel : Nat) (fields : List FieldDesc) (f : FieldDesc) (g : Nat) (sm : Scanned) (i : Nat)
    (ty id : Nat) (slots : List HSlot) (tbl : Option Nat) (unk : List (Unk × Option Nat)) (h : Heap) : Bool × HMsg × Heap :=
  let q := (hgetSlot slots i).q
  if q != 0 && !(q == sm.tag && f.type == .message) then
    match lookupField fields q with
    | none => (false, .mk ty id slots tbl unk, h)
    | some oi =>
      let h1 := freeVal S (hgetSlot slots oi).v h
      let slots1 := hzeroGroup g fields slots
      let r := parseRequiredH S σ fuel f sm (hgetSlot slots1 i).v true h1
      if r.1 then (true, .mk ty id (hsetCase g sm.tag fields (hsetSlot slots1 i (.one q r.2.1))) tbl unk, r.2.2)
      else (false, .mk ty id (hsetSlot slots1 i (.one q r.2.1)) tbl unk, r.2.2)
  else
    let r := parseRequiredH S σ fuel f sm (hgetSlot slots i).v true h
    if r.1 then (true, .mk ty id (hsetCase g sm.tag fields (hsetSlot slots i (.one q r.2.1))) tbl unk, r.2.2)
    else (false, .mk ty id (hsetSlot slots i (.one q r.2.1)) tbl unk, r.2.2)

theorem parseMemberH_oneof (S : Schema) (σ : Nat → Bool) (fuel : Nat) (fields : List FieldDesc) (sm : Scanned) (i g : Nat)
    (hi : sm.fidx = some i) (hg : (fields.getD i default).group = some g)
    (hl : (fields.getD i default).label ≠ .repeated ∧ (fields.getD i default).label ≠ .required)
    (ty id : Nat) (slots : List HSlot) (tbl : Option Nat) (unk : List (Unk × Option Nat)) (h : Heap) :
    parseMemberH S σ fuel fields sm (.mk ty id slots tbl unk) h =
      oneofH S σ fuel fields (fields.getD i default) g sm i ty id slots tbl unk h := by
  unfold parseMemberH oneofH
  simp only [hi]
  cases hlab : (fields.getD i default).label with
  | required => exact absurd hlab hl.2
  | repeated => exact absurd hlab hl.1
  | optional => simp only [hg]; rfl
  | none => simp only [hg]; rfl

theorem lookupField_sel (fields : List FieldDesc) (hd : Pbc.Props.C01.IdsDistinct fields) (j : Nat) (hj : j < fields.length)
    (t : Nat) (hid : (fields.getD j default).id = t) (ht : t < 2 ^ 31) : lookupField fields t = some j := by
  unfold lookupField
  rw [if_neg (by omega)]
  apply Pbc.Props.C01.findIdx_of_id hd hj
  rw [← Pbc.Props.C01.getD_fields fields j hj]; exact hid

theorem ids_ne' (fields : List FieldDesc) (hd : Pbc.Props.C01.IdsDistinct fields) (i j : Nat) (hi : i < fields.length)
    (hj : j < fields.length) (hne : i ≠ j) : (fields.getD i default).id ≠ (fields.getD j default).id :=
  Pbc.Props.C06.ids_ne fields hd i j hi hj hne

/-- a member of a oneof group is a singular slot carrying the group's case word -/
theorem group_slot (S : Schema) (fields : List FieldDesc) (hfl : FlatS fields) (slots : List HSlot) (cs : Nat → Nat)
    (hok : SlotsOk S fields slots) (hgk : GroupOk fields cs slots) (j g : Nat) (hj : j < fields.length)
    (hg : (fields.getD j default).group = some g) :
    ∃ v, slots.getD j default = .one (cs g) v ∧
      ((fields.getD j default).id = cs g → OwnOk S (fields.getD j default) v) ∧
      ((fields.getD j default).id ≠ cs g → ownedVal S v = []) := by
  have h1 := hok.2 j hj
  have h2 := hgk.grp j g hj hg
  have hlab := (hfl.oneof _ (getD_mem' _ j hj) (by rw [hg]; rfl)).1
  have hone : (fields.getD j default).isOneof = true := by unfold FieldDesc.isOneof; rw [hg]; rfl
  unfold hgetSlot at h1 h2
  cases hs : slots.getD j default with
  | rep n a =>
    rw [hs] at h1
    cases a with
    | none => exact absurd h1 hlab
    | some p => exact absurd h1 hlab
  | one q v =>
    rw [hs] at h1 h2
    have hq : q = cs g := h2
    subst hq
    refine ⟨v, rfl, fun hid => ?_, fun hid => ?_⟩
    · have := h1.2
      rwa [if_neg (by rw [hid]; simp)] at this
    · have := h1.2
      rwa [if_pos (by rw [hone]; simp only [Bool.true_and, bne_iff_ne, ne_eq]; exact hid)] at this

/-- the slots after a oneof record: members of group g other than i hold case c and own nothing, member i holds (c, w),
    everything else is unchanged -/
structure GroupStep (S : Schema) (fields : List FieldDesc) (slots T : List HSlot) (g i c : Nat) (w : HVal) : Prop where
  len : T.length = fields.length
  other : ∀ j, j < fields.length → (fields.getD j default).group ≠ some g → T.getD j default = slots.getD j default
  memb : ∀ j, j < fields.length → (fields.getD j default).group = some g → j ≠ i →
    ∃ v, T.getD j default = .one c v ∧ ownedVal S v = []
  self : T.getD i default = .one c w

theorem groupStep_ok (S : Schema) (fields : List FieldDesc) (hfl : FlatS fields) (slots T : List HSlot) (cs : Nat → Nat)
    (g i c : Nat) (w : HVal) (hi : i < fields.length) (hgrp : (fields.getD i default).group = some g)
    (hok : SlotsOk S fields slots) (hgk : GroupOk fields cs slots) (st : GroupStep S fields slots T g i c w)
    (hw1 : c = (fields.getD i default).id → OwnOk S (fields.getD i default) w)
    (hw2 : c ≠ (fields.getD i default).id → ownedVal S w = [])
    (hc : c = 0 ∨ ∃ j, j < fields.length ∧ (fields.getD j default).group = some g ∧ (fields.getD j default).id = c) :
    SlotsOk S fields T ∧ GroupOk fields (fun x => if x = g then c else cs x) T ∧ ArrMono slots T := by
  refine ⟨⟨st.len, fun j hj => ?_⟩, ⟨fun j g' hj hg' => ?_, fun g' => ?_⟩, fun j hjr => ?_⟩
  · unfold hgetSlot
    by_cases hjg : (fields.getD j default).group = some g
    · have hlab := (hfl.oneof _ (getD_mem' _ j hj) (by rw [hjg]; rfl)).1
      have hone : (fields.getD j default).isOneof = true := by unfold FieldDesc.isOneof; rw [hjg]; rfl
      by_cases hji : j = i
      · subst hji
        rw [st.self]
        refine ⟨hlab, ?_⟩
        by_cases hcid : c = (fields.getD j default).id
        · rw [if_neg (by rw [← hcid]; simp)]; exact hw1 hcid
        · rw [if_pos (by rw [hone]; simp only [Bool.true_and, bne_iff_ne, ne_eq]; exact fun e => hcid e.symm)]; exact hw2 hcid
      · obtain ⟨v, hv, hv0⟩ := st.memb j hj hjg hji
        rw [hv]
        refine ⟨hlab, ?_⟩
        split
        · exact hv0
        · exact Or.inl hv0
    · rw [st.other j hj hjg]
      exact hok.2 j hj
  · unfold hgetSlot
    by_cases hgg : g' = g
    · subst hgg
      simp only [if_true]
      by_cases hji : j = i
      · subst hji; rw [st.self]; rfl
      · obtain ⟨v, hv, _⟩ := st.memb j hj hg' hji
        rw [hv]; rfl
    · simp only [hgg, if_false]
      rw [st.other j hj (by rw [hg']; intro e; cases e; exact hgg rfl)]
      exact hgk.grp j g' hj hg'
  · by_cases hgg : g' = g
    · subst hgg; simp only [if_true]; exact hc
    · simp only [hgg, if_false]; exact hgk.sel g'
  · unfold hgetSlot at hjr ⊢
    by_cases hj : j < fields.length
    · by_cases hjg : (fields.getD j default).group = some g
      · exfalso
        obtain ⟨v, hv, _⟩ := group_slot S fields hfl slots cs hok hgk j g hj hjg
        obtain ⟨n, p, hnp⟩ := hjr
        rw [hv] at hnp; cases hnp
      · rw [st.other j hj hjg]; exact hjr
    · have h1 : T.getD j default = default := by
        rw [getD_eq_getElem?_getD, getElem?_eq_none (by rw [st.len]; omega)]; rfl
      have h2 : slots.getD j default = default := by
        rw [getD_eq_getElem?_getD, getElem?_eq_none (by rw [hok.1]; omega)]; rfl
      rw [h1]; rw [h2] at hjr; exact hjr

theorem groupStep_owned (S : Schema) (ty id : Nat) (tbl : Option Nat) (unk : List (Unk × Option Nat)) (slots T : List HSlot)
    (g k i c : Nat) (w : HVal) (hk : k < (S.msg ty).fields.length) (hi : i < (S.msg ty).fields.length)
    (hls : slots.length = (S.msg ty).fields.length)
    (hkg : ((S.msg ty).fields.getD k default).group = some g) (hig : ((S.msg ty).fields.getD i default).group = some g)
    (hkid : 0 < ((S.msg ty).fields.getD k default).id)
    (hsl : ∀ j, j < (S.msg ty).fields.length → ((S.msg ty).fields.getD j default).group = some g → j ≠ k →
      ownedSlot S ((S.msg ty).fields.getD j default) (slots.getD j default) = [])
    (st : GroupStep S (S.msg ty).fields slots T g i c w)
    (hcw : c = ((S.msg ty).fields.getD i default).id ∨ ownedVal S w = []) :
    ∃ OB, (ownedMsg S (.mk ty id slots tbl unk)).Perm (ownedSlot S ((S.msg ty).fields.getD k default) (slots.getD k default) ++ OB) ∧
      (ownedMsg S (.mk ty id T tbl unk)).Perm (ownedVal S w ++ OB) := by
  obtain ⟨OB, h1, h2⟩ := group_owned S ty id tbl unk slots T g k i hk hi hls st.len hkg hig hkid hsl st.other
    (fun j hj hjg hji => by
      obtain ⟨v, hv, hv0⟩ := st.memb j hj hjg hji
      rw [hv]; simp [ownedSlot, hv0])
  refine ⟨OB, h1, ?_⟩
  rw [st.self] at h2
  have : ownedSlot S ((S.msg ty).fields.getD i default) (.one c w) = ownedVal S w := by
    rcases hcw with hc | hw0
    · simp [ownedSlot, hc]
    · simp [ownedSlot, hw0]
  rwa [this] at h2

/-- the common tail of the oneof branch: the parsed value is stored into member i of `base` (the message with the group
    emptied), and on success the group's case word is set -/
theorem oneof_tail (S : Schema) (ty : Nat) (hfl : FlatS (S.msg ty).fields) (tag i g : Nat)
    (hi : i < (S.msg ty).fields.length) (hgrp : ((S.msg ty).fields.getD i default).group = some g)
    (htag : ((S.msg ty).fields.getD i default).id = tag)
    (id : Nat) (slots : List HSlot) (tbl : Option Nat) (unk : List (Unk × Option Nat)) (cs : Nat → Nat)
    (hok : SlotsOk S (S.msg ty).fields slots) (hgk : GroupOk (S.msg ty).fields cs slots)
    (base : List HSlot) (k : Nat) (hk : k < (S.msg ty).fields.length)
    (hkg : ((S.msg ty).fields.getD k default).group = some g)
    (hsl : ∀ j, j < (S.msg ty).fields.length → ((S.msg ty).fields.getD j default).group = some g → j ≠ k →
      ownedSlot S ((S.msg ty).fields.getD j default) (slots.getD j default) = [])
    (hbl : base.length = (S.msg ty).fields.length)
    (hbn : ∀ j, j < (S.msg ty).fields.length → ((S.msg ty).fields.getD j default).group ≠ some g →
      base.getD j default = slots.getD j default)
    (hbm : ∀ j, j < (S.msg ty).fields.length → ((S.msg ty).fields.getD j default).group = some g →
      ∃ v, base.getD j default = .one (cs g) v ∧ ownedVal S v = [])
    (ok : Bool) (w : HVal) (h2 : Heap)
    (hfail : ok = false → ownedVal S w = []) {R : List Nat}
    (a2 : ∀ OB, (ownedMsg S (.mk ty id slots tbl unk)).Perm
        (ownedSlot S ((S.msg ty).fields.getD k default) (slots.getD k default) ++ OB) →
        Acct h2 (ownedVal S w ++ (OB ++ R)) ∧ OwnOk S ((S.msg ty).fields.getD i default) w) :
    ∃ slots2 cs2,
      (if ok = true then ((true, HMsg.mk ty id (hsetCase g tag (S.msg ty).fields (hsetSlot base i (.one (cs g) w))) tbl unk, h2) : Bool × HMsg × Heap)
        else (false, HMsg.mk ty id (hsetSlot base i (.one (cs g) w)) tbl unk, h2)).2.1 = .mk ty id slots2 tbl unk ∧
      SlotsOk S (S.msg ty).fields slots2 ∧ GroupOk (S.msg ty).fields cs2 slots2 ∧
      Acct (if ok = true then ((true, HMsg.mk ty id (hsetCase g tag (S.msg ty).fields (hsetSlot base i (.one (cs g) w))) tbl unk, h2) : Bool × HMsg × Heap)
        else (false, HMsg.mk ty id (hsetSlot base i (.one (cs g) w)) tbl unk, h2)).2.2
        (ownedMsg S (.mk ty id slots2 tbl unk) ++ R) ∧ ArrMono slots slots2 := by
  have hib : i < base.length := by rw [hbl]; exact hi
  have hkid := (hfl.ids _ (getD_mem' _ k hk)).1
  -- the failure shape
  have stF : GroupStep S (S.msg ty).fields slots (hsetSlot base i (.one (cs g) w)) g i (cs g) w := by
    refine ⟨by simp [hsetSlot, hbl], fun j hj hjg => ?_, fun j hj hjg hji => ?_, ?_⟩
    · have hji : j ≠ i := by intro e; subst e; exact hjg hgrp
      rw [hgetD_set base i j _ hib, if_neg hji]; exact hbn j hj hjg
    · rw [hgetD_set base i j _ hib, if_neg hji]; exact hbm j hj hjg
    · rw [hgetD_set base i i _ hib, if_pos rfl]
  cases ok with
  | false =>
    simp only [Bool.false_eq_true, if_false]
    have hw0 := hfail rfl
    obtain ⟨OB, p1, p2⟩ := groupStep_owned S ty id tbl unk slots _ g k i (cs g) w hk hi hok.1 hkg hgrp hkid hsl stF (Or.inr hw0)
    obtain ⟨h1, h2', h3⟩ := groupStep_ok S _ hfl slots _ cs g i (cs g) w hi hgrp hok hgk stF (fun _ => (a2 OB p1).2) (fun _ => hw0) (hgk.sel g)
    refine ⟨_, _, rfl, h1, h2', ?_, h3⟩
    exact acct_perm (a2 OB p1).1 (by
      have := (p2.append_right R).symm
      simpa [append_assoc] using this)
  | true =>
    simp only [if_true]
    have hlenF : (hsetSlot base i (.one (cs g) w)).length = (S.msg ty).fields.length := stF.len
    have stT : GroupStep S (S.msg ty).fields slots (hsetCase g tag (S.msg ty).fields (hsetSlot base i (.one (cs g) w))) g i tag w := by
      refine ⟨by rw [hsetCase_length, hlenF], fun j hj hjg => ?_, fun j hj hjg hji => ?_, ?_⟩
      · rw [getD_hsetCase g tag _ _ j hlenF.symm (by rw [hlenF]; exact hj)]
        rw [if_neg (by simpa using hjg)]
        exact stF.other j hj hjg
      · rw [getD_hsetCase g tag _ _ j hlenF.symm (by rw [hlenF]; exact hj)]
        rw [if_pos (by simpa using hjg)]
        obtain ⟨v, hv, hv0⟩ := stF.memb j hj hjg hji
        rw [hv]; exact ⟨v, rfl, hv0⟩
      · rw [getD_hsetCase g tag _ _ i hlenF.symm (by rw [hlenF]; exact hi)]
        rw [if_pos (by simpa using hgrp), stF.self]
    obtain ⟨OB, p1, p2⟩ := groupStep_owned S ty id tbl unk slots _ g k i tag w hk hi hok.1 hkg hgrp hkid hsl stT (Or.inl htag.symm)
    obtain ⟨h1, h2', h3⟩ := groupStep_ok S _ hfl slots _ cs g i tag w hi hgrp hok hgk stT (fun _ => (a2 OB p1).2)
      (fun hne => absurd htag.symm hne) (Or.inr ⟨i, hi, hgrp, htag⟩)
    refine ⟨_, _, rfl, h1, h2', ?_, h3⟩
    exact acct_perm (a2 OB p1).1 (by
      have := (p2.append_right R).symm
      simpa [append_assoc] using this)

/-- a record of a oneof member (messages without embedded messages): the previously selected member is released, the
    group is emptied, the new member takes over — or, on failure, the group is left empty -/
theorem oneofH_acct (S : Schema) (σ : Nat → Bool) (fuel ty : Nat) (hfl : FlatS (S.msg ty).fields) (sm : Scanned)
    (i g : Nat) (hi : i < (S.msg ty).fields.length) (hgrp : ((S.msg ty).fields.getD i default).group = some g)
    (htag : ((S.msg ty).fields.getD i default).id = sm.tag)
    (id : Nat) (slots : List HSlot) (tbl : Option Nat) (unk : List (Unk × Option Nat)) (cs : Nat → Nat)
    (hok : SlotsOk S (S.msg ty).fields slots) (hgk : GroupOk (S.msg ty).fields cs slots) {h : Heap} {R : List Nat}
    (a : Acct h (ownedMsg S (.mk ty id slots tbl unk) ++ R)) :
    ∃ slots2 cs2,
      (oneofH S σ fuel (S.msg ty).fields ((S.msg ty).fields.getD i default) g sm i ty id slots tbl unk h).2.1 = .mk ty id slots2 tbl unk ∧
      SlotsOk S (S.msg ty).fields slots2 ∧ GroupOk (S.msg ty).fields cs2 slots2 ∧
      Acct (oneofH S σ fuel (S.msg ty).fields ((S.msg ty).fields.getD i default) g sm i ty id slots tbl unk h).2.2
        (ownedMsg S (.mk ty id slots2 tbl unk) ++ R) ∧ ArrMono slots slots2 := by
  have hnm : ((S.msg ty).fields.getD i default).type ≠ .message := fun e =>
    (hfl.oneof _ (getD_mem' _ i hi) (by rw [hgrp]; rfl)).1 (hfl.msgrep _ (getD_mem' _ i hi) e)
  have hq : (hgetSlot slots i).q = cs g := hgk.grp i g hi hgrp
  have hnm' : (((S.msg ty).fields.getD i default).type == PType.message) = false := by
    cases ht : ((S.msg ty).fields.getD i default).type <;> first | rfl | exact absurd ht hnm
  obtain ⟨vi, hvi, hvi1, hvi2⟩ := group_slot S _ hfl slots cs hok hgk i g hi hgrp
  unfold oneofH
  simp only [hq, hnm', Bool.and_false, Bool.not_false, Bool.and_true]
  by_cases hq0 : cs g = 0
  · -- no member selected: every member of the group owns nothing
    rw [if_neg (by simp [hq0])]
    have hall : ∀ j, j < (S.msg ty).fields.length → ((S.msg ty).fields.getD j default).group = some g →
        ∃ v, slots.getD j default = .one (cs g) v ∧ ownedVal S v = [] := by
      intro j hj hjg
      obtain ⟨v, hv, _, hv2⟩ := group_slot S _ hfl slots cs hok hgk j g hj hjg
      exact ⟨v, hv, hv2 (by have := (hfl.ids _ (getD_mem' _ j hj)).1; omega)⟩
    have hown0 : ∀ j, j < (S.msg ty).fields.length → ((S.msg ty).fields.getD j default).group = some g →
        ownedSlot S ((S.msg ty).fields.getD j default) (slots.getD j default) = [] := by
      intro j hj hjg
      obtain ⟨v, hv, hv0⟩ := hall j hj hjg
      rw [hv]; simp [ownedSlot, hv0]
    have hvi0 : ownedVal S vi = [] := by
      obtain ⟨v, hv, hv0⟩ := hall i hi hgrp
      rw [hvi] at hv; cases hv; exact hv0
    have hv_eq : (hgetSlot slots i).v = vi := by unfold hgetSlot; rw [hvi]; rfl
    rw [hv_eq]
    refine oneof_tail S ty hfl sm.tag i g hi hgrp htag id slots tbl unk cs hok hgk slots i hi hgrp
      (fun j hj hjg _ => hown0 j hj hjg) hok.1 (fun _ _ _ => rfl) hall _ _ _ ?_ ?_
    · exact fun hf => parseRequiredH_fail_owned S σ fuel _ sm vi true h hnm hvi0 hf
    · intro OB p
      rw [hown0 i hi hgrp, nil_append] at p
      have a1 : Acct h (ownedVal S vi ++ (OB ++ R)) := by
        rw [hvi0, nil_append]; exact acct_perm a (p.append_right R)
      exact parseRequiredH_acct S σ fuel _ sm vi true hnm (Or.inl hvi0) (fun e => by cases e) a1
  · -- a member k is selected: its value is released, the group emptied
    rw [if_pos (by simp [hq0])]
    rcases hgk.sel g with h0 | ⟨k, hk, hkg, hkid⟩
    · exact absurd h0 hq0
    have hklt := (hfl.ids _ (getD_mem' _ k hk)).2
    rw [lookupField_sel _ hfl.distinct k hk (cs g) hkid (by rw [← hkid]; exact hklt)]
    simp only []
    obtain ⟨vk, hvk, hvk1, _⟩ := group_slot S _ hfl slots cs hok hgk k g hk hkg
    have hkv : (hgetSlot slots k).v = vk := by unfold hgetSlot; rw [hvk]; rfl
    have hlz : (hzeroGroup g (S.msg ty).fields slots).length = (S.msg ty).fields.length := by rw [hzeroGroup_length, hok.1]
    have hzm : ∀ j, j < (S.msg ty).fields.length → ((S.msg ty).fields.getD j default).group = some g →
        (hzeroGroup g (S.msg ty).fields slots).getD j default = .one (cs g) .zero := by
      intro j hj hjg
      rw [getD_hzeroGroup g _ _ j hok.1.symm (by rw [hok.1]; exact hj), if_pos (by simpa using hjg)]
      obtain ⟨v, hv, _⟩ := group_slot S _ hfl slots cs hok hgk j g hj hjg
      rw [hv]
    have hzi : (hgetSlot (hzeroGroup g (S.msg ty).fields slots) i).v = .zero := by
      unfold hgetSlot; rw [hzm i hi hgrp]; rfl
    rw [hzi, hkv]
    have hsl : ∀ j, j < (S.msg ty).fields.length → ((S.msg ty).fields.getD j default).group = some g → j ≠ k →
        ownedSlot S ((S.msg ty).fields.getD j default) (slots.getD j default) = [] := by
      intro j hj hjg hjk
      obtain ⟨v, hv, _, hv2⟩ := group_slot S _ hfl slots cs hok hgk j g hj hjg
      have hne : ((S.msg ty).fields.getD j default).id ≠ cs g := by
        rw [← hkid]; exact ids_ne' _ hfl.distinct j k hj hk hjk
      rw [hv]; simp [ownedSlot, hv2 hne]
    refine oneof_tail S ty hfl sm.tag i g hi hgrp htag id slots tbl unk cs hok hgk _ k hk hkg hsl hlz
      (fun j hj hjg => by
        rw [getD_hzeroGroup g _ _ j hok.1.symm (by rw [hok.1]; exact hj), if_neg (by simpa using hjg)])
      (fun j hj hjg => ⟨.zero, hzm j hj hjg, rfl⟩) _ _ _ ?_ ?_
    · exact fun hf => parseRequiredH_fail_owned S σ fuel _ sm .zero true _ hnm rfl hf
    · intro OB p
      have hks : ownedSlot S ((S.msg ty).fields.getD k default) (slots.getD k default) = ownedVal S vk := by
        rw [hvk]; unfold ownedSlot; rw [hkid]; simp
      rw [hks] at p
      have a1 : Acct h (ownedVal S vk ++ (OB ++ R)) := by
        have := acct_perm a (p.append_right R)
        simpa [append_assoc] using this
      have a2 := acct_freeVal S vk a1
      exact parseRequiredH_acct S σ fuel _ sm .zero true hnm (Or.inl rfl) (fun e => by cases e)
        (R := OB ++ R) (by simpa [ownedVal] using a2)

/-- **one member** (flat schemas): whatever `parse_member` does — succeed, fail on a refused allocation, fail on a wrong
    wire type — the blocks outstanding are exactly those the message (as the C code leaves it) owns, plus the rest -/
theorem parseMemberH_plain (S : Schema) (σ : Nat → Bool) (fuel ty : Nat) (hfl : FlatS (S.msg ty).fields)
    (hrec : RecOk S σ fuel) (sm : Scanned)
    (hsm : ∀ i, sm.fidx = some i → i < (S.msg ty).fields.length)
    (hpl : ∀ i, sm.fidx = some i → ((S.msg ty).fields.getD i default).group = none)
    (id : Nat) (slots : List HSlot) (tbl : Option Nat) (unk : List (Unk × Option Nat))
    (hok : SlotsOk S (S.msg ty).fields slots)
    (harr : ∀ i, sm.fidx = some i → ((S.msg ty).fields.getD i default).label = .repeated →
      usesPackedPath ((S.msg ty).fields.getD i default) sm.wt = false → ∃ n p, hgetSlot slots i = .rep n (some p))
    {h : Heap} {R : List Nat}
    (a : Acct h (ownedMsg S (.mk ty id slots tbl unk) ++ R)) :
    ∃ slots2 unk2, (parseMemberH S σ fuel (S.msg ty).fields sm (.mk ty id slots tbl unk) h).2.1 = .mk ty id slots2 tbl unk2 ∧
      SlotsOk S (S.msg ty).fields slots2 ∧
      Acct (parseMemberH S σ fuel (S.msg ty).fields sm (.mk ty id slots tbl unk) h).2.2
        (ownedMsg S (.mk ty id slots2 tbl unk2) ++ R) ∧ ArrMono slots slots2 ∧
      (slots2 = slots ∨ ∃ i s2, sm.fidx = some i ∧ slots2 = hsetSlot slots i s2) := by
  unfold parseMemberH
  cases hf : sm.fidx with
  | none =>
    simp only
    have ha := acct_alloc (σ := σ) (n := sm.data.length) a
    cases hal : h.alloc σ sm.data.length with
    | mk oid h2 =>
      cases oid with
      | none =>
        refine ⟨slots, _, rfl, hok, ?_, arrMono_refl _, Or.inl rfl⟩
        have := (ha h2).2 hal
        simpa [ownedMsg, filterMap_append] using this
      | some d =>
        refine ⟨slots, _, rfl, hok, ?_, arrMono_refl _, Or.inl rfl⟩
        have := (ha h2).1 d hal
        refine acct_perm this ?_
        simp only [ownedMsg, filterMap_append, filterMap_cons, filterMap_nil, append_assoc]
        have e1 := perm_mid (ownedSlots S (S.msg ty).fields slots ++ filterMap (·.2) unk) [d] (tbl.toList ++ ([id] ++ R))
        simpa [append_assoc] using e1.symm
  | some i =>
    have hi := hsm i hf
    have hfi := getD_mem' _ i hi
    have hng := hpl i hf
    have hil : i < slots.length := by rw [hok.1]; exact hi
    obtain ⟨X, hX⟩ := ownedMsg_split S ty id slots tbl unk i hi hil
    have hself : hsetSlot slots i (hgetSlot slots i) = slots := set_getD_self slots i hil
    have hown0 := hX (hgetSlot slots i) tbl unk
    rw [hself] at hown0
    have hsl := hok.2 i hi
    simp only
    cases hlab : ((S.msg ty).fields.getD i default).label with
    | required =>
      simp only
      have := singular_step S σ fuel ty hfl sm i hi (by rw [hlab]; simp) hng id slots tbl unk hok a (hgetSlot slots i).q
      exact ⟨_, unk, rfl, this.1, this.2.1, this.2.2, Or.inr ⟨i, _, rfl, rfl⟩⟩
    | optional =>
      simp only [hng]
      have := singular_step S σ fuel ty hfl sm i hi (by rw [hlab]; simp) hng id slots tbl unk hok a
        (if ((parseRequiredH S σ fuel ((S.msg ty).fields.getD i default) sm (hgetSlot slots i).v true h).1 &&
            ((S.msg ty).fields.getD i default).hasQ) = true then 1 else (hgetSlot slots i).q)
      exact ⟨_, unk, rfl, this.1, this.2.1, this.2.2, Or.inr ⟨i, _, rfl, rfl⟩⟩
    | none =>
      simp only [hng]
      have := singular_step S σ fuel ty hfl sm i hi (by rw [hlab]; simp) hng id slots tbl unk hok a
        (if ((parseRequiredH S σ fuel ((S.msg ty).fields.getD i default) sm (hgetSlot slots i).v true h).1 &&
            ((S.msg ty).fields.getD i default).hasQ) = true then 1 else (hgetSlot slots i).q)
      exact ⟨_, unk, rfl, this.1, this.2.1, this.2.2, Or.inr ⟨i, _, rfl, rfl⟩⟩
    | repeated =>
      simp only
      cases hs : hgetSlot slots i with
      | one q0 v0 => exact ⟨slots, unk, rfl, hok, a, arrMono_refl _, Or.inl rfl⟩
      | rep n arr =>
        rw [hs] at hsl hown0
        simp only
        -- the array gets a longer list of elements; `E` is what the new element(s) own
        have grow : ∀ (arr2 : Option (Nat × List HVal)) (n2 : Nat) (E : List Nat),
            (ownedSlot S ((S.msg ty).fields.getD i default) (.rep n2 arr2)).Perm
              (E ++ ownedSlot S ((S.msg ty).fields.getD i default) (.rep n arr)) →
            (arr.isSome = true → arr2.isSome = true) →
            ∀ (h2 : Heap), Acct h2 (E ++ (ownedMsg S (.mk ty id slots tbl unk) ++ R)) →
            SlotsOk S (S.msg ty).fields (hsetSlot slots i (.rep n2 arr2)) ∧
            Acct h2 (ownedMsg S (.mk ty id (hsetSlot slots i (.rep n2 arr2)) tbl unk) ++ R) ∧
            ArrMono slots (hsetSlot slots i (.rep n2 arr2)) := by
          intro arr2 n2 E hperm hsm2 h2 a2
          refine ⟨slotsOk_set S _ slots hok i hi _ (by cases arr2 <;> exact hlab), acct_perm a2 ?_,
            arrMono_set slots i hil _ (fun ⟨n0, p0, hh⟩ => by
              rw [hs] at hh
              simp only [HSlot.rep.injEq] at hh
              have : arr2.isSome = true := hsm2 (by rw [hh.2]; rfl)
              cases arr2 with
              | none => cases this
              | some p2 => exact ⟨n2, p2, rfl⟩)⟩
          have hnew := hX (.rep n2 arr2) tbl unk
          rw [← append_assoc]
          refine Perm.append_right R ?_
          -- E ++ owned m  ~  E ++ (slot ++ Rest)  ~  (E ++ slot) ++ Rest  ~  slot' ++ Rest  ~  owned m'
          refine (Perm.append_left E hown0).trans ?_
          rw [← append_assoc]
          exact (Perm.append_right _ hperm.symm).trans hnew.symm
        by_cases hpk : usesPackedPath ((S.msg ty).fields.getD i default) sm.wt = true
        · simp only [hpk, if_true]
          cases hpp : parsePacked ((S.msg ty).fields.getD i default).type (drop sm.prefLen sm.data) with
          | none => exact ⟨slots, unk, rfl, hok, a, arrMono_refl _, Or.inl rfl⟩
          | some vs =>
            simp only
            obtain ⟨_, _, _, hokv⟩ := Pbc.Props.C06.parsePacked_ok _ _ _ hpp
            have hlift := ownedVals_lift S _ vs hokv
            cases arr with
            | none =>
              have := grow none (n + vs.length) [] (by simp only [ownedSlot, nil_append]; exact Perm.refl _) (fun hh => by cases hh) h (by simpa using a)
              exact ⟨_, unk, rfl, this.1, this.2.1, this.2.2, Or.inr ⟨i, _, rfl, rfl⟩⟩
            | some p =>
              obtain ⟨aid, l⟩ := p
              have := grow (some (aid, l ++ map liftVal vs)) (n + vs.length) []
                (by simp only [ownedSlot, ownedVals_append, hlift, append_nil, nil_append]; exact Perm.refl _) (fun _ => rfl) h (by simpa using a)
              exact ⟨_, unk, rfl, this.1, this.2.1, this.2.2, Or.inr ⟨i, _, rfl, rfl⟩⟩
        · simp only [hpk, Bool.false_eq_true, if_false]
          have hpk' : usesPackedPath ((S.msg ty).fields.getD i default) sm.wt = false := by simpa using hpk
          obtain ⟨n', p', hsome⟩ := harr i hf hlab hpk'
          rw [hs] at hsome
          simp only [HSlot.rep.injEq] at hsome
          obtain ⟨_, harr2⟩ := hsome
          subst harr2
          obtain ⟨aid, l⟩ := p'
          obtain ⟨a2, hfo⟩ := parseRequiredH_elem_acct S σ fuel ((S.msg ty).fields.getD i default) sm hrec a
          split
          · have := grow (some (aid, l ++ [(parseRequiredH S σ fuel ((S.msg ty).fields.getD i default) sm HVal.zero false h).2.1]))
              (n + 1) (ownedVal S (parseRequiredH S σ fuel ((S.msg ty).fields.getD i default) sm HVal.zero false h).2.1)
              (by
                simp only [ownedSlot, ownedVals_append, ownedVals, append_nil, append_assoc]
                exact perm_mid (ownedVals S l) _ [aid]) (fun _ => rfl) _ a2
            exact ⟨_, unk, rfl, this.1, this.2.1, this.2.2, Or.inr ⟨i, _, rfl, rfl⟩⟩
          · -- the element that failed to parse owns nothing (a refused allocation leaves a NULL pointer)
            rename_i hfail
            have hv0 : ownedVal S (parseRequiredH S σ fuel ((S.msg ty).fields.getD i default) sm HVal.zero false h).2.1 = [] :=
              hfo (by simpa using hfail)
            rw [hv0] at a2
            exact ⟨slots, unk, rfl, hok, by simpa using a2, arrMono_refl _, Or.inl rfl⟩

theorem groupOk_set_plain (fields : List FieldDesc) (cs : Nat → Nat) (slots : List HSlot) (h : GroupOk fields cs slots)
    (i : Nat) (hg : (fields.getD i default).group = none) (s2 : HSlot) : GroupOk fields cs (hsetSlot slots i s2) := by
  refine ⟨fun j g hj hgj => ?_, h.sel⟩
  have hji : i ≠ j := by intro e; subst e; rw [hg] at hgj; cases hgj
  rw [hgetSlot_set_ne _ _ _ _ hji]
  exact h.grp j g hj hgj

/-- **one member**: whatever `parse_member` does — succeed, fail on a refused allocation, fail on a wrong wire type — the
    blocks outstanding are exactly those the message (as the C code leaves it) owns, plus the rest -/
theorem parseMemberH_acct (S : Schema) (σ : Nat → Bool) (fuel ty : Nat) (hfl : FlatS (S.msg ty).fields)
    (hrec : RecOk S σ fuel) (sm : Scanned)
    (hsm : ∀ i, sm.fidx = some i → i < (S.msg ty).fields.length)
    (hsm2 : ∀ i, sm.fidx = some i → ((S.msg ty).fields.getD i default).id = sm.tag)
    (id : Nat) (slots : List HSlot) (tbl : Option Nat) (unk : List (Unk × Option Nat)) (cs : Nat → Nat)
    (hok : SlotsOk S (S.msg ty).fields slots) (hgk : GroupOk (S.msg ty).fields cs slots)
    (harr : ∀ i, sm.fidx = some i → ((S.msg ty).fields.getD i default).label = .repeated →
      usesPackedPath ((S.msg ty).fields.getD i default) sm.wt = false → ∃ n p, hgetSlot slots i = .rep n (some p))
    {h : Heap} {R : List Nat}
    (a : Acct h (ownedMsg S (.mk ty id slots tbl unk) ++ R)) :
    ∃ slots2 unk2 cs2, (parseMemberH S σ fuel (S.msg ty).fields sm (.mk ty id slots tbl unk) h).2.1 = .mk ty id slots2 tbl unk2 ∧
      SlotsOk S (S.msg ty).fields slots2 ∧ GroupOk (S.msg ty).fields cs2 slots2 ∧
      Acct (parseMemberH S σ fuel (S.msg ty).fields sm (.mk ty id slots tbl unk) h).2.2
        (ownedMsg S (.mk ty id slots2 tbl unk2) ++ R) ∧ ArrMono slots slots2 := by
  by_cases hgr : ∃ i g, sm.fidx = some i ∧ ((S.msg ty).fields.getD i default).group = some g
  · obtain ⟨i, g, hf, hg⟩ := hgr
    have hi := hsm i hf
    have hlab := hfl.oneof _ (getD_mem' _ i hi) (by rw [hg]; rfl)
    rw [parseMemberH_oneof S σ fuel _ sm i g hf hg hlab]
    obtain ⟨s2, cs2, h1, h2, h3, h4, h5⟩ := oneofH_acct S σ fuel ty hfl sm i g hi hg (hsm2 i hf) id slots tbl unk cs hok hgk a
    exact ⟨s2, unk, cs2, h1, h2, h3, h4, h5⟩
  · have hpl : ∀ i, sm.fidx = some i → ((S.msg ty).fields.getD i default).group = none := by
      intro i hf
      cases hg : ((S.msg ty).fields.getD i default).group with
      | none => rfl
      | some g => exact absurd ⟨i, g, hf, hg⟩ hgr
    obtain ⟨s2, u2, h1, h2, h3, h4, h5⟩ := parseMemberH_plain S σ fuel ty hfl hrec sm hsm hpl id slots tbl unk hok harr a
    refine ⟨s2, u2, cs, h1, h2, ?_, h3, h4⟩
    rcases h5 with rfl | ⟨i, sx, hf, rfl⟩
    · exact hgk
    · exact groupOk_set_plain _ cs slots hgk i (hpl i hf) sx

/-- **the parse pass** -/
theorem parseAllH_acct (S : Schema) (σ : Nat → Bool) (fuel ty : Nat) (hfl : FlatS (S.msg ty).fields) (hrec : RecOk S σ fuel) :
    ∀ (l : List Scanned), (∀ sm ∈ l, ∀ i, sm.fidx = some i → i < (S.msg ty).fields.length ∧ ((S.msg ty).fields.getD i default).id = sm.tag) →
    ∀ (id : Nat) (slots : List HSlot) (tbl : Option Nat) (unk : List (Unk × Option Nat)) (cs : Nat → Nat) (h : Heap) (R : List Nat),
    SlotsOk S (S.msg ty).fields slots → GroupOk (S.msg ty).fields cs slots →
    (∀ sm ∈ l, ∀ i, sm.fidx = some i → ((S.msg ty).fields.getD i default).label = .repeated →
      usesPackedPath ((S.msg ty).fields.getD i default) sm.wt = false → ∃ n p, hgetSlot slots i = .rep n (some p)) →
    Acct h (ownedMsg S (.mk ty id slots tbl unk) ++ R) →
    ∃ slots2 unk2, (parseAllH S σ fuel (S.msg ty).fields l (.mk ty id slots tbl unk) h).2.1 = .mk ty id slots2 tbl unk2 ∧
      Acct (parseAllH S σ fuel (S.msg ty).fields l (.mk ty id slots tbl unk) h).2.2 (ownedMsg S (.mk ty id slots2 tbl unk2) ++ R)
  | [], _, id, slots, tbl, unk, cs, h, R, _, _, _, a => by
    simp only [parseAllH]
    exact ⟨slots, unk, rfl, a⟩
  | sm :: rest, hall, id, slots, tbl, unk, cs, h, R, hok, hgk, harr, a => by
    obtain ⟨s2, u2, cs2, he, hok2, hgk2, a2, hmono⟩ := parseMemberH_acct S σ fuel ty hfl hrec sm
      (fun i hi => (hall sm (mem_cons_self ..) i hi).1) (fun i hi => (hall sm (mem_cons_self ..) i hi).2)
      id slots tbl unk cs hok hgk (harr sm (mem_cons_self ..)) a
    simp only [parseAllH]
    generalize hr : parseMemberH S σ fuel (S.msg ty).fields sm (.mk ty id slots tbl unk) h = r at he a2
    obtain ⟨ok, m', h'⟩ := r
    simp only at he a2
    subst he
    cases ok with
    | false => exact ⟨s2, u2, rfl, a2⟩
    | true =>
      exact parseAllH_acct S σ fuel ty hfl hrec rest (fun x hx => hall x (mem_cons_of_mem _ hx)) id s2 tbl u2 cs2 h' R hok2 hgk2
        (fun x hx i h1 h2 h3 => hmono i (harr x (mem_cons_of_mem _ hx) i h1 h2 h3)) a2

/-! ### the scan pass: slabs -/
theorem scanLoopH_acct (σ : Nat → Bool) (fields : List FieldDesc) : ∀ (fuel : Nat) (b : Bytes) (st : ScanState) (slabs : List Nat)
    (h : Heap) (R : List Nat), Acct h (slabs ++ R) →
    Acct (scanLoopH σ fields fuel b st slabs h).2.2 ((scanLoopH σ fields fuel b st slabs h).2.1 ++ R)
  | 0, b, st, slabs, h, R, a => by simp only [scanLoopH]; exact a
  | fuel+1, b, st, slabs, h, R, a => by
    simp only [scanLoopH]
    split
    · exact a
    · split
      · rename_i j hj
        have ha := acct_alloc (σ := σ) (n := sizeofScanned * 2 ^ (j + 4)) a
        cases hal : h.alloc σ (sizeofScanned * 2 ^ (j + 4)) with
        | mk oid h1 =>
          cases oid with
          | none => simp only; exact (ha h1).2 hal
          | some id =>
            simp only
            have a1 : Acct h1 ((slabs ++ [id]) ++ R) := by
              refine acct_perm ((ha h1).1 id hal) ?_
              have := perm_mid slabs [id] R
              simpa [append_assoc] using this.symm
            split
            · exact a1
            · exact scanLoopH_acct σ fields fuel _ _ _ h1 R a1
      · split
        · exact a
        · exact scanLoopH_acct σ fields fuel _ _ _ h R a

/-! ### the arrays of the repeated fields -/

inductive All2 {α β : Type} (R : α → β → Prop) : List α → List β → Prop
  | nil : All2 R [] []
  | cons {a b as bs} : R a b → All2 R as bs → All2 R (a :: as) (b :: bs)

theorem All2.cons_inv {α β : Type} {R : α → β → Prop} {a : α} {b : β} {as : List α} {bs : List β}
    (h : All2 R (a :: as) (b :: bs)) : R a b ∧ All2 R as bs := by
  cases h with
  | cons h1 h2 => exact ⟨h1, h2⟩

theorem All2.imp {α β : Type} {R Q : α → β → Prop} (himp : ∀ a b, R a b → Q a b) : ∀ {as : List α} {bs : List β},
    All2 R as bs → All2 Q as bs
  | _, _, .nil => .nil
  | _, _, .cons h t => .cons (himp _ _ h) (All2.imp himp t)

theorem All2.length {α β : Type} {R : α → β → Prop} : ∀ {as : List α} {bs : List β}, All2 R as bs → as.length = bs.length
  | _, _, .nil => rfl
  | _, _, .cons _ t => by simp [All2.length t]

theorem All2.get {α β : Type} [Inhabited α] [Inhabited β] {R : α → β → Prop} : ∀ {as : List α} {bs : List β}, All2 R as bs →
    ∀ i, i < as.length → R (as.getD i default) (bs.getD i default)
  | _, _, .nil, i, hi => by simp at hi
  | _, _, .cons h t, 0, _ => by simpa using h
  | _, _, .cons h t, i+1, hi => by simpa using All2.get t i (by simpa using hi)


/-- a slot of the freshly initialised message: owns nothing -/
def InitOk (S : Schema) (f : FieldDesc) : HSlot → Prop
  | .one _ v => f.label ≠ .repeated ∧ ownedVal S v = []
  | .rep _ none => f.label = .repeated
  | .rep _ (some _) => False

/-- a slot of the message under construction -/
def SOk (S : Schema) (f : FieldDesc) : HSlot → Prop
  | .one q v => f.label ≠ .repeated ∧ (if (f.isOneof && f.id != q) = true then ownedVal S v = [] else OwnOk S f v)
  | .rep _ none => f.label = .repeated
  | .rep _ (some _) => f.label = .repeated

theorem sok_of_init (S : Schema) (f : FieldDesc) (s : HSlot) (h : InitOk S f s) : SOk S f s := by
  cases s with
  | one q v => exact ⟨h.1, by split; exact h.2; exact Or.inl h.2⟩
  | rep n arr => cases arr with
    | none => exact h
    | some p => exact absurd h (by simp [InitOk])

theorem ownedSlot_init (S : Schema) (f : FieldDesc) (s : HSlot) (h : InitOk S f s) : ownedSlot S f s = [] := by
  cases s with
  | one q v =>
    simp only [ownedSlot]
    split
    · rfl
    · exact h.2
  | rep n arr => cases arr with
    | none => rfl
    | some p => exact absurd h (by simp [InitOk])

theorem owned_nothing (S : Schema) : ∀ {fs : List FieldDesc} {ss : List HSlot}, All2 (InitOk S) fs ss → ownedSlots S fs ss = []
  | _, _, .nil => rfl
  | _, _, .cons hh t => by simp [ownedSlots, ownedSlot_init S _ _ hh, owned_nothing S t]

theorem map_ok (S : Schema) (g : HSlot → HSlot) (hg : ∀ f s, InitOk S f s → InitOk S f (g s)) :
    ∀ {fs : List FieldDesc} {ss : List HSlot}, All2 (InitOk S) fs ss → All2 (InitOk S) fs (ss.map g)
  | _, _, .nil => .nil
  | _, _, .cons hh t => All2.cons (hg _ _ hh) (map_ok S g hg t)

theorem allocArrays_acct (S : Schema) (σ : Nat → Bool) (fields : List FieldDesc) (counts : List (Nat × Nat)) :
    ∀ (i : Nat) (fs : List FieldDesc) (ss : List HSlot) (h : Heap) (R : List Nat),
    All2 (InitOk S) fs ss → Acct h R →
    All2 (SOk S) fs (allocArrays σ fields counts i fs ss h).2.1 ∧
    Acct (allocArrays σ fields counts i fs ss h).2.2 (ownedSlots S fs (allocArrays σ fields counts i fs ss h).2.1 ++ R)
  | i, [], [], h, R, _, a => by simp only [allocArrays]; exact ⟨All2.nil, by simpa [ownedSlots] using a⟩
  | i, f :: fs, s :: ss, h, R, hfa, a => by
    obtain ⟨hs, hrest⟩ := All2.cons_inv hfa
    simp only [allocArrays]
    by_cases hrep : (f.label == .repeated) = true
    · simp only [hrep, if_true]
      have hlab : f.label = .repeated := by simpa using hrep
      split
      · -- an array is needed
        have ha := acct_alloc (σ := σ) (n := f.type.eltSize * (counts.filter (fun c => c.1 == i)).foldl (fun a c => a + c.2) 0) a
        cases hal : h.alloc σ (f.type.eltSize * (counts.filter (fun c => c.1 == i)).foldl (fun a c => a + c.2) 0) with
        | mk oid h1 =>
          cases oid with
          | none =>
            simp only
            have key : ∀ (g : HSlot → HSlot), (∀ f s, InitOk S f s → InitOk S f (g s)) →
                All2 (SOk S) (f :: fs) (HSlot.rep 0 none :: ss.map g) ∧
                Acct h1 (ownedSlots S (f :: fs) (HSlot.rep 0 none :: ss.map g) ++ R) := by
              intro g hg
              have hmap := map_ok S g hg hrest
              refine ⟨All2.cons hlab (hmap.imp (fun _ _ hh => sok_of_init S _ _ hh)), ?_⟩
              simp only [ownedSlots, ownedSlot, nil_append]
              rw [owned_nothing S hmap]
              exact (ha h1).2 hal
            apply key
            intro f' s' hh
            cases s' with
            | one q v => exact hh
            | rep n arr => cases arr with
              | none => exact hh
              | some p => exact absurd hh (by simp [InitOk])
          | some id =>
            simp only
            have a1 := (ha h1).1 id hal
            obtain ⟨hf2, a2⟩ := allocArrays_acct S σ fields counts (i + 1) fs ss h1 (id :: R) hrest a1
            refine ⟨All2.cons hlab hf2, ?_⟩
            simp only [ownedSlots, ownedSlot, ownedVals, nil_append]
            refine acct_perm a2 ?_
            have := perm_mid (ownedSlots S fs (allocArrays σ fields counts (i + 1) fs ss h1).2.1) [id] R
            simpa [append_assoc] using this
      · obtain ⟨hf2, a2⟩ := allocArrays_acct S σ fields counts (i + 1) fs ss h R hrest a
        refine ⟨All2.cons (sok_of_init S _ _ hs) hf2, ?_⟩
        simp only [ownedSlots, ownedSlot_init S _ _ hs, nil_append]
        exact a2
    · simp only [hrep, Bool.false_eq_true, if_false]
      obtain ⟨hf2, a2⟩ := allocArrays_acct S σ fields counts (i + 1) fs ss h R hrest a
      refine ⟨All2.cons (sok_of_init S _ _ hs) hf2, ?_⟩
      simp only [ownedSlots, ownedSlot_init S _ _ hs, nil_append]
      exact a2

/-! ### the freshly initialised message -/
theorem dfltVal_lift_owned (S : Schema) (f : FieldDesc) : ownedVal S (liftVal (dfltVal f)) = [] := by
  unfold dfltVal
  cases f.dflt with
  | none => unfold zeroVal; cases f.type <;> simp [liftVal, ownedVal, PType.is32]
  | scalar b => simp only; split <;> simp [liftVal, ownedVal]
  | str s => simp [liftVal, ownedVal]
  | emptyStr => simp [liftVal, ownedVal]
  | bin b => simp [liftVal, ownedVal]

theorem init_slot_ok (S : Schema) (g : Bool) (f : FieldDesc) : InitOk S f (liftSlot (Pbc.Props.C01.initSlot' g f)) := by
  unfold Pbc.Props.C01.initSlot'
  by_cases hl : (f.label == .repeated) = true
  · have hlab : f.label = .repeated := by simpa using hl
    cases g <;> simp [initSlotGen, initSlotGeneric, hl, liftSlot, InitOk, hlab]
  · have hlab : f.label ≠ .repeated := by simpa using hl
    have hl' : (f.label == Label.repeated) = false := by simpa using hl
    cases g <;> simp only [Bool.false_eq_true, if_false, if_true, initSlotGen, initSlotGeneric, hl']
    · split
      · exact ⟨hlab, by simp [liftVal, ownedVal]⟩
      · cases f.init with
        | none => exact ⟨hlab, dfltVal_lift_owned S f⟩
        | some b => simp only [liftSlot]; split <;> exact ⟨hlab, by simp [liftVal, ownedVal]⟩
    · split
      · exact ⟨hlab, by simp [liftVal, ownedVal]⟩
      · exact ⟨hlab, dfltVal_lift_owned S f⟩

theorem init_all2 (S : Schema) (t : Nat) : All2 (InitOk S) (S.msg t).fields ((initMsg S t).slots.map liftSlot) := by
  rw [Pbc.Props.C01.initMsg_eq]
  simp only [Msg.slots, map_map]
  generalize (S.msg t).fields = fs
  induction fs with
  | nil => exact All2.nil
  | cons f fs ih => exact All2.cons (init_slot_ok S _ f) ih

/-! ### the whole call -/
open Pbc.Props.C06 in
theorem scanLoopH_accok (σ : Nat → Bool) (fields : List FieldDesc) (hd : Pbc.Props.C01.IdsDistinct fields) :
    ∀ (fuel : Nat) (b : Bytes) (st : ScanState) (slabs : List Nat) (h : Heap) (st' : ScanState),
    AccOK fields st → (scanLoopH σ fields fuel b st slabs h).1 = some st' → AccOK fields st'
  | 0, b, st, slabs, h, st', hi, hs => by
    simp only [scanLoopH] at hs
    split at hs
    · cases hs; exact hi
    · cases hs
  | fuel+1, b, st, slabs, h, st', hi, hs => by
    simp only [scanLoopH] at hs
    split at hs
    · cases hs; exact hi
    · split at hs
      · cases hal : h.alloc σ (sizeofScanned * 2 ^ (_ + 4)) with
        | mk oid h1 =>
          rw [hal] at hs
          cases oid with
          | none => cases hs
          | some id =>
            simp only at hs
            split at hs
            · cases hs
            · rename_i b1 st1 hstep
              exact scanLoopH_accok σ fields hd fuel b1 st1 _ h1 st' (scanStep_acc fields hd b b1 st st1 hi hstep) hs
      · split at hs
        · cases hs
        · rename_i b1 st1 hstep
          exact scanLoopH_accok σ fields hd fuel b1 st1 _ h st' (scanStep_acc fields hd b b1 st st1 hi hstep) hs

theorem all2_slotsOk (S : Schema) (fields : List FieldDesc) (slots : List HSlot) (h : All2 (SOk S) fields slots) :
    SlotsOk S fields slots := by
  refine ⟨h.length.symm, ?_⟩
  intro i hi
  have := h.get i hi
  unfold hgetSlot
  cases hs : slots.getD i default with
  | one q v => rw [hs] at this; exact this
  | rep n arr => cases arr with
    | none => rw [hs] at this; exact this
    | some p => rw [hs] at this; exact this

def freeBmF (bm : Option Nat) (h : Heap) : Heap := match bm with | some i => h.free i | none => h

theorem freeBm_acct (bm : Option Nat) {h : Heap} {R : List Nat} (a : Acct h (bm.toList ++ R)) : Acct (freeBmF bm h) R := by
  unfold freeBmF
  cases bm with
  | none => simpa using a
  | some i => exact acct_free_head (by simpa using a)

/-- error_cleanup: the message as far as it was built, the slabs, the bitmap -/
theorem cleanup_acct (S : Schema) (m : HMsg) (slabs : List Nat) (bm : Option Nat) {h : Heap} {L : List Nat}
    (a : Acct h (ownedMsg S m ++ (slabs ++ (bm.toList ++ L)))) :
    Acct (freeBmF bm (freeList slabs (freeMsg S m h))) L := by
  have a1 := acct_freeMsg S m a
  have a2 : Acct (freeList slabs (freeMsg S m h)) (bm.toList ++ L) := acct_frees slabs a1
  exact freeBm_acct bm a2

/-- the required-fields bitmap of messages with more than 128 fields -/
def bmAlloc (σ : Nat → Bool) (nb : Nat) (h1 : Heap) : Option (Option Nat) × Heap :=
  if nb > 16 then (match h1.alloc σ nb with | (none, h2) => (none, h2) | (some i, h2) => (some (some i), h2))
  else (some none, h1)

theorem bmAlloc_acct (σ : Nat → Bool) (nb : Nat) {h1 : Heap} {R : List Nat} (a1 : Acct h1 R) :
    ((bmAlloc σ nb h1).1 = none → Acct (bmAlloc σ nb h1).2 R) ∧
    (∀ bm, (bmAlloc σ nb h1).1 = some bm → Acct (bmAlloc σ nb h1).2 (bm.toList ++ R)) := by
  unfold bmAlloc
  split
  · have hb2 := acct_alloc (σ := σ) (n := nb) a1
    cases hal2 : h1.alloc σ nb with
    | mk ob h2 =>
      cases ob with
      | none => exact ⟨fun _ => (hb2 h2).2 hal2, (fun bm hh => by cases hh)⟩
      | some i =>
        refine ⟨(fun hh => by cases hh), fun bm hh => ?_⟩
        simp only [Option.some.injEq] at hh
        subst hh
        exact (hb2 h2).1 i hal2
  · refine ⟨(fun hh => by cases hh), fun bm hh => ?_⟩
    simp only [Option.some.injEq] at hh
    subst hh
    simpa using a1

/-- the table of unknown fields -/
def tblAlloc (σ : Nat → Bool) (k : Nat) (h4 : Heap) : Option (Option Nat) × Heap :=
  if k > 0 then (match h4.alloc σ (k * sizeofUnk) with | (none, h5) => (none, h5) | (some i, h5) => (some (some i), h5))
  else (some none, h4)

theorem tblAlloc_acct (σ : Nat → Bool) (k : Nat) {h1 : Heap} {R : List Nat} (a1 : Acct h1 R) :
    ((tblAlloc σ k h1).1 = none → Acct (tblAlloc σ k h1).2 R) ∧
    (∀ tb, (tblAlloc σ k h1).1 = some tb → Acct (tblAlloc σ k h1).2 (tb.toList ++ R)) := by
  unfold tblAlloc
  split
  · have hb2 := acct_alloc (σ := σ) (n := k * sizeofUnk) a1
    cases hal2 : h1.alloc σ (k * sizeofUnk) with
    | mk ob h2 =>
      cases ob with
      | none => exact ⟨fun _ => (hb2 h2).2 hal2, (fun bm hh => by cases hh)⟩
      | some i =>
        refine ⟨(fun hh => by cases hh), fun bm hh => ?_⟩
        simp only [Option.some.injEq] at hh
        subst hh
        exact (hb2 h2).1 i hal2
  · refine ⟨(fun hh => by cases hh), fun bm hh => ?_⟩
    simp only [Option.some.injEq] at hh
    subst hh
    simpa using a1

/-- the part of `protobuf_c_message_unpack` after the arrays have been allocated, with the clean-up paths named -/
def tailH2 (S : Schema) (σ : Nat → Bool) (fuel t rv : Nat) (bm : Option Nat) (slabs : List Nat) (st : ScanState)
    (firstBad : Option Nat) (okA : Bool) (slots1 : List HSlot) (h4 : Heap) : Option HMsg × Heap :=
  let fields := (S.msg t).fields
  let cleanup := fun (m : HMsg) (h : Heap) => freeBmF bm (freeList slabs (freeMsg S m h))
  let m1 : HMsg := .mk t rv slots1 none []
  if !okA then (none, cleanup m1 h4)
  else if firstBad.isSome then (none, cleanup m1 h4)
  else
    match tblAlloc σ st.nUnknown h4 with
    | (none, h5) => (none, cleanup m1 h5)
    | (some tbl, h5) =>
      let m2 : HMsg := .mk t rv slots1 tbl []
      match parseAllH S σ fuel fields st.acc.reverse m2 h5 with
      | (false, m3, h6) => (none, cleanup m3 h6)
      | (true, m3, h6) => (some m3, freeBmF bm (freeList slabs h6))

/-- the part after a successful scan pass -/
def tailH (S : Schema) (σ : Nat → Bool) (fuel t rv : Nat) (bm : Option Nat) (slabs : List Nat) (st : ScanState) (h3 : Heap) :
    Option HMsg × Heap :=
  let fields := (S.msg t).fields
  let m0 : HMsg := .mk t rv ((initMsg S t).slots.map liftSlot) none []
  let reqBad := fun (i : Nat) =>
    let f := fields.getD i default
    f.label == .required && f.dflt == .none && !st.bitmap.contains i
  let firstBad := (List.range fields.length).find? reqBad
  let upto := firstBad.getD fields.length
  let counts := st.counts.filter (fun c => c.1 < upto)
  let r := allocArrays σ fields counts 0 fields m0.slots h3
  tailH2 S σ fuel t rv bm slabs st firstBad r.1 r.2.1 r.2.2

def unpackMsgH2 (S : Schema) (σ : Nat → Bool) (fuel t : Nat) (b : Bytes) (h : Heap) : Option HMsg × Heap :=
  let fields := (S.msg t).fields
  match h.alloc σ (sizeofMsg (S.msg t)) with
  | (none, h1) => (none, h1)
  | (some rv, h1) =>
    match bmAlloc σ ((fields.length + 7) / 8) h1 with
    | (none, h2) => (none, h2.free rv)
    | (some bm, h2) =>
      match scanLoopH σ fields b.length b ⟨if fields.isEmpty then none else some 0, 0, [], [], [], 0⟩ [] h2 with
      | (none, slabs, h3) => (none, freeBmF bm (freeList slabs (h3.free rv)))
      | (some st, slabs, h3) => tailH S σ fuel t rv bm slabs st h3

theorem unpackMsgH_eq (S : Schema) (σ : Nat → Bool) (fuel t : Nat) (b : Bytes) (h : Heap) :
    unpackMsgH S σ fuel t b h = unpackMsgH2 S σ fuel t b h := by
  unfold unpackMsgH unpackMsgH2 tailH tailH2 bmAlloc tblAlloc freeBmF
  rfl

theorem tailH2_acct (S : Schema) (σ : Nat → Bool) (fuel t rv : Nat) (hfl : FlatS (S.msg t).fields) (hrec : RecOk S σ fuel)
    (bm : Option Nat)
    (slabs : List Nat) (st : ScanState)
    (hst : ∀ sm ∈ st.acc, ∀ i, sm.fidx = some i → i < (S.msg t).fields.length ∧ ((S.msg t).fields.getD i default).id = sm.tag)
    (firstBad : Option Nat) (okA : Bool) (slots1 : List HSlot) (h4 : Heap) (L : List Nat)
    (hall2 : All2 (SOk S) (S.msg t).fields slots1) (hgk1 : okA = true → GroupOk (S.msg t).fields (fun _ => 0) slots1)
    (harr1 : okA = true → firstBad.isSome = false → ∀ sm ∈ st.acc, ∀ i, sm.fidx = some i →
      ((S.msg t).fields.getD i default).label = .repeated →
      usesPackedPath ((S.msg t).fields.getD i default) sm.wt = false → ∃ n p, hgetSlot slots1 i = .rep n (some p))
    (a4 : Acct h4 (ownedSlots S (S.msg t).fields slots1 ++ (slabs ++ (bm.toList ++ (rv :: L))))) :
    match tailH2 S σ fuel t rv bm slabs st firstBad okA slots1 h4 with
    | (none, h') => Acct h' L
    | (some m, h') => Acct h' (ownedMsg S m ++ L) := by
  unfold tailH2
  simp only
  have hok1 := all2_slotsOk S _ _ hall2
  -- the message with its arrays owns the arrays and its own block
  have am1 : ∀ (tbl : Option Nat) (hh : Heap), Acct hh (tbl.toList ++ (ownedSlots S (S.msg t).fields slots1 ++ (slabs ++ (bm.toList ++ (rv :: L))))) →
      Acct hh (ownedMsg S (.mk t rv slots1 tbl []) ++ (slabs ++ (bm.toList ++ L))) := by
    intro tbl hh ah
    refine acct_perm ah ?_
    simp only [ownedMsg, filterMap_nil, append_nil, append_assoc]
    have p1 := perm_mid tbl.toList (ownedSlots S (S.msg t).fields slots1) (slabs ++ (bm.toList ++ (rv :: L)))
    refine p1.trans (Perm.append_left _ (Perm.append_left _ ?_))
    have p2 := perm_mid (slabs ++ bm.toList) [rv] L
    simpa [append_assoc] using p2
  have a4' : Acct h4 (ownedMsg S (.mk t rv slots1 none []) ++ (slabs ++ (bm.toList ++ L))) := am1 none h4 (by simpa using a4)
  by_cases hA : (!okA) = true
  · simp only [hA, if_true]
    exact cleanup_acct S _ slabs bm a4'
  · simp only [hA, Bool.false_eq_true, if_false]
    by_cases hB : firstBad.isSome = true
    · simp only [hB, if_true]
      exact cleanup_acct S _ slabs bm a4'
    · simp only [hB, Bool.false_eq_true, if_false]
      have ht := tblAlloc_acct σ st.nUnknown a4'
      generalize tblAlloc σ st.nUnknown h4 = tr at ht
      obtain ⟨otb, h5⟩ := tr
      cases otb with
      | none =>
        simp only
        exact cleanup_acct S _ slabs bm (ht.1 rfl)
      | some tbl =>
        have hu0 := ht.2 tbl rfl
        simp only at hu0 ⊢
        have hu : Acct h5 (ownedMsg S (.mk t rv slots1 tbl []) ++ (slabs ++ (bm.toList ++ L))) := by
          refine acct_perm hu0 ?_
          simp only [ownedMsg, filterMap_nil, append_nil, append_assoc, Option.toList_none, nil_append]
          -- tbl ++ (O ++ ([rv] ++ X))  ~  O ++ (tbl ++ ([rv] ++ X))
          exact perm_mid tbl.toList _ _
        obtain ⟨s2, u2, he, a6⟩ := parseAllH_acct S σ fuel t hfl hrec st.acc.reverse
          (fun sm hsm => hst sm (by simpa using hsm)) rv slots1 tbl [] (fun _ => 0) h5 _ hok1 (hgk1 (by simpa using hA))
          (fun sm hsm => harr1 (by simpa using hA) (by simpa using hB) sm (by simpa using hsm)) hu
        generalize hp : parseAllH S σ fuel (S.msg t).fields st.acc.reverse (.mk t rv slots1 tbl []) h5 = pr at he a6
        obtain ⟨ok, m3, h6⟩ := pr
        simp only at he a6
        subst he
        cases ok with
        | false => exact cleanup_acct S _ slabs bm a6
        | true =>
          simp only
          have : Acct h6 (slabs ++ (bm.toList ++ (ownedMsg S (.mk t rv s2 tbl u2) ++ L))) := by
            refine acct_perm a6 ?_
            have := perm_mid (ownedMsg S (.mk t rv s2 tbl u2)) (slabs ++ bm.toList) L
            simpa [append_assoc] using this
          exact freeBm_acct bm (acct_frees slabs this)

theorem allocArrays_keep (σ : Nat → Bool) (fields : List FieldDesc) (counts : List (Nat × Nat)) :
    ∀ (i0 : Nat) (fs : List FieldDesc) (ss : List HSlot) (h : Heap), fs.length = ss.length →
    (allocArrays σ fields counts i0 fs ss h).1 = true →
    ∀ j, j < fs.length → (fs.getD j default).label ≠ .repeated →
    (allocArrays σ fields counts i0 fs ss h).2.1.getD j default = ss.getD j default
  | i0, [], [], h, _, _, j, hj, _ => by simp at hj
  | i0, [], _ :: _, h, hl, _, _, _, _ => by simp at hl
  | i0, _ :: _, [], h, hl, _, _, _, _ => by simp at hl
  | i0, f :: fs, s :: ss, h, hl, hok, j, hj, hlab => by
    simp only [allocArrays] at hok ⊢
    by_cases hrep : (f.label == .repeated) = true
    · have hfl : f.label = .repeated := by simpa using hrep
      simp only [hrep, if_true] at hok ⊢
      cases j with
      | zero => simp only [getD_cons_zero] at hlab; exact absurd hfl hlab
      | succ j =>
        by_cases hn : ((counts.filter (fun c => c.1 == i0)).foldl (fun a c => a + c.2) 0 != 0) = true
        · simp only [hn, if_true] at hok ⊢
          cases hal : h.alloc σ (f.type.eltSize * (counts.filter (fun c => c.1 == i0)).foldl (fun a c => a + c.2) 0) with
          | mk oid h1 =>
            simp only [hal] at hok ⊢
            cases oid with
            | none => simp at hok
            | some id =>
              simp only at hok ⊢
              have ih := allocArrays_keep σ fields counts (i0 + 1) fs ss h1 (by simpa using hl) hok j (by simpa using hj)
                (by simpa using hlab)
              simpa using ih
        · simp only [hn, Bool.false_eq_true, if_false] at hok ⊢
          have ih := allocArrays_keep σ fields counts (i0 + 1) fs ss h (by simpa using hl) hok j (by simpa using hj)
            (by simpa using hlab)
          simpa using ih
    · simp only [hrep, Bool.false_eq_true, if_false] at hok ⊢
      cases j with
      | zero => simp
      | succ j =>
        have ih := allocArrays_keep σ fields counts (i0 + 1) fs ss h (by simpa using hl) hok j (by simpa using hj) (by simpa using hlab)
        simpa using ih

/-! ### every unpacked element of a repeated field finds its array -/

theorem foldl_add_ge (l : List (Nat × Nat)) : ∀ (init : Nat), init ≤ l.foldl (fun a c => a + c.2) init := by
  induction l with
  | nil => intro init; exact Nat.le_refl _
  | cons x xs ih => intro init; simp only [foldl_cons]; exact Nat.le_trans (Nat.le_add_right _ _) (ih _)

theorem foldl_add_mem (l : List (Nat × Nat)) (x : Nat × Nat) (hx : x ∈ l) : ∀ (init : Nat),
    init + x.2 ≤ l.foldl (fun a c => a + c.2) init := by
  induction l with
  | nil => simp at hx
  | cons y ys ih =>
    intro init
    simp only [foldl_cons]
    rcases mem_cons.1 hx with rfl | h
    · exact foldl_add_ge ys _
    · exact Nat.le_trans (by omega) (ih h (init + y.2))

theorem allocArrays_some (S : Schema) (σ : Nat → Bool) (fields : List FieldDesc) (counts : List (Nat × Nat)) :
    ∀ (i0 : Nat) (fs : List FieldDesc) (ss : List HSlot) (h : Heap), All2 (InitOk S) fs ss →
    (allocArrays σ fields counts i0 fs ss h).1 = true →
    ∀ j, j < fs.length → (fs.getD j default).label = .repeated → (i0 + j, 1) ∈ counts →
    ∃ p, (allocArrays σ fields counts i0 fs ss h).2.1.getD j default = .rep 0 (some p)
  | i0, [], [], h, _, _, j, hj, _, _ => by simp at hj
  | i0, f :: fs, s :: ss, h, hfa, hok, j, hj, hlab, hmem => by
    obtain ⟨hs, hrest⟩ := All2.cons_inv hfa
    simp only [allocArrays] at hok ⊢
    by_cases hrep : (f.label == .repeated) = true
    · simp only [hrep, if_true] at hok ⊢
      by_cases hn : ((counts.filter (fun c => c.1 == i0)).foldl (fun a c => a + c.2) 0 != 0) = true
      · simp only [hn, if_true] at hok ⊢
        cases hal : h.alloc σ (f.type.eltSize * (counts.filter (fun c => c.1 == i0)).foldl (fun a c => a + c.2) 0) with
        | mk oid h1 =>
          simp only [hal] at hok ⊢
          cases oid with
          | none => simp at hok
          | some id =>
            simp only at hok ⊢
            cases j with
            | zero => exact ⟨_, rfl⟩
            | succ j =>
              have := allocArrays_some S σ fields counts (i0 + 1) fs ss h1 hrest hok j (by simpa using hj)
                (by simpa using hlab) (by rw [show i0 + 1 + j = i0 + (j + 1) by omega]; exact hmem)
              simpa using this
      · simp only [hn, Bool.false_eq_true, if_false] at hok ⊢
        cases j with
        | zero =>
          exfalso
          have hm : (i0, 1) ∈ counts.filter (fun c => c.1 == i0) := by
            rw [mem_filter]; exact ⟨by simpa using hmem, by simp⟩
          have := foldl_add_mem _ _ hm 0
          simp only [bne_iff_ne, ne_eq, Decidable.not_not] at hn
          omega
        | succ j =>
          have := allocArrays_some S σ fields counts (i0 + 1) fs ss h hrest hok j (by simpa using hj)
            (by simpa using hlab) (by rw [show i0 + 1 + j = i0 + (j + 1) by omega]; exact hmem)
          simpa using this
    · simp only [hrep, Bool.false_eq_true, if_false] at hok ⊢
      cases j with
      | zero => simp only [getD_cons_zero] at hlab; rw [hlab] at hrep; exact absurd rfl hrep
      | succ j =>
        have := allocArrays_some S σ fields counts (i0 + 1) fs ss h hrest hok j (by simpa using hj)
          (by simpa using hlab) (by rw [show i0 + 1 + j = i0 + (j + 1) by omega]; exact hmem)
        simpa using this

/-- the scan pass counts one element for every unpacked occurrence of a repeated field -/
def CntInv (fields : List FieldDesc) (st : ScanState) : Prop :=
  ∀ sm ∈ st.acc, ∀ i, sm.fidx = some i → (fields.getD i default).label = .repeated →
    usesPackedPath (fields.getD i default) sm.wt = false → (i, 1) ∈ st.counts

theorem scanStep_cnt (fields : List FieldDesc) (b b' : Bytes) (st st' : ScanState) (hi : CntInv fields st)
    (hs : scanStep fields b st = some (b', st')) : CntInv fields st' := by
  unfold scanStep at hs
  cases hk : scanKey b with
  | none => simp [hk] at hs
  | some k =>
    obtain ⟨used, tag, wt⟩ := k
    simp only [hk] at hs
    generalize resolveField fields st tag = rf at hs
    obtain ⟨field, last, lastIdx, nu⟩ := rf
    simp only at hs
    cases hdl : delimit wt (b.drop used) with
    | none => simp [hdl] at hs
    | some lp =>
      obtain ⟨len, pref⟩ := lp
      simp only [hdl] at hs
      split at hs
      · cases hs
      · split at hs
        · cases hs
        · rename_i counts hcnt
          simp only [Option.some.injEq, Prod.mk.injEq] at hs
          obtain ⟨_, hst⟩ := hs
          subst hst
          -- the counts only grow, and the new occurrence got its entry
          have hsub : ∀ x, x ∈ st.counts → x ∈ counts := by
            intro x hx
            cases field with
            | none => simp only [Option.some.injEq] at hcnt; subst hcnt; exact hx
            | some i =>
              simp only at hcnt
              split at hcnt
              · split at hcnt
                · simp only [Option.map_eq_some_iff] at hcnt
                  obtain ⟨c, _, rfl⟩ := hcnt
                  exact mem_cons_of_mem _ hx
                · simp only [Option.some.injEq] at hcnt; subst hcnt; exact mem_cons_of_mem _ hx
              · simp only [Option.some.injEq] at hcnt; subst hcnt; exact hx
          intro sm hsm i hfi hlab hpk
          simp only [mem_cons] at hsm
          rcases hsm with rfl | hsm
          · simp only at hfi hpk
            subst hfi
            simp only at hcnt
            have hl' : ((fields.getD i default).label == Label.repeated) = true := by rw [hlab]; rfl
            simp only [hl', if_true, hpk, Bool.false_eq_true, if_false, Option.some.injEq] at hcnt
            subst hcnt
            exact mem_cons_self ..
          · exact hsub _ (hi sm hsm i hfi hlab hpk)

theorem scanLoopH_cnt (σ : Nat → Bool) (fields : List FieldDesc) :
    ∀ (fuel : Nat) (b : Bytes) (st : ScanState) (slabs : List Nat) (h : Heap) (st' : ScanState),
    CntInv fields st → (scanLoopH σ fields fuel b st slabs h).1 = some st' → CntInv fields st'
  | 0, b, st, slabs, h, st', hi, hs => by
    simp only [scanLoopH] at hs
    split at hs
    · cases hs; exact hi
    · cases hs
  | fuel+1, b, st, slabs, h, st', hi, hs => by
    simp only [scanLoopH] at hs
    split at hs
    · cases hs; exact hi
    · split at hs
      · cases hal : h.alloc σ (sizeofScanned * 2 ^ (_ + 4)) with
        | mk oid h1 =>
          rw [hal] at hs
          cases oid with
          | none => cases hs
          | some id =>
            simp only at hs
            split at hs
            · cases hs
            · rename_i b1 st1 hstep
              exact scanLoopH_cnt σ fields fuel b1 st1 _ h1 st' (scanStep_cnt fields b b1 st st1 hi hstep) hs
      · split at hs
        · cases hs
        · rename_i b1 st1 hstep
          exact scanLoopH_cnt σ fields fuel b1 st1 _ h st' (scanStep_cnt fields b b1 st st1 hi hstep) hs

/-- **C07 / C08 for messages without embedded messages and oneofs**: for EVERY input and EVERY refusal schedule σ of the
    allocator, after `protobuf_c_message_unpack` returns NULL exactly the blocks that were outstanding before are
    outstanding; after it returns a message, additionally exactly the blocks that message owns — no leak, no double free,
    no free of a block that was never handed out (`liveAfter` would be `none`) -/
theorem unpackMsgH_acct_step (S : Schema) (σ : Nat → Bool) (fuel t : Nat) (hfl : FlatS (S.msg t).fields)
    (hrec : RecOk S σ fuel) (b : Bytes) (h : Heap) (L : List Nat) (a : Acct h L) :
    match unpackMsgH S σ fuel t b h with
    | (none, h') => Acct h' L
    | (some m, h') => Acct h' (ownedMsg S m ++ L) := by
  rw [unpackMsgH_eq]
  unfold unpackMsgH2
  simp only
  have ha := acct_alloc (σ := σ) (n := sizeofMsg (S.msg t)) a
  cases hal : h.alloc σ (sizeofMsg (S.msg t)) with
  | mk orv h1 =>
    cases orv with
    | none => exact (ha h1).2 hal
    | some rv =>
      have a1 := (ha h1).1 rv hal
      simp only
      have hb := bmAlloc_acct σ (((S.msg t).fields.length + 7) / 8) a1
      generalize bmAlloc σ (((S.msg t).fields.length + 7) / 8) h1 = bmr at hb
      obtain ⟨obm, h2⟩ := bmr
      cases obm with
      | none =>
        simp only
        exact acct_free_head (hb.1 rfl)
      | some bm =>
        have a2 := hb.2 bm rfl
        simp only at a2 ⊢
        have a3 := scanLoopH_acct σ (S.msg t).fields b.length b
          ⟨if (S.msg t).fields.isEmpty then none else some 0, 0, [], [], [], 0⟩ [] h2 (bm.toList ++ (rv :: L)) (by simpa using a2)
        have hacc := scanLoopH_accok σ (S.msg t).fields hfl.distinct b.length b
          ⟨if (S.msg t).fields.isEmpty then none else some 0, 0, [], [], [], 0⟩ [] h2
        generalize hsc : scanLoopH σ (S.msg t).fields b.length b
          ⟨if (S.msg t).fields.isEmpty then none else some 0, 0, [], [], [], 0⟩ [] h2 = sc at a3 hacc
        obtain ⟨ost, slabs, h3⟩ := sc
        simp only at a3 hacc
        cases ost with
        | none =>
          simp only
          -- error_cleanup_during_scan: the message block, the slabs, the bitmap
          have : Acct h3 (rv :: (slabs ++ (bm.toList ++ L))) := by
            refine acct_perm a3 ?_
            have := perm_mid (slabs ++ bm.toList) [rv] L
            simpa [append_assoc] using this
          exact freeBm_acct bm (acct_frees slabs (acct_free_head this))
        | some st =>
          simp only
          have hok := hacc st (Pbc.Props.C06.scan0_acc (S.msg t).fields) rfl
          unfold tailH
          simp only
          have hcnt := scanLoopH_cnt σ (S.msg t).fields b.length b
            ⟨if (S.msg t).fields.isEmpty then none else some 0, 0, [], [], [], 0⟩ [] h2 st (by intro sm hsm; simp at hsm)
            (by rw [hsc])
          generalize hfb : ((List.range (S.msg t).fields.length).find? (fun i =>
              ((S.msg t).fields.getD i default).label == .required && ((S.msg t).fields.getD i default).dflt == .none &&
                !st.bitmap.contains i)) = firstBad
          have hal2 := allocArrays_acct S σ (S.msg t).fields
            (st.counts.filter (fun c => c.1 < firstBad.getD (S.msg t).fields.length))
            0 (S.msg t).fields ((initMsg S t).slots.map liftSlot) h3 _ (init_all2 S t) a3
          refine tailH2_acct S σ fuel t rv hfl hrec bm slabs st (fun sm hsm i hi => (hok.2 sm hsm).fsome i hi) _ _ _ _ L hal2.1 ?_ ?_ hal2.2
          · -- the case words of the freshly initialised message are all 0
            intro hokA
            refine ⟨fun j g hj hg => ?_, fun _ => Or.inl rfl⟩
            have hlabj := (hfl.oneof _ (getD_mem' _ j hj) (by rw [hg]; rfl)).1
            have hkeep := allocArrays_keep σ (S.msg t).fields _ 0 (S.msg t).fields ((initMsg S t).slots.map liftSlot) h3
              (init_all2 S t).length hokA j hj hlabj
            unfold hgetSlot
            refine (congrArg HSlot.q hkeep).trans ?_
            have hin := (init_all2 S t).get j hj
            rw [Pbc.Props.C01.initMsg_eq] at hin ⊢
            simp only [Msg.slots, map_map] at hin ⊢
            rw [getD_eq_getElem?_getD, getElem?_map, getElem?_eq_getElem hj]
            simp only [Option.map_some, Option.getD_some, Function.comp]
            obtain ⟨v0, hv0⟩ := Pbc.Props.C06.initSlot'_q (S.msg t).initGeneric (S.msg t).fields[j]
              (by rw [← Pbc.Props.C01.getD_fields _ j hj]; exact hlabj)
            rw [hv0]; rfl
          intro hokA hnb sm hsm i hfi hlab hpk
          have hnone : firstBad = none := by cases firstBad <;> simp_all
          have hilt := ((hok.2 sm hsm).fsome i hfi).1
          have hmem : (0 + i, 1) ∈ st.counts.filter (fun c => c.1 < firstBad.getD (S.msg t).fields.length) := by
            rw [mem_filter, hnone]
            exact ⟨by simpa using hcnt sm hsm i hfi hlab hpk, by simpa using hilt⟩
          obtain ⟨p, hp⟩ := allocArrays_some S σ (S.msg t).fields _ 0 (S.msg t).fields _ h3 (init_all2 S t) hokA i hilt hlab hmem
          exact ⟨0, p, hp⟩

/-- the schemas of this part: every message type is `FlatS` -/
def FlatSchema (S : Schema) : Prop := ∀ t, FlatS (S.msg t).fields

/-- **the whole call, at every nesting depth**: by induction on the recursion bound, the step above supplying each level -/
theorem unpackMsgH_acct (S : Schema) (σ : Nat → Bool) (hS : FlatSchema S) : ∀ fuel, UnpackAcct S σ fuel
  | 0 => fun t b h L a => unpackMsgH_acct_step S σ 0 t (hS t) (fun _ e => by cases e) b h L a
  | fuel + 1 => fun t b h L a =>
    unpackMsgH_acct_step S σ (fuel + 1) t (hS t) (fun fuel' e => by
      have : fuel' = fuel := by omega
      subst this
      exact unpackMsgH_acct S σ hS fuel') b h L a

/-- top level, failure: nothing outstanding -/
theorem unpack_fails_clean (S : Schema) (σ : Nat → Bool) (t : Nat) (hS : FlatSchema S) (b : Bytes) (h' : Heap)
    (hr : unpackH S σ t b = (none, h')) : Balanced h'.log := by
  have := unpackMsgH_acct S σ hS (b.length + 1) t b {} [] acct_empty
  unfold unpackH at hr
  rw [hr] at this
  exact balanced_of_acct this

/-- top level, success then `free_unpacked`: nothing outstanding; and before the free exactly the message's blocks are -/
theorem unpack_then_free_clean (S : Schema) (σ : Nat → Bool) (t : Nat) (hS : FlatSchema S) (b : Bytes) (m : HMsg) (h' : Heap)
    (hr : unpackH S σ t b = (some m, h')) :
    Acct h' (ownedMsg S m) ∧ Balanced (freeMsg S m h').log := by
  have := unpackMsgH_acct S σ hS (b.length + 1) t b {} [] acct_empty
  unfold unpackH at hr
  rw [hr] at this
  simp only [append_nil] at this
  exact ⟨this, balanced_of_acct (acct_freeMsg S m (by simpa using this))⟩

/-! non-vacuity: a schema of two message types — F with a oneof (string, bytes, uint32), a required string, an optional
    bytes with default, a repeated packed int32, an implicit double and an optional int32; T (recursive) with a repeated F,
    a repeated T and a repeated string — meets the hypotheses -/
def exFlat : Schema := [{ name := "F", initGeneric := false, nGroups := 1, fields := [
  { name := "o1", id := 5, label := .optional, type := .string, packed := false, group := some 0, sub := 0, dflt := .none, init := none },
  { name := "o2", id := 6, label := .optional, type := .bytes, packed := false, group := some 0, sub := 0, dflt := .none, init := none },
  { name := "o3", id := 7, label := .optional, type := .uint32, packed := false, group := some 0, sub := 0, dflt := .none, init := none },
  { name := "s", id := 1, label := .required, type := .string, packed := false, group := none, sub := 0, dflt := .none, init := none },
  { name := "b", id := 2, label := .optional, type := .bytes, packed := false, group := none, sub := 0, dflt := .bin [1, 0], init := none },
  { name := "r", id := 3, label := .repeated, type := .int32, packed := true, group := none, sub := 0, dflt := .none, init := none },
  { name := "d", id := 4, label := .none, type := .double, packed := false, group := none, sub := 0, dflt := .none, init := none },
  { name := "x", id := 9, label := .optional, type := .int32, packed := false, group := none, sub := 0, dflt := .scalar 7, init := some 7 }] },
  { name := "T", initGeneric := false, nGroups := 0, fields := [
  { name := "fs", id := 1, label := .repeated, type := .message, packed := false, group := none, sub := 0, dflt := .none, init := none },
  { name := "ts", id := 2, label := .repeated, type := .message, packed := false, group := none, sub := 1, dflt := .none, init := none },
  { name := "ss", id := 3, label := .repeated, type := .string, packed := false, group := none, sub := 0, dflt := .none, init := none }] }]

example : FlatSchema exFlat := by
  intro t
  match t with
  | 0 => exact ⟨by decide, by decide, by decide, by unfold Pbc.Props.C01.IdsDistinct; decide⟩
  | 1 => exact ⟨by decide, by decide, by decide, by unfold Pbc.Props.C01.IdsDistinct; decide⟩
  | t + 2 =>
    have h : (exFlat.msg (t + 2)).fields = [] := rfl
    rw [h]
    exact ⟨by simp, by simp, by simp, by unfold Pbc.Props.C01.IdsDistinct; simp⟩

end Pbc.Props.C07
