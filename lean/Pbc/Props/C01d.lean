import Pbc.Props.C01c
/-
  Nesting depth is bounded by the encoded length: a canonical message of any depth k is also canonical at some depth
  k' ≤ length of its encoding, so the public entry point (fuel = input length + 1) always has enough fuel.
  This removes the hypothesis `k ≤ length + 1` from `C01.unpack_pack`.
-/
namespace Pbc.Props.C01
open Pbc Pbc.Model Pbc.Wire Pbc.Lemmas List

/-- messages directly nested in a slot list -/
def nestedVal : Val → List Msg
  | .msg (some m) => [m]
  | _ => []

def nestedSlot : Slot → List Msg
  | .one _ v => nestedVal v
  | .rep _ (some l) => (l.map nestedVal).flatten
  | .rep _ none => []

def nestedOf (m : Msg) : List Msg := (m.slots.map nestedSlot).flatten

theorem mem_nestedOf {m m' : Msg} (j : Nat) (hj : j < m.slots.length) (h : m' ∈ nestedSlot (m.slots.getD j default)) :
    m' ∈ nestedOf m := by
  unfold nestedOf
  rw [mem_flatten]
  refine ⟨_, mem_map_of_mem (getElem_mem hj), ?_⟩
  rw [getD_eq_getElem?_getD, getElem?_eq_getElem hj] at h
  exact h

/-- the nested-message predicate matters only on the messages that are actually nested -/
theorem canonElemP_mono (P Q : Msg → Prop) (S : Schema) (f : FieldDesc) (v : Val)
    (hpq : ∀ m' ∈ nestedVal v, P m' → Q m') (h : CanonElemP P S f v) : CanonElemP Q S f v := by
  refine ⟨h.1, ?_⟩
  intro m' hm
  exact hpq m' (by subst hm; simp [nestedVal]) (h.2 m' hm)

theorem canonSlotP_mono (P Q : Msg → Prop) (S : Schema) (g : Bool) (f : FieldDesc) (s : Slot)
    (hpq : ∀ m' ∈ nestedSlot s, P m' → Q m') (h : CanonSlotP P S g f s) : CanonSlotP Q S g f s := by
  cases s with
  | one q v =>
    obtain ⟨hl, hcase⟩ := h
    refine ⟨hl, ?_⟩
    rcases hcase with ⟨hw, hv, hq⟩ | hi
    · exact Or.inl ⟨hw, canonElemP_mono P Q S f v hpq hv, hq⟩
    · exact Or.inr hi
  | rep n arr =>
    cases arr with
    | none => exact h
    | some l =>
      obtain ⟨hl, hpos, hlen, hall, hpk⟩ := h
      refine ⟨hl, hpos, hlen, ?_, hpk⟩
      intro v hv
      refine canonElemP_mono P Q S f v ?_ (hall v hv)
      intro m' hm'
      exact hpq m' (by simp only [nestedSlot, mem_flatten, mem_map]; exact ⟨_, ⟨v, hv, rfl⟩, hm'⟩)

theorem canonSlotO_mono (P Q : Msg → Prop) (S : Schema) (g : Bool) (cs : Nat → Nat) (f : FieldDesc) (s : Slot)
    (hpq : ∀ m' ∈ nestedSlot s, P m' → Q m') (h : CanonSlotO P S g cs f s) : CanonSlotO Q S g cs f s := by
  unfold CanonSlotO at h ⊢
  cases hg : f.group with
  | none => rw [hg] at h; exact canonSlotP_mono P Q S g f s hpq h
  | some gi =>
    rw [hg] at h
    obtain ⟨hl, v, hs, hv⟩ := h
    refine ⟨hl, v, hs, ?_⟩
    by_cases hsel : f.id = cs gi
    · simp only [hsel, if_true] at hv ⊢
      refine canonElemP_mono P Q S f v ?_ hv
      intro m' hm'; exact hpq m' (by rw [hs]; exact hm')
    · simp only [hsel, if_false] at hv ⊢; exact hv

theorem canonMsgO_mono (P Q : Msg → Prop) (S : Schema) (m : Msg) (hpq : ∀ m' ∈ nestedOf m, P m' → Q m')
    (h : CanonMsgO P S m) : CanonMsgO Q S m := by
  obtain ⟨hsch, hdf, ⟨cs, hc⟩, hunk, hcnt⟩ := h
  refine ⟨hsch, hdf, ⟨cs, ⟨hc.len, ?_, hc.sel⟩⟩, hunk, hcnt⟩
  intro j hj
  refine canonSlotO_mono P Q S _ cs _ _ ?_ (hc.slot j hj)
  intro m' hm'
  exact hpq m' (mem_nestedOf j (by rw [hc.len]; exact hj) hm')

theorem canonNO_succ (S : Schema) : ∀ (k : Nat) (m : Msg), CanonNO S k m → CanonNO S (k + 1) m
  | 0, m, h => canonMsgO_mono _ _ S m (fun _ _ hf => absurd hf (by simp)) h
  | k+1, m, h => canonMsgO_mono _ _ S m (fun m' _ hm' => canonNO_succ S k m' hm') h

theorem canonNO_le (S : Schema) (m : Msg) : ∀ (k k' : Nat), k ≤ k' → CanonNO S k m → CanonNO S k' m := by
  intro k k' hle
  induction hle with
  | refl => exact id
  | step _ ih => exact fun h => canonNO_succ S _ m (ih h)

/-! ### a nested message is a record of its parent: two bytes shorter at least -/

theorem rec_le_total : ∀ (rs : List (Rec × Nat)) (p : Rec × Nat), p ∈ rs → p.1.bytes.length ≤ ((rs.map (·.1.bytes)).flatten).length
  | [], p, h => by simp at h
  | r :: rs, p, h => by
    simp only [map_cons, flatten_cons, length_append]
    rcases mem_cons.1 h with rfl | h
    · omega
    · have := rec_le_total rs p h; omega

theorem elemRec_msg_len (S : Schema) (f : FieldDesc) (m' : Msg) :
    (packMsg S m').length + 2 ≤ (elemRec S f (.msg (some m'))).1.bytes.length := by
  simp only [elemRec, Rec.bytes, elemBytes, lenPrefixed, length_append, varint_length]
  have h1 := varintLen_pos (f.id * 8 + f.type.wireType % 8)
  have h2 := varintLen_pos (packMsg S m').length
  unfold keyBytes
  rw [varint_length]
  omega

/-- a message nested in a canonical slot has a record in that slot, and satisfies the nested-message predicate -/
theorem nested_in_slotP (P : Msg → Prop) (S : Schema) (g : Bool) (f : FieldDesc) (hpk : f.packed = true → f.type.packable = true)
    (hgn : f.group = none) (s : Slot) (h : CanonSlotP P S g f s) (m' : Msg) (hm : m' ∈ nestedSlot s) :
    P m' ∧ elemRec S f (.msg (some m')) ∈ recsSlot S f s := by
  cases s with
  | one q v =>
    obtain ⟨hl, hcase⟩ := h
    cases v with
    | msg om =>
      cases om with
      | none => simp [nestedSlot, nestedVal] at hm
      | some m0 =>
        have : m' = m0 := by simpa [nestedSlot, nestedVal] using hm
        subst this
        rcases hcase with ⟨hw, hv, _⟩ | ⟨_, hi⟩
        · refine ⟨hv.2 m' rfl, ?_⟩
          rw [recsSlot_one S f q _ hgn, hw]; simp
        · have := initSlot'_not_msg g f m'
          rw [← hi] at this
          exact absurd rfl this
    | _ => simp [nestedSlot, nestedVal] at hm
  | rep n arr =>
    cases arr with
    | none => simp [nestedSlot] at hm
    | some l =>
      obtain ⟨hl, hpos, hlen, hall, _⟩ := h
      simp only [nestedSlot, mem_flatten, mem_map] at hm
      obtain ⟨_, ⟨v, hv, rfl⟩, hmv⟩ := hm
      cases v with
      | msg om =>
        cases om with
        | none => simp [nestedVal] at hmv
        | some m0 =>
          have : m' = m0 := by simpa [nestedVal] using hmv
          subst this
          have hce := hall _ hv
          refine ⟨hce.2 m' rfl, ?_⟩
          have htm : f.type = .message := hce.1.1
          have hnp : f.packed = false := by
            cases hfp : f.packed with
            | false => rfl
            | true => have := hpk hfp; rw [htm] at this; simp [PType.packable] at this
          subst hlen
          unfold recsSlot
          have hn0 : (l.length == 0) = false := by simpa using (Nat.ne_of_gt hpos)
          simp only [hn0, hnp, Bool.false_eq_true, if_false, elemsVals_full]
          exact mem_map_of_mem hv
      | _ => simp [nestedVal] at hmv

theorem nested_in_slotO (P : Msg → Prop) (S : Schema) (g : Bool) (cs : Nat → Nat) (f : FieldDesc)
    (hpk : f.packed = true → f.type.packable = true) (s : Slot) (h : CanonSlotO P S g cs f s) (m' : Msg) (hm : m' ∈ nestedSlot s) :
    P m' ∧ elemRec S f (.msg (some m')) ∈ recsSlot S f s := by
  unfold CanonSlotO at h
  cases hg : f.group with
  | none => rw [hg] at h; exact nested_in_slotP P S g f hpk hg s h m' hm
  | some gi =>
    rw [hg] at h
    obtain ⟨hl, v, hs, hv⟩ := h
    subst hs
    by_cases hsel : f.id = cs gi
    · simp only [hsel, if_true] at hv
      cases v with
      | msg om =>
        cases om with
        | none => simp [nestedSlot, nestedVal] at hm
        | some m0 =>
          have : m' = m0 := by simpa [nestedSlot, nestedVal] using hm
          subst this
          refine ⟨hv.2 m' rfl, ?_⟩
          rw [recsSlot_oneof P S f gi hg hl (cs gi) _ (by simp only [hsel, if_true]; exact hv)]
          simp [hsel]
      | _ => simp [nestedSlot, nestedVal] at hm
    · simp only [hsel, if_false] at hv
      subst hv
      simp [nestedSlot, nestedVal] at hm

theorem nested_facts (P : Msg → Prop) (S : Schema) (m : Msg) (h : CanonMsgO P S m) (m' : Msg) (hm : m' ∈ nestedOf m) :
    P m' ∧ (packMsg S m').length + 2 ≤ (packMsg S m).length := by
  obtain ⟨hsch, _, ⟨cs, hc⟩, _, _⟩ := h
  unfold nestedOf at hm
  rw [mem_flatten] at hm
  obtain ⟨ns, hns, hm'⟩ := hm
  rw [mem_map] at hns
  obtain ⟨s, hs, rfl⟩ := hns
  obtain ⟨j, hj, hsj⟩ := getElem_of_mem hs
  have hjf : j < (S.msg m.ty).fields.length := by rw [← hc.len]; exact hj
  have hsd : m.slots.getD j default = s := by rw [getD_eq_getElem?_getD, getElem?_eq_getElem hj]; simpa using hsj
  have hslot := hc.slot j hjf
  rw [hsd] at hslot
  have hfm : (S.msg m.ty).fields.getD j default ∈ (S.msg m.ty).fields := by
    rw [getD_fields _ j hjf]; exact getElem_mem hjf
  obtain ⟨hP, hrec⟩ := nested_in_slotO P S _ cs _ (hsch.packed _ hfm) s hslot m' hm'
  refine ⟨hP, ?_⟩
  have hmem : elemRec S ((S.msg m.ty).fields.getD j default) (.msg (some m')) ∈ recsMsg S m := by
    cases m with
    | mk ty slots unk =>
      simp only [recsMsg, mem_append]
      left
      have hsd' : slots.getD j default = s := hsd
      exact mem_recsSlots_of_index S _ slots j hjf hj _ (by rw [hsd']; exact hrec)
  have h1 := rec_le_total (recsMsg S m) _ hmem
  have h2 := elemRec_msg_len S ((S.msg m.ty).fields.getD j default) m'
  rw [← packMsg_recs] at h1
  omega

/-- a common depth bound for a list of nested messages, no larger than the longest of their encodings -/
theorem common_depth (S : Schema) : ∀ (N : List Msg), (∀ m' ∈ N, ∃ k', k' ≤ (packMsg S m').length ∧ CanonNO S k' m') →
    ∃ K, (∀ m' ∈ N, CanonNO S K m') ∧ (N = [] ∨ ∃ m' ∈ N, K ≤ (packMsg S m').length)
  | [], _ => ⟨0, by simp, Or.inl rfl⟩
  | a :: as, h => by
    obtain ⟨ka, hka, hca⟩ := h a (mem_cons_self ..)
    obtain ⟨K, hK, hb⟩ := common_depth S as (fun m' hm' => h m' (mem_cons_of_mem _ hm'))
    by_cases hle : K ≤ ka
    · refine ⟨ka, ?_, Or.inr ⟨a, mem_cons_self .., hka⟩⟩
      intro m' hm'
      rcases mem_cons.1 hm' with rfl | hm'
      · exact hca
      · exact canonNO_le S m' K ka hle (hK m' hm')
    · have hlt : ka ≤ K := by omega
      rcases hb with hnil | ⟨m0, hm0, hK0⟩
      · subst hnil
        refine ⟨ka, ?_, Or.inr ⟨a, mem_cons_self .., hka⟩⟩
        intro m' hm'
        rcases mem_cons.1 hm' with rfl | hm'
        · exact hca
        · simp at hm'
      · refine ⟨K, ?_, Or.inr ⟨m0, mem_cons_of_mem _ hm0, hK0⟩⟩
        intro m' hm'
        rcases mem_cons.1 hm' with rfl | hm'
        · exact canonNO_le S _ ka K hlt hca
        · exact hK m' hm'

/-- nesting depth never exceeds the encoded length -/
theorem canon_depth (S : Schema) : ∀ (k : Nat) (m : Msg), CanonNO S k m → ∃ k', k' ≤ (packMsg S m).length ∧ CanonNO S k' m
  | 0, m, h => ⟨0, Nat.zero_le _, h⟩
  | k+1, m, h => by
    have hnest : ∀ m' ∈ nestedOf m, ∃ k', k' ≤ (packMsg S m').length ∧ CanonNO S k' m' :=
      fun m' hm' => canon_depth S k m' (nested_facts (CanonNO S k) S m h m' hm').1
    obtain ⟨K, hK, hb⟩ := common_depth S (nestedOf m) hnest
    rcases hb with hnil | ⟨m0, hm0, hK0⟩
    · refine ⟨0, Nat.zero_le _, ?_⟩
      exact canonMsgO_mono _ _ S m (fun m' hm' _ => by rw [hnil] at hm'; simp at hm') h
    · refine ⟨K + 1, ?_, ?_⟩
      · have := (nested_facts (CanonNO S k) S m h m0 hm0).2; omega
      · exact canonMsgO_mono _ _ S m (fun m' hm' _ => hK m' hm') h

/-- **C01**: for every schema and every message in parser form (of whatever nesting depth), parsing what the serialiser
    wrote — through the public entry point — returns exactly the message. -/
theorem unpack_pack_canonical (S : Schema) (k : Nat) (m : Msg) (hm : CanonNO S k m) : unpack S m.ty (packMsg S m) = some m := by
  obtain ⟨k', hk', hm'⟩ := canon_depth S k m hm
  exact unpack_pack S k' m hm' (by omega)

end Pbc.Props.C01
