import Pbc.Extract.Facts
import Pbc.Model.Unpack
/-
  C17 -- no hidden shared state: concurrent use on separate messages is safe (the part that is logic).
  (a) source facts, regenerated from protobuf-c.c on every run and decided here: the only object
      with static storage duration that is not `const` is the default allocator, and NO statement in
      the file stores to an object with static storage duration or through a `ProtobufCAllocator *`;
      a new static cache / scratch buffer, or a write to the allocator, changes the extracted table
      and these theorems stop checking.
  (b) a generic non-interference theorem: when every operation reads a shared read-only component
      and reads/writes only the calling thread's component, EVERY interleaving gives each thread
      exactly the outputs and final state of its solo run.
  The C memory model and the thread-safety of libc malloc are not modelled (DESIGN.md section 9).
-/
namespace Pbc.Props.C17
open Pbc.Extract.Facts

/-- the only writable object with static storage duration is the default allocator -/
theorem only_mutable_global_is_default_allocator :
    (globals.filter (fun g => !g.2.1)).map (·.1) = ["protobuf_c__allocator"] := by decide

/-- nothing in protobuf-c.c stores to a static object or through an allocator pointer -/
theorem no_store_to_static_state : globalStores = [] := by decide

/-- no function-local static object exists (const or not) -/
theorem no_local_statics : (globals.filter (fun g => g.2.2 == "local-static")) = [] := by decide

/-! ### generic non-interference -/
section
variable {R σ ι ο : Type} (step : R → σ → ι → σ × ο) (r : R)

/-- global run: thread `t` executes `op` on its own component -/
def runGlobal : (Nat → σ) → List (Nat × ι) → (Nat → σ) × List (Nat × ο)
  | st, [] => (st, [])
  | st, (t, op) :: rest =>
    let (s', o) := step r (st t) op
    let (fin, outs) := runGlobal (fun u => if u = t then s' else st u) rest
    (fin, (t, o) :: outs)

/-- solo run of one thread's operations -/
def runSolo : σ → List ι → σ × List ο
  | s, [] => (s, [])
  | s, op :: rest =>
    let (s', o) := step r s op
    let (fin, outs) := runSolo s' rest
    (fin, o :: outs)

def opsOf (t : Nat) (sched : List (Nat × ι)) : List ι := (sched.filter (fun x => x.1 = t)).map (·.2)
def outsOf (t : Nat) (outs : List (Nat × ο)) : List ο := (outs.filter (fun x => x.1 = t)).map (·.2)

/-- for every schedule and every thread: final state and outputs equal those of the solo run -/
theorem interleaving_invisible (sched : List (Nat × ι)) (st : Nat → σ) (t : Nat) :
    ((runGlobal step r st sched).1 t, outsOf t (runGlobal step r st sched).2) =
      runSolo step r (st t) (opsOf t sched) := by
  induction sched generalizing st with
  | nil => rfl
  | cons x rest ih =>
    obtain ⟨u, op⟩ := x
    rcases hs : step r (st u) op with ⟨s', o⟩
    have ih' := ih (fun v => if v = u then s' else st v)
    rcases hg : runGlobal step r (fun v => if v = u then s' else st v) rest with ⟨fin, outs⟩
    rw [hg] at ih'
    have e1 : runGlobal step r st ((u, op) :: rest) = (fin, (u, o) :: outs) := by
      simp only [runGlobal, hs, hg]
    rw [e1]
    by_cases h : u = t
    · subst h
      have e2 : opsOf u ((u, op) :: rest) = op :: opsOf u rest := by simp [opsOf]
      have e3 : outsOf u ((u, o) :: outs) = o :: outsOf u outs := by simp [outsOf]
      rw [e2, e3]
      simp only [ite_true] at ih'
      simp only [runSolo, hs]
      rw [← ih']
    · have hne : ¬ t = u := fun e => h e.symm
      have e2 : opsOf t ((u, op) :: rest) = opsOf t rest := by simp [opsOf, h]
      have e3 : outsOf t ((u, o) :: outs) = outsOf t outs := by simp [outsOf, h]
      rw [e2, e3]
      simp only [hne, ite_false] at ih'
      exact ih'
end

/-! instantiation shape: the model's API functions are functions of their arguments only
    (descriptor, message / bytes); e.g. parsing on thread-local inputs with a shared schema -/
example (S : Schema) (sched : List (Nat × (Nat × Bytes))) (t : Nat) :
    outsOf t (runGlobal (fun (S : Schema) (_ : Unit) (op : Nat × Bytes) => ((), Model.unpack S op.1 op.2)) S (fun _ => ()) sched).2 =
      (runSolo (fun (S : Schema) (_ : Unit) (op : Nat × Bytes) => ((), Model.unpack S op.1 op.2)) S () (opsOf t sched)).2 := by
  have := interleaving_invisible (fun (S : Schema) (_ : Unit) (op : Nat × Bytes) => ((), Model.unpack S op.1 op.2)) S sched (fun _ => ()) t
  exact congrArg Prod.snd this

end Pbc.Props.C17
