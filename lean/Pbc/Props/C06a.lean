import Pbc.Props.C01d
import Pbc.Props.C04b
import Pbc.Props.C05
/-
  C06, part A — what the scan pass accumulates: every scanned occurrence of an accepted input is a well-delimited
  record (its bytes are cut the same way whatever follows them), and its field index is the one a plain search finds.
-/
namespace Pbc.Props.C06
open Pbc Pbc.Model Pbc.Wire Pbc.Lemmas Pbc.Props.C01 Pbc.Props.C04 List

/-! ### the cuts of the scan pass do not depend on what follows -/

theorem scanVarint_prefix : ∀ (m : Nat) (b : Bytes) (n : Nat), scanVarint m b = some n →
    ∀ (m' : Nat) (b' : Bytes), b'.take n = b.take n → n ≤ m' → scanVarint m' b' = some n
  | 0, _, _, h, _, _, _, _ => by simp [scanVarint] at h
  | _+1, [], _, h, _, _, _, _ => by simp [scanVarint] at h
  | m+1, x :: xs, n, h, m', b', hb, hm => by
    simp only [scanVarint] at h
    split at h
    · rename_i hx
      cases h
      cases b' with
      | nil => simp at hb
      | cons y ys =>
        simp only [take_succ_cons, take_zero, cons.injEq, and_true] at hb
        subst hb
        cases m' with
        | zero => omega
        | succ m' => simp [scanVarint, hx]
    · rename_i hx
      cases hs : scanVarint m xs with
      | none => simp [hs] at h
      | some k =>
        simp only [hs, Option.map_some, Option.some.injEq] at h
        subst h
        cases b' with
        | nil => simp at hb
        | cons y ys =>
          simp only [take_succ_cons, cons.injEq] at hb
          obtain ⟨hy, hys⟩ := hb
          subst hy
          cases m' with
          | zero => omega
          | succ m' =>
            simp only [scanVarint, hx, if_false]
            rw [scanVarint_prefix m xs k hs m' ys hys (by omega)]
            rfl

theorem take_take_append (b r : Bytes) (n k : Nat) (h : k ≤ n) (hn : n ≤ b.length) : (b.take n ++ r).take k = b.take k := by
  rw [take_append_of_le_length (by rw [length_take]; omega), take_take, Nat.min_eq_left h]

/-- the extent the scan pass found for an occurrence stays the same when anything else follows it -/
theorem delimit_take {wt : Nat} {rest : Bytes} {len pref : Nat} (h : delimit wt rest = some (len, pref)) :
    Delim wt (rest.take len) pref := by
  have hb := C05.delimit_bounds h
  intro r
  have hlen : (rest.take len).length = len := by rw [length_take]; omega
  rw [hlen]
  unfold delimit at h ⊢
  split at h
  · rename_i hw
    simp only [hw, if_true]
    cases hs : scanVarint (min rest.length 10) rest with
    | none => simp [hs] at h
    | some n =>
      simp only [hs, Option.map_some, Option.some.injEq, Prod.mk.injEq] at h
      obtain ⟨h1, h2⟩ := h
      subst h1; subst h2
      have hle := scanVarint_le hs
      rw [scanVarint_prefix _ _ _ hs (min (rest.take n ++ r).length 10) (rest.take n ++ r)
        (by rw [take_take_append _ _ _ _ (Nat.le_refl _) (by omega)]) (by simp only [length_append, length_take]; omega)]
      rfl
  · rename_i hw0
    split at h
    · rename_i hw
      simp only [hw0, hw, if_true, Bool.false_eq_true, if_false]
      split at h
      · cases h
      · simp only [Option.some.injEq, Prod.mk.injEq] at h
        obtain ⟨h1, h2⟩ := h
        subst h1; subst h2
        have : ¬ (rest.take 8 ++ r).length < 8 := by simp only [length_append, length_take]; omega
        rw [if_neg this]
    · rename_i hw1
      split at h
      · rename_i hw
        simp only [hw0, hw1, hw, if_true, Bool.false_eq_true, if_false]
        cases hs : scanLen rest with
        | none => simp [hs] at h
        | some pt =>
          obtain ⟨p, tot⟩ := pt
          simp only [hs, Option.map_some, Option.some.injEq, Prod.mk.injEq] at h
          obtain ⟨h1, h2⟩ := h
          subst h1; subst h2
          -- unfold scanLen on both
          unfold scanLen at hs ⊢
          cases hv : scanVarint (min rest.length 5) rest with
          | none => simp [hv] at hs
          | some n =>
            simp only [hv] at hs
            have hle := scanVarint_le hv
            split at hs
            · cases hs
            · split at hs
              · cases hs
              · simp only [Option.some.injEq, Prod.mk.injEq] at hs
                obtain ⟨h1, h2⟩ := hs
                subst h1
                have hnt : n ≤ tot := by omega
                rw [scanVarint_prefix _ _ _ hv (min (rest.take tot ++ r).length 5) (rest.take tot ++ r)
                  (by rw [take_take_append _ _ _ _ hnt (by omega)]) (by simp only [length_append, length_take]; omega)]
                simp only [take_take_append _ _ _ _ hnt (by omega : tot ≤ rest.length)]
                rename_i hv1 hv2
                simp only [hv1, if_false]
                have : ¬ (tot > (rest.take tot ++ r).length) := by
                  simp only [length_append, length_take]; omega
                simp only [h2, this, if_false, Option.map_some]
      · rename_i hw2
        split at h
        · rename_i hw
          simp only [hw0, hw1, hw2, hw, if_true, Bool.false_eq_true, if_false]
          split at h
          · cases h
          · simp only [Option.some.injEq, Prod.mk.injEq] at h
            obtain ⟨h1, h2⟩ := h
            subst h1; subst h2
            have : ¬ (rest.take 4 ++ r).length < 4 := by simp only [length_append, length_take]; omega
            rw [if_neg this]
        · cases h

/-! ### what the scan pass accumulates -/

structure ScOK (fields : List FieldDesc) (sm : Scanned) : Prop where
  tag_pos : 0 < sm.tag
  wt_lt : sm.wt < 8
  delim : Delim sm.wt sm.data sm.prefLen
  fsome : ∀ i, sm.fidx = some i → i < fields.length ∧ (fields.getD i default).id = sm.tag
  fnone : sm.fidx = none → sm.tag < 2 ^ 31 → fields.findIdx? (fun f => f.id == sm.tag) = none

theorem resolveField_some (fields : List FieldDesc) (st : ScanState) (tag : Nat) (hc : CacheOK fields st) (i : Nat)
    (h : (resolveField fields st tag).1 = some i) : i < fields.length ∧ (fields.getD i default).id = tag := by
  unfold resolveField at h
  cases hl : st.last with
  | none =>
    simp only [hl, Bool.false_eq_true, if_false] at h
    cases hlk : lookupField fields tag with
    | none => simp [hlk] at h
    | some j =>
      simp only [hlk, Option.some.injEq] at h
      subst h
      unfold lookupField at hlk
      split at hlk
      · cases hlk
      · have := findIdx?_eq_some_iff_getElem.1 hlk
        obtain ⟨hj, hp, _⟩ := this
        exact ⟨hj, by rw [getD_eq_getElem?_getD, getElem?_eq_getElem hj]; simpa using hp⟩
  | some li =>
    simp only [hl] at h
    by_cases hid : ((fields.getD li default).id == tag) = true
    · simp only [hid, if_true, Option.some.injEq] at h
      subst h
      exact ⟨hc _ hl, by simpa using hid⟩
    · simp only [hid, Bool.false_eq_true, if_false] at h
      cases hlk : lookupField fields tag with
      | none => simp [hlk] at h
      | some j =>
        simp only [hlk, Option.some.injEq] at h
        subst h
        unfold lookupField at hlk
        split at hlk
        · cases hlk
        · have := findIdx?_eq_some_iff_getElem.1 hlk
          obtain ⟨hj, hp, _⟩ := this
          exact ⟨hj, by rw [getD_eq_getElem?_getD, getElem?_eq_getElem hj]; simpa using hp⟩

theorem scanKey_facts {b : Bytes} {used tag wt : Nat} (h : scanKey b = some (used, tag, wt)) : 0 < tag ∧ wt < 8 := by
  unfold scanKey at h
  cases b with
  | nil => cases h
  | cons b0 bs =>
    simp only at h
    split at h
    · cases h
    · simp only [length_cons] at h
      cases hs : scanVarint (min (bs.length + 1) 5) (b0 :: bs) with
      | none => simp [hs] at h
      | some n =>
        simp only [hs] at h
        split at h
        · cases h
        · simp only [Option.some.injEq, Prod.mk.injEq] at h
          obtain ⟨_, h2, h3⟩ := h
          subst h2; subst h3
          omega

def AccOK (fields : List FieldDesc) (st : ScanState) : Prop := CacheOK fields st ∧ ∀ sm ∈ st.acc, ScOK fields sm

theorem scanStep_acc (fields : List FieldDesc) (hd : IdsDistinct fields) (b b' : Bytes) (st st' : ScanState)
    (hi : AccOK fields st) (hs : scanStep fields b st = some (b', st')) : AccOK fields st' := by
  obtain ⟨hc, hacc⟩ := hi
  unfold scanStep at hs
  cases hk : scanKey b with
  | none => simp [hk] at hs
  | some k =>
    obtain ⟨used, tag, wt⟩ := k
    have hkf := scanKey_facts hk
    simp only [hk] at hs
    have hsome := resolveField_some fields st tag hc
    have hcache := resolveField_cache fields st tag hc
    have hres := resolveField_eq fields st tag hd hc
    generalize hrf : resolveField fields st tag = rf at hs hsome hcache hres
    obtain ⟨field, last, lastIdx, nu⟩ := rf
    simp only at hs hsome hcache hres
    cases hdl : delimit wt (b.drop used) with
    | none => simp [hdl] at hs
    | some lp =>
      obtain ⟨len, pref⟩ := lp
      simp only [hdl] at hs
      split at hs
      · cases hs
      · have hsm : ScOK fields ⟨tag, wt, pref, field, (b.drop used).take len⟩ :=
          ⟨hkf.1, hkf.2, delimit_take hdl, fun i hi => hsome i hi, fun hn ht => by rw [← hres ht]; exact hn⟩
        split at hs
        · cases hs
        · rename_i counts hcnt
          simp only [Option.some.injEq, Prod.mk.injEq] at hs
          obtain ⟨_, hst⟩ := hs
          subst hst
          refine ⟨fun li hli => hcache li hli, ?_⟩
          intro sm hsm'
          rcases mem_cons.1 hsm' with rfl | hm
          · exact hsm
          · exact hacc sm hm

theorem scanLoop_acc (fields : List FieldDesc) (hd : IdsDistinct fields) (fuel : Nat) (b : Bytes) (st st' : ScanState)
    (hi : AccOK fields st) (hs : scanLoop fields fuel b st = some st') : AccOK fields st' := by
  induction fuel generalizing b st with
  | zero =>
    simp only [scanLoop] at hs
    split at hs
    · cases hs; exact hi
    · cases hs
  | succ fuel ih =>
    simp only [scanLoop] at hs
    split at hs
    · cases hs; exact hi
    · split at hs
      · cases hs
      · rename_i b1 st1 hstep
        exact ih b1 st1 (scanStep_acc fields hd b b1 st st1 hi hstep) hs

theorem scan0_acc (fields : List FieldDesc) : AccOK fields (scan0 fields) := by
  refine ⟨?_, by simp [scan0]⟩
  intro li h
  simp only [scan0] at h
  split at h
  · cases h
  · rename_i he
    cases h
    cases fields with
    | nil => simp at he
    | cons f fs => simp
