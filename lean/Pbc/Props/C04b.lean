import Pbc.Props.C04
import Pbc.Lemmas.Swap
/-
  C04 — field order on the wire does not matter.  Records of different fields commute in the parse pass (each touches
  only its own slot; a oneof member touches only the slots of its group; an unknown field only the unknown list), so any
  reordering of a record sequence that keeps the relative order of the records of each field — and of all oneof members
  and of all unknown fields among themselves — is parsed to the same message.
-/
namespace Pbc.Props.C04
open Pbc Pbc.Model Pbc.Wire Pbc.Lemmas Pbc.Props.C01 List

/-- what a record of a non-oneof field does to its slot -/
def slotFn (S : Schema) (fuel : Nat) (f : FieldDesc) (sm : Scanned) (s : Slot) : Option Slot :=
  match f.label with
  | .required => (parseRequired S fuel f sm s.v true).map (fun v => .one s.q v)
  | .repeated =>
    (match s with
     | .rep n arr =>
       if usesPackedPath f sm.wt then
         (parsePacked f.type (sm.data.drop sm.prefLen)).map
           (fun vs => .rep (n + vs.length) (if (arr.getD [] ++ vs).isEmpty then arr else some (arr.getD [] ++ vs)))
       else (parseRequired S fuel f sm .zero false).map (fun v => .rep (n + 1) (some (arr.getD [] ++ [v])))
     | _ => none)
  | _ => (parseRequired S fuel f sm s.v true).map (fun v => .one (if f.hasQ then 1 else s.q) v)

/-- **locality**: a record of a non-oneof field reads and writes only its own slot -/
theorem parseMember_field (S : Schema) (fuel : Nat) (fields : List FieldDesc) (sm : Scanned) (i : Nat)
    (hi : sm.fidx = some i) (hg : (fields.getD i default).group = none) (ty : Nat) (sl : List Slot) (u : List Unk) :
    parseMember S fuel fields sm (.mk ty sl u) =
      (slotFn S fuel (fields.getD i default) sm (getSlot sl i)).map (fun s' => .mk ty (setSlot sl i s') u) := by
  unfold parseMember slotFn
  simp only [hi]
  cases hl : (fields.getD i default).label with
  | required => simp only [Option.map_map, Function.comp_def]
  | repeated =>
    simp only
    cases hs : getSlot sl i with
    | one q v => simp only [Option.map_none]
    | rep n arr =>
      simp only
      split <;> simp only [Option.map_map, Function.comp_def]
  | optional => simp only [hg, Option.map_map, Function.comp_def]
  | none => simp only [hg, Option.map_map, Function.comp_def]

theorem parseMember_unknown (S : Schema) (fuel : Nat) (fields : List FieldDesc) (sm : Scanned) (hi : sm.fidx = none)
    (ty : Nat) (sl : List Slot) (u : List Unk) :
    parseMember S fuel fields sm (.mk ty sl u) = some (.mk ty sl (u ++ [⟨sm.tag, sm.wt, sm.data⟩])) := by
  unfold parseMember; simp [hi]

/-- what a record of a oneof member does to the slot list -/
def groupFn (S : Schema) (fuel : Nat) (fields : List FieldDesc) (f : FieldDesc) (g : Nat) (sm : Scanned) (i : Nat)
    (sl : List Slot) : Option (List Slot) :=
  let q := (getSlot sl i).q
  let cleared : Option (List Slot) :=
    if q != 0 && !(q == sm.tag && f.type == .message) then
      match lookupField fields q with
      | none => none
      | some _ => some (zeroGroup g fields sl)
    else some sl
  match cleared with
  | none => none
  | some sl1 =>
    (parseRequired S fuel f sm (getSlot sl1 i).v true).map
      (fun v => setCase fields g sm.tag fields (setSlot sl1 i (.one q v)))

theorem parseMember_oneof (S : Schema) (fuel : Nat) (fields : List FieldDesc) (sm : Scanned) (i g : Nat)
    (hi : sm.fidx = some i) (hg : (fields.getD i default).group = some g)
    (hl : (fields.getD i default).label = .optional ∨ (fields.getD i default).label = .none)
    (ty : Nat) (sl : List Slot) (u : List Unk) :
    parseMember S fuel fields sm (.mk ty sl u) =
      (groupFn S fuel fields (fields.getD i default) g sm i sl).map (fun sl' => .mk ty sl' u) := by
  unfold parseMember groupFn
  simp only [hi]
  rcases hl with hl | hl <;>
  · simp only [hl, hg]
    by_cases hcond : ((getSlot sl i).q != 0 && !((getSlot sl i).q == sm.tag && (fields.getD i default).type == PType.message)) = true
    · simp only [hcond, if_true]
      cases hlk : lookupField fields (getSlot sl i).q with
      | none => rfl
      | some j => simp only [Option.map_map, Function.comp_def]
    · simp only [hcond, Bool.false_eq_true, if_false, Option.map_map, Function.comp_def]

/-! ### records with different keys commute -/

theorem getSlot_setSlot_ne (sl : List Slot) (i j : Nat) (s : Slot) (h : i ≠ j) : getSlot (setSlot sl i s) j = getSlot sl j := by
  simp [getSlot, setSlot, getD_eq_getElem?_getD, getElem?_set_ne h]

theorem setSlot_comm (sl : List Slot) (i j : Nat) (a b : Slot) (h : i ≠ j) :
    setSlot (setSlot sl i a) j b = setSlot (setSlot sl j b) i a := by
  simp [setSlot, List.set_comm _ _ h]

theorem comm_field_field (S : Schema) (fuel : Nat) (fields : List FieldDesc) (x y : Scanned) (i j : Nat)
    (hx : x.fidx = some i) (hy : y.fidx = some j) (hgx : (fields.getD i default).group = none)
    (hgy : (fields.getD j default).group = none) (hij : i ≠ j) (m : Msg) :
    (parseMember S fuel fields x m).bind (parseMember S fuel fields y) =
      (parseMember S fuel fields y m).bind (parseMember S fuel fields x) := by
  cases m with
  | mk ty sl u =>
    rw [parseMember_field S fuel fields x i hx hgx, parseMember_field S fuel fields y j hy hgy]
    cases hGx : slotFn S fuel (fields.getD i default) x (getSlot sl i) with
    | none =>
      cases hGy : slotFn S fuel (fields.getD j default) y (getSlot sl j) with
      | none => rfl
      | some s2 =>
        simp only [Option.map_none, Option.bind_none, Option.map_some, Option.bind_some]
        rw [parseMember_field S fuel fields x i hx hgx, getSlot_setSlot_ne _ _ _ _ (Ne.symm hij), hGx]; rfl
    | some s1 =>
      simp only [Option.map_some, Option.bind_some]
      rw [parseMember_field S fuel fields y j hy hgy, getSlot_setSlot_ne _ _ _ _ hij]
      cases hGy : slotFn S fuel (fields.getD j default) y (getSlot sl j) with
      | none => rfl
      | some s2 =>
        simp only [Option.map_some, Option.bind_some]
        rw [parseMember_field S fuel fields x i hx hgx, getSlot_setSlot_ne _ _ _ _ (Ne.symm hij), hGx]
        simp only [Option.map_some, setSlot_comm _ _ _ _ _ hij]

theorem comm_field_unknown (S : Schema) (fuel : Nat) (fields : List FieldDesc) (x y : Scanned) (i : Nat)
    (hx : x.fidx = some i) (hy : y.fidx = none) (hgx : (fields.getD i default).group = none) (m : Msg) :
    (parseMember S fuel fields x m).bind (parseMember S fuel fields y) =
      (parseMember S fuel fields y m).bind (parseMember S fuel fields x) := by
  cases m with
  | mk ty sl u =>
    rw [parseMember_field S fuel fields x i hx hgx, parseMember_unknown S fuel fields y hy]
    simp only [Option.bind_some]
    rw [parseMember_field S fuel fields x i hx hgx]
    cases slotFn S fuel (fields.getD i default) x (getSlot sl i) with
    | none => rfl
    | some s1 => simp only [Option.map_some, Option.bind_some]; rw [parseMember_unknown S fuel fields y hy]

/-! ### a oneof record touches only the slots of its group -/

def NotMember (fs : List FieldDesc) (g j : Nat) : Prop := ∀ f, fs[j]? = some f → (f.group == some g) = false

theorem notMember_tail {f : FieldDesc} {fs : List FieldDesc} {g j : Nat} (h : NotMember (f :: fs) g (j + 1)) : NotMember fs g j := by
  intro f' hf'; exact h f' (by simpa using hf')

theorem zeroGroup_set (g : Nat) : ∀ (fs : List FieldDesc) (ss : List Slot) (j : Nat) (s' : Slot), NotMember fs g j →
    zeroGroup g fs (ss.set j s') = (zeroGroup g fs ss).set j s'
  | [], ss, j, s', _ => by simp [zeroGroup]
  | _ :: _, [], j, s', _ => by simp [zeroGroup]
  | f :: fs, s :: ss, 0, s', h => by
    have := h f (by simp)
    simp [zeroGroup, this]
  | f :: fs, s :: ss, j+1, s', h => by
    simp [zeroGroup, zeroGroup_set g fs ss j s' (notMember_tail h)]

theorem setCase_set (F : List FieldDesc) (g c : Nat) : ∀ (fs : List FieldDesc) (ss : List Slot) (j : Nat) (s' : Slot), NotMember fs g j →
    setCase F g c fs (ss.set j s') = (setCase F g c fs ss).set j s'
  | [], ss, j, s', _ => by simp [setCase]
  | _ :: _, [], j, s', _ => by simp [setCase]
  | f :: fs, s :: ss, 0, s', h => by
    have := h f (by simp)
    simp [setCase, this]
  | f :: fs, s :: ss, j+1, s', h => by
    simp [setCase, setCase_set F g c fs ss j s' (notMember_tail h)]

theorem getD_zeroGroup_ne (g : Nat) : ∀ (fs : List FieldDesc) (ss : List Slot) (j : Nat), NotMember fs g j →
    (zeroGroup g fs ss).getD j default = ss.getD j default
  | [], ss, j, _ => by simp [zeroGroup]
  | _ :: _, [], j, _ => by simp [zeroGroup]
  | f :: fs, s :: ss, 0, h => by
    have := h f (by simp)
    simp [zeroGroup, this]
  | f :: fs, s :: ss, j+1, h => by
    simpa [zeroGroup] using getD_zeroGroup_ne g fs ss j (notMember_tail h)

theorem getD_setCase_ne (F : List FieldDesc) (g c : Nat) : ∀ (fs : List FieldDesc) (ss : List Slot) (j : Nat), NotMember fs g j →
    (setCase F g c fs ss).getD j default = ss.getD j default
  | [], ss, j, _ => by simp [setCase]
  | _ :: _, [], j, _ => by simp [setCase]
  | f :: fs, s :: ss, 0, h => by
    have := h f (by simp)
    simp [setCase, this]
  | f :: fs, s :: ss, j+1, h => by
    simpa [setCase] using getD_setCase_ne F g c fs ss j (notMember_tail h)

theorem notMember_of_none (fields : List FieldDesc) (g j : Nat) (h : (fields.getD j default).group = none) :
    NotMember fields g j := by
  intro f hf
  have : fields.getD j default = f := by rw [getD_eq_getElem?_getD, hf]; rfl
  rw [this] at h; simp [h]

/-- updating a slot outside the group commutes with what a oneof record does -/
theorem groupFn_setSlot (S : Schema) (fuel : Nat) (fields : List FieldDesc) (f : FieldDesc) (g : Nat) (sm : Scanned) (i j : Nat)
    (hij : i ≠ j) (hnm : NotMember fields g j) (sl : List Slot) (s' : Slot) :
    groupFn S fuel fields f g sm i (setSlot sl j s') = (groupFn S fuel fields f g sm i sl).map (fun sl' => setSlot sl' j s') := by
  unfold groupFn
  simp only [getSlot_setSlot_ne sl j i s' (Ne.symm hij)]
  by_cases hcond : ((getSlot sl i).q != 0 && !((getSlot sl i).q == sm.tag && f.type == PType.message)) = true
  · simp only [hcond, if_true]
    cases lookupField fields (getSlot sl i).q with
    | none => rfl
    | some k =>
      simp only
      have hz : zeroGroup g fields (setSlot sl j s') = setSlot (zeroGroup g fields sl) j s' := zeroGroup_set g fields sl j s' hnm
      rw [hz, getSlot_setSlot_ne _ j i s' (Ne.symm hij)]
      cases parseRequired S fuel f sm (getSlot (zeroGroup g fields sl) i).v true with
      | none => rfl
      | some v =>
        simp only [Option.map_some]
        rw [setSlot_comm _ j i s' _ (Ne.symm hij)]
        exact congrArg some (setCase_set fields g sm.tag fields _ j s' hnm)
  · simp only [hcond, Bool.false_eq_true, if_false]
    rw [getSlot_setSlot_ne _ j i s' (Ne.symm hij)]
    cases parseRequired S fuel f sm (getSlot sl i).v true with
    | none => rfl
    | some v =>
      simp only [Option.map_some]
      rw [setSlot_comm _ j i s' _ (Ne.symm hij)]
      exact congrArg some (setCase_set fields g sm.tag fields _ j s' hnm)

/-- ... and it leaves such a slot as it was -/
theorem groupFn_getSlot (S : Schema) (fuel : Nat) (fields : List FieldDesc) (f : FieldDesc) (g : Nat) (sm : Scanned) (i j : Nat)
    (hij : i ≠ j) (hnm : NotMember fields g j) (sl sl' : List Slot) (h : groupFn S fuel fields f g sm i sl = some sl') :
    getSlot sl' j = getSlot sl j := by
  unfold groupFn at h
  by_cases hcond : ((getSlot sl i).q != 0 && !((getSlot sl i).q == sm.tag && f.type == PType.message)) = true
  · simp only [hcond, if_true] at h
    cases hlk : lookupField fields (getSlot sl i).q with
    | none => rw [hlk] at h; cases h
    | some k =>
      rw [hlk] at h
      simp only at h
      cases hp : parseRequired S fuel f sm (getSlot (zeroGroup g fields sl) i).v true with
      | none => rw [hp] at h; cases h
      | some v =>
        rw [hp] at h
        simp only [Option.map_some, Option.some.injEq] at h
        rw [← h]
        unfold getSlot
        rw [getD_setCase_ne fields g sm.tag fields _ j hnm]
        have := getSlot_setSlot_ne (zeroGroup g fields sl) i j (.one (getSlot sl i).q v) hij
        unfold getSlot at this
        rw [this, getD_zeroGroup_ne g fields sl j hnm]
  · simp only [hcond, Bool.false_eq_true, if_false] at h
    cases hp : parseRequired S fuel f sm (getSlot sl i).v true with
    | none => rw [hp] at h; cases h
    | some v =>
      rw [hp] at h
      simp only [Option.map_some, Option.some.injEq] at h
      rw [← h]
      unfold getSlot
      rw [getD_setCase_ne fields g sm.tag fields _ j hnm]
      have := getSlot_setSlot_ne sl i j (.one (getSlot sl i).q v) hij
      unfold getSlot at this
      exact this

theorem comm_oneof_field (S : Schema) (fuel : Nat) (fields : List FieldDesc) (x y : Scanned) (i j g : Nat)
    (hx : x.fidx = some i) (hy : y.fidx = some j) (hgx : (fields.getD i default).group = some g)
    (hlx : (fields.getD i default).label = .optional ∨ (fields.getD i default).label = .none)
    (hgy : (fields.getD j default).group = none) (m : Msg) :
    (parseMember S fuel fields x m).bind (parseMember S fuel fields y) =
      (parseMember S fuel fields y m).bind (parseMember S fuel fields x) := by
  have hij : i ≠ j := by intro h; subst h; rw [hgx] at hgy; cases hgy
  have hnm := notMember_of_none fields g j hgy
  cases m with
  | mk ty sl u =>
    rw [parseMember_oneof S fuel fields x i g hx hgx hlx, parseMember_field S fuel fields y j hy hgy]
    cases hG : groupFn S fuel fields (fields.getD i default) g x i sl with
    | none =>
      simp only [Option.map_none, Option.bind_none]
      cases hF : slotFn S fuel (fields.getD j default) y (getSlot sl j) with
      | none => rfl
      | some s2 =>
        simp only [Option.map_some, Option.bind_some]
        rw [parseMember_oneof S fuel fields x i g hx hgx hlx, groupFn_setSlot S fuel fields _ g x i j hij hnm, hG]; rfl
    | some sl1 =>
      simp only [Option.map_some, Option.bind_some]
      rw [parseMember_field S fuel fields y j hy hgy, groupFn_getSlot S fuel fields _ g x i j hij hnm sl sl1 hG]
      cases hF : slotFn S fuel (fields.getD j default) y (getSlot sl j) with
      | none => rfl
      | some s2 =>
        simp only [Option.map_some, Option.bind_some]
        rw [parseMember_oneof S fuel fields x i g hx hgx hlx, groupFn_setSlot S fuel fields _ g x i j hij hnm, hG]; rfl

theorem comm_oneof_unknown (S : Schema) (fuel : Nat) (fields : List FieldDesc) (x y : Scanned) (i g : Nat)
    (hx : x.fidx = some i) (hy : y.fidx = none) (hgx : (fields.getD i default).group = some g)
    (hlx : (fields.getD i default).label = .optional ∨ (fields.getD i default).label = .none) (m : Msg) :
    (parseMember S fuel fields x m).bind (parseMember S fuel fields y) =
      (parseMember S fuel fields y m).bind (parseMember S fuel fields x) := by
  cases m with
  | mk ty sl u =>
    rw [parseMember_oneof S fuel fields x i g hx hgx hlx, parseMember_unknown S fuel fields y hy]
    simp only [Option.bind_some]
    rw [parseMember_oneof S fuel fields x i g hx hgx hlx]
    cases groupFn S fuel fields (fields.getD i default) g x i sl with
    | none => rfl
    | some sl1 => simp only [Option.map_some, Option.bind_some]; rw [parseMember_unknown S fuel fields y hy]

/-! ### keys, and the reordering theorem -/

inductive RKey
  | field (i : Nat)      -- a field outside every oneof
  | oneofs               -- any oneof member (all oneof records keep their mutual order)
  | unknown              -- any unknown field (they keep their arrival order: it is observable)
  deriving DecidableEq

def rkey (fields : List FieldDesc) (sm : Scanned) : RKey :=
  match sm.fidx with
  | none => .unknown
  | some i => if (fields.getD i default).group.isSome then .oneofs else .field i

/-- the schema's oneof members are optional / implicit (never required or repeated): what the .proto language allows -/
def OneofLabelsOK (fields : List FieldDesc) : Prop :=
  ∀ i, (fields.getD i default).group.isSome = true →
    (fields.getD i default).label = .optional ∨ (fields.getD i default).label = .none

theorem comm_of_keys (S : Schema) (fuel : Nat) (fields : List FieldDesc) (ho : OneofLabelsOK fields) (x y : Scanned)
    (h : rkey fields x ≠ rkey fields y) (m : Msg) :
    (parseMember S fuel fields x m).bind (parseMember S fuel fields y) =
      (parseMember S fuel fields y m).bind (parseMember S fuel fields x) := by
  unfold rkey at h
  cases hx : x.fidx with
  | none =>
    cases hy : y.fidx with
    | none => rw [hx, hy] at h; exact absurd rfl h
    | some j =>
      cases hgy : (fields.getD j default).group with
      | none => exact (comm_field_unknown S fuel fields y x j hy hx hgy m).symm
      | some g => exact (comm_oneof_unknown S fuel fields y x j g hy hx hgy (ho j (by rw [hgy]; rfl)) m).symm
  | some i =>
    cases hgx : (fields.getD i default).group with
    | none =>
      cases hy : y.fidx with
      | none => exact comm_field_unknown S fuel fields x y i hx hy hgx m
      | some j =>
        cases hgy : (fields.getD j default).group with
        | none =>
          have hij : i ≠ j := by
            intro hc; subst hc; rw [hx, hy] at h; exact h rfl
          exact comm_field_field S fuel fields x y i j hx hy hgx hgy hij m
        | some g => exact (comm_oneof_field S fuel fields y x j i g hy hx hgy (ho j (by rw [hgy]; rfl)) hgx m).symm
    | some g =>
      cases hy : y.fidx with
      | none => exact comm_oneof_unknown S fuel fields x y i g hx hy hgx (ho i (by rw [hgx]; rfl)) m
      | some j =>
        cases hgy : (fields.getD j default).group with
        | none => exact comm_oneof_field S fuel fields x y i j g hx hy hgx (ho i (by rw [hgx]; rfl)) hgy m
        | some g' =>
          rw [hx, hy] at h
          simp only [hgx, hgy, Option.isSome_some, if_true] at h
          exact absurd rfl h

/-- **C04, field order**: reordering a sequence of scanned records in any way that keeps, for every field outside oneofs,
    the order of that field's records — and keeps the oneof members among themselves and the unknown fields among
    themselves in order — does not change what the parse pass produces, from ANY starting message (success or failure). -/
theorem parseAll_reorder (S : Schema) (fuel : Nat) (fields : List FieldDesc) (ho : OneofLabelsOK fields)
    (l l' : List Scanned) (hf : ∀ k, l'.filter (fun sm => rkey fields sm = k) = l.filter (fun sm => rkey fields sm = k)) (m : Msg) :
    parseAll S fuel fields l' m = parseAll S fuel fields l m := by
  have hsw := Pbc.Lemmas.Swap.swapEq_of_filters (rkey fields) l' l hf
  refine (Pbc.Lemmas.Swap.invariant (rkey fields) (fun L => parseAll S fuel fields L m) ?_ hsw).symm
  intro pre a b post hab
  simp only [parseAll_append]
  congr 1
  funext m1
  show parseAll S fuel fields (a :: b :: post) m1 = parseAll S fuel fields (b :: a :: post) m1
  have hc := comm_of_keys S fuel fields ho a b hab m1
  simp only [parseAll]
  cases ha : parseMember S fuel fields a m1 with
  | none =>
    rw [ha] at hc
    simp only [Option.bind_none] at hc
    cases hb : parseMember S fuel fields b m1 with
    | none => rfl
    | some m2 => rw [hb] at hc; simp only [Option.bind_some] at hc; simp only [← hc]
  | some m2 =>
    rw [ha] at hc
    simp only [Option.bind_some] at hc
    cases hb : parseMember S fuel fields b m1 with
    | none => rw [hb] at hc; simp only [Option.bind_none] at hc; simp only [hc]
    | some m3 => rw [hb] at hc; simp only [Option.bind_some] at hc; simp only [hc]

end Pbc.Props.C04
