import Pbc.Props.C06b
/-
  C06, part M — `merge_messages` keeps messages in parser form.
-/
namespace Pbc.Props.C06
open Pbc Pbc.Model Pbc.Wire Pbc.Lemmas Pbc.Props.C01 Pbc.Props.C04 List

/-- what is known of the EARLIER message while `merge_messages` walks over the fields: slots of non-oneof fields not
    yet visited are in parser form; a oneof group is either as parsed or already emptied (case 0) -/
structure EInv (P : Msg → Prop) (g : Bool) (cs : Nat → Nat) (fields : List FieldDesc) (i : Nat) (slots : List Slot) : Prop where
  len : slots.length = fields.length
  rep : ∀ j, i ≤ j → j < fields.length → (fields.getD j default).group = none → (fields.getD j default).label = .repeated →
      getSlot slots j = .rep 0 none ∨
      ∃ n l, getSlot slots j = .rep n (some l) ∧ 0 < n ∧ l.length = n ∧ ∀ v ∈ l, ShapeElemP P (fields.getD j default) v
  one : ∀ j, i ≤ j → j < fields.length → (fields.getD j default).group = none → (fields.getD j default).label ≠ .repeated →
      getSlot slots j = initSlot' g (fields.getD j default) ∨ Touched P (fields.getD j default) (getSlot slots j)
  grp : ∀ j gi, j < fields.length → (fields.getD j default).group = some gi →
      ∃ v, getSlot slots j = .one (cs gi) v ∧
        (cs gi ≠ 0 → if (fields.getD j default).id = cs gi then ShapeElemP P (fields.getD j default) v else v = .zero)
  sel : ∀ gi, cs gi = 0 ∨ ∃ j, j < fields.length ∧ isSel fields cs gi j = true

theorem einv_of_pinv (P : Msg → Prop) (g : Bool) (cs : Nat → Nat) (fields : List FieldDesc) (seen : Nat → Prop) (slots : List Slot)
    (h : PInv P g cs fields seen slots) : EInv P g cs fields 0 slots :=
  ⟨h.len, fun j _ hj hg hl => h.rep j hj hg hl, fun j _ hj hg hl => (h.one j hj hg hl).1,
   fun j gi hj hg => by obtain ⟨v, hs, hv⟩ := h.grp j gi hj hg; exact ⟨v, hs, fun _ => hv⟩, h.sel⟩

theorem einv_succ (P : Msg → Prop) (g : Bool) (cs : Nat → Nat) (fields : List FieldDesc) (i : Nat) (slots : List Slot)
    (h : EInv P g cs fields i slots) : EInv P g cs fields (i + 1) slots :=
  ⟨h.len, fun j hij => h.rep j (by omega), fun j hij => h.one j (by omega), h.grp, h.sel⟩

/-- overwriting the slot of the non-oneof field just visited does not matter for what follows -/
theorem einv_set (P : Msg → Prop) (g : Bool) (cs : Nat → Nat) (fields : List FieldDesc) (i : Nat) (slots : List Slot)
    (h : EInv P g cs fields i slots) (hg : (fields.getD i default).group = none) (s : Slot) :
    EInv P g cs fields (i + 1) (setSlot slots i s) := by
  refine ⟨by rw [setSlot_length, h.len], ?_, ?_, ?_, h.sel⟩
  · intro j hij hj hgj hl
    rw [getSlot_setSlot_ne _ _ _ _ (by omega)]
    exact h.rep j (by omega) hj hgj hl
  · intro j hij hj hgj hl
    rw [getSlot_setSlot_ne _ _ _ _ (by omega)]
    exact h.one j (by omega) hj hgj hl
  · intro j gi hj hgj
    have hji : i ≠ j := by intro e; subst e; rw [hg] at hgj; cases hgj
    rw [getSlot_setSlot_ne _ _ _ _ hji]
    exact h.grp j gi hj hgj

/-- replacing the slot of a non-oneof field of the LATER message by a slot in parser form keeps the invariant -/
theorem pinv_set (P : Msg → Prop) (g : Bool) (cs : Nat → Nat) (fields : List FieldDesc) (seen : Nat → Prop) (slots : List Slot)
    (h : PInv P g cs fields seen slots) (i : Nat) (hi : i < fields.length) (hg : (fields.getD i default).group = none)
    (s : Slot)
    (hrep : (fields.getD i default).label = .repeated →
      s = .rep 0 none ∨ ∃ n l, s = .rep n (some l) ∧ 0 < n ∧ l.length = n ∧ ∀ v ∈ l, ShapeElemP P (fields.getD i default) v)
    (hone : (fields.getD i default).label ≠ .repeated → Touched P (fields.getD i default) s) :
    PInv P g cs fields seen (setSlot slots i s) := by
  have hil : i < slots.length := by rw [h.len]; exact hi
  refine ⟨by rw [setSlot_length, h.len], ?_, ?_, ?_, h.sel⟩
  · intro j hj hgj hl
    by_cases hji : j = i
    · subst hji; rw [getSlot_setSlot_eq _ _ _ hil]; exact hrep hl
    · rw [getSlot_setSlot_ne _ _ _ _ (fun e => hji e.symm)]; exact h.rep j hj hgj hl
  · intro j hj hgj hl
    by_cases hji : j = i
    · subst hji; rw [getSlot_setSlot_eq _ _ _ hil]; exact ⟨Or.inr (hone hl), fun _ => hone hl⟩
    · rw [getSlot_setSlot_ne _ _ _ _ (fun e => hji e.symm)]; exact h.one j hj hgj hl
  · intro j gi hj hgj
    have hji : i ≠ j := by intro e; subst e; rw [hg] at hgj; cases hgj
    rw [getSlot_setSlot_ne _ _ _ _ hji]
    exact h.grp j gi hj hgj

theorem touched_of_q (P : Msg → Prop) (g : Bool) (f : FieldDesc) (s : Slot) (hl : f.label ≠ .repeated)
    (h : s = initSlot' g f ∨ Touched P f s) (hq : s.q ≠ 0) : Touched P f s := by
  rcases h with h | h
  · obtain ⟨v, hv⟩ := initSlot'_q g f hl
    rw [h, hv] at hq; exact absurd rfl hq
  · exact h

theorem touched_of_msg (P : Msg → Prop) (g : Bool) (f : FieldDesc) (s : Slot) (om : Msg)
    (h : s = initSlot' g f ∨ Touched P f s) (hv : s.v = .msg (some om)) : Touched P f s := by
  rcases h with h | h
  · rw [h] at hv; exact absurd hv (initSlot'_not_msg g f om)
  · exact h

theorem one_form (P : Msg → Prop) (g : Bool) (f : FieldDesc) (s : Slot) (hl : f.label ≠ .repeated)
    (h : s = initSlot' g f ∨ Touched P f s) : ∃ q v, s = .one q v := by
  rcases h with h | ⟨q, v, h, _⟩
  · obtain ⟨v, hv⟩ := initSlot'_q g f hl
    exact ⟨0, v, by rw [h, hv]⟩
  · exact ⟨q, v, h⟩

/-- the initial value of a singular non-oneof field, by type (with well-kinded defaults) -/
theorem init_value (g : Bool) (f : FieldDesc) (hd : DfltOK f) (hl : f.label ≠ .repeated) (hg : f.group = none) :
    (f.type = .string → ∃ p s, (initSlot' g f).v = .str p s ∧ (p = .null ∨ p = .dflt)) ∧
    (f.type = .bytes → ((initSlot' g f).v = .bin 0 .null [] ∧ f.dflt = .none) ∨ (∃ n b, (initSlot' g f).v = .bin n .dflt b ∧ f.dflt ≠ .none)) := by
  have hlr : (f.label == Label.repeated) = false := by simpa using hl
  have ho : f.isOneof = false := by simp [FieldDesc.isOneof, hg]
  constructor
  · intro ht
    have hinit : f.init = none := by
      cases hi : f.init with
      | none => rfl
      | some b => have := hd.2 (by simp [hi]); rw [ht] at this; exact absurd rfl this
    have hdv : ∃ p s, dfltVal f = .str p s ∧ (p = .null ∨ p = .dflt) := by
      unfold dfltVal
      cases hdf : f.dflt with
      | none => exact ⟨.null, [], by simp [zeroVal, ht], Or.inl rfl⟩
      | scalar b => have := hd.1; rw [hdf, ht] at this; exact absurd rfl this
      | str s => exact ⟨.dflt, s, rfl, Or.inr rfl⟩
      | emptyStr => exact ⟨.dflt, [], rfl, Or.inr rfl⟩
      | bin b => have := hd.1; rw [hdf] at this; have h' := this.1; rw [ht] at h'; cases h'
    unfold initSlot'
    cases g <;> simp only [Bool.false_eq_true, if_false, if_true, initSlotGen, initSlotGeneric, hlr, ho, hinit, Slot.v] <;> exact hdv
  · intro ht
    have hinit : f.init = none := by
      cases hi : f.init with
      | none => rfl
      | some b => have := hd.2 (by simp [hi]); rw [ht] at this; exact absurd rfl this
    have hdv : (dfltVal f = .bin 0 .null [] ∧ f.dflt = .none) ∨ (∃ n b, dfltVal f = .bin n .dflt b ∧ f.dflt ≠ .none) := by
      unfold dfltVal
      cases hdf : f.dflt with
      | none => exact Or.inl ⟨by simp [zeroVal, ht], rfl⟩
      | scalar b => have := hd.1; rw [hdf, ht] at this; exact absurd rfl this
      | str s => have := hd.1; rw [hdf] at this; have h' := this.1; rw [ht] at h'; cases h'
      | emptyStr => have := hd.1; rw [hdf, ht] at this; cases this
      | bin b => exact Or.inr ⟨_, _, rfl, by simp⟩
    unfold initSlot'
    cases g <;> simp only [Bool.false_eq_true, if_false, if_true, initSlotGen, initSlotGeneric, hlr, ho, hinit, Slot.v] <;> exact hdv

theorem setSlot_setSlot (sl : List Slot) (i : Nat) (a b : Slot) : setSlot (setSlot sl i a) i b = setSlot sl i b := by
  simp [setSlot]

theorem lookupField_of_id (fields : List FieldDesc) (hd : IdsDistinct fields) (j : Nat) (hj : j < fields.length)
    (t : Nat) (hid : (fields.getD j default).id = t) (ht : t < 2 ^ 31) : lookupField fields t = some j := by
  unfold lookupField
  rw [if_neg (by omega)]
  apply findIdx_of_id hd hj
  rw [← getD_fields fields j hj]; exact hid

/-- the LATER message after a value has been put into member `i` of group `gi` and the case set to `c` -/
theorem pinv_group_set (P : Msg → Prop) (g : Bool) (cs : Nat → Nat) (fields : List FieldDesc) (hd : IdsDistinct fields)
    (seen : Nat → Prop) (slots : List Slot) (hinv : PInv P g cs fields seen slots)
    (i gi : Nat) (hi : i < fields.length) (hgrp : (fields.getD i default).group = some gi)
    (c : Nat) (hc : (fields.getD i default).id = c) (q : Nat) (v : Val) (hv : ShapeElemP P (fields.getD i default) v)
    (sl1 : List Slot) (hl1 : sl1.length = fields.length)
    (hmem : ∀ j, j < fields.length → (fields.getD j default).group = some gi → j ≠ i → ∃ q', sl1.getD j default = .one q' .zero)
    (hoth : ∀ j, j < fields.length → (fields.getD j default).group ≠ some gi → sl1.getD j default = slots.getD j default) :
    PInv P g (upd cs gi c) fields seen (setCase fields gi c fields (setSlot sl1 i (.one q v))) := by
  have hl2 : (setSlot sl1 i (.one q v)).length = fields.length := by rw [setSlot_length, hl1]
  have hget : ∀ j, j < fields.length →
      getSlot (setCase fields gi c fields (setSlot sl1 i (.one q v))) j =
        if (fields.getD j default).group = some gi then (if j = i then .one c v else .one c .zero)
        else getSlot slots j := by
    intro j hj
    unfold getSlot
    rw [getD_setCase fields gi c fields _ j hl2.symm (by rw [hl2]; exact hj),
        getD_setSlot sl1 i j _ (by rw [hl1]; exact hi)]
    by_cases hg : (fields.getD j default).group = some gi
    · simp only [hg, beq_self_eq_true, if_true]
      by_cases hji : j = i
      · simp only [hji, if_true]
      · simp only [hji, if_false]
        obtain ⟨q', hq'⟩ := hmem j hj hg hji
        rw [hq']
    · have : ((fields.getD j default).group == some gi) = false := by simpa using hg
      simp only [this, Bool.false_eq_true, if_false, hg]
      have hji : j ≠ i := by intro e; subst e; exact hg hgrp
      simp only [hji, if_false]
      exact hoth j hj hg
  refine ⟨by rw [setCase_length, hl2], ?_, ?_, ?_, ?_⟩
  · intro j hj hg hl
    rw [hget j hj, if_neg (by rw [hg]; simp)]
    exact hinv.rep j hj hg hl
  · intro j hj hg hl
    rw [hget j hj, if_neg (by rw [hg]; simp)]
    exact hinv.one j hj hg hl
  · intro j gj hj hg
    rw [hget j hj]
    by_cases hgg : gj = gi
    · subst hgg
      simp only [hg, if_true, upd]
      by_cases hji : j = i
      · subst hji
        exact ⟨v, by simp, by rw [if_pos hc]; exact hv⟩
      · refine ⟨.zero, by simp [hji], ?_⟩
        have := ids_ne fields hd j i hj hi hji
        rw [hc] at this
        rw [if_neg this]
    · have hne : (fields.getD j default).group ≠ some gi := by rw [hg]; intro e; exact hgg (Option.some.inj e)
      rw [if_neg hne]
      simp only [upd, hgg, if_false]
      exact hinv.grp j gj hj hg
  · intro g'
    by_cases hgg : g' = gi
    · subst hgg
      right
      exact ⟨i, hi, by simp only [isSel, hgrp, upd, hc, beq_self_eq_true, if_true, Bool.and_self]⟩
    · rcases hinv.sel g' with h0 | ⟨j, hj, hs⟩
      · left; simp [upd, hgg, h0]
      · right
        refine ⟨j, hj, ?_⟩
        simpa [isSel, upd, hgg] using hs

/-- the EARLIER message after its oneof group `gi` has been emptied -/
theorem einv_group_clear (P : Msg → Prop) (g : Bool) (cs : Nat → Nat) (fields : List FieldDesc) (i : Nat) (slots : List Slot)
    (h : EInv P g cs fields i slots) (j gi : Nat) (hj : j < fields.length) (hgj : (fields.getD j default).group = some gi)
    (q : Nat) (v : Val) :
    EInv P g (upd cs gi 0) fields (i + 1) (setCase fields gi 0 fields (setSlot slots j (.one q v))) := by
  have hl2 : (setSlot slots j (.one q v)).length = fields.length := by rw [setSlot_length, h.len]
  have hget : ∀ j', j' < fields.length →
      getSlot (setCase fields gi 0 fields (setSlot slots j (.one q v))) j' =
        if (fields.getD j' default).group = some gi then
          (match (if j' = j then Slot.one q v else getSlot slots j') with | .one _ v' => .one 0 v' | s => s)
        else getSlot slots j' := by
    intro j' hj'
    unfold getSlot
    rw [getD_setCase fields gi 0 fields _ j' hl2.symm (by rw [hl2]; exact hj'),
        getD_setSlot slots j j' _ (by rw [h.len]; exact hj)]
    by_cases hg : (fields.getD j' default).group = some gi
    · simp only [hg, beq_self_eq_true, if_true] <;> rfl
    · have : ((fields.getD j' default).group == some gi) = false := by simpa using hg
      simp only [this, Bool.false_eq_true, if_false, hg]
      have hji : j' ≠ j := by intro e; subst e; exact hg hgj
      simp only [hji, if_false]
  refine ⟨by rw [setCase_length, hl2], ?_, ?_, ?_, ?_⟩
  · intro j' hij hj' hg hl
    rw [hget j' hj', if_neg (by rw [hg]; simp)]
    exact h.rep j' (by omega) hj' hg hl
  · intro j' hij hj' hg hl
    rw [hget j' hj', if_neg (by rw [hg]; simp)]
    exact h.one j' (by omega) hj' hg hl
  · intro j' gj hj' hg
    rw [hget j' hj']
    by_cases hgg : gj = gi
    · subst hgg
      simp only [hg, if_true, upd]
      by_cases hji : j' = j
      · simp only [hji, if_true]
        exact ⟨v, rfl, fun h0 => absurd rfl h0⟩
      · simp only [hji, if_false]
        obtain ⟨v', hs', _⟩ := h.grp j' gj hj' hg
        rw [hs']
        exact ⟨v', rfl, fun h0 => absurd rfl h0⟩
    · have hne : (fields.getD j' default).group ≠ some gi := by rw [hg]; intro e; exact hgg (Option.some.inj e)
      rw [if_neg hne]
      simp only [upd, hgg, if_false]
      exact h.grp j' gj hj' hg
  · intro g'
    by_cases hgg : g' = gi
    · subst hgg; left; simp [upd]
    · rcases h.sel g' with h0 | ⟨j', hj', hs⟩
      · left; simp [upd, hgg, h0]
      · right
        refine ⟨j', hj', ?_⟩
        simpa [isSel, upd, hgg] using hs

/-- replacing the value of the selected member of a oneof group of the LATER message -/
theorem pinv_set_member (P : Msg → Prop) (g : Bool) (cs : Nat → Nat) (fields : List FieldDesc) (seen : Nat → Prop)
    (slots : List Slot) (h : PInv P g cs fields seen slots) (i gi : Nat) (hi : i < fields.length)
    (hg : (fields.getD i default).group = some gi) (hid : (fields.getD i default).id = cs gi) (v : Val)
    (hv : ShapeElemP P (fields.getD i default) v) :
    PInv P g cs fields seen (setSlot slots i (.one (cs gi) v)) := by
  have hil : i < slots.length := by rw [h.len]; exact hi
  refine ⟨by rw [setSlot_length, h.len], ?_, ?_, ?_, h.sel⟩
  · intro j hj hgj hl
    have hji : i ≠ j := by intro e; subst e; rw [hg] at hgj; cases hgj
    rw [getSlot_setSlot_ne _ _ _ _ hji]; exact h.rep j hj hgj hl
  · intro j hj hgj hl
    have hji : i ≠ j := by intro e; subst e; rw [hg] at hgj; cases hgj
    rw [getSlot_setSlot_ne _ _ _ _ hji]; exact h.one j hj hgj hl
  · intro j gj hj hgj
    by_cases hji : j = i
    · subst hji
      rw [hg] at hgj
      cases hgj
      rw [getSlot_setSlot_eq _ _ _ hil]
      exact ⟨v, rfl, by rw [if_pos hid]; exact hv⟩
    · rw [getSlot_setSlot_ne _ _ _ _ (fun e => hji e.symm)]
      exact h.grp j gj hj hgj

/-- schema conditions used by the merge -/
structure MergeSch (g : Bool) (fields : List FieldDesc) : Prop where
  ok : SchemaOK fields
  oneof : OneofLabelsOK fields
  dflt : ∀ f ∈ fields, DfltOK f
  zeroInit : ∀ f ∈ fields, f.label = .none → f.group = none → writes f 0 (initSlot' g f).v = false

/-- the required-field condition of the later message -/
def reqSeen (fields : List FieldDesc) : Nat → Prop := fun j => (fields.getD j default).label = .required

theorem shape1_msg (f : FieldDesc) (v : Val) (h : Shape1 f v) (ht : f.type = .message) : ∃ m, v = .msg (some m) := by
  cases v with
  | msg om => cases om with
    | some m => exact ⟨m, rfl⟩
    | none => exact absurd h (by simp [Shape1])
  | str p s => cases p <;> simp [Shape1, ht] at h
  | bin len p d => cases p <;> simp [Shape1, ht] at h
  | w32 x => have h2 : okScalar f.type (.w32 x) := h; rw [ht] at h2; exact absurd h2 (by simp [okScalar, PType.is32])
  | w64 x => have h2 : okScalar f.type (.w64 x) := h; rw [ht] at h2; exact absurd h2 (by simp [okScalar, PType.is32])
  | zero => exact absurd h (by simp [Shape1])

theorem shape1_str (f : FieldDesc) (v : Val) (h : Shape1 f v) (ht : f.type = .string) : ∃ s, v = .str .own s := by
  cases v with
  | msg om => cases om with
    | some m => simp [Shape1, ht] at h
    | none => exact absurd h (by simp [Shape1])
  | str p s => cases p with
    | own => exact ⟨s, rfl⟩
    | _ => exact absurd h (by simp [Shape1])
  | bin len p d => cases p <;> simp [Shape1, ht] at h
  | w32 x => have h2 : okScalar f.type (.w32 x) := h; rw [ht] at h2; exact absurd h2 (by simp [okScalar, PType.is32])
  | w64 x => have h2 : okScalar f.type (.w64 x) := h; rw [ht] at h2; exact absurd h2 (by simp [okScalar, PType.is32])
  | zero => exact absurd h (by simp [Shape1])

set_option hygiene false in
/-- in the oneof case with the later group unset, the step of `merge_messages` always decides to move the value:
    from `hst : <step> = some (b, ls1)` derive `b = true ∧ ls1 = ls` (uses the local names of `mergeFields_inv`) -/
macro "oneof_step_true" : tactic => `(tactic| (
  rw [hsej, hslj] at hst
  simp only [Slot.v] at hst
  cases hft : (fields.getD j default).type <;> simp only [hft, hne0, hhqj, if_true, Bool.true_and, beq_self_eq_true,
    Bool.not_true, Bool.and_false, Bool.false_eq_true, if_false, Option.some.injEq, Prod.mk.injEq] at hst
  case message =>
    obtain ⟨em, hem⟩ := shape1_msg _ _ hshape.1 hft
    subst hem
    simp only [Option.some.injEq, Prod.mk.injEq] at hst
    first | exact ⟨hst.1.symm, hst.2.symm⟩ | exact ⟨rfl, hst.2.symm⟩ | exact ⟨rfl, hst.symm⟩
  case string =>
    obtain ⟨s0, hs0⟩ := shape1_str _ _ hshape.1 hft
    subst hs0
    simp only [strSet, Bool.not_false, Bool.and_true, Option.some.injEq, Prod.mk.injEq] at hst
    first | exact ⟨hst.1.symm, hst.2.symm⟩ | exact ⟨rfl, hst.2.symm⟩ | exact ⟨rfl, hst.symm⟩
  all_goals first | exact ⟨hst.1.symm, hst.2.symm⟩ | exact ⟨rfl, hst.2.symm⟩ | exact ⟨rfl, hst.symm⟩))

theorem mergeFields_inv (P : Msg → Prop) (S : Schema) (fuel : Nat)
    (hmP : ∀ fuel' e l r, fuel = fuel' + 1 → P e → P l → e.ty = l.ty → mergeMsg S (fuel' + 1) e l = some r → P r)
    (g : Bool) (fields : List FieldDesc) (hs : MergeSch g fields) :
    ∀ (k i : Nat) (cse csl : Nat → Nat) (es ls r : List Slot), i + k = fields.length →
      EInv P g cse fields i es → PInv P g csl fields (reqSeen fields) ls →
      mergeFields S fuel fields k i es ls = some r →
      ∃ csl', PInv P g csl' fields (reqSeen fields) r := by
  intro k
  induction k with
  | zero =>
    intro i cse csl es ls r _ _ hl h
    simp only [mergeFields, Option.some.injEq] at h
    subst h
    exact ⟨csl, hl⟩
  | succ k ih =>
    intro i cse csl es ls r hik he hl h
    have hi : i < fields.length := by omega
    have hfm := getD_mem fields i hi
    rw [mergeFields] at h
    simp only at h
    by_cases hrep : (fields.getD i default).label = .repeated
    · -- repeated field: concatenate
      have hg : (fields.getD i default).group = none := by
        cases hgg : (fields.getD i default).group with
        | none => rfl
        | some gi =>
          have := hs.oneof i (by rw [hgg]; rfl)
          rw [hrep] at this
          rcases this with h1 | h1 <;> cases h1
      have hrep' : ((fields.getD i default).label == Label.repeated) = true := by rw [hrep]; rfl
      simp only [hrep', if_true] at h
      have hes := he.rep i (Nat.le_refl _) hi hg hrep
      have hls := hl.rep i hi hg hrep
      rcases hes with hes | ⟨ne, le, hes, hne, hlen_e, hall_e⟩
      · -- earlier has no elements
        rcases hls with hls | ⟨nl, ll, hls, _, _, _⟩
        · rw [hes, hls] at h
          simp only [Nat.lt_irrefl, if_false] at h
          exact ih (i + 1) cse csl es ls r (by omega) (einv_succ P g cse fields i es he) hl h
        · rw [hes, hls] at h
          simp only [Nat.lt_irrefl, if_false] at h
          exact ih (i + 1) cse csl es ls r (by omega) (einv_succ P g cse fields i es he) hl h
      · rcases hls with hls | ⟨nl, ll, hls, hnl, hlen_l, hall_l⟩
        · rw [hes, hls] at h
          simp only [hne, if_true, Nat.lt_irrefl, if_false] at h
          refine ih (i + 1) cse csl _ _ r (by omega) (einv_set P g cse fields i es he hg _) ?_ h
          exact pinv_set P g csl fields _ ls hl i hi hg _ (fun _ => Or.inr ⟨ne, le, rfl, hne, hlen_e, hall_e⟩)
            (fun hn => absurd hrep hn)
        · rw [hes, hls] at h
          simp only [hne, hnl, if_true] at h
          refine ih (i + 1) cse csl _ _ r (by omega) (einv_set P g cse fields i es he hg _) ?_ h
          refine pinv_set P g csl fields _ ls hl i hi hg _ (fun _ => Or.inr ⟨ne + nl, _, rfl, by omega, ?_, ?_⟩)
            (fun hn => absurd hrep hn)
          · simp [hlen_e, hlen_l]
          · intro v hv
            simp only [Option.getD_some, mem_append] at hv
            rcases hv with hv | hv
            · exact hall_e v (mem_of_mem_take hv)
            · exact hall_l v (mem_of_mem_take hv)
    · have hrep' : ((fields.getD i default).label == Label.repeated) = false := by simpa using hrep
      simp only [hrep', Bool.false_eq_true, if_false] at h
      by_cases hB : ((fields.getD i default).label == .optional || (fields.getD i default).label == .none ||
          ((fields.getD i default).label == .required && (fields.getD i default).type == .message)) = true
      · simp only [hB, if_true] at h
        cases hg : (fields.getD i default).group with
        | none =>
          have hno : (fields.getD i default).isOneof = false := by unfold FieldDesc.isOneof; rw [hg]; rfl
          simp only [hno, Bool.false_eq_true, if_false] at h
          have hes := he.one i (Nat.le_refl _) hi hg hrep
          have hls := hl.one i hi hg hrep
          have hdf := hs.dflt _ hfm
          obtain ⟨qe, ve, hse⟩ := one_form P g _ _ hrep hes
          obtain ⟨ql, vl, hsl⟩ := one_form P g _ _ hrep hls.1
          have hqe := slot_q P g _ _ hrep hes
          have hql := slot_q P g _ _ hrep hls.1
          -- the conclusion in the two possible outcomes of the step
          have keep : ∀ ls1, PInv P g csl fields (reqSeen fields) ls1 →
              mergeFields S fuel fields k (i + 1) es ls1 = some r → ∃ csl', PInv P g csl' fields (reqSeen fields) r :=
            fun ls1 h1 h2 => ih (i + 1) cse csl es ls1 r (by omega) (einv_succ P g cse fields i es he) h1 h2
          have move : Touched P (fields.getD i default) (getSlot es i) →
              (∃ es', mergeFields S fuel fields k (i + 1) (setSlot es i es') (setSlot ls i (getSlot es i)) = some r) →
              ∃ csl', PInv P g csl' fields (reqSeen fields) r := by
            intro ht ⟨es', h2⟩
            exact ih (i + 1) cse csl _ _ r (by omega) (einv_set P g cse fields i es he hg es')
              (pinv_set P g csl fields _ ls hl i hi hg _ (fun hr => absurd hr hrep) (fun _ => ht)) h2
          split at h
          · cases h
          · rename_i ls1 hstep
            -- nothing to move: the later slot stays, or two embedded messages were merged recursively
            have hp1 : ls1 = ls ∨ ∃ em lm m fuel', fuel = fuel' + 1 ∧ (getSlot es i).v = .msg (some em) ∧
                (getSlot ls i).v = .msg (some lm) ∧ mergeMsg S (fuel' + 1) em lm = some m ∧
                ls1 = setSlot ls i (.one ql (.msg (some m))) := by
              cases hft : (fields.getD i default).type <;> simp only [hft] at hstep
              case message =>
                split at hstep
                · rename_i em lm hev hlv
                  cases fuel with
                  | zero => cases hstep
                  | succ fuel' =>
                    simp only [Option.map_eq_some_iff, Prod.mk.injEq] at hstep
                    obtain ⟨m, hm, _, hls1⟩ := hstep
                    right
                    refine ⟨em, lm, m, fuel', rfl, hev, hlv, hm, ?_⟩
                    rw [← hls1, hsl]
                · simp only [Option.some.injEq, Prod.mk.injEq] at hstep
                  exact absurd hstep.1 (by simp)
                · simp only [Option.some.injEq, Prod.mk.injEq] at hstep
                  exact Or.inl hstep.2.symm
              case bytes =>
                split at hstep <;>
                  (simp only [Option.some.injEq, Prod.mk.injEq] at hstep; exact Or.inl hstep.2.symm)
              case string =>
                simp only [Option.some.injEq, Prod.mk.injEq] at hstep; exact Or.inl hstep.2.symm
              all_goals
                (split at hstep <;>
                  (simp only [Option.some.injEq, Prod.mk.injEq] at hstep; exact Or.inl hstep.2.symm))
            rcases hp1 with rfl | ⟨em, lm, m, fuel', hfu, hev, hlv, hm, rfl⟩
            · exact keep _ hl h
            · refine keep _ ?_ h
              have hte := touched_of_msg P g _ _ em hes hev
              have htl := touched_of_msg P g _ _ lm hls.1 hlv
              obtain ⟨qe', ve', hse', hshe, _⟩ := hte
              obtain ⟨ql', vl', hsl', hshl, hqq⟩ := htl
              rw [hse'] at hev; simp only [Slot.v] at hev; subst hev
              rw [hsl'] at hlv hsl; simp only [Slot.v] at hlv; subst hlv
              cases hsl
              refine pinv_set P g csl fields _ ls hl i hi hg _ (fun hr => absurd hr hrep) (fun _ => ⟨ql, _, rfl, ?_, hqq⟩)
              have hty := mergeMsg_ty S _ em lm m hm
              refine ⟨⟨hshl.1.1, by rw [hty]; exact hshl.1.2⟩, ?_⟩
              intro m' he
              cases he
              exact hmP fuel' em lm _ hfu (hshe.2 em rfl) (hshl.2 lm rfl) (by rw [hshe.1.2, hshl.1.2]) hm
          · rename_i ls1 hstep
            -- the earlier value is moved into the later message: it was written by the parser, so it is in parser form
            have hiv := init_value g _ hdf hrep hg
            have hp2 : ls1 = ls ∧ Touched P (fields.getD i default) (getSlot es i) := by
              cases hft : (fields.getD i default).type <;> simp only [hft] at hstep
              case message =>
                cases hve : (getSlot es i).v with
                | msg oem =>
                  cases oem with
                  | some em =>
                    have ht := touched_of_msg P g _ _ em hes hve
                    rw [hve] at hstep
                    cases hvl : (getSlot ls i).v with
                    | msg olm =>
                      cases olm with
                      | some lm =>
                        rw [hvl] at hstep
                        cases fuel with
                        | zero => cases hstep
                        | succ fuel' =>
                          simp only [Option.map_eq_some_iff, Prod.mk.injEq] at hstep
                          obtain ⟨m, _, hc, _⟩ := hstep
                          cases hc
                      | none =>
                        rw [hvl] at hstep
                        simp only [Option.some.injEq, Prod.mk.injEq] at hstep
                        exact ⟨hstep.2.symm, ht⟩
                    | _ =>
                      rw [hvl] at hstep
                      simp only [Option.some.injEq, Prod.mk.injEq] at hstep
                      exact ⟨hstep.2.symm, ht⟩
                  | none =>
                    rw [hve] at hstep
                    simp only [Option.some.injEq, Prod.mk.injEq] at hstep
                    exact absurd hstep.1 (by simp)
                | _ =>
                  rw [hve] at hstep
                  simp only [Option.some.injEq, Prod.mk.injEq] at hstep
                  exact absurd hstep.1 (by simp)
              case bytes =>
                split at hstep
                · rename_i hh
                  simp only [Option.some.injEq, Prod.mk.injEq, Bool.and_eq_true, bne_iff_ne, ne_eq] at hstep
                  refine ⟨hstep.2.symm, touched_of_q P g _ _ hrep hes ?_⟩
                  have := hstep.1.1
                  simp only [qRead, hh, if_true] at this
                  exact this
                · simp only [Option.some.injEq, Prod.mk.injEq, Bool.and_eq_true] at hstep
                  refine ⟨hstep.2.symm, ?_⟩
                  rcases hes with hinit | ht
                  · exfalso
                    obtain ⟨⟨h1, h2⟩, _⟩ := hstep.1
                    rcases hiv.2 hft with ⟨hv0, hd0⟩ | ⟨n, b, hv0, hd0⟩
                    · rw [hinit, hv0] at h1; simp [binDataNull] at h1
                    · rw [hinit, hv0] at h2
                      have hdn : ((fields.getD i default).dflt == Dflt.none) = false := by
                        cases hdd : (fields.getD i default).dflt <;> first | rfl | exact absurd hdd hd0
                      rw [hdn] at h2
                      simp [binDataDflt] at h2
                  · exact ht
              case string =>
                simp only [Option.some.injEq, Prod.mk.injEq, Bool.and_eq_true] at hstep
                refine ⟨hstep.2.symm, ?_⟩
                rcases hes with hinit | ht
                · exfalso
                  obtain ⟨p, s0, hv0, hp⟩ := hiv.1 hft
                  have h1 := hstep.1.1
                  rw [hinit, hv0] at h1
                  rcases hp with rfl | rfl <;> simp [strSet] at h1
                · exact ht
              all_goals
                (split at hstep
                 · rename_i hn
                   simp only [Option.some.injEq, Prod.mk.injEq, Bool.and_eq_true] at hstep
                   refine ⟨hstep.2.symm, ?_⟩
                   rcases hes with hinit | ht
                   · exfalso
                     have hlab : (fields.getD i default).label = .none := by
                       simp only [Bool.and_eq_true, beq_iff_eq] at hn; exact hn.1
                     have hz := hs.zeroInit _ hfm hlab hg
                     have h1 := hstep.1.1
                     rw [hinit] at h1
                     simp only [writes, hlab, hft] at hz
                     rw [hz] at h1
                     cases h1
                   · exact ht
                 · rename_i hn
                   simp only [Option.some.injEq, Prod.mk.injEq, Bool.and_eq_true, bne_iff_ne, ne_eq] at hstep
                   refine ⟨hstep.2.symm, touched_of_q P g _ _ hrep hes ?_⟩
                   have hlo : (fields.getD i default).label = .optional := by
                     have hnn : (fields.getD i default).label ≠ .none := by
                       intro e; apply hn; rw [e]; rfl
                     cases hlb : (fields.getD i default).label with
                     | optional => rfl
                     | none => exact absurd hlb hnn
                     | repeated => exact absurd hlb hrep
                     | required => rw [hlb, hft] at hB; simp at hB
                   have hh : (fields.getD i default).hasQ = true := by
                     unfold FieldDesc.hasQ; rw [hlo, hft, hg]; rfl
                   have h1 := hstep.1.1
                   simp only [qRead, hh, if_true] at h1
                   exact h1)
            obtain ⟨hls1, ht⟩ := hp2
            rw [hls1] at h
            refine move ht ?_
            have hil : i < ls.length := by rw [hl.len]; exact hi
            simp only [hg, hsl, hse, Slot.v] at h
            by_cases hh : (fields.getD i default).hasQ = true
            · simp only [hh, if_true] at h
              rw [getSlot_setSlot_eq _ _ _ hil, setSlot_setSlot, setSlot_setSlot] at h
              have : qRead (fields.getD i default) (Slot.one qe ve) = qe := by simp only [qRead, hh, if_true, Slot.q]
              rw [this] at h
              exact ⟨_, by rw [hse]; exact h⟩
            · simp only [hh, Bool.false_eq_true, if_false] at h
              have hql0 : ql = 0 := by
                rcases hql with h0 | ⟨h1, _⟩
                · rw [hsl] at h0; exact h0
                · exact absurd h1 hh
              have hqe0 : qe = 0 := by
                rcases hqe with h0 | ⟨h1, _⟩
                · rw [hse] at h0; exact h0
                · exact absurd h1 hh
              subst hql0 hqe0
              exact ⟨_, by rw [hse]; exact h⟩
        | some gi =>
          have hio : (fields.getD i default).isOneof = true := by unfold FieldDesc.isOneof; rw [hg]; rfl
          have hhq : (fields.getD i default).hasQ = true := by unfold FieldDesc.hasQ; rw [hg]; simp
          simp only [hio, if_true, qRead, hhq] at h
          obtain ⟨vei, hsei, hvei⟩ := he.grp i gi hi hg
          obtain ⟨vli, hsli, hvli⟩ := hl.grp i gi hi hg
          have hqe : (getSlot es i).q = cse gi := by rw [hsei]; rfl
          have hql : (getSlot ls i).q = csl gi := by rw [hsli]; rfl
          simp only [hqe, hql] at h
          have keep : ∀ ls1 csl1, PInv P g csl1 fields (reqSeen fields) ls1 →
              mergeFields S fuel fields k (i + 1) es ls1 = some r → ∃ csl', PInv P g csl' fields (reqSeen fields) r :=
            fun ls1 csl1 h1 h2 => ih (i + 1) cse csl1 es ls1 r (by omega) (einv_succ P g cse fields i es he) h1 h2
          by_cases hl0 : csl gi = 0
          · -- the later message has this oneof unset
            simp only [hl0, beq_self_eq_true, if_true] at h
            by_cases he0 : cse gi = 0
            · simp only [he0, beq_self_eq_true, if_true] at h
              exact keep ls csl hl h
            · have he0' : (cse gi == 0) = false := by simpa using he0
              simp only [he0', Bool.false_eq_true, if_false] at h
              -- the member selected in the earlier message
              rcases he.sel gi with hz | ⟨j, hj, hsel⟩
              · exact absurd hz he0
              · simp only [isSel, Bool.and_eq_true, beq_iff_eq] at hsel
                obtain ⟨hgj, hidj⟩ := hsel
                have hidlt := (hs.ok.ids _ (getD_mem fields j hj)).2
                have hlk := lookupField_of_id fields hs.ok.distinct j hj (cse gi) hidj (by omega)
                simp only [hlk] at h
                obtain ⟨vej, hsej, hvej⟩ := he.grp j gi hj hgj
                obtain ⟨vlj, hslj, hvlj⟩ := hl.grp j gi hj hgj
                have hshape : ShapeElemP P (fields.getD j default) vej := by
                  have := hvej he0; rw [if_pos hidj] at this; exact this
                have hvz : vlj = .zero := by
                  rw [hl0] at hvlj
                  have hidpos := (hs.ok.ids _ (getD_mem fields j hj)).1
                  rw [if_neg (by omega)] at hvlj; exact hvlj
                subst hvz
                rw [hl0] at hslj
                have hhqj : (fields.getD j default).hasQ = true := by unfold FieldDesc.hasQ; rw [hgj]; simp
                have hne0 : (cse gi != 0) = true := by simpa using he0
                split at h
                · cases h
                · rename_i ls1 hst
                  have : false = true ∧ ls1 = ls := by oneof_step_true
                  exact absurd this.1 (by simp)
                · rename_i ls1 hst
                  have hls1 : true = true ∧ ls1 = ls := by oneof_step_true
                  have hls1 := hls1.2
                  rw [hls1] at h
                  simp only [hhqj, if_true, hgj, hsej, hslj, Slot.v] at h
                  -- the new states of the two messages
                  refine ih (i + 1) (upd cse gi 0) (upd csl gi (cse gi)) _ _ r (by omega)
                    (einv_group_clear P g cse fields i es he j gi hj hgj _ _) ?_ h
                  exact pinv_group_set P g csl fields hs.ok.distinct _ ls hl j gi hj hgj (cse gi) hidj 0 vej hshape ls hl.len
                    (fun j' hj' hg' _ => by
                      obtain ⟨v', hs', hv'⟩ := hl.grp j' gi hj' hg'
                      rw [hl0] at hs' hv'
                      have hidpos := (hs.ok.ids _ (getD_mem fields j' hj')).1
                      rw [if_neg (by omega)] at hv'
                      subst hv'
                      exact ⟨0, hs'⟩)
                    (fun _ _ _ => rfl)
          · -- the later message has a member selected: only the same message-typed member is merged
            have hl0' : (csl gi == 0) = false := by simpa using hl0
            simp only [hl0', Bool.false_eq_true, if_false] at h
            by_cases hcond : (csl gi == cse gi && (fields.getD i default).id == csl gi &&
                (fields.getD i default).type == PType.message) = true
            · simp only [hcond, if_true] at h
              simp only [Bool.and_eq_true, beq_iff_eq] at hcond
              obtain ⟨⟨hcc, hidl⟩, htm⟩ := hcond
              have hce : cse gi ≠ 0 := by rw [← hcc]; exact hl0
              have hshe : ShapeElemP P (fields.getD i default) vei := by
                have := hvei hce; rw [if_pos (by rw [← hcc]; exact hidl)] at this; exact this
              have hshl : ShapeElemP P (fields.getD i default) vli := by
                rw [if_pos hidl] at hvli; exact hvli
              obtain ⟨em, hem⟩ := shape1_msg _ _ hshe.1 htm
              obtain ⟨lm, hlm⟩ := shape1_msg _ _ hshl.1 htm
              subst hem hlm
              simp only [htm, hsei, hsli, Slot.v] at h
              cases fuel with
              | zero => simp at h
              | succ fuel' =>
                simp only at h
                cases hmm : mergeMsg S (fuel' + 1) em lm with
                | none => simp [hmm] at h
                | some m =>
                  simp only [hmm, Option.map_some] at h
                  refine keep _ csl ?_ h
                  refine pinv_set_member P g csl fields _ ls hl i gi hi hg hidl _ ?_
                  have hty := mergeMsg_ty S _ em lm m hmm
                  refine ⟨⟨htm, by rw [hty]; exact hshl.1.2⟩, ?_⟩
                  intro m' hm'
                  cases hm'
                  exact hmP fuel' em lm _ rfl (hshe.2 em rfl) (hshl.2 lm rfl) (by rw [hshe.1.2, hshl.1.2]) hmm
            · simp only [hcond, Bool.false_eq_true, if_false] at h
              exact keep ls csl hl h
      · simp only [hB, Bool.false_eq_true, if_false] at h
        exact ih (i + 1) cse csl es ls r (by omega) (einv_succ P g cse fields i es he) hl h

/-! ### the message level -/

/-- a message in parser form (sizes aside) whose nested messages satisfy `P` -/
def PFMsg (P : Msg → Prop) (S : Schema) (m : Msg) : Prop :=
  (∃ cs, PInv P (S.msg m.ty).initGeneric cs (S.msg m.ty).fields (reqSeen (S.msg m.ty).fields) m.slots) ∧
  ∀ u ∈ m.unk, UnkOK (S.msg m.ty).fields u

theorem mergeMsg_pf (P : Msg → Prop) (S : Schema)
    (hsch : ∀ t, MergeSch (S.msg t).initGeneric (S.msg t).fields) (fuel : Nat)
    (hmP : ∀ fuel' e l r, P e → P l → e.ty = l.ty → mergeMsg S fuel' e l = some r → P r)
    (e l r : Msg) (he : PFMsg P S e) (hl : PFMsg P S l) (hty : e.ty = l.ty) (h : mergeMsg S fuel e l = some r) :
    PFMsg P S r := by
  cases fuel with
  | zero => simp [mergeMsg] at h
  | succ fuel =>
    obtain ⟨ety, es, eu⟩ := e
    obtain ⟨ty, ls, lu⟩ := l
    simp only [Msg.ty] at hty
    subst hty
    simp only [mergeMsg, Option.map_eq_some_iff] at h
    obtain ⟨ls', hls', rfl⟩ := h
    obtain ⟨⟨cse, hpe⟩, hue⟩ := he
    obtain ⟨⟨csl, hpl⟩, hul⟩ := hl
    simp only [Msg.ty, Msg.slots, Msg.unk] at hpe hue hpl hul
    have := mergeFields_inv P S fuel (fun fuel' e l r _ => hmP (fuel' + 1) e l r) (S.msg ety).initGeneric (S.msg ety).fields
      (hsch ety) (S.msg ety).fields.length 0 cse csl es ls ls' (by omega)
      (einv_of_pinv P _ cse _ _ es hpe) hpl hls'
    refine ⟨this, ?_⟩
    intro u hu
    simp only [Msg.unk, mem_append] at hu
    rcases hu with hu | hu
    · exact hue u hu
    · exact hul u hu

/-- messages in parser form to nesting depth n -/
def PFN (S : Schema) : Nat → Msg → Prop
  | 0, m => PFMsg (fun _ => False) S m
  | n+1, m => PFMsg (PFN S n) S m

/-- **`merge_messages` keeps messages in parser form** -/
theorem merge_pfn (S : Schema) (hsch : ∀ t, MergeSch (S.msg t).initGeneric (S.msg t).fields) :
    ∀ (n fuel : Nat) (e l r : Msg), PFN S n e → PFN S n l → e.ty = l.ty → mergeMsg S fuel e l = some r → PFN S n r
  | 0, fuel, e, l, r, he, hl, hty, h =>
    mergeMsg_pf (fun _ => False) S hsch fuel (fun _ _ _ _ hf _ _ _ => hf) e l r he hl hty h
  | n+1, fuel, e, l, r, he, hl, hty, h =>
    mergeMsg_pf (PFN S n) S hsch fuel (fun fuel' e' l' r' h1 h2 h3 h4 => merge_pfn S hsch n fuel' e' l' r' h1 h2 h3 h4)
      e l r he hl hty h
