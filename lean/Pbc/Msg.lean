import Pbc.Desc
/-
  In-memory messages as the runtime sees them: one slot per field descriptor (in descriptor
  order), pointer *classes* instead of addresses, raw bits for every scalar.
-/
namespace Pbc

/-- the pointer classes the code distinguishes by identity -/
inductive PtrC
  | null
  | dflt          -- == field->default_value (static storage, never freed)
  | empty         -- == protobuf_c_empty_string but not the field's default
  | own           -- anything else (heap block owned by the message)
  deriving DecidableEq, Repr, Inhabited

structure Unk where
  tag : Nat
  wt : Nat
  data : Bytes
  deriving DecidableEq, Repr, Inhabited

mutual
inductive Val
  | w32 (v : BitVec 32)                      -- int32 sint32 sfixed32 uint32 fixed32 float enum bool(int)
  | w64 (v : BitVec 64)
  | str (p : PtrC) (s : Bytes)               -- s = the bytes before the NUL (for dflt/empty: the static contents)
  | bin (len : Nat) (p : PtrC) (d : Bytes)   -- ProtobufCBinaryData {len, data}
  | msg (m : Option Msg)                     -- ProtobufCMessage * (null or a message)
  | zero                                     -- all-zero storage (unselected oneof union)
inductive Slot
  | one (q : Nat) (v : Val)                  -- q = has_x / x_case (0 where there is no quantifier member)
  | rep (n : Nat) (arr : Option (List Val))  -- n_x and the array pointer (none = NULL)
inductive Msg
  | mk (ty : Nat) (slots : List Slot) (unk : List Unk)
end

instance : Inhabited Val := ⟨.zero⟩
instance : Inhabited Slot := ⟨.one 0 .zero⟩
instance : Inhabited Msg := ⟨.mk 0 [] []⟩

def Msg.ty : Msg → Nat | .mk t _ _ => t
def Msg.slots : Msg → List Slot | .mk _ s _ => s
def Msg.unk : Msg → List Unk | .mk _ _ u => u

def Slot.q : Slot → Nat | .one q _ => q | .rep n _ => n
def Slot.v : Slot → Val | .one _ v => v | .rep _ _ => .zero

/-- reading zeroed storage at a given type -/
def Val.asW32 : Val → BitVec 32 | .w32 v => v | _ => 0
def Val.asW64 : Val → BitVec 64 | .w64 v => v | _ => 0

end Pbc
