import Pbc.Wire
/-
  Descriptors: the part of ProtobufCMessageDescriptor / ProtobufCFieldDescriptor that the
  runtime's behaviour depends on (names are kept only for the by-name lookups).
-/
namespace Pbc

/-- `ProtobufCType`, in the order (= numeric code) of protobuf-c.h -/
inductive PType
  | int32 | sint32 | sfixed32 | int64 | sint64 | sfixed64 | uint32 | fixed32 | uint64 | fixed64
  | float | double | bool | enum | string | bytes | message
  deriving DecidableEq, Repr, Inhabited

namespace PType
def all : List PType := [int32, sint32, sfixed32, int64, sint64, sfixed64, uint32, fixed32, uint64,
  fixed64, float, double, bool, enum, string, bytes, message]

def code : PType → Nat
  | int32 => 0 | sint32 => 1 | sfixed32 => 2 | int64 => 3 | sint64 => 4 | sfixed64 => 5
  | uint32 => 6 | fixed32 => 7 | uint64 => 8 | fixed64 => 9 | float => 10 | double => 11
  | bool => 12 | enum => 13 | string => 14 | bytes => 15 | message => 16

def ofCode? (n : Nat) : Option PType := all[n]?

theorem ofCode_code (t : PType) : ofCode? t.code = some t := by cases t <;> rfl

/-- wire type written by `required_field_pack` -/
def wireType : PType → Nat
  | sfixed32 | fixed32 | float => 5
  | sfixed64 | fixed64 | double => 1
  | string | bytes | message => 2
  | _ => 0

/-- `is_packable_type` -/
def packable : PType → Bool
  | string | bytes | message => false
  | _ => true

/-- `get_type_min_size` -/
def minSize : PType → Nat
  | sfixed32 | fixed32 | float => 4
  | sfixed64 | fixed64 | double => 8
  | _ => 1

/-- `sizeof_elt_in_repeated_array` (LP64) -/
def eltSize : PType → Nat
  | int32 | sint32 | sfixed32 | uint32 | fixed32 | float | enum | bool => 4
  | int64 | sint64 | sfixed64 | uint64 | fixed64 | double | string | message => 8
  | bytes => 16

/-- is the in-memory value 32 bits wide (vs 64) — for scalar types -/
def is32 : PType → Bool
  | int32 | sint32 | sfixed32 | uint32 | fixed32 | float | enum | bool => true
  | _ => false
end PType

/-- `ProtobufCLabel`, in header order -/
inductive Label | required | optional | repeated | none
  deriving DecidableEq, Repr, Inhabited

def Label.code : Label → Nat | .required => 0 | .optional => 1 | .repeated => 2 | .none => 3

end Pbc
