import Pbc.Wire
/-
  Descriptors: the part of ProtobufCMessageDescriptor / ProtobufCFieldDescriptor that the
  runtime's behaviour depends on (names are kept only for the by-name lookups).
-/
namespace Pbc

/-- `ProtobufCType`, in the order (= numeric code) of protobuf-c.h -/
inductive PType
  | int32 | sint32 | sfixed32 | int64 | sint64 | sfixed64 | uint32 | fixed32 | uint64 | fixed64
  | float | double | bool | enum | string | bytes | message
  deriving DecidableEq, Repr, Inhabited

namespace PType
def all : List PType := [int32, sint32, sfixed32, int64, sint64, sfixed64, uint32, fixed32, uint64,
  fixed64, float, double, bool, enum, string, bytes, message]

def code : PType → Nat
  | int32 => 0 | sint32 => 1 | sfixed32 => 2 | int64 => 3 | sint64 => 4 | sfixed64 => 5
  | uint32 => 6 | fixed32 => 7 | uint64 => 8 | fixed64 => 9 | float => 10 | double => 11
  | bool => 12 | enum => 13 | string => 14 | bytes => 15 | message => 16

def ofCode? (n : Nat) : Option PType := all[n]?

theorem ofCode_code (t : PType) : ofCode? t.code = some t := by cases t <;> rfl

/-- wire type written by `required_field_pack` -/
def wireType : PType → Nat
  | sfixed32 | fixed32 | float => 5
  | sfixed64 | fixed64 | double => 1
  | string | bytes | message => 2
  | _ => 0

/-- `is_packable_type` -/
def packable : PType → Bool
  | string | bytes | message => false
  | _ => true

/-- `get_type_min_size` -/
def minSize : PType → Nat
  | sfixed32 | fixed32 | float => 4
  | sfixed64 | fixed64 | double => 8
  | _ => 1

/-- `sizeof_elt_in_repeated_array` (LP64) -/
def eltSize : PType → Nat
  | int32 | sint32 | sfixed32 | uint32 | fixed32 | float | enum | bool => 4
  | int64 | sint64 | sfixed64 | uint64 | fixed64 | double | string | message => 8
  | bytes => 16

/-- is the in-memory value 32 bits wide (vs 64) — for scalar types -/
def is32 : PType → Bool
  | int32 | sint32 | sfixed32 | uint32 | fixed32 | float | enum | bool => true
  | _ => false
end PType

/-- `ProtobufCLabel`, in header order -/
inductive Label | required | optional | repeated | none
  deriving DecidableEq, Repr, Inhabited

def Label.code : Label → Nat | .required => 0 | .optional => 1 | .repeated => 2 | .none => 3

end Pbc

namespace Pbc

/-- `default_value` of a field descriptor -/
inductive Dflt
  | none
  | scalar (bits : BitVec 64)   -- numeric / bool / enum default (low 32 bits for 32-bit types)
  | str (s : Bytes)             -- static default string
  | bin (b : Bytes)             -- static ProtobufCBinaryData
  | emptyStr                    -- &protobuf_c_empty_string (proto3 strings)
  deriving DecidableEq, Repr, Inhabited

structure FieldDesc where
  name : String
  id : Nat
  label : Label
  type : PType
  packed : Bool            -- PROTOBUF_C_FIELD_FLAG_PACKED
  group : Option Nat       -- oneof group (PROTOBUF_C_FIELD_FLAG_ONEOF), shares case + storage
  sub : Nat                -- index of the sub-message type (message fields)
  dflt : Dflt
  init : Option (BitVec 64) -- value in the generated INIT when it is not the default (enum first value)
  deriving Repr, Inhabited

structure MsgDesc where
  name : String
  fields : List FieldDesc
  initGeneric : Bool       -- message_init == NULL: `message_init_generic` is used
  nGroups : Nat
  deriving Repr, Inhabited

abbrev Schema := List MsgDesc

namespace FieldDesc
/-- does the field have its own quantifier member (`quantifier_offset ≠ 0`)?
    repeated: n_x; oneof: x_case; proto2 optional non-pointer types: has_x -/
def hasQ (f : FieldDesc) : Bool :=
  f.label == .repeated || f.group.isSome ||
  (f.label == .optional && f.type != .string && f.type != .message)
def isOneof (f : FieldDesc) : Bool := f.group.isSome
end FieldDesc

def Schema.msg (S : Schema) (t : Nat) : MsgDesc := S.getD t default

end Pbc
