import Pbc.Extract.Dispatch
import Pbc.Model.Unpack
import Pbc.Model.Check
import Pbc.Model.Buf
import Pbc.Model.HeapUnpack
import Pbc.Model.Lookup
import Pbc.Model.Gen
import Pbc.Extract.GenFacts
/-
  Line-protocol driver: reads the same case file as harness/pbc_harness.c, evaluates the
  Lean model (and the extracted leaves), prints one canonical line per operation.
-/
open Pbc Pbc.Model Pbc.Extract.Support

structure P where
  toks : Array String
  pos : Nat := 0

abbrev PM := StateT P (Except String)

def tok : PM String := do
  let s ← get
  if h : s.pos < s.toks.size then
    set { s with pos := s.pos + 1 }
    return s.toks[s.pos]
  else throw "out of tokens"
def peek : PM String := do
  let s ← get
  return s.toks.getD s.pos ""
def atEnd : PM Bool := do
  let s ← get
  return s.pos ≥ s.toks.size
def tokNat : PM Nat := do
  let t ← tok
  match t.toNat? with
  | some n => return n
  | none => throw s!"bad number {t}"
def tokInt : PM Int := do
  let t ← tok
  match t.toInt? with
  | some n => return n
  | none => throw s!"bad int {t}"
def hexNat (s : String) : Nat := s.toList.foldl (fun a c => a * 16 + hexDigit c) 0
def tokHex : PM Nat := do return hexNat (← tok)

def typeOfCode (n : Nat) : PType := (PType.ofCode? n).getD .int32
def labelOfCode : Nat → Label | 0 => .required | 1 => .optional | 2 => .repeated | _ => .none

def parseField (t : Array String) : FieldDesc :=
  let g (i : Nat) := t.getD i ""
  let d := g 8
  let dflt : Dflt :=
    if d.startsWith "E" then .emptyStr
    else if d.startsWith "S" then .str (bytesOfHex (d.drop 1).toString)
    else if d.startsWith "B" then .bin (bytesOfHex (d.drop 1).toString)
    else if d.startsWith "V" then .scalar (BitVec.ofNat 64 (hexNat (d.drop 1).toString))
    else .none
  let ini := g 9
  { name := g 1, id := (g 2).toNat!, label := labelOfCode (g 3).toNat!, type := typeOfCode (g 4).toNat!,
    packed := (g 5).toNat! % 2 == 1,
    group := if (g 6).startsWith "-" then none else some (g 6).toNat!,
    sub := if (g 7).startsWith "-" then 0 else (g 7).toNat!,
    dflt := dflt,
    init := if ini.startsWith "V" then some (BitVec.ofNat 64 (hexNat (ini.drop 1).toString)) else none }

mutual
partial def parseVal (S : Schema) (f : FieldDesc) : PM Val := do
  if f.type == .string then
    let t ← tok
    if t == "N" then return .str .null []
    else if t == "D" then
      return .str .dflt (match f.dflt with | .str s => s | _ => [])
    else if t == "E" then return .str .empty []
    else return .str .own (bytesOfHex (t.drop 1).toString)
  else if f.type == .bytes then
    let len ← tokNat
    let t ← tok
    if t == "N" then return .bin len .null []
    else if t == "D" then return .bin len .dflt (match f.dflt with | .bin b => b | _ => [])
    else return .bin len .own (bytesOfHex (t.drop 1).toString)
  else if f.type == .message then
    let t ← peek
    if t == "N" then
      let _ ← tok
      return .msg none
    else
      let m ← parseMsg S
      return .msg (some m)
  else if f.type.is32 then
    return .w32 (BitVec.ofNat 32 (← tokHex))
  else
    return .w64 (BitVec.ofNat 64 (← tokHex))

partial def parseMsg (S : Schema) : PM Msg := do
  let m ← tok
  if m != "M" then throw s!"expected M got {m}"
  let ty ← tokNat
  let d := S.msg ty
  let mut slots : Array Slot := #[]
  for f in d.fields do
    if f.isOneof then
      let c ← tokNat
      if c == f.id then
        let v ← parseVal S f
        slots := slots.push (.one c v)
      else
        let _ ← tok
        slots := slots.push (.one c .zero)
    else if f.label == .repeated then
      let n ← tokNat
      let t ← tok
      if t == "N" then slots := slots.push (.rep n none)
      else
        let mut vs : Array Val := #[]
        for _ in [0:n] do
          vs := vs.push (← parseVal S f)
        slots := slots.push (.rep n (some vs.toList))
    else
      let q ← if f.hasQ then tokNat else pure 0
      let v ← parseVal S f
      slots := slots.push (.one q v)
  let u ← tok
  if u != "U" then throw s!"expected U got {u}"
  let nu ← tokNat
  let mut unk : Array Unk := #[]
  for _ in [0:nu] do
    let tag ← tokNat
    let wt ← tokNat
    let x ← tok
    unk := unk.push ⟨tag, wt, bytesOfHex (x.drop 1).toString⟩
  return .mk ty slots.toList unk.toList
end

def hex32 (v : BitVec 32) : String := hexOfBytes [BitVec.setWidth 8 (v >>> 24), BitVec.setWidth 8 (v >>> 16), BitVec.setWidth 8 (v >>> 8), BitVec.setWidth 8 v]
def hex64 (v : BitVec 64) : String := hex32 (BitVec.setWidth 32 (v >>> 32)) ++ hex32 (BitVec.setWidth 32 v)

mutual
partial def dumpVal (S : Schema) (f : FieldDesc) (v : Val) : String :=
  if f.type == .string then
    match v with
    | .str .null _ | .zero => " N"
    | .str .dflt _ => " D"
    | .str .empty _ => " E"
    | .str .own s => " S" ++ hexOfBytes s
    | _ => " ?"
  else if f.type == .bytes then
    match v with
    | .bin len .null _ => s!" {len} N"
    | .bin len .dflt _ => s!" {len} D"
    | .bin len _ d => s!" {len} B" ++ hexOfBytes (d.take len)
    | .zero => " 0 N"
    | _ => " ?"
  else if f.type == .message then
    match v with
    | .msg (some m) => " " ++ dumpMsg S m
    | _ => " N"
  else if f.type.is32 then " " ++ hex32 v.asW32
  else " " ++ hex64 v.asW64

partial def dumpMsg (S : Schema) : Msg → String
  | .mk ty slots unk => Id.run do
    let d := S.msg ty
    let mut out := s!"M {ty}"
    for (f, s) in d.fields.zip slots do
      match s with
      | .rep n none => out := out ++ s!" {n} N"
      | .rep n (some l) =>
        out := out ++ s!" {n} A"
        for v in l.take n do out := out ++ dumpVal S f v
      | .one q v =>
        if f.isOneof then
          out := out ++ s!" {q}" ++ (if q == f.id then dumpVal S f v else " Z")
        else
          out := out ++ (if f.hasQ then s!" {q}" else "") ++ dumpVal S f v
    out := out ++ s!" U {unk.length}"
    for u in unk do
      out := out ++ s!" {u.tag} {u.wt} X" ++ hexOfBytes u.data
    return out
end

def commaList (l : List Nat) : String := ",".intercalate (l.map toString)


/-! ### generator model ops: gendesc / genenum / gensvc (Pbc.Model.Gen) -/
open Pbc.Gen in
def dfltTok : Dflt → Bool → String
  | .none, _ => "-"
  | .emptyStr, _ => "E"
  | .str s, _ => "S" ++ hexOfBytes s
  | .bin b, _ => "B" ++ hexOfBytes b
  | .scalar v, is32 => "V" ++ String.ofList (Nat.toDigits 16 (if is32 then v.toNat % 2 ^ 32 else v.toNat))

def parseDflt (d : String) : Dflt :=
  if d.startsWith "E" then .emptyStr
  else if d.startsWith "S" then .str (bytesOfHex (d.drop 1).toString)
  else if d.startsWith "B" then .bin (bytesOfHex (d.drop 1).toString)
  else if d.startsWith "V" then .scalar (BitVec.ofNat 64 (hexNat (d.drop 1).toString))
  else .none

def optStr (s : String) : Option String := if s == "-" then none else some s
def commaJoin (l : List String) : String := ",".intercalate l
def rangesTxt (r : Ranges) (nonEmpty : Bool) : String :=
  commaJoin ((r.runs.map fun (s, o) => s!"{s}:{o}") ++ (if nonEmpty then [s!"0:{r.total}"] else []))

def optBools (s : String) : List (Option Bool) :=
  (s.splitOn ",").map fun t => if t == "-" then none else some (t == "1")
def effInitOfChain (s : String) : Bool :=
  match optBools s with
  | [] => true
  | f :: chain => Pbc.Gen.effInit f chain
def effPackOfChain (s : String) : Bool :=
  match optBools s with
  | [] => true
  | f :: chain => Pbc.Gen.effPack f chain

def opGenApi : PM String := do
  let _ty ← tokNat
  let packChain ← tok
  let initChain ← tok
  return s!"pack={if effPackOfChain packChain then 1 else 0} init={if effInitOfChain initChain then 1 else 0}"

open Pbc.Gen in
def opGenDesc : PM String := do
  let _ty ← tokNat
  let full ← tok; let short ← tok; let pkg ← tok; let cpkg ← tok
  let syn ← tokNat; let codeSize ← tokNat; let initChain ← tok; let useOneof ← tokNat
  let nf ← tokNat
  let mut fs : Array PField := #[]
  for _ in [0:nf] do
    let name ← tok; let number ← tokNat; let pl ← tokNat; let ty ← tokNat
    let po ← tok; let oi ← tok; let on ← tok; let sub ← tok; let d ← tok; let sab ← tokNat; let depr ← tokNat
    fs := fs.push { name := name, number := number,
                    plabel := (match pl with | 0 => .required | 1 => .optional | 2 => .repeated | _ => .implicit),
                    type := typeOfCode ty,
                    packedOpt := (if po == "-" then none else some (po == "1")),
                    oneof := (if oi.startsWith "-" then none else some (oi.toNat!, on)),
                    sub := (if sub.startsWith "-" then 0 else sub.toNat!),
                    dflt := parseDflt d, stringAsBytes := sab == 1, deprecated := depr == 1 }
  let pkgS := if pkg == "-" then "" else pkg
  let m : PMsg := { full := full, short := short, pkg := pkgS, cpkg := optStr cpkg, fields := fs.toList,
                    opts := { syntax3 := syn == 3, codeSize := codeSize == 1, genInit := effInitOfChain initChain, useOneofName := useOneof == 1 } }
  let gf := genFields m
  let names :=
    if m.opts.codeSize then "name=(null) short=(null) cname=(null) pkg=(null)"
    else s!"name={m.full} short={String.ofList (toCamel m.short.toList)} cname={String.ofList (fullNameToC m.full.toList m.pkg.toList (m.cpkg.map (·.toList)))} pkg={m.pkg}"
  let ftxt := gf.map fun g =>
    let f := g.d
    let flags := (if f.packed then 1 else 0) + (if g.deprecated then 2 else 0) + (if f.group.isSome then 4 else 0)
    let sub : String := if f.type == .message then toString f.sub else "-1"
    s!"{g.emittedName.getD "(null)"}:{f.id}:{f.label.code}:{f.type.code}:{flags}:{if f.hasQ then 1 else 0}:{sub}:{dfltTok f.dflt f.type.is32}"
  let byname := if m.opts.codeSize then gf.map (fun _ => "0") else (genByName m).map (fun x => toString x.2)
  return s!"magic=1 {names} nf={gf.length} init={if m.opts.genInit then 1 else 0} fields={commaJoin ftxt} byname={commaJoin byname} ranges={rangesTxt (genRanges m) (!gf.isEmpty)} layout_ok=1"

open Pbc.Gen in
def opGenEnum : PM String := do
  let _i ← tokNat
  let full ← tok; let short ← tok; let pkg ← tok; let cpkg ← tok; let codeSize ← tokNat
  let n ← tokNat
  let mut vs : Array (String × Int) := #[]
  for _ in [0:n] do
    let nm ← tok; let v ← tokInt
    vs := vs.push (nm, v)
  let pkgS := if pkg == "-" then "" else pkg
  let e : PEnum := { full := full, short := short, pkg := pkgS, cpkg := optStr cpkg, values := vs.toList, codeSize := codeSize == 1 }
  let vals := genEnumValues e
  let up := String.ofList (fullNameToUpper e.full.toList e.pkg.toList (e.cpkg.map (·.toList)))
  let names :=
    if e.codeSize then "name=(null) short=(null) cname=(null) pkg=(null)"
    else s!"name={e.full} short={e.short} cname={String.ofList (fullNameToC e.full.toList e.pkg.toList (e.cpkg.map (·.toList)))} pkg={e.pkg}"
  let vtxt := vals.map fun (nm, v) => if e.codeSize then s!"(null):(null):{v}" else s!"{nm}:{up}__{nm}:{v}"
  let bn := if e.codeSize then [] else (genEnumByName e).map fun (nm, i) => s!"{String.ofList (nm.map (fun c => Char.ofNat c))}:{i}"
  return s!"magic=1 {names} nv={vals.length} values={commaJoin vtxt} nn={bn.length} byname={commaJoin bn} ranges={rangesTxt (genEnumRanges e) (!vals.isEmpty)}"

open Pbc.Gen in
def opGenSvc : PM String := do
  let _i ← tokNat
  let full ← tok; let short ← tok; let pkg ← tok; let cpkg ← tok; let codeSize ← tokNat
  let n ← tokNat
  let mut ms : Array (String × Nat × Nat) := #[]
  for _ in [0:n] do
    let nm ← tok; let a ← tokNat; let b ← tokNat
    ms := ms.push (nm, a, b)
  let pkgS := if pkg == "-" then "" else pkg
  let sv : PSvc := { full := full, short := short, pkg := pkgS, cpkg := optStr cpkg, methods := ms.toList, codeSize := codeSize == 1 }
  let names :=
    if sv.codeSize then "name=(null) short=(null) cname=(null) pkg=(null)"
    else s!"name={sv.full} short={sv.short} cname={String.ofList (fullNameToC sv.full.toList sv.pkg.toList (sv.cpkg.map (·.toList)))} pkg={sv.pkg}"
  let mt := sv.methods.map fun (nm, a, b) => s!"{if sv.codeSize then "(null)" else nm}:{a}:{b}"
  let bn := if sv.codeSize then [] else (genMethodsByName sv).map (fun x => toString x.2)
  let svc := serviceInit sv
  -- input / closure / closure data are modelled by the distinct tokens 1, 2, 3
  let calls := (List.range sv.methods.length).map fun k =>
    match stub svc k 1 2 3 with
    | some c => s!"{c.slot}:{if c.input == 1 && c.closure == 2 && c.closureData == 3 then 1 else 0}"
    | none => "-1:0"
  let fresh := generatedInit sv
  let cleared := fresh.handlers.all (·.isNone) && fresh.handlers.length == sv.methods.length
  return s!"magic=1 {names} n={sv.methods.length} methods={commaJoin mt} byname={commaJoin bn} calls={commaJoin calls} init_desc=1 init_invoke=1 cleared={if cleared then 1 else 0} destroyed={if (destroy fresh).destroyed then 1 else 0}"

open Pbc.Gen in
def opGenName : PM String := do
  -- genname <field name>: the struct member name (keyword avoidance), keywords extracted from c_helpers.cc
  let n ← tok
  return "member=" ++ String.ofList (fieldName (Pbc.Extract.GenFacts.keywords.map (·.toList)) n.toList)

def runOp (S : Schema) (op : String) : PM String := do
  match op with
  | "pack" =>
    let m ← parseMsg S
    if !safeMsg S m then return "fault"
    let b := packMsg S m
    let ch := chunksMsg S m
    return s!"size={sizeMsg S m} packret={b.length} bufret={(ch.map List.length).sum} guard=1 same=1 pack={hexOfBytes b} buf={hexOfBytes ch.flatten} chunks={commaList (ch.map List.length)}"
  | "unpackf" =>
    let ty ← tokNat
    let x ← tok
    let b := bytesOfHex (x.drop 1).toString
    let mask ← tok
    let tail ← tokNat
    let bits := if mask == "-" then #[] else mask.toList.toArray.map (· == '1')
    let σ : Nat → Bool := fun k => if k < bits.size then bits[k]! else tail == 1
    let (r, h) := unpackH S σ ty b
    let (out, h2) := match r with
      | none => ("fail", h)
      | some m => ("ok " ++ dumpMsg S (eraseMsg m), freeMsg S m h)
    let refused := (h2.log.filter fun | .refuse _ => true | _ => false).length
    let tr := h2.log.map fun
      | .alloc id sz => s!" a{id}:{sz}"
      | .refuse sz => s!" r{sz}"
      | .free id => s!" f{id}"
    let live := match liveAfter h2.log [] with | some l => toString l.length | none => "double-free"
    -- the heap view must agree with the pure view when nothing is refused
    let chk := if refused == 0 then
        (match r, unpack S ty b with
         | none, none => ""
         | some m, some m2 => if dumpMsg S (eraseMsg m) == dumpMsg S m2 then "" else " ERASE-MISMATCH"
         | _, _ => " ERASE-MISMATCH")
      else ""
    return s!"{out} live={live} foreign=0 sysmalloc=0 refused={refused} trace={String.join tr}{chk}"
  | "unpacksys" =>
    let ty ← tokNat
    let x ← tok
    let b := bytesOfHex (x.drop 1).toString
    let (r, h) := unpackH S (fun _ => false) ty b
    let allocs := (h.log.filter fun | .alloc _ _ => true | _ => false).length
    let h2 := match r with | some m => freeMsg S m h | none => h
    let frees := (h2.log.filter fun | .free _ => true | _ => false).length
    return s!"{if r.isSome then "ok" else "fail"} sysmalloc={allocs} sysfree={frees} custom_calls=0"
  | "unpack" =>
    let ty ← tokNat
    let x ← tok
    let b := bytesOfHex (x.drop 1).toString
    match unpack S ty b with
    | none => return "fail live=0 foreign=0 sysmalloc=0"
    | some m => return "ok " ++ dumpMsg S m ++ " live=0 foreign=0 sysmalloc=0"
  | "rt" =>
    let m ← parseMsg S
    if !safeMsg S m then return "fault"
    let b := packMsg S m
    match unpack S m.ty b with
    | none => return s!"pack={hexOfBytes b} unpack=fail"
    | some u =>
      let b2 := packMsg S u
      return s!"pack={hexOfBytes b} unpack=ok {dumpMsg S u} check={if checkMsg S u then 1 else 0} repack_same={if b2 == b then 1 else 0} live=0"
  | "acc" =>
    let ty ← tokNat
    let x ← tok
    let b := bytesOfHex (x.drop 1).toString
    match unpack S ty b with
    | none => return "fail live=0"
    | some m =>
      if !safeMsg S m then return "fault"
      let p := packMsg S m
      let ch := chunksMsg S m
      let same3 := sizeMsg S m == p.length && ch.flatten == p
      let re := match unpack S ty p with
        | none => " re=fail"
        | some m2 => s!" re=ok stable={if packMsg S m2 == p then 1 else 0}"
      return s!"ok check={if checkMsg S m then 1 else 0} size={sizeMsg S m} same3={if same3 then 1 else 0} pack={hexOfBytes p}{re} msg={dumpMsg S m} live=0"
  | "check" =>
    let m ← parseMsg S
    return s!"check={if checkMsg S m then 1 else 0}"
  | "init" =>
    let ty ← tokNat
    return "init " ++ dumpMsg S (initMsg S ty)
  | "append" =>
    let cap ← tokNat
    let custom ← tokNat
    let mask ← tok
    let maskBits := if mask == "-" then #[] else mask.toList.toArray.map (· == '1')
    let σ : Nat → Bool := fun k => if custom == 1 then maskBits.getD k false else false
    let mut b : SimpleBuf := ⟨cap, [], none⟩
    let mut h : Heap := {}
    let mut ctr := 0
    let mut out := ""
    while !(← atEnd) do
      let len ← tokNat
      let d := (List.range len).map (fun i => BitVec.ofNat 8 ((ctr + i) * 7 + 1))
      ctr := ctr + len
      match b.append σ h d with
      | none => return "hang"
      | some (b', h') =>
        b := b'; h := h'
        out := out ++ s!"[len={b.data.length} alloced={b.alloced} mf={if b.block.isSome then 1 else 0}] "
    out := out ++ s!"data={hexOfBytes b.data} scratch_kept=1"
    if custom == 1 then
      let tr := h.log.map fun
        | .alloc id sz => s!" a{id}:{sz}"
        | .refuse sz => s!" r{sz}"
        | .free id => s!" f{id}"
      -- CLEAR frees the heap block if any
      let h2 := match b.block with | some id => h.free id | none => h
      let live := (liveAfter h2.log []).map List.length
      out := out ++ s!" trace={String.join tr} live={live.getD 999} foreign=0"
    return out
  | "lookup" =>
    let k ← tok
    let ty ← tokNat
    let fields := (S.msg ty).fields
    if k == "fnum" then
      let n ← tokNat
      -- the public function takes `unsigned value` and passes it on as int
      let v : Int := if n % 2 ^ 32 ≥ 2 ^ 31 then (n % 2 ^ 32 : Nat) - (2 ^ 32 : Nat) else (n % 2 ^ 32 : Nat)
      match rangeLookup (mkRanges (fields.map (fun f => (f.id : Int)))) v with
      | some i => return s!"idx={i}"
      | none => return "idx=-1"
    else
      let name ← tok
      let bytesOf (s : String) : List Nat := s.toUTF8.toList.map (·.toNat)
      let idx := (List.range fields.length).map (fun i => (bytesOf (fields.getD i default).name, i))
      -- the generator sorts the index by name (std::string compare = byte-wise)
      let sorted := idx.toArray.qsort (fun a b => cmpBytes a.1 b.1 == .lt) |>.toList
      match nameLookup sorted (bytesOf name) with
      | some i => return s!"idx={i}"
      | none => return "idx=-1"
  | "ranges" =>
    let n ← tokNat
    let mut runs : Array (Int × Nat) := #[]
    for _ in [0:n] do
      let sv ← tokInt
      let oi ← tokNat
      runs := runs.push (sv, oi)
    let _ ← tokInt
    let total ← tokNat
    let r : Ranges := ⟨runs.toList, total⟩
    let mut out := "r="
    while !(← atEnd) && !((← peek).startsWith "#") do
      let key ← tokInt
      out := out ++ (match rangeLookup r key with | some i => toString i | none => "-1") ++ ","
    return out
  | "gendesc" => opGenDesc
  | "genapi" => opGenApi
  | "genenum" => opGenEnum
  | "gensvc" => opGenSvc
  | "genname" => opGenName
  | "leaf" =>
    let fn ← tok
    let s ← get
    return Pbc.Extract.runLeaf fn (s.toks.extract s.pos s.toks.size)
  | _ => return "bad-op"

partial def loop (inp : IO.FS.Stream) (S : Schema) : IO Unit := do
  let line ← inp.getLine
  if line.isEmpty then return ()
  let l := line.trimAscii.toString
  if l.isEmpty || l.startsWith "#" then
    IO.println ""
    loop inp S
  else
    let toks := (l.splitOn " ").filter (· ≠ "") |>.toArray
    if toks[0]! == "schema" then
      let n := toks[1]!.toNat!
      let mut S' : Array MsgDesc := #[]
      IO.println "schema ok"
      for _ in [0:n] do
        IO.println ""
        let ml := (← inp.getLine).trimAscii.toString
        let mt := (ml.splitOn " ").filter (· ≠ "") |>.toArray
        let nf := mt[3]!.toNat!
        let mut fs : Array FieldDesc := #[]
        for _ in [0:nf] do
          IO.println ""
          let fl := (← inp.getLine).trimAscii.toString
          fs := fs.push (parseField ((fl.splitOn " ").filter (· ≠ "") |>.toArray))
        S' := S'.push { name := mt[2]!, fields := fs.toList, initGeneric := mt[4]!.toNat! == 1, nGroups := mt[5]!.toNat! }
      loop inp S'.toList
    else
      match (runOp S toks[0]!).run { toks := toks, pos := 1 } with
      | .ok (out, _) => IO.println out
      | .error e => IO.println s!"driver-error {e}"
      loop inp S

def main (args : List String) : IO Unit := do
  let inp ← match args with
    | [] => IO.getStdin
    | f :: _ => do
      let h ← IO.FS.Handle.mk f .read
      pure (IO.FS.Stream.ofHandle h)
  loop inp []
