import Pbc.Wire
import Pbc.Desc
import Pbc.Extract.Leaves
import Pbc.Extract.LeavesBE
import Pbc.Extract.Dispatch
import Pbc.Refine.Leaves
