#!/usr/bin/env python3
"""
check.py -- entry point of every MANIFEST quick/thorough/replay command (DESIGN.md section 5).

  check.py <Cxx> [--tier quick|thorough] [--replay <file>]

Pipeline per property:
  1 build from /repo's working tree: C->Lean translation, sanitizer harness, `lake build`
  2 proof obligations: the property's theorems + the refinement theorems it rests on must
    compile; `#print axioms` on each is compared with the allow-list; sources are grepped for
    sorry/admit/axiom/native_decide
  3 correspondence: same case file through the real code (harness) and the Lean model (driver)
  4 direct oracle: the property's own statement evaluated on the implementation's output
  5 verdict, evidence/<id>.json, replay file on violation
Exit 0 = property held on everything explored; exit 1 + "VIOLATION property=<id> replay=<path>".
"""
import sys, os, json, subprocess, time, hashlib, re, fcntl, random, shutil, concurrent.futures

HERE = os.path.dirname(os.path.abspath(__file__))
VERIF = os.path.dirname(HERE)
REPO = os.environ.get('PBC_REPO', '/repo')
BUILD = os.path.join(VERIF, 'build')
LEAN = os.path.join(VERIF, 'lean')
sys.path.insert(0, HERE)
import pbgen
import oracles

ALLOWED_AXIOMS = {'propext', 'Quot.sound', 'Classical.choice'}

# ----------------------------------------------------------------------------------------------
# property table
# ----------------------------------------------------------------------------------------------
R = 'Pbc.Refine.'
SIZE_LEAVES = ['get_tag_size_spec', 'uint32_size_spec', 'int32_size_spec', 'sint32_size_spec', 'uint64_size_spec', 'sint64_size_spec']
PACK_LEAVES = ['zigzag32_spec', 'zigzag64_spec', 'uint32_pack_spec', 'int32_pack_spec', 'sint32_pack_spec', 'uint64_pack_spec',
               'sint64_pack_spec', 'fixed32_pack_spec', 'fixed64_pack_spec', 'boolean_pack_spec', 'tag_pack_spec']
PARSE_LEAVES = ['unzigzag32_spec', 'unzigzag64_spec', 'parse_uint32_spec', 'parse_int32_spec', 'parse_uint64_spec',
                'parse_fixed_uint32_spec', 'parse_fixed_uint64_spec', 'scan_varint_spec', 'parse_tag_and_wiretype_spec',
                'parse_tag_and_wiretype_ok', 'scan_length_prefixed_data_spec']
TABLE_LEAVES = ['get_type_min_size_spec', 'sizeof_elt_in_repeated_array_spec', 'is_packable_type_spec']
# Refine/Bridge.lean: translated leaf = MODEL function (list level); each rests on the `_spec` theorem(s) named in BRIDGE_DEPS
B = 'Pbc.Refine.Bridge.'
SIZE_MODEL = [B + x for x in ('get_tag_size_model', 'uint32_size_model', 'int32_size_model', 'sint32_size_model', 'uint64_size_model', 'sint64_size_model')]
PACK_MODEL = [B + x for x in ('uint32_pack_model', 'int32_pack_model', 'sint32_pack_model', 'uint64_pack_model', 'sint64_pack_model',
                              'fixed32_pack_model', 'fixed64_pack_model', 'boolean_pack_model', 'tag_pack_model', 'keyBytes_or',
                              'zigzag32_model', 'zigzag64_model')]
PARSE_MODEL = [B + x for x in ('scan_varint_model', 'parse_uint32_model', 'parse_int32_model', 'parse_uint64_model',
                               'parse_fixed_uint32_model', 'parse_fixed_uint64_model', 'parse_tag_and_wiretype_model',
                               "parse_tag_and_wiretype_model'", 'scan_length_prefixed_data_model', 'unzigzag32_model', 'unzigzag64_model')]
SCAN_MODEL = [B + x for x in ('scan_varint_model', 'parse_tag_and_wiretype_model', "parse_tag_and_wiretype_model'", 'scan_length_prefixed_data_model')]
LOOP_PARSE_MODEL = ['Pbc.Refine.Loops.parse_boolean_model', 'Pbc.Refine.Loops.max_b128_numbers_model']
LOOP_LOOKUP_MODEL = ['Pbc.Refine.Loops.int_range_lookup_model', 'Pbc.Refine.Loops.int_range_lookup_mkRanges']


def bridge_deps(short):
    """the Refine/Leaves theorems a Bridge theorem rests on"""
    base = short.rstrip("'")
    if base == 'keyBytes_or':
        return []
    d = [base.replace('_model', '_spec')]
    if base.startswith('parse_tag_and_wiretype'):
        d.append('parse_tag_and_wiretype_ok')
    return d

GEN_FINDINGS = {'C12': ('F17',)}

PROPS = {
    'C12': dict(
        title='fresh messages hold the declared defaults; presence decides what is written',
        modules=['Pbc.Props.C12'],
        theorems=['Pbc.Props.C12.initMsg_slots', 'Pbc.Props.C12.init_repeated_empty', 'Pbc.Props.C12.init_oneof_unset',
                  'Pbc.Props.C12.init_singular_default', 'Pbc.Props.C12.genField_default', 'Pbc.Props.C12.absent_optional_not_written',
                  'Pbc.Props.C12.absent_pointer_not_written', 'Pbc.Props.C12.present_optional_written',
                  'Pbc.Props.C12.implicit_omitted_iff_zero', 'Pbc.Props.C12.unselected_oneof_not_written',
                  'Pbc.Props.C12.empty_repeated_not_written', 'Pbc.Props.C12.init_slot_not_written', 'Pbc.Props.C12.unpack_empty'],
        refine=[], cases=[], oracle='gen', gen=(24, 160),
    ),
    'C13': dict(
        title='generated descriptors and structs mirror the .proto exactly',
        modules=['Pbc.Props.C13', 'Pbc.Props.C14', 'Pbc.Lemmas.Ranges'],
        theorems=['Pbc.Props.C13.fields_perm', 'Pbc.Props.C13.fields_sorted', 'Pbc.Props.C13.fields_strict',
                  'Pbc.Props.C13.sortByName_sorted', 'Pbc.Props.C13.nameLookup_sortByName', 'Pbc.Props.C13.field_by_name',
                  'Pbc.Props.C13.field_by_number', 'Pbc.Props.C13.enumValues_strict', 'Pbc.Props.C13.enumValues_numbers',
                  'Pbc.Props.C13.enum_by_number', 'Pbc.Props.C13.enum_by_number_none', 'Pbc.Props.C13.enum_first_name',
                  'Pbc.Props.C13.indexOfValue_spec', 'Pbc.Props.C13.enum_by_name',
                  'Pbc.Lemmas.Ranges.mkRanges_wf', 'Pbc.Lemmas.Ranges.rangeLookup_mkRanges',
                  'Pbc.Props.C14.rangeLookup_spec', 'Pbc.Props.C14.nameLookup_spec'],
        refine=[], cases=[], oracle='gen', gen=(24, 160),
    ),
    'C15': dict(
        title='the generator handles every valid schema and its output always compiles',
        modules=['Pbc.Props.C15'],
        theorems=['Pbc.Props.C15.keywords_no_trailing_underscore', 'Pbc.Props.C15.fieldName_not_keyword', 'Pbc.Props.C15.fieldName_shape',
                  'Pbc.Props.C15.camelToLowerAux_ident', 'Pbc.Props.C15.effInit_own', 'Pbc.Props.C15.effInit_inherit',
                  'Pbc.Props.C15.effInit_default', 'Pbc.Props.C15.effPack_default_top', 'Pbc.Props.C15.effPack_default_nested',
                  'Pbc.Props.C15.effPack_file_true', 'Pbc.Props.C15.effPack_own'],
        refine=[], cases=[], oracle='gen', gen=(24, 160),
    ),
    'C20': dict(
        title='generated service stubs dispatch to the right handler',
        modules=['Pbc.Props.C20'],
        theorems=['Pbc.Props.C20.stub_dispatch', 'Pbc.Props.C20.stub_runs_slot', 'Pbc.Props.C20.stub_injective',
                  'Pbc.Props.C20.stub_out_of_range', 'Pbc.Props.C20.generatedInit_cleared', 'Pbc.Props.C20.destroy_invokes_callback',
                  'Pbc.Props.C20.method_by_name', 'Pbc.Props.C20.stub_index_is_loop_counter'],
        refine=[], cases=[], oracle='gen', gen=(24, 160),
    ),
    'C02': dict(
        title='size, pack and pack_to_buffer agree; pack never overruns',
        modules=['Pbc.Props.C02', 'Pbc.Refine.Bridge'],
        theorems=['Pbc.Props.C02.packMsg_length', 'Pbc.Props.C02.chunksMsg_flatten', 'Pbc.Props.C02.chunks_total',
                  'Pbc.Props.C02.packed_guess_short_by_at_most_one'] + SIZE_MODEL + PACK_MODEL,
        refine=SIZE_LEAVES + PACK_LEAVES + TABLE_LEAVES,
        cases=[('msg', 250, 4000, ['--big']), ('leaf', 30, 300, [])],
        oracle='c02',
        leaf_filter=['_size', '_pack', 'zigzag', 'get_type_min_size', 'sizeof_elt'],
    ),
    'C01': dict(
        title='pack then unpack returns an equal message',
        modules=['Pbc.Lemmas.Elem', 'Pbc.Props.C02', 'Pbc.Props.C01', 'Pbc.Props.C01b', 'Pbc.Props.C01c', 'Pbc.Props.C01d',
                 'Pbc.Refine.Bridge', 'Pbc.Refine.Loops'],
        theorems=['Pbc.Lemmas.parseScalar_scalarBytes', 'Pbc.Lemmas.scanKey_keyBytes', 'Pbc.Lemmas.scanLen_lenPrefixed',
                  'Pbc.Lemmas.scalarBytes_scan_varint', 'Pbc.Lemmas.unzigzag32_zigzag32', 'Pbc.Lemmas.unzigzag64_zigzag64',
                  'Pbc.Lemmas.loadLE_le32', 'Pbc.Lemmas.loadLE_le64', 'Pbc.Props.C02.packMsg_length',
                  'Pbc.Props.C01.packMsg_recs', 'Pbc.Props.C01.elemRec_ok', 'Pbc.Props.C01.recsMsg_ok', 'Pbc.Props.C01.scanStep_rec',
                  'Pbc.Props.C01.scanLoop_recs', 'Pbc.Props.C01.pack_scans',
                  'Pbc.Props.C01.parseRequired_elem', 'Pbc.Props.C01.parsePacked_elems', 'Pbc.Props.C01.parse_slot', 'Pbc.Props.C01.parse_slots',
                  'Pbc.Props.C01.roundtrip_level', 'Pbc.Props.C01.roundtrip_partial', 'Pbc.Props.C01.unpack_pack_partial',
                  'Pbc.Props.C01.step', 'Pbc.Props.C01.roundtrip_level_oneof', 'Pbc.Props.C01.roundtrip', 'Pbc.Props.C01.unpack_pack',
                  'Pbc.Props.C01.nested_facts', 'Pbc.Props.C01.canon_depth', 'Pbc.Props.C01.unpack_pack_canonical']
                 + PACK_MODEL + PARSE_MODEL + LOOP_PARSE_MODEL,
        refine=PACK_LEAVES + PARSE_LEAVES + TABLE_LEAVES,
        cases=[('msg', 300, 5000, []), ('leaf', 20, 200, [])],
        oracle='c01', gen=(8, 60),
    ),
    'C03': dict(
        title='packed bytes are valid protobuf with the same meaning (encoder interop)',
        modules=['Pbc.Props.C02', 'Pbc.Lemmas.Elem', 'Pbc.Props.C01b', 'Pbc.Props.C01c', 'Pbc.Props.C01d', 'Pbc.Props.C03', 'Pbc.Refine.Bridge'],
        theorems=['Pbc.Props.C02.packMsg_length', 'Pbc.Lemmas.parseScalar_scalarBytes', 'Pbc.Lemmas.scanKey_keyBytes',
                  'Pbc.Lemmas.scanLen_lenPrefixed', 'Pbc.Lemmas.scalarBytes_scan_varint',
                  'Pbc.Props.C03.varint_shortest', 'Pbc.Props.C03.scalar_encoding', 'Pbc.Props.C03.packed_iff_flag',
                  'Pbc.Props.C01.roundtrip_partial',
                  'Pbc.Props.C01.roundtrip', 'Pbc.Props.C01.unpack_pack_canonical'] + PACK_MODEL + SIZE_MODEL,
        refine=PACK_LEAVES + SIZE_LEAVES + TABLE_LEAVES,
        cases=[('enc', 300, 5000, [])], gen=(8, 48),
        oracle='c03', ref=True,
    ),
    'C04': dict(
        title='every valid encoding is accepted and read as the reference reads it',
        modules=['Pbc.Props.C05', 'Pbc.Props.C11', 'Pbc.Lemmas.Elem', 'Pbc.Props.C04', 'Pbc.Props.C01c', 'Pbc.Props.C04c', 'Pbc.Props.C10'],
        theorems=['Pbc.Props.C05.pass2_count_le_pass1', 'Pbc.Props.C05.scanLoop_fuel_irrelevant',
                  'Pbc.Props.C11.only_required_fields_matter', 'Pbc.Lemmas.parseScalar_scalarBytes', 'Pbc.Lemmas.scanKey_keyBytes',
                  'Pbc.Props.C04.parse_repeated_either', 'Pbc.Props.C04.parse_packed_anyflag', 'Pbc.Props.C04.parse_rep_elems_anyflag', 'Pbc.Props.C04.decGroups_padded', 'Pbc.Props.C04.scanVarint_padded', 'Pbc.Props.C01.roundtrip',
                  'Pbc.Props.C04.parseAll_reorder', 'Pbc.Props.C04.comm_of_keys', 'Pbc.Props.C04.unpack_reordered', 'Pbc.Props.C04.parse_packed_appends', 'Pbc.Props.C10.stale_occurrence_irrelevant', 'Pbc.Lemmas.Swap.swapEq_of_filters'],
        refine=PARSE_LEAVES + TABLE_LEAVES,
        cases=[('valid', 400, 6000, [])],
        oracle='c04', ref=True,
    ),
    'C09': dict(
        title='unknown fields survive parse and re-serialise (forward compatibility)',
        modules=['Pbc.Props.C02', 'Pbc.Lemmas.Elem', 'Pbc.Props.C01c', 'Pbc.Props.C09', 'Pbc.Refine.Bridge'],
        theorems=['Pbc.Props.C02.chunksMsg_flatten', 'Pbc.Props.C02.packMsg_length', 'Pbc.Lemmas.scanKey_keyBytes',
                  'Pbc.Lemmas.scanLen_lenPrefixed',
                  'Pbc.Props.C01.pack_scans', 'Pbc.Props.C01.roundtrip',
                  'Pbc.Props.C09.forward_compat', 'Pbc.Props.C04.unpack_reordered', 'Pbc.Props.C04.parseAll_reorder']
                 + SCAN_MODEL + [B + 'tag_pack_model', B + 'keyBytes_or'],
        refine=['parse_tag_and_wiretype_spec', 'scan_length_prefixed_data_spec', 'scan_varint_spec', 'tag_pack_spec'],
        cases=[('compat', 300, 5000, [])],
        oracle='c09', ref=True,
    ),
    'C10': dict(
        title='repeated occurrences of a singular field merge as protobuf prescribes',
        modules=['Pbc.Props.C11', 'Pbc.Props.C10', 'Pbc.Props.C06m'],
        theorems=['Pbc.Props.C11.only_required_fields_matter',
                  'Pbc.Props.C10.last_wins', 'Pbc.Props.C10.last_of_two_wins', 'Pbc.Props.C10.repeated_appends', 'Pbc.Props.C10.oneof_last_member_wins',
                  'Pbc.Props.C10.stale_occurrence_irrelevant', 'Pbc.Props.C06.mergeFields_inv', 'Pbc.Props.C06.merge_pfn'],
        refine=PARSE_LEAVES,
        cases=[('merge', 400, 6000, [])],
        oracle='c10', ref=True,
    ),
    'C05': dict(
        title='parsing arbitrary bytes is memory-safe and always terminates',
        modules=['Pbc.Props.C05', 'Pbc.Refine.Bridge', 'Pbc.Refine.Loops'],
        theorems=['Pbc.Props.C05.pass2_count_le_pass1', 'Pbc.Props.C05.parsePackedVarints_count', 'Pbc.Props.C05.scanStep_consumes',
                  'Pbc.Props.C05.scanLoop_fuel_irrelevant', 'Pbc.Props.C05.scanStep_member_shorter', 'Pbc.Props.C05.delimit_bounds',
                  'Pbc.Props.C05.scanKey_used', 'Pbc.Props.C05.scanLen_bounds'] + PARSE_MODEL + LOOP_PARSE_MODEL,
        refine=PARSE_LEAVES + TABLE_LEAVES,
        cases=[('wire', 500, 8000, []), ('leaf', 30, 300, [])],
        oracle='c05',
        leaf_filter=['parse_', 'scan_', 'unzigzag', 'max_b128', 'int_range', 'sizeof_elt', 'is_packable'],
    ),
    'C06': dict(
        title='whatever the parser accepts is well-formed, re-serialisable and stable',
        modules=['Pbc.Props.C02', 'Pbc.Lemmas.Elem', 'Pbc.Props.C01', 'Pbc.Props.C01b', 'Pbc.Props.C01c', 'Pbc.Props.C01d',
                 'Pbc.Props.C06a', 'Pbc.Props.C06b', 'Pbc.Props.C06m', 'Pbc.Props.C06c'],
        theorems=['Pbc.Props.C02.packMsg_length', 'Pbc.Props.C02.chunksMsg_flatten', 'Pbc.Props.C02.chunks_total',
                  'Pbc.Lemmas.scanKey_keyBytes', 'Pbc.Lemmas.scanLen_lenPrefixed',
                  'Pbc.Props.C01.packMsg_recs', 'Pbc.Props.C01.pack_scans',
                  'Pbc.Props.C01.roundtrip_partial',
                  'Pbc.Props.C01.roundtrip', 'Pbc.Props.C01.unpack_pack_canonical',
                  # what the parser returns on ANY accepted input is canonical, hence stable (merges included)
                  'Pbc.Props.C06.delimit_take', 'Pbc.Props.C06.scanLoop_acc', 'Pbc.Props.C06.parseRequired_shape',
                  'Pbc.Props.C06.step_field', 'Pbc.Props.C06.step_oneof', 'Pbc.Props.C06.parseAll_inv',
                  'Pbc.Props.C06.mergeFields_inv', 'Pbc.Props.C06.merge_pfn', 'Pbc.Props.C06.parsed_pfn', 'Pbc.Props.C06.pfn_canon',
                  'Pbc.Props.C06.parsed_canon', 'Pbc.Props.C06.reparse_partial', 'Pbc.Props.C06.stable_partial',
                  'Pbc.Props.C06.exS_good', 'Pbc.Props.C06.exOut_canon', 'Pbc.Props.C06.exOut_fits'],
        refine=PARSE_LEAVES + PACK_LEAVES + SIZE_LEAVES,
        cases=[('wire', 500, 8000, [])],
        oracle='c06',
    ),
    'C07': dict(
        title="all message memory comes from, and returns to, the caller's allocator",
        modules=['Pbc.Props.C07', 'Pbc.Props.C07b'],
        theorems=['Pbc.Props.C07.freeMsg_log', 'Pbc.Props.C07.freeVal_log', 'Pbc.Props.C07.freeSlots_log',
                  'Pbc.Props.C07.foldl_free_log', 'Pbc.Props.C07.first_alloc_refused',
                  # whole-call accounting for every input and refusal schedule (embedded messages as repeated fields, any depth)
                  'Pbc.Props.C07.acct_freeMsg', 'Pbc.Props.C07.parseRequiredH_acct', 'Pbc.Props.C07.oneofH_acct',
                  'Pbc.Props.C07.parseMemberH_oneof', 'Pbc.Props.C07.parseMemberH_plain', 'Pbc.Props.C07.parseMemberH_acct',
                  'Pbc.Props.C07.parseAllH_acct', 'Pbc.Props.C07.scanLoopH_acct', 'Pbc.Props.C07.allocArrays_acct',
                  'Pbc.Props.C07.unpackMsgH_eq', 'Pbc.Props.C07.parseRequiredH_elem_acct', 'Pbc.Props.C07.unpackMsgH_acct_step',
                  'Pbc.Props.C07.unpackMsgH_acct', 'Pbc.Props.C07.unpack_fails_clean',
                  'Pbc.Props.C07.unpack_then_free_clean'],
        refine=[],
        cases=[('alloc', 400, 6000, [])],
        oracle='c07', gen=(8, 60),
    ),
    'C08': dict(
        title='a refused allocation at any point fails cleanly',
        modules=['Pbc.Props.C07', 'Pbc.Props.C07b', 'Pbc.Props.C18'],
        theorems=['Pbc.Props.C07.freeMsg_log', 'Pbc.Props.C07.first_alloc_refused', 'Pbc.Props.C18.append_inv',
                  'Pbc.Props.C18.append_log',
                  'Pbc.Props.C07.acct_freeMsg', 'Pbc.Props.C07.parseRequiredH_acct', 'Pbc.Props.C07.oneofH_acct',
                  'Pbc.Props.C07.parseMemberH_oneof', 'Pbc.Props.C07.parseMemberH_plain', 'Pbc.Props.C07.parseMemberH_acct',
                  'Pbc.Props.C07.parseAllH_acct', 'Pbc.Props.C07.scanLoopH_acct', 'Pbc.Props.C07.allocArrays_acct',
                  'Pbc.Props.C07.unpackMsgH_eq', 'Pbc.Props.C07.parseRequiredH_elem_acct', 'Pbc.Props.C07.unpackMsgH_acct_step',
                  'Pbc.Props.C07.unpackMsgH_acct', 'Pbc.Props.C07.unpack_fails_clean',
                  'Pbc.Props.C07.unpack_then_free_clean'],
        refine=[],
        cases=[('fault', 40, 400, []), ('append', 100, 1000, [])],
        oracle='c08',
    ),
    'C11': dict(
        title='missing required fields are always detected, never misjudged',
        modules=['Pbc.Props.C11', 'Pbc.Refine.Bridge'],
        theorems=['Pbc.Props.C11.resolveField_spec', 'Pbc.Props.C11.scanStep_inv', 'Pbc.Props.C11.scanLoop_inv',
                  'Pbc.Props.C11.success_implies_required_present', 'Pbc.Props.C11.missing_required_rejected',
                  'Pbc.Props.C11.only_required_fields_matter'] + SCAN_MODEL,
        refine=['parse_tag_and_wiretype_spec', 'scan_length_prefixed_data_spec', 'scan_varint_spec'],
        cases=[('req', 300, 5000, ['--big']), ('wire', 150, 2000, [])],
        oracle='c11', gen=(8, 60),
    ),
    'C19': dict(
        title='the validity check accepts only messages that are safe to serialise',
        modules=['Pbc.Props.C19', 'Pbc.Props.C02'],
        theorems=['Pbc.Props.C19.safe_of_check', 'Pbc.Props.C19.safeSlot_of_check', 'Pbc.Props.C19.safeElems_of_check',
                  'Pbc.Props.C19.defMsg_rejected', 'Pbc.Props.C19.defSingle_rejected', 'Pbc.Props.C19.defElems_rejected',
                  'Pbc.Props.C02.packMsg_length'],
        refine=[],
        cases=[('defect', 400, 6000, [])],
        oracle='c19',
    ),
    'C14': dict(
        title='descriptor lookups find every key and reject every non-key',
        modules=['Pbc.Props.C14', 'Pbc.Props.C13', 'Pbc.Props.C20', 'Pbc.Lemmas.Ranges', 'Pbc.Refine.Loops'],
        theorems=['Pbc.Props.C14.bsearch_sound', 'Pbc.Props.C14.bsearch_complete', 'Pbc.Props.C14.bsearch_none',
                  'Pbc.Props.C14.ranges_sorted', 'Pbc.Props.C14.rangeLookup_spec', 'Pbc.Props.C14.rangeLookup_none',
                  'Pbc.Props.C14.cmpBytes_trans', 'Pbc.Props.C14.names_sorted_cmp', 'Pbc.Props.C14.nameLookup_spec',
                  # ... over the tables the generator emits (generator model): every key, found iff declared
                  'Pbc.Lemmas.Ranges.mkRanges_wf', 'Pbc.Lemmas.Ranges.rangeLookup_mkRanges', 'Pbc.Lemmas.Ranges.rangeLookup_mkRanges_none',
                  'Pbc.Props.C13.field_by_number', 'Pbc.Props.C13.field_by_name', 'Pbc.Props.C13.enum_by_number',
                  'Pbc.Props.C13.enum_by_number_none', 'Pbc.Props.C13.enum_by_name', 'Pbc.Props.C20.method_by_name'] + LOOP_LOOKUP_MODEL,
        refine=[],
        cases=[('lookup', 1500, 20000, []), ('leaf', 30, 200, [])], gen=(16, 96),
        oracle='c14',
        leaf_filter=['int_range_lookup'],
    ),
    'C16': dict(
        title='behaviour is independent of build configuration and byte-order path',
        modules=['Pbc.Props.C16', 'Pbc.Refine.BigEndian', 'Pbc.Refine.Bridge'],
        theorems=['Pbc.Refine.BE.fixed32_pack_same', 'Pbc.Refine.BE.fixed64_pack_same', 'Pbc.Refine.BE.parse_fixed_uint32_same',
                  'Pbc.Refine.BE.parse_fixed_uint64_same', 'Pbc.Props.C16.asserts_listed', 'Pbc.Props.C16.names_read_only_by_name_lookups',
                  'Pbc.Props.C16.guess_off_by_one', 'Pbc.Props.C16.streamed_payload_length',
                  B + 'fixed32_pack_model', B + 'fixed64_pack_model', B + 'parse_fixed_uint32_model', B + 'parse_fixed_uint64_model'],
        refine=['get_type_min_size_spec', 'fixed32_pack_spec', 'fixed64_pack_spec', 'parse_fixed_uint32_spec', 'parse_fixed_uint64_spec', 'sizeof_elt_in_repeated_array_spec', 'is_packable_type_spec'],
        cases=[('msg', 150, 2000, ['--big']), ('wire', 250, 4000, [])],
        oracle='c16', variants=['be', 'ndebug', 'O0', 'O2', 'clang'],
    ),
    'C17': dict(
        title='no hidden shared state: concurrent use on separate messages is safe',
        modules=['Pbc.Props.C17'],
        theorems=['Pbc.Props.C17.only_mutable_global_is_default_allocator', 'Pbc.Props.C17.no_store_to_static_state',
                  'Pbc.Props.C17.no_local_statics', 'Pbc.Props.C17.interleaving_invisible'],
        refine=[],
        cases=[('mt', 300, 3000, []), ('mtwide', 120, 1000, [])],
        oracle='c17', threads=8,
    ),
    'C18': dict(
        title='the append buffer holds exactly what was appended, for any history',
        modules=['Pbc.Props.C18', 'Pbc.Props.C02'],
        theorems=['Pbc.Props.C18.growTo_ge', 'Pbc.Props.C18.growTo_terminates', 'Pbc.Props.C18.growTo_least',
                  'Pbc.Props.C18.append_inv', 'Pbc.Props.C18.append_total', 'Pbc.Props.C18.history',
                  'Pbc.Props.C18.append_log', 'Pbc.Props.C02.chunksMsg_flatten', 'Pbc.Props.C02.chunks_total'],
        refine=[],
        cases=[('append', 300, 5000, []), ('msg', 100, 1500, [])],
        oracle='c18',
    ),
}


def log(*a):
    print('[check]', *a, file=sys.stderr, flush=True)


def run(cmd, timeout=1800, **kw):
    try:
        return subprocess.run(cmd, stdout=subprocess.PIPE, stderr=subprocess.PIPE, text=True, timeout=timeout, **kw)
    except subprocess.TimeoutExpired as e:
        class R:
            pass
        r = R()
        r.returncode = 124
        r.stdout = (e.stdout or b'').decode('utf-8', 'replace') if isinstance(e.stdout, (bytes, bytearray)) else (e.stdout or '')
        r.stderr = 'TIMEOUT after %ds' % timeout
        return r


# ----------------------------------------------------------------------------------------------
# build
# ----------------------------------------------------------------------------------------------
def tree_hash(paths):
    h = hashlib.sha256()
    for p in paths:
        if os.path.isdir(p):
            for root, dirs, files in sorted(os.walk(p)):
                dirs[:] = sorted(d for d in dirs if d not in ('.lake', '__pycache__', '.git'))
                for f in sorted(files):
                    fp = os.path.join(root, f)
                    h.update(fp.encode())
                    with open(fp, 'rb') as fh:
                        h.update(fh.read())
        elif os.path.exists(p):
            h.update(p.encode())
            with open(p, 'rb') as fh:
                h.update(fh.read())
    return h.hexdigest()[:16]


def ensure_build():
    """(re)build everything that depends on /repo's working tree; returns build-state dict"""
    os.makedirs(BUILD, exist_ok=True)
    lock = open(os.path.join(BUILD, '.lock'), 'w')
    fcntl.flock(lock, fcntl.LOCK_EX)
    try:
        src_hash = tree_hash([os.path.join(REPO, 'protobuf-c', 'protobuf-c.c'), os.path.join(REPO, 'protobuf-c', 'protobuf-c.h'),
                              os.path.join(VERIF, 'harness'), os.path.join(VERIF, 'tools', 'c2lean.py'),
                              os.path.join(VERIF, 'tools', 'shim'), os.path.join(REPO, 'protoc-gen-c'),
                              os.path.join(REPO, 'protobuf-c', 'protobuf-c.proto'), os.path.join(VERIF, 'tools', 'extract_genfacts.py')])
        lean_hash = tree_hash([os.path.join(LEAN, 'Pbc'), os.path.join(LEAN, 'Drv'), os.path.join(LEAN, 'lakefile.toml'), os.path.join(LEAN, 'Pbc.lean')])
        state_file = os.path.join(BUILD, 'state.json')
        state = {}
        if os.path.exists(state_file):
            try:
                state = json.load(open(state_file))
            except Exception:
                state = {}
        t0 = time.time()
        if state.get('src_hash') != src_hash or not os.path.exists(os.path.join(BUILD, 'harness_asan')):
            log('translating leaves (c2lean)')
            r = run([sys.executable, os.path.join(HERE, 'c2lean.py')])
            state['c2lean_out'] = r.stdout[-2000:] + r.stderr[-2000:]
            state['c2lean_rc'] = r.returncode
            log('building harness')
            cc = ['gcc', '-O1', '-g', '-fsanitize=address,undefined', '-fno-sanitize-recover=all',
                  '-DPBC_SRC="%s"' % os.path.join(REPO, 'protobuf-c', 'protobuf-c.c'), '-I' + REPO,
                  '-I' + os.path.join(REPO, 'protobuf-c'), '-I' + BUILD, '-o', os.path.join(BUILD, 'harness_asan'),
                  os.path.join(VERIF, 'harness', 'pbc_harness.c')]
            r = run(cc)
            state['harness_rc'] = r.returncode
            state['harness_err'] = r.stderr[-3000:]
            if r.returncode != 0 and os.path.exists(os.path.join(BUILD, 'harness_asan')):
                os.remove(os.path.join(BUILD, 'harness_asan'))
            log('building harness variants (C16) and the multi-threaded harness (C17)')
            base = ['-DPBC_SRC="%s"' % os.path.join(REPO, 'protobuf-c', 'protobuf-c.c'), '-I' + REPO, '-I' + os.path.join(REPO, 'protobuf-c'),
                    '-I' + BUILD, os.path.join(VERIF, 'harness', 'pbc_harness.c')]
            san = ['-g', '-fsanitize=address,undefined', '-fno-sanitize-recover=all']
            variants = {
                'be': ['gcc', '-O1', '-DWORDS_BIGENDIAN'] + san,
                'ndebug': ['gcc', '-O1', '-DNDEBUG'] + san,
                'O0': ['gcc', '-O0'],
                'O2': ['gcc', '-O2'],
                'clang': ['clang-14', '-O1'],
                'mt': ['gcc', '-O1', '-g', '-DPBCV_MT', '-pthread'],
                'tsan': ['clang-14', '-O1', '-g', '-fsanitize=thread', '-DPBCV_MT', '-pthread'],
            }
            import concurrent.futures
            def build_variant(item):
                name, cmd = item
                outp = os.path.join(BUILD, 'harness_' + name)
                r = run(cmd + ['-o', outp] + base)
                if r.returncode != 0 and os.path.exists(outp):
                    os.remove(outp)
                return name, r.returncode, r.stderr[-800:]
            state['variants'] = {}
            with concurrent.futures.ThreadPoolExecutor(7) as ex:
                for name, rc, err in ex.map(build_variant, variants.items()):
                    state['variants'][name] = {'rc': rc, 'err': err if rc else ''}
            log('extracting source facts')
            r = run([sys.executable, os.path.join(HERE, 'extract_facts.py')])
            state['facts_out'] = (r.stdout + r.stderr)[-500:]
            r = run([sys.executable, os.path.join(HERE, 'extract_genfacts.py')])
            state['genfacts_out'] = (r.stdout + r.stderr)[-500:]
            log('building protoc-gen-c from /repo')
            import genpipe
            plug, perr = genpipe.build_plugin()
            state['plugin_rc'] = 0 if plug else 1
            state['plugin_err'] = perr[-2000:]
            log('building reference harness (libprotobuf)')
            try:
                flags = subprocess.check_output(['pkg-config', '--cflags', '--libs', 'protobuf'], text=True).split()
            except Exception:
                flags = ['-lprotobuf']
            r = run(['g++', '-O1', '-std=c++17', '-o', os.path.join(BUILD, 'ref_harness'), os.path.join(VERIF, 'harness', 'ref_harness.cc')] + flags)
            state['ref_rc'] = r.returncode
            state['ref_err'] = r.stderr[-1500:]
            state['src_hash'] = src_hash
            lean_hash = tree_hash([os.path.join(LEAN, 'Pbc'), os.path.join(LEAN, 'Drv'), os.path.join(LEAN, 'lakefile.toml'), os.path.join(LEAN, 'Pbc.lean')])
            state.pop('lean_hash', None)
        if state.get('lean_hash') != lean_hash:
            log('lake build pbcdrv')
            r = run(['lake', 'build', 'pbcdrv'], cwd=LEAN)
            state['drv_rc'] = r.returncode
            state['drv_err'] = (r.stdout + r.stderr)[-3000:]
            log('lake build Pbc.Refine.Leaves + Props')
            mods = ['Pbc.Refine.Leaves'] + sorted({m for p in PROPS.values() for m in p['modules']})
            state['mods'] = {}
            for m in mods:
                r = run(['lake', 'build', m], cwd=LEAN)
                state['mods'][m] = {'rc': r.returncode, 'out': (r.stdout + r.stderr)[-6000:]}
            state['lean_hash'] = lean_hash
        state['build_s'] = round(time.time() - t0, 1)
        json.dump(state, open(state_file, 'w'), indent=1)
        return state
    finally:
        fcntl.flock(lock, fcntl.LOCK_UN)
        lock.close()


# ----------------------------------------------------------------------------------------------
# proof obligations and audit
# ----------------------------------------------------------------------------------------------
def failed_theorems_in(module, obligations=()):
    """elaborate the module directly (Lean goes on after an error, a failed proof becomes `sorryAx`) with
    `#print axioms` for the obligations appended: maps error lines to the enclosing theorem names and tells, for
    every obligation visible there, whether it still rests only on checked proofs.
    -> (bad {theorem: [messages]}, output tail, axioms {obligation: [axioms]})"""
    path = os.path.join(LEAN, module.replace('.', '/') + '.lean')
    os.makedirs(os.path.join(BUILD, 'audit'), exist_ok=True)
    tmp = os.path.join(BUILD, 'audit', 'failed_%s_%d.lean' % (module.replace('.', '_'), os.getpid()))
    text = open(path).read()
    with open(tmp, 'w') as f:
        f.write(text + '\n' + ''.join('#print axioms %s\n' % t for t in obligations))
    r = run(['lake', 'env', 'lean', tmp], cwd=LEAN)
    out = r.stdout + r.stderr
    os.remove(tmp)
    nlines = text.count('\n') + 1
    errs = [(int(m.group(1)), m.group(2)) for m in re.finditer(r':(\d+):\d+: error[^:]*: (.*)', out) if int(m.group(1)) <= nlines]
    src = text.split('\n')
    starts = [(i + 1, m.group(1)) for i, l in enumerate(src) for m in [re.match(r'\s*theorem\s+([A-Za-z0-9_.\']+)', l)] if m]
    bad = {}
    for line, msg in errs:
        name = None
        for s_, n in starts:
            if s_ <= line:
                name = n
        bad.setdefault(name or '?', []).append(msg[:400])
    axs = {}
    for t in obligations:
        m = re.search(r"'%s' depends on axioms: \[([^\]]*)\]" % re.escape(t), out)
        if m:
            axs[t] = [a.strip() for a in m.group(1).replace('\n', ' ').split(',') if a.strip()]
        elif re.search(r"'%s' does not depend on any axioms" % re.escape(t), out):
            axs[t] = []
    return bad, out[-4000:], axs


def audit(theorems, imports):
    """#print axioms for each theorem; returns {name: [axioms] or None if missing}"""
    os.makedirs(os.path.join(BUILD, 'audit'), exist_ok=True)
    path = os.path.join(BUILD, 'audit', 'audit_%d.lean' % os.getpid())
    with open(path, 'w') as f:
        for m in imports:
            f.write('import %s\n' % m)
        for t in theorems:
            f.write('#print axioms %s\n' % t)
    r = run(['lake', 'env', 'lean', path], cwd=LEAN)
    out = r.stdout + r.stderr
    res = {}
    for t in theorems:
        m = re.search(r"'%s' depends on axioms: \[([^\]]*)\]" % re.escape(t), out)
        if m:
            res[t] = [a.strip() for a in m.group(1).replace('\n', ' ').split(',') if a.strip()]
        elif re.search(r"'%s' does not depend on any axioms" % re.escape(t), out):
            res[t] = []
        else:
            res[t] = None
    os.remove(path)
    return res, out[-2000:]


def grep_forbidden():
    hits = []
    pat = re.compile(r'\b(sorry|admit|native_decide)\b|^\s*axiom\s|implemented_by|\bunsafe\s|maxHeartbeats\s+0')
    for root, dirs, files in os.walk(os.path.join(LEAN, 'Pbc')):
        for f in files:
            if not f.endswith('.lean'):
                continue
            in_block = False
            for i, line in enumerate(open(os.path.join(root, f))):
                s = line
                if '/-' in s:
                    in_block = True
                if in_block:
                    if '-/' in s:
                        in_block = False
                    continue
                s = s.split('--')[0]
                if pat.search(s):
                    hits.append('%s:%d: %s' % (os.path.relpath(os.path.join(root, f), LEAN), i + 1, line.strip()[:120]))
    return hits


# ----------------------------------------------------------------------------------------------
# correspondence
# ----------------------------------------------------------------------------------------------
def run_cases(pid, kind, seed, n, extra, workdir, isolate=False, with_ref=False):
    case = os.path.join(workdir, '%s_%s_%d.case' % (pid, kind, seed))
    r = run([sys.executable, os.path.join(HERE, 'gen_cases.py'), kind, str(seed), str(n), case] + extra)
    if r.returncode != 0:
        raise RuntimeError('gen_cases failed: ' + r.stderr[-1000:])
    return run_case_file(case, isolate, with_ref)


def run_case_file(case, isolate=False, with_ref=False):
    env = dict(os.environ, ASAN_OPTIONS='detect_leaks=1:abort_on_error=0', UBSAN_OPTIONS='print_stacktrace=0')
    cmd = [os.path.join(BUILD, 'harness_asan')] + (['--isolate'] if isolate else []) + [case]
    ri = run(cmd, env=env)
    impl = ri.stdout.split('\n')
    crashed = ri.returncode != 0
    if crashed and not isolate:
        # attribute the crash to a case: rerun with one child per operation
        ri2 = run([os.path.join(BUILD, 'harness_asan'), '--isolate', case], env=env)
        impl = ri2.stdout.split('\n')
    rm = run([os.path.join(LEAN, '.lake', 'build', 'bin', 'pbcdrv'), case])
    model = rm.stdout.split('\n')
    lines = open(case).read().split('\n')
    ref = None
    if with_ref and os.path.exists(os.path.join(BUILD, 'ref_harness')):
        rr = run([os.path.join(BUILD, 'ref_harness'), case])
        ref = rr.stdout.split('\n')
    return {'case': case, 'lines': lines, 'impl': impl, 'model': model, 'ref': ref, 'impl_rc': ri.returncode,
            'impl_err': ri.stderr[-1500:], 'model_rc': rm.returncode, 'model_err': rm.stderr[-500:]}


def diff_outputs(res, line_filter=None):
    """indices of case lines where implementation and model disagree"""
    out = []
    n = len(res['lines'])
    for i in range(n):
        l = res['lines'][i]
        if not l or l.startswith('#'):
            continue
        if line_filter and not line_filter(l):
            continue
        a = res['impl'][i] if i < len(res['impl']) else '<missing>'
        b = res['model'][i] if i < len(res['model']) else '<missing>'
        if a != b:
            out.append(i)
    return out


def schema_block_for(lines, idx):
    """the schema block in force at case line idx"""
    start = None
    for i in range(idx, -1, -1):
        if lines[i].startswith('schema '):
            start = i
            break
    if start is None:
        return []
    blk = [lines[start]]
    j = start + 1
    while j < len(lines) and (lines[j].startswith('msg ') or lines[j].startswith('f ')):
        blk.append(lines[j])
        j += 1
    return blk


# ----------------------------------------------------------------------------------------------
# main
# ----------------------------------------------------------------------------------------------
def load_known():
    p = os.path.join(VERIF, 'known_findings.json')
    if os.path.exists(p):
        return json.load(open(p))
    return {'findings': []}


def write_replay(pid, seed, idx, payload):
    d = os.path.join(VERIF, 'replays')
    os.makedirs(d, exist_ok=True)
    p = os.path.join(d, '%s-%d-%d.json' % (pid, seed, idx))
    json.dump(payload, open(p, 'w'), indent=1)
    return p


def main():
    args = sys.argv[1:]
    if args and args[0] == '--setup':
        st = ensure_build()
        bad = [m for m, v in st.get('mods', {}).items() if v.get('rc') != 0]
        print('setup: harness rc=%s driver rc=%s modules failing=%s (%.0fs)' % (st.get('harness_rc'), st.get('drv_rc'), bad, st.get('build_s', 0)))
        sys.exit(0 if (st.get('harness_rc') == 0 and st.get('drv_rc') == 0) else 1)
    pid = args[0]
    tier = os.environ.get('VERIF_TIER', 'quick')
    replay = None
    i = 1
    while i < len(args):
        if args[i] == '--tier':
            tier = args[i + 1]; i += 2
        elif args[i] == '--replay':
            replay = args[i + 1]; i += 2
        else:
            i += 1
    seed = int(os.environ.get('VERIF_SEED', '1'))
    P = PROPS[pid]
    t0 = time.time()
    violations = []          # (what, replay payload)
    notes = []
    state = ensure_build()

    # ---- 2. proof obligations -------------------------------------------------------------
    obligations = list(P['theorems']) + [R + t for t in P['refine']]
    undischarged = {}
    mods = state.get('mods', {})
    need_mods = P['modules'] + (['Pbc.Refine.Leaves'] if (P['refine'] or any(t.startswith(B) for t in P['theorems'])) else [])
    failed_detail = {}
    failed_axioms = {}
    for m in need_mods:
        if mods.get(m, {}).get('rc', 1) != 0:
            bad, tail, axs = failed_theorems_in(m, obligations)
            failed_detail[m] = (bad, tail)
            for t, a in axs.items():
                # the same name can be visible from several failed modules: a sorry-free sighting wins only if
                # every sighting is sorry-free (the definition is the same one)
                if t not in failed_axioms or 'sorryAx' in a:
                    failed_axioms[t] = a
    built_mods = [m for m in need_mods if mods.get(m, {}).get('rc', 1) == 0]
    axioms_seen = {}
    native_axioms = []
    res, tail = audit(obligations, built_mods) if built_mods else ({t: None for t in obligations}, '')
    for t, ax in list(res.items()):
        if ax is None and t in failed_axioms:
            # its module no longer builds, but Lean elaborated it: it is discharged iff it rests on no failed proof
            if 'sorryAx' in failed_axioms[t]:
                culprits = sorted({n for m_, (bad, _) in failed_detail.items() for n in bad if n != '?'})
                msgs = [x for m_, (bad, _) in failed_detail.items() for n in bad for x in bad[n][:1]]
                undischarged[t] = ['rests on a proof that no longer checks (%s): %s' % (', '.join(culprits)[:300], (msgs or [''])[0][:300])]
                continue
            ax = failed_axioms[t]
            res[t] = ax
            notes.append('%s audited inside a module that no longer builds: it does not rest on the failed proofs' % t)
        if ax is None:
            # not visible now.  If its module failed because of OTHER, named theorems, this one is merely
            # not audited in this run (recorded); if it is among the failing ones, or nothing explains the
            # failure, it is undischarged.
            short = t.split('.')[-1]
            why = None
            excused = False
            if t.startswith(B) and 'Pbc.Refine.Leaves' in failed_detail:
                lbad = failed_detail['Pbc.Refine.Leaves'][0]
                hit = [d for d in bridge_deps(short) if d in lbad]
                if lbad and '?' not in lbad and not hit:
                    notes.append('%s not audited: Pbc.Refine.Leaves failed on theorems it does not rest on (%s)' % (t, ', '.join(sorted(lbad))[:200]))
                    continue
                if hit:
                    undischarged[t] = ['rests on %s, which no longer holds: %s' % (hit[0], lbad[hit[0]][0][:300])]
                    continue
            for m, (bad, tl) in failed_detail.items():
                if short in bad:
                    why = ['%s: %s' % (m, x) for x in bad[short][:2]]
                elif bad and '?' not in bad and (t.startswith(m + '.') or (m == 'Pbc.Refine.Leaves' and t.startswith(R)) or
                                                 (m == 'Pbc.Refine.BigEndian' and t.startswith('Pbc.Refine.BE.')) or
                                                 (m.startswith('Pbc.Lemmas.') and t.startswith('Pbc.Lemmas.'))):
                    excused = True
                elif not bad:
                    why = (why or []) + ['module %s did not build: %s' % (m, tl[-300:])]
            if why is None and excused:
                notes.append('%s not audited: its module failed on other theorems' % t)
                continue
            undischarged[t] = why or ['theorem not found by #print axioms (it no longer exists or its module was not built)']
            continue
        axioms_seen[t] = ax
        for a in ax:
            if a in ALLOWED_AXIOMS:
                continue
            if re.match(r'.*\._native\.bv_decide\.ax_', a) and (t.startswith('Pbc.Refine.') or t.startswith('Pbc.Lemmas.')):
                native_axioms.append(a)
                continue
            if re.match(r'.*\._native\.bv_decide\.ax_', a):
                # a property theorem that rests on a bv_decide lemma inherits its axiom: allowed, but recorded
                native_axioms.append(a)
                continue
            undischarged[t] = ['disallowed axiom %s' % a]
    forbidden = grep_forbidden()
    if forbidden:
        for t in obligations:
            undischarged.setdefault(t, ['forbidden construct in sources: ' + forbidden[0]])
    # thorough tier: the compiled modules are replayed by leanchecker, the toolchain's independent re-checker of .olean
    # files (one module per call); a module it rejects discharges nothing
    rechecked = {}
    if tier == 'thorough' and not replay:
        def _lc(m):
            try:
                r = subprocess.run(['lake', 'env', 'leanchecker', m], cwd=os.path.join(VERIF, 'lean'), stdout=subprocess.PIPE,
                                   stderr=subprocess.STDOUT, timeout=1800, text=True)
                return m, r.returncode, r.stdout[-300:]
            except subprocess.TimeoutExpired:
                return m, 124, 'timeout'
        with concurrent.futures.ThreadPoolExecutor(4) as ex:
            for m, rc_, out_ in ex.map(_lc, built_mods):
                rechecked[m] = rc_
                if rc_ != 0:
                    for t in obligations:
                        if t.startswith(m + '.') or (m == 'Pbc.Refine.Leaves' and t.startswith(R)):
                            undischarged.setdefault(t, ['leanchecker rejects module %s: %s' % (m, out_)])
    discharged = [t for t in obligations if t not in undischarged]

    # ---- 3/4. correspondence + direct oracle --------------------------------------------------
    work = os.path.join(BUILD, 'run', pid)
    os.makedirs(work, exist_ok=True)
    cov = {'evaluations': 0, 'distinct_nontrivial': 0, 'samples': [], 'per_kind': {}}
    distinct = set()
    corr_broken = []
    oracle = getattr(oracles, 'oracle_' + P['oracle'], None)
    harness_ok = os.path.exists(os.path.join(BUILD, 'harness_asan')) and state.get('drv_rc', 1) == 0
    if not harness_ok:
        corr_broken.append({'what': 'harness or driver did not build', 'detail': state.get('harness_err', '')[-500:] + state.get('drv_err', '')[-500:]})
    runs = []
    if harness_ok and oracle is not None:
        if replay:
            rp = json.load(open(replay))
            case = os.path.join(work, 'replay.case')
            open(case, 'w').write('\n'.join(rp.get('schema', []) + rp.get('ops', [])) + '\n')
            runs.append(('replay', run_case_file(case, with_ref=P.get('ref', False))))
        else:
            # regression corpus first
            cdir = os.path.join(VERIF, 'corpus', 'regress')
            if os.path.isdir(cdir):
                for f in sorted(os.listdir(cdir)):
                    if f.endswith('.case') and (pid in f.split('_')[0] or f.startswith('all')):
                        runs.append(('corpus:' + f, run_case_file(os.path.join(cdir, f), with_ref=P.get('ref', False))))
            # the fixed input of every recorded finding of this property (known_findings.json): a failure there is
            # reported as KNOWN-FINDING while it stays open, and as a VIOLATION again if a fixed one returns
            fdir = os.path.join(VERIF, 'corpus', 'findings')
            if os.path.isdir(fdir):
                for f in sorted(os.listdir(fdir)):
                    if f.endswith('_%s.case' % pid):
                        runs.append(('finding:' + f.split('_')[0], run_case_file(os.path.join(fdir, f), with_ref=P.get('ref', False))))
            for kind, nq, nt, extra in P['cases']:
                n = nq if tier == 'quick' else nt
                seeds = [seed] if tier == 'quick' else [seed, seed + 1000, seed + 2000]
                for s in seeds:
                    runs.append(('%s/%d' % (kind, s), run_cases(pid, kind, s, n, extra, work, with_ref=P.get('ref', False))))
    for label, res in runs:
        lf = None
        if label.startswith('leaf') and P.get('leaf_filter'):
            pats = P['leaf_filter']
            lf = lambda l, pats=pats: (not l.startswith('leaf ')) or any(p in l.split()[1] for p in pats)
        diffs = diff_outputs(res, lf)
        nl = sum(1 for l in res['lines'] if l and not l.startswith(('#', 'schema', 'msg ', 'f ')) and (lf is None or lf(l)))
        cov['evaluations'] += nl
        cov['per_kind'][label] = {'ops': nl, 'model_vs_impl_differences': len(diffs)}
        o = oracle(res, lf)
        cov['per_kind'][label].update(o.get('stats', {}))
        for k in o.get('distinct', []):
            distinct.add(k)
        if not cov['samples'] and o.get('samples'):
            cov['samples'] = o['samples'][:3]
        for idx, what in o.get('failures', [])[:5]:
            payload = {'property': pid, 'kind': 'direct-oracle', 'what': what, 'seed': seed, 'label': label,
                       'schema': schema_block_for(res['lines'], idx), 'ops': [res['lines'][idx]],
                       'impl_output': res['impl'][idx] if idx < len(res['impl']) else None,
                       'model_output': res['model'][idx] if idx < len(res['model']) else None}
            violations.append((what, payload))
        for idx in ([] if label.startswith('finding:') else diffs[:5]):     # (a finding's fixed input differs from the model by definition)
            corr_broken.append({'what': 'model and implementation disagree', 'label': label,
                                'schema': schema_block_for(res['lines'], idx), 'ops': [res['lines'][idx]],
                                'impl_output': (res['impl'][idx] if idx < len(res['impl']) else None),
                                'model_output': (res['model'][idx] if idx < len(res['model']) else None)})
    # ---- generator phase (C12, C13, C15, C20): real plugin output vs the Lean generator model -------------
    if P.get('gen') and harness_ok:
        import gencheck
        if state.get('plugin_rc', 1) != 0:
            corr_broken.append({'what': 'protoc-gen-c did not build from /repo', 'detail': state.get('plugin_err', '')[-800:]})
            violations.append(('the code generator does not build', {'property': pid, 'kind': 'generator', 'what': 'the code generator does not build',
                               'label': 'plugin', 'ops': [], 'schema': [], 'detail': state.get('plugin_err', '')[-800:]}))
        else:
            n = P['gen'][0] if tier == 'quick' else P['gen'][1]
            only = None
            fnd = GEN_FINDINGS.get(pid, ())
            if replay:
                rp = json.load(open(replay))
                if rp.get('finding'):
                    fnd, n = (rp['finding'],), 0
                elif rp.get('gen_seed'):
                    only, fnd = tuple(rp['gen_seed']), ()
                elif rp.get('gen_corpus'):
                    fnd, n = (), 0
            gruns = gencheck.run_all(seed, n, os.path.join(work, 'gen'), only=only, findings=fnd)
            gstat = {'file_sets': len(gruns), 'ops': 0, 'model_vs_generated_differences': 0, 'stages_failed': 0,
                     'messages': 0, 'enums': 0, 'services': 0, 'nested': 0, 'with_import': 0, 'code_size': 0, 'options_used': 0}
            for gr in gruns:
                ev_ = gencheck.evaluate(pid, gr)
                PF = gr['P']
                gstat['ops'] += ev_['nops']
                gstat['messages'] += len(PF.sch.msgs); gstat['enums'] += len(PF.enums); gstat['services'] += len(PF.services)
                gstat['nested'] += sum(1 for v in PF.parent.values() if v is not None)
                gstat['with_import'] += 1 if 'dep.proto' in gr['proto'] else 0
                gstat['code_size'] += 1 if PF.code_size(0) else 0
                gstat['options_used'] += len(PF.file_opts[0]) + sum(len(v) for v in PF.msg_opts.values()) + len(PF.fopt)
                cov['evaluations'] += ev_['nops']
                for k in ev_['distinct']:
                    distinct.add(('gen',) + k)
                gs = gr['label'].split('/')
                if gr['label'].startswith('finding:'):
                    ident = {'finding': gr['label'].split(':', 1)[1]}
                elif gr['label'].startswith('corpus:'):
                    ident = {'gen_corpus': gr['label'].split(':', 1)[1]}
                else:
                    ident = {'gen_seed': [int(gs[1]), int(gs[2])]}
                for idx, what in ev_['failures'][:4]:
                    gstat['stages_failed'] += 1 if idx is None else 0
                    payload = dict(ident, property=pid, kind='generator', what=what, seed=seed, label=gr['label'], proto=gr['proto'], schema=[],
                                   ops=[gr['lines'][idx]] if idx is not None else [],
                                   impl_output=gr['impl'][idx] if idx is not None and idx < len(gr['impl']) else None,
                                   model_output=gr['model'][idx] if idx is not None and idx < len(gr['model']) else None)
                    violations.append((what, payload))
                if not gr['label'].startswith('finding:'):
                    gstat['model_vs_generated_differences'] += len(ev_['diffs'])
                    for idx, op in ev_['diffs'][:3]:
                        corr_broken.append(dict(ident, what='Lean generator/runtime model and generated code disagree (%s)' % op, label=gr['label'],
                                                proto=gr['proto'], schema=[], ops=[gr['lines'][idx]],
                                                impl_output=gr['impl'][idx] if idx < len(gr['impl']) else None,
                                                model_output=gr['model'][idx + 1 if op == 'initdump' else idx] if idx < len(gr['model']) else None))
                if not cov['samples'] and gr['lines']:
                    k0 = next((i for i, l in enumerate(gr['lines']) if l.split(' ', 1)[0] in gencheck.OPS[pid]), None)
                    if k0 is not None:
                        cov['samples'] = [{'op': gr['lines'][k0][:300], 'impl': gr['impl'][k0][:300] if k0 < len(gr['impl']) else ''}]
            cov['per_kind']['generator'] = gstat
    # ---- build-variant comparison (C16) ------------------------------------------------------------
    if P.get('variants') and harness_ok:
        env = dict(os.environ, ASAN_OPTIONS='detect_leaks=1', UBSAN_OPTIONS='print_stacktrace=0')
        cov['variants'] = {}
        for vname in P['variants']:
            vb = os.path.join(BUILD, 'harness_' + vname)
            if not os.path.exists(vb):
                corr_broken.append({'what': 'build variant %s did not compile' % vname, 'detail': state.get('variants', {}).get(vname, {}).get('err', '')})
                continue
            nd = 0
            for label, res in runs:
                rv = run([vb, res['case']], env=env)
                outv = rv.stdout.split('\n')
                for idx, l in enumerate(res['lines']):
                    if not l or l.startswith(('#', 'schema', 'msg ', 'f ')):
                        continue
                    a = res['impl'][idx] if idx < len(res['impl']) else '<missing>'
                    b = outv[idx] if idx < len(outv) else '<missing>'
                    # the granularity of append() calls is not observable behaviour in C16's sense (the
                    # portable path streams fixed-width elements one by one): compare bytes, not chunking
                    a = re.sub(r' chunks=\S*', '', a)
                    b = re.sub(r' chunks=\S*', '', b)
                    if a != b:
                        nd += 1
                        if nd <= 2:
                            violations.append(('build variant %s behaves differently from the default build' % vname,
                                               {'property': pid, 'kind': 'variant', 'variant': vname, 'seed': seed, 'label': label,
                                                'schema': schema_block_for(res['lines'], idx), 'ops': [l], 'impl_output': a, 'variant_output': b,
                                                'what': 'build variant %s behaves differently from the default build' % vname}))
            cov['variants'][vname] = {'differences': nd}
    # ---- C16: the gen_init_helpers option (generated initialiser vs the runtime's generic one) must not change behaviour ----
    if P.get('variants') and harness_ok:
        nd, nops = 0, 0
        hb = os.path.join(BUILD, 'harness_asan')
        env = dict(os.environ, ASAN_OPTIONS='detect_leaks=0', UBSAN_OPTIONS='print_stacktrace=0')
        for label, res in runs:
            if not os.path.exists(res.get('case', '')):
                continue
            twin = res['case'] + '.inittwin'
            tl = []
            L_ = res['lines']
            for k_, l in enumerate(L_):
                t = l.split(' ')
                if t[0] == 'msg' and len(t) >= 6 and t[4] in ('0', '1'):
                    # a field whose generated initialiser stores something other than the declared default (an enum without
                    # [default] whose first declared value is not 0) is known finding F17 (C12): not flipped here
                    nf_ = int(t[3])
                    if all(x.split(' ')[-1] == '-' for x in L_[k_ + 1:k_ + 1 + nf_] if x.startswith('f ')):
                        t[4] = '1' if t[4] == '0' else '0'
                        l = ' '.join(t)
                tl.append(l)
            open(twin, 'w').write('\n'.join(tl) + '\n')
            rv = run([hb, twin], env=env)
            outv = rv.stdout.split('\n')
            for idx, l in enumerate(res['lines']):
                if not l or l.split(' ', 1)[0] not in ('unpack', 'acc', 'pack', 'rt', 'check', 'init'):
                    continue
                nops += 1
                a_ = res['impl'][idx] if idx < len(res['impl']) else '<missing>'
                b_ = outv[idx] if idx < len(outv) else '<missing>'
                if a_ != b_:
                    nd += 1
                    if nd <= 2:
                        what = 'the same schema with the other initialiser (gen_init_helpers on/off) behaves differently'
                        violations.append((what, {'property': pid, 'kind': 'variant', 'variant': 'inittwin', 'seed': seed, 'label': label,
                                                  'schema': schema_block_for(res['lines'], idx), 'ops': [l], 'impl_output': a_, 'variant_output': b_,
                                                  'what': what}))
            try:
                os.remove(twin)
            except OSError:
                pass
        cov['variants']['inittwin'] = {'differences': nd, 'ops': nops}
        cov['evaluations'] += nops
    # ---- threads (C17) ----------------------------------------------------------------------------------
    if P.get('threads') and harness_ok:
        cov['threads'] = {}
        for label, res in runs:
            if not label.startswith('mt'):
                continue
            mt = os.path.join(BUILD, 'harness_mt')
            ts = os.path.join(BUILD, 'harness_tsan')
            seq = run([mt, res['case'], '1'])
            par = run([mt, res['case'], str(P['threads'])])
            dseq = re.findall(r'digest=(\w+)', seq.stdout)
            dpar = re.findall(r'digest=(\w+)', par.stdout)
            okd = len(dseq) == 1 and len(dpar) == P['threads'] and all(d == dseq[0] for d in dpar)
            cov['threads'][label] = {'threads': P['threads'], 'sequential_digest': dseq[:1], 'all_equal': okd,
                                     'inputs': re.findall(r'inputs=(\d+)', par.stdout)[:1]}
            cov['evaluations'] += len(dpar)
            for d in set(dpar):
                distinct.add(('digest', label, d))
            distinct.add(('mtcase', label))
            if not okd:
                violations.append(('a thread obtained a different result than the same workload run alone',
                                   {'property': pid, 'kind': 'threads', 'seed': seed, 'label': label, 'ops': [], 'schema': [],
                                    'sequential': dseq, 'parallel': dpar, 'what': 'per-thread digests differ from the sequential run', 'case_file': res['case']}))
            if os.path.exists(ts):
                rt = run([ts, res['case'], str(P['threads'])], env=dict(os.environ, TSAN_OPTIONS='halt_on_error=0 exitcode=66'))
                races = rt.stderr.count('WARNING: ThreadSanitizer')
                cov['threads'][label]['tsan_reports'] = races
                if races or rt.returncode == 66:
                    violations.append(('ThreadSanitizer reports a data race in the library under concurrent use on separate messages',
                                       {'property': pid, 'kind': 'threads', 'seed': seed, 'label': label, 'ops': [], 'schema': [],
                                        'what': 'data race', 'tsan': rt.stderr[-1500:], 'case_file': res['case']}))
    cov['distinct_nontrivial'] = len(distinct)

    # ---- 5. verdict ---------------------------------------------------------------------------
    known = load_known()
    printed = []
    real = []
    for what, payload in violations:
        k = oracles.match_known(known, pid, what, payload)
        if k:
            msg = 'KNOWN-FINDING: property=%s %s' % (pid, k['what'])
            if msg not in printed:
                print(msg)
                printed.append(msg)
        else:
            real.append((what, payload))
    rc = 0
    if real:
        what, payload = real[0]
        p = write_replay(pid, seed, 0, payload)
        print('VIOLATION property=%s replay=%s' % (pid, p))
        rc = 1
    elif undischarged or corr_broken:
        payload = {'property': pid, 'kind': 'obligation-or-correspondence', 'seed': seed,
                   'undischarged': undischarged, 'correspondence': corr_broken[:5],
                   'note': 'no input on which the property itself fails was found by the direct oracle in this run'}
        if corr_broken and corr_broken[0].get('ops'):
            payload['schema'] = corr_broken[0].get('schema', [])
            payload['ops'] = corr_broken[0]['ops']
        p = write_replay(pid, seed, 1, payload)
        print('VIOLATION property=%s replay=%s no-failing-input-found' % (pid, p))
        rc = 1

    ev = {
        'property_id': pid, 'tier': tier, 'seed': seed, 'level': 'proof',
        'coverage': {
            'obligations': len(obligations), 'discharged': len(discharged),
            'checker_cmd': 'cd /verif/lean && lake build %s && lake env lean <#print axioms on each obligation>' % ' '.join(P['modules'] + (['Pbc.Refine.Leaves'] if P['refine'] else [])),
            'leanchecker': rechecked,
            'trusted_base': ['Lean 4.33.0 kernel', 'axioms: propext, Quot.sound, Classical.choice',
                             'bv_decide native axioms (Refine theorems only): %d distinct' % len(set(native_axioms)),
                             'tools/c2lean.py (C->Lean translation of leaf functions via clang-14 AST)',
                             'hand-written L2 model tied by the correspondence run below',
                             'gcc 12 + ASan/UBSan harness; little-endian LP64 host'],
            'obligation_list': obligations,
            'undischarged': undischarged,
            'native_axioms': sorted(set(native_axioms)),
            'evaluations': cov['evaluations'], 'distinct_nontrivial': cov['distinct_nontrivial'],
            'rule': oracles.RULES.get(P['oracle'], ''),
            'samples': cov['samples'] or ['(no correspondence run)'],
            'traces_validated_against_impl': cov['evaluations'],
            'per_kind': cov['per_kind'],
            'variants': cov.get('variants', {}),
            'threads': cov.get('threads', {}),
            'correspondence_disagreements': len(corr_broken),
        },
        'assumptions': ['little-endian LP64 host, sizeof(int)=4', 'encoded sizes < 2^31',
                        'the L2 model is hand-written; its tie to the C code is the differential run, not a proof'],
        'wall_s': round(time.time() - t0, 2),
        'violations': len(real) + (1 if (rc == 1 and not real) else 0),
    }
    os.makedirs(os.path.join(VERIF, 'evidence'), exist_ok=True)
    json.dump(ev, open(os.path.join(VERIF, 'evidence', pid + '.json'), 'w'), indent=1)
    log('%s tier=%s seed=%d obligations=%d/%d evaluations=%d rc=%d wall=%.1fs' % (pid, tier, seed, len(discharged), len(obligations), cov['evaluations'], rc, time.time() - t0))
    sys.exit(rc)


if __name__ == '__main__':
    main()
