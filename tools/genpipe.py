#!/usr/bin/env python3
"""
genpipe.py -- the generator side of the tie (DESIGN.md 4.1 "generated descriptors"):
   schema (pbgen.Schema [+ services, options])  ->  .proto text  ->  protoc + the protoc-gen-c built from /repo
   ->  generated .pb-c.[ch]  ->  compiled together with harness/pbc_harness.c in -DPBCV_GEN mode
so that every harness operation (pack / unpack / rt / acc / check / init / desc / initdump / svc / lookup ...) runs on the
REAL generated descriptors, struct layout and init functions.  Also: the independent expectation of what the
descriptors must contain (`expected_desc`), computed from the schema by the rules of the .proto language, and a probe
that re-derives every offset with offsetof() on the member names predicted here.
"""
import os, subprocess, struct, re, shutil, json
import pbgen
from pbgen import *

HERE = os.path.dirname(os.path.abspath(__file__))
VERIF = os.path.dirname(HERE)
REPO = os.environ.get('PBC_REPO', '/repo')
BUILD = os.path.join(VERIF, 'build')

PROTO_TYPES = ['int32', 'sint32', 'sfixed32', 'int64', 'sint64', 'sfixed64', 'uint32', 'fixed32', 'uint64', 'fixed64',
               'float', 'double', 'bool', 'E', 'string', 'bytes', None]
C_TYPES = ['int32_t', 'int32_t', 'int32_t', 'int64_t', 'int64_t', 'int64_t', 'uint32_t', 'uint32_t', 'uint64_t', 'uint64_t',
           'float', 'double', 'protobuf_c_boolean', None, 'char *', 'ProtobufCBinaryData', None]


# ---- name mangling, re-implemented from the documented conventions (compared with the generator's output) ----
def camel_to_lower(name):
    rv, was_upper = '', True
    for ch in name:
        up = ch.isupper()
        if up:
            if not was_upper:
                rv += '_'
            rv += ch.lower()
        else:
            rv += ch
        was_upper = up
    return rv


def camel_to_upper(name):
    rv, was_upper = '', True
    for ch in name:
        up = ch.isupper()
        if up:
            if not was_upper:
                rv += '_'
            rv += ch
        else:
            rv += ch.upper()
        was_upper = up
    return rv


def to_camel(name):
    rv, nxt = '', True
    for ch in name:
        if ch == '_':
            nxt = True
        elif nxt:
            rv += ch.upper()
            nxt = False
        else:
            rv += ch
    return rv


def full_lower(full):
    return '__'.join(camel_to_lower(p) for p in full.split('.') if p)


def full_upper(full):
    return '__'.join(camel_to_upper(p) for p in full.split('.') if p)


def full_c(full):
    return '__'.join(to_camel(p) for p in full.split('.') if p)


C_KEYWORDS = set('alignas alignof char16_t char32_t constexpr decltype export noexcept nullptr restrict static_assert thread_local and and_eq asm auto bitand bitor bool break case catch char class compl const const_cast continue default '
                 'delete do double dynamic_cast else enum explicit extern false float for friend goto if inline int long '
                 'mutable namespace new not not_eq operator or or_eq private protected public register reinterpret_cast '
                 'return short signed sizeof static static_cast struct switch template this throw true try typedef typeid '
                 'typename union unsigned using virtual void volatile wchar_t while xor xor_eq'.split())


def field_member_name(f):
    n = f.name.lower()
    return n + '_' if n in C_KEYWORDS else n


# ---- .proto text ---------------------------------------------------------------------------------------------------
def float_lit(bits, w):
    if w == 32:
        x = struct.unpack('<f', struct.pack('<I', bits & 0xffffffff))[0]
        if x != x:
            return 'nan'
        if x in (float('inf'), float('-inf')):
            return 'inf' if x > 0 else '-inf'
        return '%.9g' % x
    x = struct.unpack('<d', struct.pack('<Q', bits & 0xffffffffffffffff))[0]
    if x != x:
        return 'nan'
    if x in (float('inf'), float('-inf')):
        return 'inf' if x > 0 else '-inf'
    return repr(x)


def proto_escape(b):
    return ''.join('\\%03o' % c for c in b)


def enum_name(v):
    v &= 0xffffffff
    sv = v - (1 << 32) if v >> 31 else v
    return 'E_%d' % pbgen.ENUM_VALUES.index(sv)


def default_lit(f):
    k, v = f.dflt
    t = f.type
    if k == 'S':
        return '"%s"' % proto_escape(v)
    if k == 'B':
        return '"%s"' % proto_escape(v)
    if t == T_BOOL:
        return 'true' if v else 'false'
    if t == T_ENUM:
        return enum_name(v)
    if t == T_FLOAT:
        return float_lit(v, 32)
    if t == T_DOUBLE:
        return float_lit(v, 64)
    if t in (T_INT32, T_SINT32, T_SFIXED32):
        v &= 0xffffffff
        return str(v - (1 << 32) if v >> 31 else v)
    if t in (T_INT64, T_SINT64, T_SFIXED64):
        v &= 0xffffffffffffffff
        return str(v - (1 << 64) if v >> 63 else v)
    return str(v)


def proto_text(sch, services=None, file_opts=None, msg_opts=None, pkg='t'):
    """services: [(name, [(method, in_msg_idx, out_msg_idx)])]; file_opts / msg_opts: raw option lines"""
    L = ['syntax = "proto%d";' % sch.syntax, 'package %s;' % pkg, 'import "protobuf-c/protobuf-c.proto";']
    for o in file_opts or []:
        L.append('option %s;' % o)
    L.append('enum E {')
    if sch.syntax == 3 or True:
        pass
    for i, v in enumerate(pbgen.ENUM_VALUES):
        L.append('  E_%d = %d;' % (i, v))
    L.append('}')
    for mi, m in enumerate(sch.msgs):
        L.append('message %s {' % m.name)
        for o in (msg_opts or {}).get(mi, []):
            L.append('  option %s;' % o)
        if m.initmode == 1:
            L.append('  option (pb_c_msg).gen_init_helpers = false;')

        def fline(f, in_oneof):
            t = PROTO_TYPES[f.type] if f.type != T_MESSAGE else sch.msgs[f.sub].name
            lab = ''
            if not in_oneof:
                if f.label == L_REQ:
                    lab = 'required '
                elif f.label == L_REP:
                    lab = 'repeated '
                elif f.label == L_OPT:
                    lab = 'optional '
            opts = []
            if f.label == L_REP and f.type in PACKABLE:
                opts.append('packed = %s' % ('true' if f.packed else 'false'))
            if f.dflt is not None and f.dflt[0] != 'E':
                opts.append('default = %s' % default_lit(f))
            return '  %s%s %s = %d%s;' % (lab, t, f.name, f.id, (' [' + ', '.join(opts) + ']') if opts else '')
        for f in m.fields:
            if not f.oneof:
                L.append(fline(f, False))
        for g in range(m.ngroups):
            L.append('  oneof g%d {' % g)
            for f in m.fields:
                if f.group == g:
                    L.append('  ' + fline(f, True))
            L.append('  }')
        L.append('}')
    for sname, methods in services or []:
        L.append('service %s {' % sname)
        for mn, a, b in methods:
            L.append('  rpc %s (%s) returns (%s);' % (mn, sch.msgs[a].name, sch.msgs[b].name))
        L.append('}')
    return '\n'.join(L) + '\n'


# ---- what the descriptors must say (from the schema alone) ---------------------------------------------------------
def expected_desc(sch, ty, pkg='t', code_size=False, gen_init=True):
    m = sch.msgs[ty]
    full = pkg + '.' + m.name
    fields = []
    for f in m.fields:
        if f.dflt is None:
            d = '-'
        elif f.dflt[0] == 'E':
            d = 'E'
        elif f.dflt[0] == 'V':
            v = f.dflt[1]
            if f.type == T_BOOL:
                v = 1 if v else 0
            d = 'V%x' % (v & (0xffffffff if f.type in IS32 else 0xffffffffffffffff))
        else:
            d = f.dflt[0] + bytes(f.dflt[1]).hex()
        fields.append('%s:%d:%d:%d:%d:%d:%d:%s' % ('(null)' if code_size else f.name, f.id, f.label, f.type, f.flags, 1 if f.has_q else 0,
                                                   f.sub if f.type == T_MESSAGE else -1, d))
    order = sorted(range(len(m.fields)), key=lambda i: m.fields[i].name.encode())
    ids = [f.id for f in m.fields]
    ranges = []
    for i, v in enumerate(ids):
        if i == 0 or v != ids[i - 1] + 1:
            ranges.append((v, i))
    rtxt = ','.join('%d:%d' % r for r in ranges + ([(0, len(ids))] if ids else []))
    if code_size:
        names = 'name=(null) short=(null) cname=(null) pkg=(null)'
        byname = ','.join('0' for _ in m.fields)
    else:
        names = 'name=%s short=%s cname=%s pkg=%s' % (full, to_camel(m.name), full_c(full), pkg)
        byname = ','.join(str(i) for i in order)
    return 'magic=1 %s nf=%d init=%d fields=%s byname=%s ranges=%s layout_ok=1' % (
        names, len(m.fields), 1 if (gen_init and m.initmode == 0) else 0, ','.join(fields), byname, rtxt)


# ---- building ------------------------------------------------------------------------------------------------------
def build_plugin(force=False):
    pdir = os.path.join(BUILD, 'plugin')
    os.makedirs(pdir, exist_ok=True)
    out = os.path.join(pdir, 'protoc-gen-c')
    srcs = sorted(os.path.join(REPO, 'protoc-gen-c', f) for f in os.listdir(os.path.join(REPO, 'protoc-gen-c')) if f.endswith('.cc'))
    srcs.append(os.path.join(REPO, 'protobuf-c', 'protobuf-c.pb.cc'))
    import hashlib
    h = hashlib.sha256()
    for s in srcs + sorted(os.path.join(REPO, 'protoc-gen-c', f) for f in os.listdir(os.path.join(REPO, 'protoc-gen-c')) if f.endswith('.h')):
        h.update(open(s, 'rb').read())
    stamp = os.path.join(pdir, 'stamp')
    if not force and os.path.exists(out) and os.path.exists(stamp) and open(stamp).read() == h.hexdigest():
        return out, ''
    procs = []
    for s in srcs:
        o = os.path.join(pdir, os.path.basename(s)[:-3] + '.o')
        procs.append(subprocess.Popen(['g++', '-std=c++17', '-O0', '-c', '-I' + REPO, '-I' + os.path.join(REPO, 'protobuf-c'),
                                       '-I' + os.path.join(REPO, 'protoc-gen-c'), '-DPACKAGE_VERSION="x"', '-DPACKAGE_STRING="x"',
                                       '-DHAVE_CONFIG_H', s, '-o', o], stderr=subprocess.PIPE))
    err = b''
    for p in procs:
        _, e = p.communicate()
        if p.returncode != 0:
            err += e[-1500:]
    if err:
        if os.path.exists(out):
            os.remove(out)
        return None, err.decode('utf-8', 'replace')
    objs = [os.path.join(pdir, os.path.basename(s)[:-3] + '.o') for s in srcs]
    libs = subprocess.check_output(['pkg-config', '--libs', 'protobuf'], text=True).split()
    r = subprocess.run(['g++'] + objs + ['-o', out] + libs + ['-lprotoc'], stderr=subprocess.PIPE)
    if r.returncode != 0:
        return None, r.stderr.decode('utf-8', 'replace')[-1500:]
    open(stamp, 'w').write(h.hexdigest())
    return out, ''


# ---- PFile pipeline (tools/protogen.py) ------------------------------------------------------------------------------
def lc_name(P, full, fi):
    return full_lower(P.override(full, fi))


def uc_name(P, full, fi):
    return full_upper(P.override(full, fi))


def c_name(P, full, fi):
    return full_c(P.override(full, fi))


def scan_api(header_text, lc):
    def has(fn):
        return re.search(r'(?<![A-Za-z0-9_])%s__%s\s*\(' % (re.escape(lc), fn), header_text) is not None
    pack = [has(x) for x in ('get_packed_size', 'pack', 'pack_to_buffer', 'unpack', 'free_unpacked')]
    return pack, has('init')


def pfile_tables(P, headers):
    """gen_table.inc / gen_svc.inc for harness/pbc_harness.c -DPBCV_GEN, from a protogen.PFile and the generated headers"""
    sch = P.sch
    L = ['#include "case.pb-c.h"', 'static const ProtobufCMessageDescriptor *pbcv_gen_msgs[] = {']
    for mi in range(len(sch.msgs)):
        L.append('  &%s__descriptor,' % lc_name(P, P.msg_full(mi), P.infile[mi]))
    L.append('};')
    for mi in range(len(sch.msgs)):
        fi = P.infile[mi]
        L.append('static %s pbcv_init_obj%d = %s__INIT;' % (c_name(P, P.msg_full(mi), fi), mi, uc_name(P, P.msg_full(mi), fi)))
    L.append('static const void *pbcv_gen_inits[] = {' + ', '.join('&pbcv_init_obj%d' % i for i in range(len(sch.msgs))) + '};')
    L.append('static const ProtobufCEnumDescriptor *pbcv_gen_enums[] = {')
    for ei, e in enumerate(P.enums):
        L.append('  &%s__descriptor,' % lc_name(P, P.enum_full(ei), e.infile))
    L.append('};')
    L.append('static const ProtobufCServiceDescriptor *pbcv_gen_svcs[] = {')
    for sname, methods in P.services:
        full = '.'.join(([P.pkg[0]] if P.pkg[0] else []) + [sname])
        L.append('  &%s__descriptor,' % lc_name(P, full, 0))
    L.append('  0 };')
    api, refs, partial = [], [], []
    alltext = '\n'.join(headers.values())
    for mi in range(len(sch.msgs)):
        lc = lc_name(P, P.msg_full(mi), P.infile[mi])
        pack, init = scan_api(alltext, lc)
        if any(pack) != all(pack):
            partial.append(lc)
        api.append('{%d, %d}' % (1 if all(pack) else 0, 1 if init else 0))
        if init:
            refs.append('(void *) %s__init' % lc)
        for ok, fn in zip(pack, ('get_packed_size', 'pack', 'pack_to_buffer', 'unpack', 'free_unpacked')):
            if ok:
                refs.append('(void *) %s__%s' % (lc, fn))
    L.append('static const int pbcv_api[][2] = {' + ', '.join(api) + '};')
    L.append('void *volatile pbcv_api_refs[] = {' + ', '.join(refs + ['(void *) 0']) + '};')
    table = '\n'.join(L) + '\n'
    pkg = P.pkg[0]
    L = ['static int pbcv_called; static const void *pbcv_a_in, *pbcv_a_cl, *pbcv_a_cd, *pbcv_a_svc; static int pbcv_destroyed;']
    body = ['static void op_svc(int which)', '{', '  int dummy_in, dummy_cd; (void) dummy_in; (void) dummy_cd; (void) pbcv_api_refs; (void) which;']
    for si, (sname, methods) in enumerate(P.services):
        full = '.'.join(([pkg] if pkg else []) + [sname])
        cn, lc, uc = c_name(P, full, 0), lc_name(P, full, 0), uc_name(P, full, 0)
        mtypes = lambda k: c_name(P, P.msg_full(k), P.infile[k])
        for k, (mn, a, b) in enumerate(methods):
            L.append('static void pbcv_h%d_%s(%s_Service *s, const %s *in, %s_Closure cl, void *cd) { pbcv_called = %d; pbcv_a_svc = s; pbcv_a_in = in; pbcv_a_cl = (const void *) cl; pbcv_a_cd = cd; }'
                     % (si, camel_to_lower(mn), cn, mtypes(a), mtypes(b), k))
        L.append('static %s_Service pbcv_svc%d = %s__INIT(pbcv_h%d_);' % (cn, si, uc, si))
        L.append('static void pbcv_destroy%d(%s_Service *s) { (void) s; pbcv_destroyed = %d + 1; }' % (si, cn, si))
        body.append('  if (which == %d) {' % si)
        body.append('    const ProtobufCServiceDescriptor *d = &%s__descriptor;' % lc)
        body.append('    unsigned k; %s_Service fresh;' % cn)
        body.append('    printf("magic=%d name=%s short=%s cname=%s pkg=%s n=%u methods=", d->magic == PROTOBUF_C__SERVICE_DESCRIPTOR_MAGIC, d->name ? d->name : "(null)", d->short_name ? d->short_name : "(null)", d->c_name ? d->c_name : "(null)", d->package ? d->package : "(null)", d->n_methods);')
        body.append('    for (k = 0; k < d->n_methods; k++) { int a_ = -1, b_ = -1, q; for (q = 0; q < g_nmsgs; q++) { if (g_msgs[q].dp == d->methods[k].input) a_ = q; if (g_msgs[q].dp == d->methods[k].output) b_ = q; } printf("%s%s:%d:%d", k ? "," : "", d->methods[k].name ? d->methods[k].name : "(null)", a_, b_); }')
        body.append('    printf(" byname="); if (d->method_indices_by_name) for (k = 0; k < d->n_methods; k++) printf("%s%u", k ? "," : "", d->method_indices_by_name[k]);')
        body.append('    printf(" calls=");')
        for k, (mn, a, b) in enumerate(methods):
            body.append('    pbcv_called = -1; %s__%s(&pbcv_svc%d.base, (const %s *) &dummy_in, (%s_Closure) op_svc, &dummy_cd);' % (lc, camel_to_lower(mn), si, mtypes(a), mtypes(b)))
            # ... and once more with a NULL closure and NULL closure data (a fire-and-forget call): the handler must be handed
            # exactly those (seeded change S131); the printed flag is the conjunction of both calls
            body.append('    { int c1 = pbcv_called, ok1 = pbcv_a_svc == (void *) &pbcv_svc%d && pbcv_a_in == (void *) &dummy_in && pbcv_a_cl == (const void *) op_svc && pbcv_a_cd == (void *) &dummy_cd;' % si)
            body.append('      pbcv_called = -1; pbcv_a_cl = (const void *) &dummy_in; pbcv_a_cd = &dummy_in; %s__%s(&pbcv_svc%d.base, (const %s *) &dummy_in, NULL, NULL);' % (lc, camel_to_lower(mn), si, mtypes(a)))
            body.append('      printf("%%s%%d:%%d", %s, c1, ok1 && pbcv_called == c1 && pbcv_a_svc == (void *) &pbcv_svc%d && pbcv_a_in == (void *) &dummy_in && pbcv_a_cl == NULL && pbcv_a_cd == NULL); }' % ('","' if k else '""', si))
        body.append('    memset(&fresh, 0x5a, sizeof fresh); %s__init(&fresh, pbcv_destroy%d);' % (lc, si))
        body.append('    { int cleared = 1; void **h = (void **) (&fresh.base + 1); for (k = 0; k < d->n_methods; k++) if (h[k]) cleared = 0;')
        # "initialising a service clears all handlers" whatever the object held before: a second initialisation of an
        # object in use, and the initialisation of a copy of a statically initialised (__INIT) service (seeded change S92)
        body.append('      for (k = 0; k < d->n_methods; k++) h[k] = (void *) op_svc;')
        body.append('      %s__init(&fresh, pbcv_destroy%d); for (k = 0; k < d->n_methods; k++) if (h[k]) cleared = 0;' % (lc, si))
        body.append('      fresh = pbcv_svc%d; %s__init(&fresh, pbcv_destroy%d); for (k = 0; k < d->n_methods; k++) if (h[k]) cleared = 0;' % (si, lc, si))
        body.append('      pbcv_destroyed = 0; protobuf_c_service_destroy(&fresh.base);')
        body.append('      printf(" init_desc=%%d init_invoke=%%d cleared=%%d destroyed=%%d\\n", fresh.base.descriptor == d, fresh.base.invoke == protobuf_c_service_invoke_internal, cleared, pbcv_destroyed == %d + 1); }' % si)
        body.append('    return;')
        body.append('  }')
    body.append('  printf("no-such-service\\n");')
    body.append('}')
    return table, '\n'.join(L + body) + '\n', partial


def pfile_probe(P):
    """offsetof() / type probe on the member names and C types predicted from the .proto (C13)"""
    import protogen
    sch = P.sch
    L = ['#include <stdio.h>', '#include <stddef.h>', '#include "case.pb-c.h"',
         '#define TYPE_IS(expr, T) _Static_assert(__builtin_types_compatible_p(__typeof__(expr), T), "member type")',
         'int main(void) { int bad = 0;']
    for mi, m in enumerate(sch.msgs):
        fi = P.infile[mi]
        cn = c_name(P, P.msg_full(mi), fi)
        lc = lc_name(P, P.msg_full(mi), fi)
        base = P.msg_opts.get(mi, {}).get('base_field_name', 'base')
        const_str = P.file_opts[fi].get('const_strings', False)
        L.append('  if (%s__descriptor.sizeof_message != sizeof(%s)) { printf("sizeof %s\\n"); bad++; }' % (lc, cn, cn))
        L.append('  if (offsetof(%s, %s) != 0) { printf("base %s\\n"); bad++; }' % (cn, base, cn))
        L.append('  TYPE_IS(((%s *) 0)->%s, ProtobufCMessage);' % (cn, base))
        for i, f in enumerate(m.fields):
            mem = field_member_name(f)
            L.append('  if (%s__descriptor.fields[%d].offset != offsetof(%s, %s)) { printf("offset %s.%s\\n"); bad++; }' % (lc, i, cn, mem, cn, mem))
            if f.oneof:
                q = camel_to_lower(P.oneof_names[(mi, f.group)]) + '_case'
            elif f.label == L_REP:
                q = 'n_' + mem
            elif f.has_q:
                q = 'has_' + mem
            else:
                q = None
            if q:
                L.append('  if (%s__descriptor.fields[%d].quantifier_offset != offsetof(%s, %s)) { printf("qoffset %s.%s\\n"); bad++; }' % (lc, i, cn, q, cn, q))
            else:
                L.append('  if (%s__descriptor.fields[%d].quantifier_offset != 0) { printf("qoffset0 %s.%s\\n"); bad++; }' % (lc, i, cn, mem))
            if f.type == T_MESSAGE:
                ct = c_name(P, P.msg_full(f.sub), P.infile[f.sub]) + ' *'
            elif f.type == T_ENUM:
                ei = P.field_enum[(mi, i)]
                ct = c_name(P, P.enum_full(ei), P.enums[ei].infile)
            elif f.type == T_STRING:
                ct = 'const char *' if const_str else 'char *'
            else:
                ct = C_TYPES[f.type]
            if f.label == L_REP:
                ct = ct + (' *' if not ct.endswith('*') else '*')
                L.append('  TYPE_IS(((%s *) 0)->n_%s, size_t);' % (cn, mem))
            if f.oneof:
                L.append('  { %s *p_ = 0; TYPE_IS(p_->%s, %s); (void) p_; }' % (cn, mem, ct))
            else:
                L.append('  TYPE_IS(((%s *) 0)->%s, %s);' % (cn, mem, ct))
            if q and q.startswith('has_'):
                L.append('  TYPE_IS(((%s *) 0)->%s, protobuf_c_boolean);' % (cn, q))
            if f.type == T_ENUM:
                ei = P.field_enum[(mi, i)]
                L.append('  if (%s__descriptor.fields[%d].descriptor != &%s__descriptor) { printf("enumdesc %s.%s\\n"); bad++; }'
                         % (lc, i, lc_name(P, P.enum_full(ei), P.enums[ei].infile), cn, mem))
    for ei, e in enumerate(P.enums):
        up = uc_name(P, P.enum_full(ei), e.infile)
        for nm, v in e.values:
            L.append('  if ((int) %s__%s != (%d)) { printf("enum constant %s\\n"); bad++; }' % (up, nm, v, nm))
    L.append('  printf("probe bad=%d\\n", bad); return bad != 0; }')
    return '\n'.join(L) + '\n'


def generate_pfile(P, workdir, plugin=None, sanitize=True, timeout=180, cxx=True, probe=True):
    """.proto -> protoc (twice) -> gen harness (+ C++ header check, + probe).  Returns a dict describing every stage."""
    import protogen
    shutil.rmtree(workdir, ignore_errors=True)
    os.makedirs(workdir, exist_ok=True)
    plugin = plugin or os.path.join(BUILD, 'plugin', 'protoc-gen-c')
    res = {'ok': False, 'stages': {}}
    texts = protogen.proto_texts(P)
    for name, t in texts.items():
        open(os.path.join(workdir, name), 'w').write(t)
    outs = []
    for rep in (0, 1):
        od = os.path.join(workdir, 'out%d' % rep)
        shutil.rmtree(od, ignore_errors=True)
        os.makedirs(od)
        r = subprocess.run(['protoc', '--plugin=protoc-gen-c=' + plugin, '--c_out=' + od, '-I' + workdir, '-I' + REPO] +
                           [os.path.join(workdir, n) for n in texts], stdout=subprocess.PIPE, stderr=subprocess.PIPE, timeout=timeout)
        if r.returncode != 0:
            res['stages']['protoc'] = {'rc': r.returncode, 'err': r.stderr.decode('utf-8', 'replace')[-1500:]}
            res['stage'] = 'protoc'
            return res
        outs.append({f: open(os.path.join(od, f), 'rb').read() for f in sorted(os.listdir(od))})
    res['stages']['protoc'] = {'rc': 0}
    res['deterministic'] = outs[0] == outs[1]
    res['files'] = sorted(outs[0])
    od = os.path.join(workdir, 'out0')
    headers = {f: outs[0][f].decode('utf-8', 'replace') for f in outs[0] if f.endswith('.h')}
    table, svc, partial = pfile_tables(P, headers)
    res['partial_api'] = partial
    open(os.path.join(workdir, 'gen_table.inc'), 'w').write(table)
    open(os.path.join(workdir, 'gen_svc.inc'), 'w').write(svc)
    csrcs = [os.path.join(od, f) for f in outs[0] if f.endswith('.c')]
    inc = ['-I' + workdir, '-I' + od, '-I' + REPO, '-I' + os.path.join(REPO, 'protobuf-c'), '-I' + BUILD]
    jobs = {}
    cc = ['gcc', '-O1', '-g', '-DPBCV_GEN', '-DPBC_SRC="%s"' % os.path.join(REPO, 'protobuf-c', 'protobuf-c.c')] + inc + \
         [os.path.join(VERIF, 'harness', 'pbc_harness.c')] + csrcs + ['-o', os.path.join(workdir, 'harness_gen')]
    if sanitize:
        cc[1:1] = ['-fsanitize=address,undefined', '-fno-sanitize-recover=all']
    jobs['cc'] = subprocess.Popen(cc, stdout=subprocess.PIPE, stderr=subprocess.PIPE)
    # the generated sources on their own, as strict C
    for src in csrcs:
        jobs['c:' + os.path.basename(src)] = subprocess.Popen(['gcc', '-std=c99', '-Wall', '-Werror=implicit-function-declaration', '-fsyntax-only'] + inc + [src],
                                                               stdout=subprocess.PIPE, stderr=subprocess.PIPE)
    if cxx:
        for h in headers:
            tu = os.path.join(workdir, 'cxx_%s.cc' % h.replace('.', '_').replace('-', '_'))
            open(tu, 'w').write('#include "%s"\nint main() { return 0; }\n' % h)
            jobs['cxx:' + h] = subprocess.Popen(['g++', '-std=c++17', '-fsyntax-only'] + inc + [tu], stdout=subprocess.PIPE, stderr=subprocess.PIPE)
    if probe:
        open(os.path.join(workdir, 'probe.c'), 'w').write(pfile_probe(P))
        jobs['probe'] = subprocess.Popen(['gcc', '-O0'] + inc + [os.path.join(workdir, 'probe.c')] + csrcs +
                                         [os.path.join(REPO, 'protobuf-c', 'protobuf-c.c'), '-o', os.path.join(workdir, 'probe')],
                                         stdout=subprocess.PIPE, stderr=subprocess.PIPE)
    ok = True
    for k, p in jobs.items():
        try:
            o, e = p.communicate(timeout=timeout)
        except subprocess.TimeoutExpired:
            p.kill()
            o, e = b'', b'timeout'
        res['stages'][k] = {'rc': p.returncode, 'err': e.decode('utf-8', 'replace')[-1800:] if p.returncode else ''}
        if p.returncode != 0:
            ok = False
            res.setdefault('stage', k)
    if probe and res['stages'].get('probe', {}).get('rc') == 0:
        r = subprocess.run([os.path.join(workdir, 'probe')], stdout=subprocess.PIPE, stderr=subprocess.PIPE, timeout=60)
        res['stages']['probe_run'] = {'rc': r.returncode, 'out': r.stdout.decode('utf-8', 'replace')[-800:]}
        if r.returncode != 0:
            ok = False
            res.setdefault('stage', 'probe_run')
    res['ok'] = ok
    res['harness'] = os.path.join(workdir, 'harness_gen')
    return res
