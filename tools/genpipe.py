#!/usr/bin/env python3
"""
genpipe.py -- the generator side of the tie (DESIGN.md 4.1 "generated descriptors"):
   schema (pbgen.Schema [+ services, options])  ->  .proto text  ->  protoc + the protoc-gen-c built from /repo
   ->  generated .pb-c.[ch]  ->  compiled together with harness/pbc_harness.c in -DPBCV_GEN mode
so that every harness operation (pack / unpack / rt / acc / check / init / desc / initdump / svc / lookup ...) runs on the
REAL generated descriptors, struct layout and init functions.  Also: the independent expectation of what the
descriptors must contain (`expected_desc`), computed from the schema by the rules of the .proto language, and a probe
that re-derives every offset with offsetof() on the member names predicted here.
"""
import os, subprocess, struct, re, shutil, json
import pbgen
from pbgen import *

HERE = os.path.dirname(os.path.abspath(__file__))
VERIF = os.path.dirname(HERE)
REPO = os.environ.get('PBC_REPO', '/repo')
BUILD = os.path.join(VERIF, 'build')

PROTO_TYPES = ['int32', 'sint32', 'sfixed32', 'int64', 'sint64', 'sfixed64', 'uint32', 'fixed32', 'uint64', 'fixed64',
               'float', 'double', 'bool', 'E', 'string', 'bytes', None]
C_TYPES = ['int32_t', 'int32_t', 'int32_t', 'int64_t', 'int64_t', 'int64_t', 'uint32_t', 'uint32_t', 'uint64_t', 'uint64_t',
           'float', 'double', 'protobuf_c_boolean', None, 'char *', 'ProtobufCBinaryData', None]


# ---- name mangling, re-implemented from the documented conventions (compared with the generator's output) ----
def camel_to_lower(name):
    rv, was_upper = '', True
    for ch in name:
        up = ch.isupper()
        if up:
            if not was_upper:
                rv += '_'
            rv += ch.lower()
        else:
            rv += ch
        was_upper = up
    return rv


def camel_to_upper(name):
    rv, was_upper = '', True
    for ch in name:
        up = ch.isupper()
        if up:
            if not was_upper:
                rv += '_'
            rv += ch
        else:
            rv += ch.upper()
        was_upper = up
    return rv


def to_camel(name):
    rv, nxt = '', True
    for ch in name:
        if ch == '_':
            nxt = True
        elif nxt:
            rv += ch.upper()
            nxt = False
        else:
            rv += ch
    return rv


def full_lower(full):
    return '__'.join(camel_to_lower(p) for p in full.split('.') if p)


def full_upper(full):
    return '__'.join(camel_to_upper(p) for p in full.split('.') if p)


def full_c(full):
    return '__'.join(to_camel(p) for p in full.split('.') if p)


C_KEYWORDS = set('and and_eq asm auto bitand bitor bool break case catch char class compl const const_cast continue default '
                 'delete do double dynamic_cast else enum explicit extern false float for friend goto if inline int long '
                 'mutable namespace new not not_eq operator or or_eq private protected public register reinterpret_cast '
                 'return short signed sizeof static static_cast struct switch template this throw true try typedef typeid '
                 'typename union unsigned using virtual void volatile wchar_t while xor xor_eq'.split())


def field_member_name(f):
    n = f.name.lower()
    return n + '_' if n in C_KEYWORDS else n


# ---- .proto text ---------------------------------------------------------------------------------------------------
def float_lit(bits, w):
    if w == 32:
        x = struct.unpack('<f', struct.pack('<I', bits & 0xffffffff))[0]
        if x != x:
            return 'nan'
        if x in (float('inf'), float('-inf')):
            return 'inf' if x > 0 else '-inf'
        return '%.9g' % x
    x = struct.unpack('<d', struct.pack('<Q', bits & 0xffffffffffffffff))[0]
    if x != x:
        return 'nan'
    if x in (float('inf'), float('-inf')):
        return 'inf' if x > 0 else '-inf'
    return repr(x)


def proto_escape(b):
    return ''.join('\\%03o' % c for c in b)


def enum_name(v):
    v &= 0xffffffff
    sv = v - (1 << 32) if v >> 31 else v
    return 'E_%d' % pbgen.ENUM_VALUES.index(sv)


def default_lit(f):
    k, v = f.dflt
    t = f.type
    if k == 'S':
        return '"%s"' % proto_escape(v)
    if k == 'B':
        return '"%s"' % proto_escape(v)
    if t == T_BOOL:
        return 'true' if v else 'false'
    if t == T_ENUM:
        return enum_name(v)
    if t == T_FLOAT:
        return float_lit(v, 32)
    if t == T_DOUBLE:
        return float_lit(v, 64)
    if t in (T_INT32, T_SINT32, T_SFIXED32):
        v &= 0xffffffff
        return str(v - (1 << 32) if v >> 31 else v)
    if t in (T_INT64, T_SINT64, T_SFIXED64):
        v &= 0xffffffffffffffff
        return str(v - (1 << 64) if v >> 63 else v)
    return str(v)


def proto_text(sch, services=None, file_opts=None, msg_opts=None, pkg='t'):
    """services: [(name, [(method, in_msg_idx, out_msg_idx)])]; file_opts / msg_opts: raw option lines"""
    L = ['syntax = "proto%d";' % sch.syntax, 'package %s;' % pkg, 'import "protobuf-c/protobuf-c.proto";']
    for o in file_opts or []:
        L.append('option %s;' % o)
    L.append('enum E {')
    if sch.syntax == 3 or True:
        pass
    for i, v in enumerate(pbgen.ENUM_VALUES):
        L.append('  E_%d = %d;' % (i, v))
    L.append('}')
    for mi, m in enumerate(sch.msgs):
        L.append('message %s {' % m.name)
        for o in (msg_opts or {}).get(mi, []):
            L.append('  option %s;' % o)
        if m.initmode == 1:
            L.append('  option (pb_c_msg).gen_init_helpers = false;')

        def fline(f, in_oneof):
            t = PROTO_TYPES[f.type] if f.type != T_MESSAGE else sch.msgs[f.sub].name
            lab = ''
            if not in_oneof:
                if f.label == L_REQ:
                    lab = 'required '
                elif f.label == L_REP:
                    lab = 'repeated '
                elif f.label == L_OPT:
                    lab = 'optional '
            opts = []
            if f.label == L_REP and f.type in PACKABLE:
                opts.append('packed = %s' % ('true' if f.packed else 'false'))
            if f.dflt is not None and f.dflt[0] != 'E':
                opts.append('default = %s' % default_lit(f))
            return '  %s%s %s = %d%s;' % (lab, t, f.name, f.id, (' [' + ', '.join(opts) + ']') if opts else '')
        for f in m.fields:
            if not f.oneof:
                L.append(fline(f, False))
        for g in range(m.ngroups):
            L.append('  oneof g%d {' % g)
            for f in m.fields:
                if f.group == g:
                    L.append('  ' + fline(f, True))
            L.append('  }')
        L.append('}')
    for sname, methods in services or []:
        L.append('service %s {' % sname)
        for mn, a, b in methods:
            L.append('  rpc %s (%s) returns (%s);' % (mn, sch.msgs[a].name, sch.msgs[b].name))
        L.append('}')
    return '\n'.join(L) + '\n'


# ---- what the descriptors must say (from the schema alone) ---------------------------------------------------------
def expected_desc(sch, ty, pkg='t', code_size=False, gen_init=True):
    m = sch.msgs[ty]
    full = pkg + '.' + m.name
    fields = []
    for f in m.fields:
        if f.dflt is None:
            d = '-'
        elif f.dflt[0] == 'E':
            d = 'E'
        elif f.dflt[0] == 'V':
            v = f.dflt[1]
            if f.type == T_BOOL:
                v = 1 if v else 0
            d = 'V%x' % (v & (0xffffffff if f.type in IS32 else 0xffffffffffffffff))
        else:
            d = f.dflt[0] + bytes(f.dflt[1]).hex()
        fields.append('%s:%d:%d:%d:%d:%d:%d:%s' % ('(null)' if code_size else f.name, f.id, f.label, f.type, f.flags, 1 if f.has_q else 0,
                                                   f.sub if f.type == T_MESSAGE else -1, d))
    order = sorted(range(len(m.fields)), key=lambda i: m.fields[i].name.encode())
    ids = [f.id for f in m.fields]
    ranges = []
    for i, v in enumerate(ids):
        if i == 0 or v != ids[i - 1] + 1:
            ranges.append((v, i))
    rtxt = ','.join('%d:%d' % r for r in ranges + ([(0, len(ids))] if ids else []))
    if code_size:
        names = 'name=(null) short=(null) cname=(null) pkg=(null)'
        byname = ','.join('0' for _ in m.fields)
    else:
        names = 'name=%s short=%s cname=%s pkg=%s' % (full, to_camel(m.name), full_c(full), pkg)
        byname = ','.join(str(i) for i in order)
    return 'magic=1 %s nf=%d init=%d fields=%s byname=%s ranges=%s layout_ok=1' % (
        names, len(m.fields), 1 if (gen_init and m.initmode == 0) else 0, ','.join(fields), byname, rtxt)


# ---- building ------------------------------------------------------------------------------------------------------
def build_plugin(force=False):
    pdir = os.path.join(BUILD, 'plugin')
    os.makedirs(pdir, exist_ok=True)
    out = os.path.join(pdir, 'protoc-gen-c')
    srcs = sorted(os.path.join(REPO, 'protoc-gen-c', f) for f in os.listdir(os.path.join(REPO, 'protoc-gen-c')) if f.endswith('.cc'))
    srcs.append(os.path.join(REPO, 'protobuf-c', 'protobuf-c.pb.cc'))
    import hashlib
    h = hashlib.sha256()
    for s in srcs + sorted(os.path.join(REPO, 'protoc-gen-c', f) for f in os.listdir(os.path.join(REPO, 'protoc-gen-c')) if f.endswith('.h')):
        h.update(open(s, 'rb').read())
    stamp = os.path.join(pdir, 'stamp')
    if not force and os.path.exists(out) and os.path.exists(stamp) and open(stamp).read() == h.hexdigest():
        return out, ''
    procs = []
    for s in srcs:
        o = os.path.join(pdir, os.path.basename(s)[:-3] + '.o')
        procs.append(subprocess.Popen(['g++', '-std=c++17', '-O0', '-c', '-I' + REPO, '-I' + os.path.join(REPO, 'protobuf-c'),
                                       '-I' + os.path.join(REPO, 'protoc-gen-c'), '-DPACKAGE_VERSION="x"', '-DPACKAGE_STRING="x"',
                                       '-DHAVE_CONFIG_H', s, '-o', o], stderr=subprocess.PIPE))
    err = b''
    for p in procs:
        _, e = p.communicate()
        if p.returncode != 0:
            err += e[-1500:]
    if err:
        if os.path.exists(out):
            os.remove(out)
        return None, err.decode('utf-8', 'replace')
    objs = [os.path.join(pdir, os.path.basename(s)[:-3] + '.o') for s in srcs]
    libs = subprocess.check_output(['pkg-config', '--libs', 'protobuf'], text=True).split()
    r = subprocess.run(['g++'] + objs + ['-o', out] + libs + ['-lprotoc'], stderr=subprocess.PIPE)
    if r.returncode != 0:
        return None, r.stderr.decode('utf-8', 'replace')[-1500:]
    open(stamp, 'w').write(h.hexdigest())
    return out, ''


def gen_table(sch, services, pkg='t'):
    """gen_table.inc: generated header, descriptor table, static INIT objects, service fixtures + op_svc"""
    L = ['#include "case.pb-c.h"', 'static const ProtobufCMessageDescriptor *pbcv_gen_msgs[] = {']
    for m in sch.msgs:
        L.append('  &%s__descriptor,' % full_lower(pkg + '.' + m.name))
    L.append('};')
    for i, m in enumerate(sch.msgs):
        L.append('static %s pbcv_init_obj%d = %s__INIT;' % (full_c(pkg + '.' + m.name), i, full_upper(pkg + '.' + m.name)))
    L.append('static const void *pbcv_gen_inits[] = {' + ', '.join('&pbcv_init_obj%d' % i for i in range(len(sch.msgs))) + '};')
    table = '\n'.join(L) + '\n'
    L = ['static int pbcv_called; static const void *pbcv_a_in, *pbcv_a_cl, *pbcv_a_cd, *pbcv_a_svc; static int pbcv_destroyed;']
    body = ['static void op_svc(void)', '{', '  int dummy_in, dummy_cd; (void) dummy_in; (void) dummy_cd;']
    for si, (sname, methods) in enumerate(services or []):
        cname = full_c(pkg + '.' + sname)
        lc = full_lower(pkg + '.' + sname)
        uc = full_upper(pkg + '.' + sname)
        for k, (mn, a, b) in enumerate(methods):
            L.append('static void pbcv_h%d_%s(%s_Service *s, const %s *in, %s_Closure cl, void *cd) { pbcv_called = %d; pbcv_a_svc = s; pbcv_a_in = in; pbcv_a_cl = (const void *) cl; pbcv_a_cd = cd; }'
                     % (si, camel_to_lower(mn), cname, full_c(pkg + '.' + sch.msgs[a].name), full_c(pkg + '.' + sch.msgs[b].name), k))
        L.append('static %s_Service pbcv_svc%d = %s__INIT(pbcv_h%d_);' % (cname, si, uc, si))
        L.append('static void pbcv_destroy%d(%s_Service *s) { (void) s; pbcv_destroyed = %d + 1; }' % (si, cname, si))
        body.append('  {')
        body.append('    const ProtobufCServiceDescriptor *d = &%s__descriptor;' % lc)
        body.append('    unsigned k; %s_Service fresh;' % cname)
        body.append('    printf("svc=%s magic=%%d name=%%s short=%%s cname=%%s pkg=%%s n=%%u methods=", d->magic == PROTOBUF_C__SERVICE_DESCRIPTOR_MAGIC, d->name, d->short_name, d->c_name, d->package, d->n_methods);' % sname)
        body.append('    for (k = 0; k < d->n_methods; k++) { int a_ = -1, b_ = -1, q; for (q = 0; q < g_nmsgs; q++) { if (g_msgs[q].dp == d->methods[k].input) a_ = q; if (g_msgs[q].dp == d->methods[k].output) b_ = q; } printf("%s%s:%d:%d", k ? "," : "", d->methods[k].name, a_, b_); }')
        body.append('    printf(" byname="); for (k = 0; k < d->n_methods; k++) printf("%s%u", k ? "," : "", d->method_indices_by_name[k]);')
        body.append('    printf(" calls=");')
        for k, (mn, a, b) in enumerate(methods):
            body.append('    pbcv_called = -1; %s__%s(&pbcv_svc%d.base, (const %s *) &dummy_in, (%s_Closure) op_svc, &dummy_cd);' % (lc, camel_to_lower(mn), si, full_c(pkg + '.' + sch.msgs[a].name), full_c(pkg + '.' + sch.msgs[b].name)))
            body.append('    printf("%%s%%d:%%d", %s, pbcv_called, pbcv_a_svc == (void *) &pbcv_svc%d && pbcv_a_in == (void *) &dummy_in && pbcv_a_cl == (const void *) op_svc && pbcv_a_cd == (void *) &dummy_cd);' % ('","' if k else '""', si))
        body.append('    memset(&fresh, 0x5a, sizeof fresh); %s__init(&fresh, pbcv_destroy%d);' % (lc, si))
        body.append('    { int cleared = 1; void **h = (void **) (&fresh.base + 1); for (k = 0; k < d->n_methods; k++) if (h[k]) cleared = 0;')
        body.append('      pbcv_destroyed = 0; protobuf_c_service_destroy(&fresh.base);')
        body.append('      printf(" init_desc=%%d init_invoke=%%d cleared=%%d destroyed=%%d", fresh.base.descriptor == d, fresh.base.invoke == protobuf_c_service_invoke_internal, cleared, pbcv_destroyed == %d + 1); }' % si)
        body.append('    printf(" ; ");')
        body.append('  }')
    body.append('  printf("\\n");')
    body.append('}')
    return table, '\n'.join(L + body) + '\n'


def probe_source(sch, pkg='t'):
    """offsetof() / type probe on the member names and C types predicted from the schema (C13)"""
    L = ['#include <stdio.h>', '#include <stddef.h>', '#include "case.pb-c.h"',
         '#define TYPE_IS(expr, T) _Static_assert(__builtin_types_compatible_p(__typeof__(expr), T), "member type")',
         'int main(void) { int bad = 0;']
    for m in sch.msgs:
        cn = full_c(pkg + '.' + m.name)
        lc = full_lower(pkg + '.' + m.name)
        L.append('  if (%s__descriptor.sizeof_message != sizeof(%s)) { printf("sizeof %s\\n"); bad++; }' % (lc, cn, cn))
        for i, f in enumerate(m.fields):
            mem = field_member_name(f)
            L.append('  if (%s__descriptor.fields[%d].offset != offsetof(%s, %s)) { printf("offset %s.%s\\n"); bad++; }' % (lc, i, cn, mem, cn, mem))
            if f.oneof:
                q = 'g%d_case' % f.group
            elif f.label == L_REP:
                q = 'n_' + mem
            elif f.has_q:
                q = 'has_' + mem
            else:
                q = None
            if q:
                L.append('  if (%s__descriptor.fields[%d].quantifier_offset != offsetof(%s, %s)) { printf("qoffset %s.%s\\n"); bad++; }' % (lc, i, cn, q, cn, q))
            else:
                L.append('  if (%s__descriptor.fields[%d].quantifier_offset != 0) { printf("qoffset0 %s.%s\\n"); bad++; }' % (lc, i, cn, mem))
            if f.type == T_MESSAGE:
                ct = full_c(pkg + '.' + sch.msgs[f.sub].name) + ' *'
            elif f.type == T_ENUM:
                ct = full_c(pkg + '.E')
            else:
                ct = C_TYPES[f.type]
            if f.label == L_REP:
                ct = ct + (' *' if not ct.endswith('*') else '*')
                L.append('  TYPE_IS(((%s *) 0)->n_%s, size_t);' % (cn, mem))
            L.append('  TYPE_IS(((%s *) 0)->%s, %s);' % (cn, mem, ct))
            if q and q.startswith('has_'):
                L.append('  TYPE_IS(((%s *) 0)->%s, protobuf_c_boolean);' % (cn, q))
    L.append('  printf("probe bad=%d\\n", bad); return bad != 0; }')
    return '\n'.join(L) + '\n'


def generate(sch, workdir, services=None, file_opts=None, msg_opts=None, plugin=None, sanitize=True, timeout=120):
    """returns dict(ok, stage, err, harness) -- harness = path of the gen-mode harness binary"""
    os.makedirs(workdir, exist_ok=True)
    plugin = plugin or os.path.join(BUILD, 'plugin', 'protoc-gen-c')
    open(os.path.join(workdir, 'case.proto'), 'w').write(proto_text(sch, services, file_opts, msg_opts))
    r = subprocess.run(['protoc', '--plugin=protoc-gen-c=' + plugin, '--c_out=' + workdir, '-I' + workdir, '-I' + REPO,
                        os.path.join(workdir, 'case.proto')], stdout=subprocess.PIPE, stderr=subprocess.PIPE, timeout=timeout)
    if r.returncode != 0:
        return {'ok': False, 'stage': 'protoc', 'err': r.stderr.decode('utf-8', 'replace')[-1500:], 'rc': r.returncode}
    table, svc = gen_table(sch, services)
    open(os.path.join(workdir, 'gen_table.inc'), 'w').write(table)
    open(os.path.join(workdir, 'gen_svc.inc'), 'w').write(svc)
    cc = ['gcc', '-O1', '-g', '-DPBCV_GEN', '-DPBC_SRC="%s"' % os.path.join(REPO, 'protobuf-c', 'protobuf-c.c'),
          '-I' + workdir, '-I' + REPO, '-I' + os.path.join(REPO, 'protobuf-c'), '-I' + BUILD,
          os.path.join(VERIF, 'harness', 'pbc_harness.c'), os.path.join(workdir, 'case.pb-c.c'), '-o', os.path.join(workdir, 'harness_gen')]
    if sanitize:
        cc[1:1] = ['-fsanitize=address,undefined', '-fno-sanitize-recover=all']
    r = subprocess.run(cc, stdout=subprocess.PIPE, stderr=subprocess.PIPE, timeout=timeout)
    if r.returncode != 0:
        return {'ok': False, 'stage': 'cc', 'err': r.stderr.decode('utf-8', 'replace')[-2500:], 'rc': r.returncode}
    return {'ok': True, 'harness': os.path.join(workdir, 'harness_gen'), 'warnings': r.stderr.decode('utf-8', 'replace')[-800:]}
