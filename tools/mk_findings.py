#!/usr/bin/env python3
"""
mk_findings.py -- writes corpus/findings/<Fid>_<property>.case: ONE fixed input per open entry of
known_findings.json, the specific input that identifies the finding.  tools/check.py runs these files
under the label `finding:<Fid>`; a failure there that matches the entry's regexes is printed as a
KNOWN-FINDING line, any other failure of the property is a VIOLATION.  (Run by hand; output committed.)
"""
import os, sys
sys.path.insert(0, os.path.dirname(os.path.abspath(__file__)))
from pbgen import *

OUT = os.path.join(os.path.dirname(os.path.abspath(__file__)), '..', 'corpus', 'findings')


def rec(num, wt, payload):
    if wt == 2:
        return enc_key(num, 2) + enc_varint(len(payload)) + payload
    return enc_key(num, wt) + payload


def write(name, sch, ty, wire, note):
    with open(os.path.join(OUT, name), 'w') as f:
        f.write('# %s\n' % note)
        f.write('\n'.join(sch.lines()) + '\n')
        f.write('unpack %d X%s\n' % (ty, wire.hex()))


# F15: required fields of an embedded message split over two occurrences
s = Schema([Msg('M0', [Field('f1', 1, L_OPT, T_MESSAGE, sub=1)]),
            Msg('M1', [Field('a', 1, L_REQ, T_INT32), Field('b', 2, L_REQ, T_INT32)])], 2)
write('F15_C10.case', s, 0, rec(1, 2, rec(1, 0, b'\x01')) + rec(1, 2, rec(2, 0, b'\x02')),
      'F15: f1{a=1} f1{b=2}; each occurrence lacks one required field, the merged message has both')

# F21: proto3 explicit zero in a later occurrence
s = Schema([Msg('M0', [Field('f1', 1, L_NONE, T_MESSAGE, sub=1)], syntax=3),
            Msg('M1', [Field('a', 1, L_NONE, T_INT32)], syntax=3)], 3)
write('F21_C10.case', s, 0, rec(1, 2, rec(1, 0, b'\x05')) + rec(1, 2, rec(1, 0, b'\x00')),
      'F21: f1{a=5} f1{a=0 written explicitly}: the reference yields a=0')

# F23: later occurrence switches the oneof away from and back to a message member
s = Schema([Msg('M0', [Field('f1', 1, L_OPT, T_MESSAGE, sub=1)]),
            Msg('M1', [Field('x', 1, L_OPT, T_INT32),
                       Field('m', 2, L_OPT, T_MESSAGE, flags=F_ONEOF, group=0, sub=1),
                       Field('s', 3, L_OPT, T_INT32, flags=F_ONEOF, group=0)], ngroups=1)], 2)
write('F23_C10.case', s, 0, rec(1, 2, rec(2, 2, rec(1, 0, b'\x07'))) + rec(1, 2, rec(3, 0, b'\x01') + rec(2, 2, b'')),
      'F23: f1{m{x=7}} f1{s=1 m{}}: s=1 clears m in the stream, so m is a fresh empty message for the reference')


# F8: unbounded recursion: 20000 nested sub-messages (74 KB) overflow the C stack
s = Schema([Msg('M0', [Field('f1', 1, L_OPT, T_MESSAGE, sub=0)])], 2)
b = b''
for _ in range(20000):
    b = rec(1, 2, b)
write('F8_C05.case', s, 0, b, 'F8: message M0 { optional M0 f1 = 1; } nested 20000 deep: protobuf_c_message_unpack recurses once per level')
