/* Shim used only by tools/c2lean.py when dumping the AST: makes assert() a plain call so
   that the translator can turn a failing assertion into a fault (ok := false). */
#undef assert
void pbcv_assert(int);
#define assert(e) pbcv_assert((e) != 0)
