#!/usr/bin/env python3
"""
gencheck.py -- the generator half of the correspondence (C12, C13, C15, C20).

For each random .proto file set (tools/protogen.py, one PRNG per file set):
  protoc + the protoc-gen-c built from /repo (run twice: determinism)  ->  .pb-c.[ch]
  gcc: harness/pbc_harness.c -DPBCV_GEN + generated sources (ASan/UBSan);  gcc -std=c99 on each generated source;
  g++ -std=c++17 on each generated header;  an offsetof / member-type / enum-constant probe
  the operation lines (gendesc / genenum / gensvc / genapi, initdump / init / unpack-empty, pack / rt / acc / check on
  random messages, lookups) run on the REAL generated descriptors and through lean/Drv/Main.lean (Pbc.Model.Gen,
  Pbc.Model.*), output compared line by line.
Per property: which lines / stages it looks at, and a direct oracle that does not go through the Lean model.
"""
import os, sys, json, random, subprocess, re, concurrent.futures, time
HERE = os.path.dirname(os.path.abspath(__file__))
sys.path.insert(0, HERE)
import pbgen, protogen, genpipe
from pbgen import *


def gen_cases_drop_required(rng, sch, msg):
    import gen_cases
    return gen_cases.drop_required(rng, sch, msg)

VERIF = os.path.dirname(HERE)
BUILD = os.path.join(VERIF, 'build')
DRV = os.path.join(VERIF, 'lean', '.lake', 'build', 'bin', 'pbcdrv')

OPS = {
    'C01': ('rt',),
    'C07': ('unpack', 'acc', 'rt'),
    'C03': ('pack', 'gendesc'),
    'C11': ('unpack',),
    'C12': ('gendesc', 'initdump', 'init', 'unpack', 'pack', 'rt', 'acc', 'check'),
    'C13': ('gendesc', 'genenum', 'gensvc', 'lookup'),
    'C14': ('glookup', 'lookup', 'genenum', 'gendesc'),
    'C15': ('genapi', 'gendesc'),
    'C20': ('gensvc',),
}
DIRECT_ONLY = ('glookup',)      # operations judged by the direct oracle only (the Lean driver is not given the .proto)
STAGES = {
    'C01': ('protoc', 'cc'),
    'C07': ('protoc', 'cc'),
    'C03': ('protoc', 'cc'),
    'C11': ('protoc', 'cc'),
    'C12': ('protoc', 'cc'),
    'C13': ('protoc', 'cc', 'probe', 'probe_run'),
    'C14': ('protoc', 'cc'),
    'C15': None,          # every stage
    'C20': ('protoc', 'cc'),
}


def fresh_lit(sch, ty):
    """literal of a freshly initialised message, from the schema alone (pbgen.init_val)"""
    m = sch.msgs[ty]
    slots = []
    for f in m.fields:
        if f.oneof:
            slots.append(('one', 0, ('zero',)))
        elif f.label == L_REP:
            slots.append(('rep', 0, None))
        else:
            slots.append(('one', 0, init_val(f)))
    return lit(sch, {'ty': ty, 'slots': slots, 'unk': []})


def build_case(P, rng, nmsgs=12):
    sch = P.sch
    lines = sch.lines() + protogen.gen_ops(P)
    for ty in range(len(sch.msgs)):
        lines += ['initdump %d' % ty, 'init %d' % ty, 'unpack %d X' % ty]
        m = sch.msgs[ty]
        for f in m.fields[:6]:
            lines.append('lookup fnum %d %d' % (ty, f.id))
            lines.append('lookup fnum %d %d' % (ty, f.id + 1))
    # public lookup functions on the generated descriptors: every emitted name / number, near misses, extremes
    def near(nm):
        return [nm, nm + 'x', nm[:-1] or '-', nm.upper() if nm.upper() != nm else nm.lower(), '-', 'zzzz', '0']
    for ty, m in enumerate(sch.msgs):
        names = set()
        for fi, f in enumerate(m.fields):
            names.add(emitted_name(P, ty, f))
            names.add(f.name)
        for nm in sorted(names):
            for k in near(nm)[:4]:
                lines.append('glookup field %d %s' % (ty, k))
        lines.append('glookup field %d -' % ty)
    for ei, e in enumerate(P.enums):
        nums = sorted({v for _, v in e.values})
        keys = set(nums) | {v + 1 for v in nums} | {v - 1 for v in nums} | {0, -1, 2147483647, -2147483648}
        for v in sorted(k for k in keys if -(1 << 31) <= k < (1 << 31)):
            lines.append('glookup enum %d num %d' % (ei, v))
        for nm, _ in e.values:
            for k in near(nm)[:3]:
                lines.append('glookup enum %d name %s' % (ei, k))
        lines.append('glookup enum %d name -' % ei)
    for si, (sname, methods) in enumerate(P.services):
        for mn, _, _ in methods:
            for k in near(mn)[:4]:
                lines.append('glookup method %d %s' % (si, k))
    # presence matrix: every singular scalar / string / bytes field, alone in an otherwise fresh message, explicitly
    # present with (a) the zero / empty value (bytes: length 0 with a non-NULL data pointer), (b) exactly its declared default
    for ty, m in enumerate(sch.msgs):
        if any(f.label == L_REQ for f in m.fields):
            continue
        for fi, f in enumerate(m.fields[:10]):
            if f.label == L_REP or f.type == T_MESSAGE:
                continue
            vals = [pbgen._zero_val(f)]
            if f.dflt is not None and f.dflt[0] in ('V', 'S', 'B'):
                k, v = f.dflt
                vals.append(('w', v) if k == 'V' else ('str', 'S', bytes(v)) if k == 'S' else ('bin', len(v), 'B', bytes(v)))
            for v in vals:
                slots = []
                for gi, g in enumerate(m.fields):
                    if g.oneof:
                        slots.append(('one', f.id if (f.oneof and g.group == f.group) else 0, v if gi == fi else ('zero',)))
                    elif g.label == L_REP:
                        slots.append(('rep', 0, None))
                    elif gi == fi:
                        slots.append(pbgen._slot(g, True, v))
                    else:
                        slots.append(('one', 0, init_val(g)))
                lines.append('pack ' + lit(sch, {'ty': ty, 'slots': slots, 'unk': []}))
    # every required field without declared default, left off the wire in turn (top level and inside embedded messages):
    # the generated descriptors must make the parser refuse the input (C11)
    for ty, m in enumerate(sch.msgs):
        for _ in range(2):
            full = rand_msg(rng, sch, ty)
            for _k in range(4):
                d = gen_cases_drop_required(rng, sch, full)
                if d is None:
                    break
                lines += ['# reqmiss', 'unpack %d X%s' % (ty, encode(sch, d, rng, {'shuffle': rng.random() < 0.5}).hex())]
    for _ in range(nmsgs):
        ty = rng.randrange(len(sch.msgs))
        m = rand_msg(rng, sch, ty)
        l = lit(sch, m)
        lines += ['pack ' + l, 'rt ' + l, 'check ' + l,
                  'acc %d X%s' % (ty, encode(sch, m, rng, {'pad': rng.random() < 0.5, 'shuffle': rng.random() < 0.5}).hex())]
    # the declared defaults are shared, read-only objects: parsing values into fields that have one (here: one byte, then
    # the default's length minus one, into every string / bytes field with a non-empty default) must leave them as declared
    # -- fresh messages are examined once more at the very end (seeded change S96)
    for ty, m in enumerate(sch.msgs):
        for f in m.fields:
            if f.label != L_REP and f.type in (T_STRING, T_BYTES) and f.dflt is not None and f.dflt[0] in ('S', 'B') and len(f.dflt[1]) > 0:
                for n in sorted({1, max(1, len(f.dflt[1]) - 1), len(f.dflt[1])}):
                    body = bytes((0xa5 ^ k) & 0x7f or 0x21 for k in range(n))
                    lines.append('acc %d X%s' % (ty, (enc_key(f.id, 2) + enc_varint(n) + body).hex()))
    for ty in range(len(sch.msgs)):
        lines += ['initdump %d' % ty, 'init %d' % ty, 'unpack %d X' % ty]
    return lines


def emitted_name(P, ty, f):
    if P.file_opts[P.infile[ty]].get('use_oneof_field_name') and f.oneof:
        return P.oneof_names[(ty, f.group)]
    return f.name


def one(args):
    label, P, rng, workdir = args
    t0 = time.time()
    out = {'label': label, 'proto': protogen.proto_texts(P), 'lines': [], 'impl': [], 'model': [], 'res': None}
    try:
        res = genpipe.generate_pfile(P, workdir)
    except subprocess.TimeoutExpired:
        res = {'ok': False, 'stage': 'timeout', 'stages': {'timeout': {'rc': 1, 'err': 'a stage timed out'}}}
    out['res'] = res
    if res.get('stages', {}).get('cc', {}).get('rc') == 0:
        lines = build_case(P, rng)
        case = os.path.join(workdir, 'c.case')
        open(case, 'w').write('\n'.join(lines) + '\n')
        env = dict(os.environ, ASAN_OPTIONS='detect_leaks=0', UBSAN_OPTIONS='print_stacktrace=0')
        try:
            r = subprocess.run([res['harness'], case], stdout=subprocess.PIPE, stderr=subprocess.PIPE, timeout=120, env=env)
            impl = r.stdout.decode('utf-8', 'replace').split('\n')
            if r.returncode != 0:
                impl += ['CRASH exit=%d %s' % (r.returncode, r.stderr.decode('utf-8', 'replace')[-300:].replace('\n', ' '))] * 3
        except subprocess.TimeoutExpired:
            impl = ['TIMEOUT']
        r = subprocess.run([DRV, case], stdout=subprocess.PIPE, stderr=subprocess.PIPE, timeout=120)
        model = r.stdout.decode('utf-8', 'replace').split('\n')
        out.update(lines=lines, impl=impl, model=model)
    out['wall'] = round(time.time() - t0, 1)
    # keep the work dir only if something failed
    return out


def run_all(seed, n, work, only=None, findings=()):
    """returns [run dict]; `only` = (seed, k) to regenerate a single file set (replay)"""
    jobs = []
    os.makedirs(work, exist_ok=True)
    for fid in findings:
        P = protogen.finding_pfile(fid)
        jobs.append(('finding:' + fid, P, random.Random(7), os.path.join(work, 'gen_' + fid)))
    if only is None:
        for name, P in protogen.corpus_pfiles():
            jobs.append(('corpus:' + name, P, random.Random(11), os.path.join(work, 'gen_c_' + name)))
    ks = range(n) if only is None else [only[1]]
    sd = seed if only is None else only[0]
    for k in ks:
        rng = random.Random(sd * 100003 + k)
        P = protogen.rand_pfile(rng)
        jobs.append(('gen/%d/%d' % (sd, k), P, rng, os.path.join(work, 'gen_%d' % k)))
    with concurrent.futures.ThreadPoolExecutor(8) as ex:
        runs = list(ex.map(one, jobs))
    for (label, P, _, _), r in zip(jobs, runs):
        r['P'] = P
    return runs


def kvs(line):
    return dict(x.split('=', 1) for x in line.split(' ') if '=' in x)


def evaluate(pid, run):
    """-> dict(diffs=[(idx, what)], failures=[(idx|None, what)], nops, distinct=set())"""
    ops = OPS[pid]
    P = run['P']
    sch = P.sch
    res = run['res']
    diffs, fails, distinct = [], [], set()
    stages = res.get('stages', {})
    want = STAGES[pid]
    for st, v in stages.items():
        base = st.split(':')[0]
        if want is not None and base not in want and st not in want:
            continue
        if base == 'probe' and stages.get('cc', {}).get('rc', 0) != 0:
            continue          # the probe links the same generated sources: already reported under `cc`
        if v.get('rc', 0) != 0:
            kind = {'protoc': 'the code generator failed on a valid schema', 'cc': 'the generated code does not compile as C',
                    'c': 'the generated source does not compile as C99', 'cxx': 'the generated header does not compile as C++',
                    'probe': 'the generated structs lack a member (or have the wrong type) the .proto calls for',
                    'probe_run': 'descriptor offsets / sizes / enum constants differ from the generated structs',
                    'timeout': 'the code generator or a compiler did not terminate in time'}.get(base, 'stage %s failed' % st)
            fails.append((None, '%s [%s]: %s' % (kind, st, (v.get('err') or v.get('out') or '')[-400:].replace('\n', ' | '))))
    if pid == 'C15':
        if res.get('stages', {}).get('protoc', {}).get('rc') == 0:
            if not res.get('deterministic', True):
                fails.append((None, 'two runs of the generator on the same input produced different files'))
            if res.get('partial_api'):
                fails.append((None, 'only part of the pack helper family is declared for %s' % res['partial_api']))
            exp = {'case.pb-c.c', 'case.pb-c.h'} | ({'dep.pb-c.c', 'dep.pb-c.h'} if 'dep.proto' in run['proto'] else set())
            exp |= ({'fwd.pb-c.c', 'fwd.pb-c.h'} if 'fwd.proto' in run['proto'] else set())
            if set(res.get('files', [])) != exp:
                fails.append((None, 'output files %s, expected %s' % (res.get('files'), sorted(exp))))
    lines, impl, model = run['lines'], run['impl'], run['model']
    nops = 0
    for i, l in enumerate(lines):
        op = l.split(' ', 1)[0]
        if op not in ops:
            continue
        a = impl[i] if i < len(impl) else '<missing>'
        b = model[i] if i < len(model) else '<missing>'
        nops += 1
        if op == 'initdump':
            # model has no static object: compare with what it says for `init`
            b = model[i + 1] if i + 1 < len(model) else '<missing>'
        if a.startswith('CRASH') or a == '<missing>' or a == 'TIMEOUT':
            fails.append((i, 'crash / sanitizer report running generated code (%s)' % a[:200]))
            continue
        if a != b and op not in DIRECT_ONLY:
            diffs.append((i, op))
        distinct.add((op, hash(a) & 0xffff))
        # ---- direct oracles (no Lean model involved) ----
        if pid == 'C12':
            if op in ('initdump', 'init'):
                ty = int(l.split()[1])
                exp = 'init ' + fresh_lit(sch, ty)
                if a != exp:
                    fails.append((i, 'a freshly initialised message (%s) does not hold the declared defaults: got %s expected %s'
                                  % ('static INIT' if op == 'initdump' else 'init function', a[:200], exp[:200])))
            elif op == 'unpack' and l.endswith(' X'):
                ty = int(l.split()[1])
                need = any(f.label == L_REQ and f.dflt is None for f in sch.msgs[ty].fields)
                if need:
                    if not a.startswith('fail'):
                        fails.append((i, 'empty input accepted although a required field is missing'))
                else:
                    exp = 'ok ' + fresh_lit(sch, ty)
                    if not a.startswith(exp + ' '):
                        fails.append((i, 'parsing empty input does not give the declared defaults: got %s expected %s' % (a[:200], exp[:200])))
            elif op == 'pack':
                pass
        if pid == 'C01' and op == 'rt':
            # pack then unpack through the GENERATED descriptors returns an equal message
            mm = re.match(r'pack=(\S*) unpack=(ok|fail)(.*)$', a)
            if not mm:
                fails.append((i, 'generated code: unparseable harness output'))
            elif mm.group(2) == 'fail':
                fails.append((i, 'generated code: the bytes produced by pack were rejected by unpack'))
            else:
                try:
                    orig, _ = pbgen.parse_lit(sch, l[3:])
                    rest = mm.group(3).strip()
                    got, used = pbgen.parse_lit(sch, rest)
                    tail = dict(x.split('=') for x in rest.split()[used:] if '=' in x)
                    if pbgen.sem(sch, orig) != pbgen.sem(sch, got):
                        fails.append((i, 'generated code: message after pack+unpack differs from the original'))
                    elif tail.get('repack_same') != '1':
                        fails.append((i, 'generated code: re-serialising the parsed message gives different bytes'))
                except Exception as ex:
                    fails.append((i, 'generated code: round-trip output does not parse as a message of this type (%s)' % str(ex)[:80]))
        if pid == 'C07':
            # generated code: every block comes from and returns to the allocator given; static defaults are never freed
            d7 = kvs(a)
            if any(d7.get(k, '0') != '0' for k in ('live', 'foreign', 'sysmalloc')):
                fails.append((i, 'generated code: allocator accounting after parse (+free): live=%s foreign=%s sysmalloc=%s'
                              % (d7.get('live'), d7.get('foreign'), d7.get('sysmalloc'))))
        if pid == 'C11' and op == 'unpack':
            ty = int(l.split()[1])
            if l.endswith(' X') and any(f.label == L_REQ and f.dflt is None for f in sch.msgs[ty].fields) and not a.startswith('fail'):
                fails.append((i, 'generated descriptors: empty input accepted although a required field without default is missing'))
            if i > 0 and lines[i - 1] == '# reqmiss' and not a.startswith('fail'):
                fails.append((i, 'generated descriptors: input lacking a required field (no declared default) was accepted'))
        if pid in ('C12', 'C03'):
            if op == 'pack':
                m, _ = pbgen.parse_lit(sch, l[5:])
                exp = pbgen.encode(sch, m).hex()
                got = kvs(a).get('pack')
                if got != exp:
                    fails.append((i, 'generated code: serialisation differs from the canonical encoding of the message under its .proto (presence / packedness)'))
        if pid == 'C13':
            if op == 'gendesc':
                d = kvs(a)
                if d.get('magic') != '1' or d.get('layout_ok') != '1':
                    fails.append((i, 'descriptor magic / member layout wrong: %s' % a[:120]))
                ty = int(l.split()[1])
                if not P.code_size(P.infile[ty]):
                    if d.get('name') != P.msg_full(ty) or d.get('pkg', '') != P.pkg[P.infile[ty]]:
                        fails.append((i, 'descriptor name/package %s/%s, the .proto says %s/%s' % (d.get('name'), d.get('pkg'), P.msg_full(ty), P.pkg[P.infile[ty]])))
                flds = [x.split(':') for x in d.get('fields', '').split(',') if x]
                m = sch.msgs[ty]
                if [int(x[1]) for x in flds] != [f.id for f in m.fields]:
                    fails.append((i, 'field table is not the declared fields sorted by number'))
                else:
                    for x, f in zip(flds, m.fields):
                        if not P.code_size(P.infile[ty]) and x[0] != emitted_name(P, ty, f):
                            fails.append((i, 'field %d: the descriptor carries the name %r, the .proto says %r' % (f.id, x[0], emitted_name(P, ty, f))))
                            break
                        if int(x[3]) != f.type or int(x[2]) != f.label or (int(x[4]) & 1) != (1 if f.packed else 0) or \
                                ((int(x[4]) & 4) != 0) != f.oneof or x[7] != protogen.dflt_tok_desc(f):
                            fails.append((i, 'field %d: emitted label/type/flags/default %s differ from the .proto' % (f.id, ':'.join(x[2:]))))
                            break
            elif op == 'genenum':
                d = kvs(a)
                ei = int(l.split()[1])
                e = P.enums[ei]
                vals = [x.split(':') for x in d.get('values', '').split(',') if x]
                nums = [int(x[2]) for x in vals]
                if nums != sorted(set(v for _, v in e.values)):
                    fails.append((i, 'enum values table is not the declared numbers, unique and ascending: %s' % nums[:8]))
                elif not P.code_size(e.infile):
                    first = {}
                    for nm, v in e.values:
                        first.setdefault(v, nm)
                    if [x[0] for x in vals] != [first[v] for v in nums]:
                        fails.append((i, 'an enum number is not listed under the first name declared for it'))
                    bn = [x.split(':') for x in d.get('byname', '').split(',') if x]
                    if sorted(n for n, _ in bn) != sorted(nm for nm, _ in e.values) or [n for n, _ in bn] != sorted((n for n, _ in bn), key=lambda s: s.encode()):
                        fails.append((i, 'enum by-name index is not all declared names in sorted order'))
                    elif any(nums[int(ix)] != dict(e.values)[n] for n, ix in bn):
                        fails.append((i, 'an enum name leads to the wrong number'))
        if pid in ('C14', 'C13') and op == 'glookup':
            t = l.split()
            key = '' if t[-1] == '-' else t[-1]
            d = kvs(a)
            if t[1] == 'field':
                ty = int(t[2])
                m = sch.msgs[ty]
                if P.code_size(P.infile[ty]):
                    want = None         # CODE_SIZE: no names are emitted, every lookup by name must say not found
                    if d.get('idx') != '-1':
                        fails.append((i, 'a by-name lookup succeeded although the file is optimised for code size (no names emitted)'))
                else:
                    hits = [k for k, f in enumerate(m.fields) if emitted_name(P, ty, f) == key]
                    if hits and d.get('idx') not in [str(h) for h in hits]:
                        fails.append((i, 'field name %r exists (entry %s) but get_field_by_name returned %s' % (key, hits, a)))
                    if not hits and d.get('idx') != '-1':
                        fails.append((i, 'field name %r does not exist but get_field_by_name returned %s' % (key, a)))
            elif t[1] == 'enum':
                e = P.enums[int(t[2])]
                nums = sorted({v for _, v in e.values})
                if t[3] == 'num':
                    v = int(t[4])
                    exp = str(nums.index(v)) if v in nums else '-1'
                    if d.get('idx') != exp or (v in nums and d.get('value') != str(v)):
                        fails.append((i, 'enum number %d: get_value returned %s, expected entry %s' % (v, a, exp)))
                else:
                    dv = dict(e.values)
                    if P.code_size(e.infile):
                        exp = '-1'
                    else:
                        exp = str(nums.index(dv[key])) if key in dv else '-1'
                    if d.get('idx') != exp:
                        fails.append((i, 'enum name %r: get_value_by_name returned %s, expected entry %s' % (key, a, exp)))
            else:
                methods = [mn for mn, _, _ in P.services[int(t[2])][1]]
                exp = str(methods.index(key)) if (key in methods and not P.code_size(0)) else '-1'
                if d.get('idx') != exp:
                    fails.append((i, 'method name %r: get_method_by_name returned %s, expected %s' % (key, a, exp)))
        if pid == 'C20' and op == 'gensvc':
            d = kvs(a)
            si = int(l.split()[1])
            methods = P.services[si][1]
            if d.get('calls') != ','.join('%d:1' % k for k in range(len(methods))):
                fails.append((i, 'a generated stub ran the wrong handler or changed an argument: calls=%s' % d.get('calls')))
            if (d.get('init_desc'), d.get('init_invoke'), d.get('cleared'), d.get('destroyed')) != ('1', '1', '1', '1'):
                fails.append((i, 'service init / destroy wrong: %s' % a[-80:]))
            if [x.split(':')[1:] for x in d.get('methods', '').split(',') if x] != [[str(x), str(y)] for _, x, y in methods]:
                fails.append((i, 'method descriptors are not in declaration order with the declared input/output types'))
        elif pid == 'C15' and op == 'genapi':
            ty = int(l.split()[1])
            exp = 'pack=%d init=%d' % (1 if P.eff_pack(ty) else 0, 1 if P.eff_init(ty) else 0)
            if a != exp:
                fails.append((i, 'the generated header does not declare the helper functions the options call for: %s, expected %s' % (a, exp)))
        elif pid == 'C15' and op == 'gendesc':
            ty = int(l.split()[1])
            if kvs(a).get('init') != ('1' if P.eff_init(ty) else '0'):
                fails.append((i, 'descriptor.message_init disagrees with the effective gen_init_helpers option'))
    return {'diffs': diffs, 'failures': fails, 'nops': nops, 'distinct': distinct}
