#!/usr/bin/env python3
"""
protogen.py -- random .proto FILES for the generator properties (C12, C13, C15, C20), derived from one PRNG.

A `PFile` wraps a pbgen.Schema (the flat list of message types the value-level operations use) with everything the
code generator can see and the runtime cannot: nesting, packages, a second imported file, enums (declaration order,
negative / sparse / extreme values, aliases), declaration order of fields, field names (keywords, mixed case), services,
and protobuf-c's file / message / field options.  It prints
  * the .proto text(s) handed to protoc + the protoc-gen-c built from /repo,
  * the `gendesc` / `genenum` / `gensvc` / `genapi` / `genname` operation lines: the same facts in the token form
    lean/Drv/Main.lean parses, from which the Lean generator model (Pbc.Model.Gen) computes what must be emitted,
  * gen_table.inc / gen_svc.inc for harness/pbc_harness.c in -DPBCV_GEN mode, and the offsetof/type probe.
"""
import os, random, struct
import pbgen
from pbgen import *

NAME_POOL = ['class', 'int', 'Default', 'myField', 'my_value', 'XMLData', 'x', 'union', 'bool', 'true', 'new', 'and',
             'SNAKE_CASE', 'camelCaseName', 'typename', 'value', 'data', 'id', 'Name', 'type', 'len', 'a1', 'B2', 'z_9',
             'double', 'float', 'long', 'short', 'signed', 'unsigned', 'void', 'volatile', 'while', 'for', 'if', 'else',
             'struct', 'switch', 'case', 'break', 'continue', 'return', 'static', 'const', 'char', 'enum', 'extern',
             'goto', 'register', 'sizeof', 'typedef', 'auto', 'do', 'this', 'template', 'namespace', 'private', 'public',
             'virtual', 'operator', 'delete', 'friend', 'inline', 'throw', 'try', 'catch', 'using', 'not', 'or', 'xor',
             'bitand', 'compl', 'wchar_t', 'asm', 'mutable', 'explicit', 'false', 'protected', 'typeid', 'and_eq',
             'restrict', 'nullptr', 'constexpr', 'alignas', 'alignof', 'noexcept', 'decltype', 'export', 'thread_local',
             'static_assert', 'char16_t', 'char32_t', 'Restrict', 'NullPtr']
MSG_NAMES = ['Req', 'Reply', 'Item', 'Node', 'XMLDoc', 'snake_msg', 'Inner', 'Deep', 'A', 'Bb', 'HTTPHeader', 'kv_pair', 'M2M']
ENUM_NAMES = ['Color', 'Kind', 'State', 'E2', 'mode_t_', 'HTTPCode']
SVC_NAMES = ['Store', 'Echo', 'RPCService', 'svc_lower']
METHOD_NAMES = ['Put', 'Get', 'List', 'Delete', 'Alpha', 'beta', 'GetX', 'Zeta', 'aa', 'Ab', 'StreamAll', 'do_it', 'B', 'A', 'New', 'Int', 'default', 'Nullptr']
# (method names that differ only in case map to one C identifier: outside what the naming scheme can represent, not generated)
PKGS = ['t', 'a.b', 'Foo.bar_baz', '', 'x1']


class PEnumDef:
    def __init__(s, name, values, parent=None, infile=0):
        s.name, s.values, s.parent, s.infile = name, values, parent, infile     # values: [(name, number)] in declaration order

    @property
    def alias(s):
        nums = [v for _, v in s.values]
        return len(set(nums)) != len(nums)


class PFile:
    def __init__(s):
        s.sch = None
        s.parent = {}          # msg idx -> parent msg idx | None
        s.infile = {}          # msg idx -> 0 (case.proto) | 1 (dep.proto)
        s.decl = {}            # msg idx -> field indices (into sch.msgs[i].fields) in declaration order
        s.enums = []
        s.field_enum = {}      # (mi, fi) -> enum idx
        s.pkg = ['t', 'dep']
        s.cpkg = [None, None]
        s.file_opts = [{}, {}]  # name -> value  (pb_c_file options) ; 'optimize_for'
        s.msg_opts = {}        # mi -> {gen_pack_helpers, gen_init_helpers, base_field_name}
        s.fopt = {}            # (mi, fi) -> {'sab': bool, 'deprecated': bool}
        s.oneof_names = {}     # (mi, g) -> name
        s.services = []        # (name, [(method, in, out)])
        s.comments = {}
        s.file_syntax = None   # [syntax of case.proto, syntax of dep.proto] when they differ (else the schema's)

    def fsyn(s, fi):
        return s.file_syntax[fi] if s.file_syntax else s.sch.syntax

    # ---- names ------------------------------------------------------------------------------------------------
    def msg_path(s, mi):
        p = []
        while mi is not None:
            p.append(s.sch.msgs[mi].name)
            mi = s.parent[mi]
        return list(reversed(p))

    def msg_full(s, mi):
        pk = s.pkg[s.infile[mi]]
        return '.'.join(([pk] if pk else []) + s.msg_path(mi))

    def enum_full(s, ei):
        e = s.enums[ei]
        pk = s.pkg[e.infile]
        mid = s.msg_path(e.parent) if e.parent is not None else []
        return '.'.join(([pk] if pk else []) + mid + [e.name])

    def proto_ref(s, full):
        return '.' + full

    def override(s, full, fi):
        """OverrideFullName"""
        c = s.cpkg[fi]
        if c is None:
            return full
        pk = s.pkg[fi]
        return (c + '.' if not pk else c) + full[len(pk):]

    # ---- effective options -------------------------------------------------------------------------------------
    def code_size(s, fi):
        return s.file_opts[fi].get('optimize_for') == 'CODE_SIZE'

    def chain(s, mi):
        c = []
        while mi is not None:
            c.append(mi)
            mi = s.parent[mi]
        return list(reversed(c))

    def eff_init(s, mi):
        fi = s.infile[mi]
        g = s.file_opts[fi].get('gen_init_helpers', True)
        for k in s.chain(mi):
            if 'gen_init_helpers' in s.msg_opts.get(k, {}):
                g = s.msg_opts[k]['gen_init_helpers']
        return g

    def eff_pack(s, mi):
        fi = s.infile[mi]
        deep = 'gen_pack_helpers' in s.file_opts[fi]
        gp = s.file_opts[fi].get('gen_pack_helpers', True)
        ch = s.chain(mi)
        for depth, k in enumerate(ch):
            o = s.msg_opts.get(k, {})
            if 'gen_pack_helpers' in o:
                gp = o['gen_pack_helpers']
            if depth + 1 < len(ch):
                # what the child receives
                gp = gp if deep else o.get('gen_pack_helpers', False)
                deep = True
        return gp


def tok_opt(v):
    return '-' if v is None else ('1' if v else '0')


# ------------------------------------------------------------------------------------------------------------------
def rand_enum(rng, name, syntax, parent=None, infile=0):
    n = rng.choice([1, 2, 3, 4, 6, 9])
    pool = [0, 1, 2, 3, 5, 7, 8, 100, 127, 128, 255, 16383, 16384, -1, -2, -128, -129, 2147483647, 2147483646, -2147483648, -2147483647,
            1000000, -1000000, 65535, 65536]
    nums = []
    while len(nums) < n:
        v = rng.choice(pool) if rng.random() < 0.8 else rng.randrange(-(1 << 31), 1 << 31)
        if v not in nums:
            nums.append(v)
    if rng.random() < 0.4:
        nums.sort()
    if syntax == 3:
        if 0 in nums:
            nums.remove(0)
        nums = [0] + nums[:max(0, n - 1)]
    vals = [('%s_V%d' % (name.upper().replace('__', '_'), i), v) for i, v in enumerate(nums)]
    if rng.random() < 0.35 and len(vals) >= 1:
        # aliases: further names for numbers already declared (anywhere in the declaration order)
        for k in range(rng.choice([1, 2])):
            v = rng.choice(nums)
            pos = rng.randrange(1 if syntax == 3 else 0, len(vals) + 1)
            vals.insert(pos, ('%s_ALIAS%d' % (name.upper(), k), v))
    # value names sort differently from declaration order sometimes
    if rng.random() < 0.5:
        vals = [(('Z' if i % 2 else 'a') + nm, v) for i, (nm, v) in enumerate(vals)]
    return PEnumDef(name, vals, parent, infile)


def rand_pfile(rng, rich=True):
    P = PFile()
    syntax = rng.choice([2, 2, 3])
    sch = rand_schema(rng, nmsgs=rng.choice([1, 2, 3, 4, 5]), allow_generic=False, syntax=syntax, deprecated_p=0)
    P.sch = sch
    n = len(sch.msgs)
    # message names, nesting, files
    names = rng.sample(MSG_NAMES, n)
    for i, m in enumerate(sch.msgs):
        m.name = names[i]
        P.parent[i] = None
        P.infile[i] = 0
    use_dep = rich and n >= 2 and rng.random() < 0.3
    dep_set = set()
    if use_dep:
        d = n - 1
        dep_set.add(d)
        P.infile[d] = 1
        for f in sch.msgs[d].fields:          # the imported file must be self-contained
            if f.type == T_MESSAGE:
                f.sub = d
    for i in range(1, n):
        if i in dep_set:
            continue
        if rich and rng.random() < 0.5:
            P.parent[i] = rng.choice([j for j in range(i) if j not in dep_set])
    P.pkg = [rng.choice(PKGS), rng.choice(['dep', 'other.pkg', 'Dep2'])]
    if P.pkg[0] == P.pkg[1]:
        P.pkg[1] = 'dep'
    if rich and rng.random() < 0.3:
        P.cpkg[0] = rng.choice(['cpk', 'My.c_pkg', 'X'])
    if rich and use_dep and rng.random() < 0.5:
        P.cpkg[1] = rng.choice(['DepC', 'other.c_name', 'Y'])       # the imported file has its own C prefix
    # file options
    fo = P.file_opts[0]
    if rich:
        if rng.random() < 0.25:
            fo['gen_pack_helpers'] = rng.random() < 0.6
        if rng.random() < 0.2:
            fo['gen_init_helpers'] = rng.random() < 0.5
        if rng.random() < 0.25:
            fo['const_strings'] = True
        if rng.random() < 0.2:
            fo['use_oneof_field_name'] = True
        if rng.random() < 0.2:
            fo['optimize_for'] = rng.choice(['CODE_SIZE', 'SPEED', 'LITE_RUNTIME'])
        for i in range(n):
            o = {}
            if rng.random() < 0.2:
                o['gen_pack_helpers'] = rng.random() < 0.5
            if rng.random() < 0.2:
                o['gen_init_helpers'] = rng.random() < 0.5
            if rng.random() < 0.15:
                o['base_field_name'] = rng.choice(['base', 'parent_', 'pb_base'])
            if o and P.infile[i] == 0:
                P.msg_opts[i] = o
    # enums: at least one per file that has enum fields; some nested
    ne = rng.choice([1, 2, 3])
    for k in range(ne):
        par = None
        if rich and rng.random() < 0.4:
            par = rng.choice([j for j in range(n) if j not in dep_set])
        P.enums.append(rand_enum(rng, ENUM_NAMES[k], syntax, par, 0))
    if use_dep:
        P.enums.append(rand_enum(rng, 'DepEnum', syntax, None, 1))
    # fields: names, declaration order, enum assignment, defaults consistent with the enum, options
    for mi, m in enumerate(sch.msgs):
        used = set()
        for fi, f in enumerate(m.fields):
            f.init = None
            while True:
                nm = rng.choice(NAME_POOL) if rng.random() < 0.6 else 'f%d' % f.id
                key = nm.lower().replace('_', '')
                bad = key in used or nm.lower() == P.msg_opts.get(mi, {}).get('base_field_name', 'base') \
                    or nm.lower().startswith(('has_', 'n_')) or key in ('descriptor',)
                if not bad:
                    break
            used.add(key)
            f.name = nm
            if f.type == T_ENUM:
                cands = [k for k, e in enumerate(P.enums) if e.infile == 0 or P.infile[mi] == 1 and e.infile == 1]
                if P.infile[mi] == 1:
                    cands = [k for k, e in enumerate(P.enums) if e.infile == 1]
                elif use_dep and rng.random() < 0.3:
                    cands = [k for k, e in enumerate(P.enums) if e.infile == 1]
                ei = rng.choice(cands)
                P.field_enum[(mi, fi)] = ei
                e = P.enums[ei]
                if f.dflt is not None and f.dflt[0] == 'V':
                    f.dflt = ('V', rng.choice(e.values)[1] & 0xffffffff)
                first = e.values[0][1] & 0xffffffff
                if syntax == 2 and f.label != L_REP and not f.oneof and f.dflt is None and first != 0:
                    if P.eff_init(mi):
                        f.init = first
                    else:
                        # without init helper the runtime's generic initialiser knows only EXPLICIT defaults (finding F17,
                        # kept as a fixed schema): declare the default
                        f.dflt = ('V', first)
            if is_nonfinite(f):
                # the .proto text can only say inf, -inf and nan (finding F12b, repaired): keep the infinities, and make
                # every NaN the one `nan` stands for
                v = f.dflt[1]
                if f.type == T_FLOAT and (v & 0x7fffff):
                    f.dflt = ('V', 0x7fc00000)
                elif f.type == T_DOUBLE and (v & 0xfffffffffffff):
                    f.dflt = ('V', 0x7ff8000000000000)
            o = {}
            if rich and f.type == T_STRING and (f.dflt is None or f.dflt[0] == 'E') and rng.random() < 0.15:
                o['sab'] = True
                f.type = T_BYTES          # what the runtime sees; the .proto says `string ... [string_as_bytes = true]`
                f.dflt = None             # (a bytes field has no implicit default object)
            if rich and rng.random() < 0.1:
                o['deprecated'] = True
            if o:
                P.fopt[(mi, fi)] = o
        order = list(range(len(m.fields)))
        rng.shuffle(order)
        # members of one oneof are declared together (inside the oneof block); keep the shuffled order otherwise
        P.decl[mi] = order
        for g in range(m.ngroups):
            P.oneof_names[(mi, g)] = rng.choice(['choice', 'kind', 'Which', 'g', 'test_oneof']) + str(g)
        # a message whose init helper is suppressed is initialised by message_init_generic
        m.initmode = 0 if P.eff_init(mi) else 1
    # services
    if rich and rng.random() < 0.6:
        for sn in rng.sample(SVC_NAMES, rng.choice([1, 1, 2])):
            k = rng.choice([1, 2, 3, 4, 6])
            ms = rng.sample(METHOD_NAMES, k)
            P.services.append((sn, [(mn, rng.randrange(n), rng.randrange(n)) for mn in ms]))
    return P


# ---- .proto text ---------------------------------------------------------------------------------------------------
def float_lit(bits, w):
    if w == 32:
        x = struct.unpack('<f', struct.pack('<I', bits & 0xffffffff))[0]
    else:
        x = struct.unpack('<d', struct.pack('<Q', bits & 0xffffffffffffffff))[0]
    if x != x:
        return 'nan'
    if x in (float('inf'), float('-inf')):
        return 'inf' if x > 0 else '-inf'
    return ('%.9g' % x) if w == 32 else repr(x)


def default_lit(P, mi, fi, f):
    k, v = f.dflt
    t = f.type
    if k in ('S', 'B'):
        return '"%s"' % ''.join('\\%03o' % c for c in v)
    if t == T_BOOL:
        return 'true' if v else 'false'
    if t == T_ENUM:
        e = P.enums[P.field_enum[(mi, fi)]]
        sv = v - (1 << 32) if (v & 0xffffffff) >> 31 else v & 0xffffffff
        return next(nm for nm, x in e.values if x == sv)
    if t == T_FLOAT:
        return float_lit(v, 32)
    if t == T_DOUBLE:
        return float_lit(v, 64)
    if t in (T_INT32, T_SINT32, T_SFIXED32):
        v &= 0xffffffff
        return str(v - (1 << 32) if v >> 31 else v)
    if t in (T_INT64, T_SINT64, T_SFIXED64):
        v &= 0xffffffffffffffff
        return str(v - (1 << 64) if v >> 63 else v)
    return str(v)


PROTO_TYPES = ['int32', 'sint32', 'sfixed32', 'int64', 'sint64', 'sfixed64', 'uint32', 'fixed32', 'uint64', 'fixed64',
               'float', 'double', 'bool', None, 'string', 'bytes', None]


def proto_texts(P):
    sch = P.sch
    out = {}
    for fi, fname in ((0, 'case.proto'), (1, 'dep.proto')):
        if fi == 1 and not any(v == 1 for v in P.infile.values()):
            continue
        L = ['syntax = "proto%d";' % P.fsyn(fi)]
        if P.pkg[fi]:
            L.append('package %s;' % P.pkg[fi])
        L.append('import "protobuf-c/protobuf-c.proto";')
        if fi == 0 and 'dep.proto' in out or (fi == 0 and any(v == 1 for v in P.infile.values())):
            L.append('import "dep.proto";')
        fo = P.file_opts[fi]
        if 'optimize_for' in fo:
            L.append('option optimize_for = %s;' % fo['optimize_for'])
        for k in ('gen_pack_helpers', 'gen_init_helpers', 'const_strings', 'use_oneof_field_name'):
            if k in fo:
                L.append('option (pb_c_file).%s = %s;' % (k, 'true' if fo[k] else 'false'))
        if P.cpkg[fi] is not None:
            L.append('option (pb_c_file).c_package = "%s";' % P.cpkg[fi])

        def enum_lines(ei, ind):
            e = P.enums[ei]
            R = [ind + 'enum %s {' % e.name]
            if e.alias:
                R.append(ind + '  option allow_alias = true;')
            for nm, v in e.values:
                R.append(ind + '  %s = %d;' % (nm, v))
            R.append(ind + '}')
            return R

        def msg_lines(mi, ind):
            m = sch.msgs[mi]
            R = [ind + 'message %s {' % m.name]
            o = P.msg_opts.get(mi, {})
            for k in ('gen_pack_helpers', 'gen_init_helpers'):
                if k in o:
                    R.append(ind + '  option (pb_c_msg).%s = %s;' % (k, 'true' if o[k] else 'false'))
            if 'base_field_name' in o:
                R.append(ind + '  option (pb_c_msg).base_field_name = "%s";' % o['base_field_name'])
            for ei, e in enumerate(P.enums):
                if e.parent == mi and e.infile == fi:
                    R += enum_lines(ei, ind + '  ')
            for ci in range(len(sch.msgs)):
                if P.parent[ci] == mi:
                    R += msg_lines(ci, ind + '  ')

            def fline(k, in_oneof):
                f = m.fields[k]
                if f.type == T_MESSAGE:
                    t = P.proto_ref(P.msg_full(f.sub))
                elif f.type == T_ENUM:
                    t = P.proto_ref(P.enum_full(P.field_enum[(mi, k)]))
                else:
                    t = 'string' if P.fopt.get((mi, k), {}).get('sab') else PROTO_TYPES[f.type]
                lab = ''
                if not in_oneof:
                    lab = {L_REQ: 'required ', L_REP: 'repeated ', L_OPT: 'optional ', L_NONE: ''}[f.label]
                opts = []
                ep = explicit_packed(P, mi, k)
                if ep is not None:
                    # (proto3 without the option means packed; proto2 without it means not packed)
                    opts.append('packed = %s' % ('true' if ep else 'false'))
                if f.dflt is not None and f.dflt[0] != 'E':
                    opts.append('default = %s' % default_lit(P, mi, k, f))
                fo_ = P.fopt.get((mi, k), {})
                if fo_.get('sab'):
                    opts.append('(pb_c_field).string_as_bytes = true')
                if fo_.get('deprecated'):
                    opts.append('deprecated = true')
                return '%s%s %s = %d%s;' % (lab, t, f.name, f.id, (' [' + ', '.join(opts) + ']') if opts else '')
            done = set()
            for k in P.decl[mi]:
                f = m.fields[k]
                if not f.oneof:
                    R.append(ind + '  ' + fline(k, False))
                elif f.group not in done:
                    done.add(f.group)
                    R.append(ind + '  oneof %s {' % P.oneof_names[(mi, f.group)])
                    for k2 in P.decl[mi]:
                        if m.fields[k2].group == f.group:
                            R.append(ind + '    ' + fline(k2, True))
                    R.append(ind + '  }')
            R.append(ind + '}')
            return R
        for ei, e in enumerate(P.enums):
            if e.parent is None and e.infile == fi:
                L += enum_lines(ei, '')
        for mi in range(len(sch.msgs)):
            if P.parent[mi] is None and P.infile[mi] == fi:
                L += msg_lines(mi, '')
        if fi == 0:
            for sname, methods in P.services:
                L.append('service %s {' % sname)
                for mn, a, b in methods:
                    # streaming rpcs are ordinary methods for this generator (same struct slot, same stub, same index)
                    h = hash((sname, mn)) if False else (len(sname) * 7 + len(mn) * 3 + a + 2 * b)
                    cs_ = 'stream ' if h % 5 == 0 else ''
                    ss_ = 'stream ' if h % 3 == 0 else ''
                    L.append('  rpc %s (%s%s) returns (%s%s);' % (mn, cs_, P.proto_ref(P.msg_full(a)), ss_, P.proto_ref(P.msg_full(b))))
                L.append('}')
        out[fname] = '\n'.join(L) + '\n'
    if getattr(P, 'forwarder', False) and 'dep.proto' in out:
        # case.proto reaches dep.proto only through a file that declares nothing itself and re-exports it (seeded change S139)
        out['case.proto'] = out['case.proto'].replace('import "dep.proto";', 'import "fwd.proto";')
        out['fwd.proto'] = 'syntax = "proto2";\nimport public "dep.proto";\n'
    return out


def explicit_packed(P, mi, k):
    if getattr(P, 'explicit_packed', None) is not None and (mi, k) in P.explicit_packed:
        return P.explicit_packed[(mi, k)]
    f = P.sch.msgs[mi].fields[k]
    if not (f.label == L_REP and f.type in PACKABLE):
        return None
    dflt_packed = P.fsyn(P.infile[mi]) == 3
    if f.packed != dflt_packed or hash((mi, k)) % 3 == 0:
        return f.packed
    return None


# ---- operation lines for the Lean generator model --------------------------------------------------------------------
def dflt_tok(f):
    if f.dflt is None or f.dflt[0] == 'E':
        return '-'
    k, v = f.dflt
    if k == 'V':
        if f.type == T_BOOL:
            v = 1 if v else 0
        return 'V%x' % (v & (0xffffffff if f.type in IS32 else 0xffffffffffffffff))
    return k + bytes(v).hex()


def dflt_tok_desc(f):
    """the default as harness op `desc` prints it from the emitted descriptor"""
    if f.dflt is None:
        return '-'
    if f.dflt[0] == 'E':
        return 'E'
    return dflt_tok(f)


def is_nonfinite(f):
    if f.dflt is None or f.dflt[0] != 'V':
        return False
    v = f.dflt[1]
    if f.type == T_FLOAT:
        return (v >> 23) & 0xff == 0xff
    if f.type == T_DOUBLE:
        return (v >> 52) & 0x7ff == 0x7ff
    return False


def finding_pfile(fid):
    """the fixed schema that identifies an open generator finding (known_findings.json)"""
    P = PFile()
    if fid == 'F17':
        # proto2 enum field without default whose first declared value is not 0, in a message without init helper
        flds = [Field('e', 1, L_OPT, T_ENUM), Field('x', 2, L_OPT, T_INT32)]
        flds[0].init = 7
        P.sch = Schema([Msg('NoInit', flds, initmode=1)], 2)
        P.enums = [PEnumDef('Color', [('RED', 7), ('GREEN', 2)])]
        P.field_enum = {(0, 0): 0}
        P.msg_opts = {0: {'gen_init_helpers': False}}
    elif fid == 'F12b':
        # float / double defaults inf and nan
        flds = [Field('a', 1, L_OPT, T_FLOAT, dflt=('V', 0x7f800000)), Field('b', 2, L_OPT, T_DOUBLE, dflt=('V', 0xfff0000000000000)),
                Field('c', 3, L_OPT, T_DOUBLE, dflt=('V', 0x7ff8000000000000))]
        P.sch = Schema([Msg('NonFinite', flds)], 2)
        P.enums = [PEnumDef('Color', [('RED', 0)])]
    else:
        raise KeyError(fid)
    P.parent = {0: None}
    P.infile = {0: 0}
    P.decl = {0: list(range(len(P.sch.msgs[0].fields)))}
    P.pkg = ['t', 'dep']
    return P


def corpus_pfiles():
    """fixed file sets run before the random ones: the packed-option matrix and implicit-presence fields of every type"""
    out = []
    for syntax in (2, 3):
        lab = L_OPT if syntax == 2 else L_NONE
        P = PFile()
        rep = []
        n = 1
        for t in (T_INT32, T_SINT64, T_BOOL, T_ENUM, T_FIXED32, T_DOUBLE):
            for k in range(3):          # [packed = false], [packed = true], option not written
                rep.append(Field('r%d' % n, n, L_REP, t, F_PACKED if (k == 1 or (k == 2 and syntax == 3)) else 0))
                n += 1
        sing = [Field('s%d' % (100 + t), 100 + t, lab, t, dflt=('E', None) if (t == T_STRING and syntax == 3) else None) for t in range(16)]
        P.sch = Schema([Msg('Packed', rep, syntax=syntax), Msg('Singular', sing, syntax=syntax)], syntax)
        P.enums = [PEnumDef('Color', [('C_ZERO', 0), ('C_NEG', -5), ('C_BIG', 2147483647), ('C_MIN', -2147483648), ('C_ONE', 1)])]
        P.field_enum = {(0, i): 0 for i, f in enumerate(rep) if f.type == T_ENUM}
        P.field_enum.update({(1, i): 0 for i, f in enumerate(sing) if f.type == T_ENUM})
        P.parent = {0: None, 1: None}
        P.infile = {0: 0, 1: 0}
        P.decl = {0: list(range(len(rep))), 1: list(reversed(range(len(sing))))}
        P.explicit_packed = {(0, i): (None if i % 3 == 2 else (i % 3 == 1)) for i in range(len(rep))}
        P.services = [('Zoo', [('Zebra', 0, 1), ('Ant', 1, 0), ('Mole', 0, 0), ('Bee', 1, 1)])]
        out.append(('matrix%d' % syntax, P))
    # every tricky default literal, and numeric defaults at the extremes
    P = PFile()
    flds = []
    n = 1
    for b in pbgen.TRICKY_STR:
        flds.append(Field('s%d' % n, n, L_OPT, T_STRING, dflt=('S', b))); n += 1
    # an explicitly EMPTY default (seeded change S113: the descriptor's default object and the one init installs must be the same object)
    flds.append(Field('s%d' % n, n, L_OPT, T_STRING, dflt=('S', b''))); n += 1
    flds.append(Field('b%d' % n, n, L_OPT, T_BYTES, dflt=('B', b''))); n += 1
    for b in pbgen.TRICKY_BIN:
        flds.append(Field('b%d' % n, n, L_OPT, T_BYTES, dflt=('B', b))); n += 1
    for t, v in ((T_INT32, 0x80000000), (T_INT32, 0x7fffffff), (T_SINT32, 0xffffffff), (T_SFIXED32, 0x80000000),
                 (T_INT64, 0x8000000000000000), (T_INT64, 0x7fffffffffffffff), (T_UINT64, 0xffffffffffffffff),
                 (T_UINT32, 0xffffffff), (T_FIXED64, 0xffffffffffffffff), (T_SINT64, 0x8000000000000000),
                 (T_FLOAT, 0x4b800001), (T_FLOAT, 0x80000000), (T_FLOAT, 0x00000001), (T_FLOAT, 0x7f7fffff),
                 (T_DOUBLE, 0x3fb999999999999a), (T_DOUBLE, 0x8000000000000000), (T_DOUBLE, 0x0000000000000001),
                 (T_DOUBLE, 0x7fefffffffffffff), (T_DOUBLE, 0x4340000000000001), (T_BOOL, 1), (T_ENUM, 0xfffffffb)):
        flds.append(Field('n%d' % n, n, L_OPT, t, dflt=('V', v))); n += 1
    P.sch = Schema([Msg('Dflts', flds, syntax=2)], 2)
    P.enums = [PEnumDef('Color', [('C_ZERO', 0), ('C_NEG', -5), ('C_BIG', 2147483647), ('C_MIN', -2147483648), ('C_ONE', 1)])]
    P.field_enum = {(0, i): 0 for i, f in enumerate(flds) if f.type == T_ENUM}
    P.parent = {0: None}
    P.infile = {0: 0}
    P.decl = {0: list(range(len(flds)))}
    out.append(('defaults', P))
    out.append(('nonfinite', finding_pfile('F12b')))
    # helper options set on a message and inherited by messages nested three and four deep (no file-level option)
    for variant in (0, 1):
        P = PFile()
        names = ['Outer', 'Mid', 'Leaf', 'Deep', 'Other', 'In', 'InIn', 'Plain', 'PlainIn']
        msgs = [Msg(nm, [Field('v', 1, L_OPT, T_INT32), Field('s', 2, L_OPT, T_STRING)]) for nm in names]
        P.sch = Schema(msgs, 2)
        P.parent = {0: None, 1: 0, 2: 1, 3: 2, 4: None, 5: 4, 6: 5, 7: None, 8: 7}
        P.infile = {i: 0 for i in range(len(names))}
        P.decl = {i: [0, 1] for i in range(len(names))}
        P.enums = [PEnumDef('Color', [('RED', 0)])]
        if variant == 0:
            P.msg_opts = {0: {'gen_pack_helpers': True}, 4: {'gen_pack_helpers': False}, 5: {'gen_pack_helpers': True},
                          2: {'gen_init_helpers': False}}
        else:
            P.file_opts[0]['gen_pack_helpers'] = False
            P.msg_opts = {1: {'gen_pack_helpers': True}, 4: {'gen_init_helpers': False}, 6: {'gen_init_helpers': True}}
        out.append(('nesthelpers%d' % variant, P))
    # string_as_bytes under every label and as a oneof member: the field is a ProtobufCBinaryData with a has_ flag, whatever
    # the .proto type says (seeded change S59)
    for syntax in (2, 3):
        P = PFile()
        sing = L_OPT if syntax == 2 else L_NONE
        flds = [Field('raw', 1, sing, T_BYTES), Field('many', 3, L_REP, T_BYTES),
                Field('os', 4, sing, T_BYTES, F_ONEOF, 0), Field('on', 5, sing, T_INT32, F_ONEOF, 0),
                Field('plain', 6, sing, T_STRING, dflt=('E', None) if syntax == 3 else None), Field('b', 7, sing, T_BYTES), Field('tail', 8, sing, T_INT32)]
        sab = {'raw', 'many', 'os'}
        if syntax == 2:
            flds.append(Field('need', 2, L_REQ, T_BYTES))
            sab.add('need')
        m = Msg('Sab', flds, ngroups=1, syntax=syntax)
        P.sch = Schema([m], syntax)
        P.enums = [PEnumDef('Color', [('RED', 0)])]
        P.parent = {0: None}
        P.infile = {0: 0}
        P.decl = {0: list(range(len(m.fields)))}
        P.oneof_names[(0, 0)] = 'kind0'
        P.fopt = {(0, i): {'sab': True} for i, f in enumerate(m.fields) if f.name in sab}
        out.append(('sab%d' % syntax, P))
    # an enum defined in an imported file whose C package differs from the importing file's, used with and without an
    # explicit default, required and optional (seeded change S70); and required enum fields without default whose first
    # declared value is not 0 (seeded change S68: such a field has NO default as far as the parser is concerned)
    for variant in (0, 1):
        P = PFile()
        flds = [Field('e', 1, L_OPT, T_ENUM, dflt=('V', 5)), Field('r', 2, L_REQ, T_ENUM, dflt=('V', 3)), Field('n', 3, L_OPT, T_ENUM),
                Field('q', 4, L_REQ, T_ENUM), Field('many', 5, L_REP, T_ENUM), Field('loc', 6, L_REQ, T_ENUM), Field('x', 7, L_REQ, T_INT32)]
        flds[2].init = 3
        flds[3].init = 3
        flds[5].init = 7
        outer = [Field('in1', 1, L_OPT, T_MESSAGE, sub=0), Field('ins', 2, L_REP, T_MESSAGE, sub=0), Field('k', 3, L_OPT, T_INT32)]
        P.sch = Schema([Msg('Uses', flds), Msg('Outer', outer), Msg('DepMsg', [Field('v', 1, L_OPT, T_INT32)])], 2)
        P.enums = [PEnumDef('DepEnum', [('D_C', 3), ('D_A', 0), ('D_B', 5)], None, 1), PEnumDef('Level', [('HIGH', 7), ('LOW', 2)])]
        P.field_enum = {(0, i): (1 if f.name == 'loc' else 0) for i, f in enumerate(P.sch.msgs[0].fields) if f.type == T_ENUM}
        P.parent = {0: None, 1: None, 2: None}
        P.infile = {0: 0, 1: 0, 2: 1}
        P.decl = {0: list(range(7)), 1: [0, 1, 2], 2: [0]}
        P.pkg = ['t', 'other.pkg']
        P.cpkg = [None, 'Y'] if variant == 0 else ['Xc', None]
        out.append(('depenum%d' % variant, P))
        if variant == 0:
            import copy
            Q = copy.deepcopy(P)
            Q.forwarder = True
            out.append(('depfwd', Q))
    # two files of DIFFERENT syntax generated in one protoc run, each importing / imported (seeded change S80: nothing the
    # generator learns about one file may leak into the next)
    for variant in (0, 1):
        P = PFile()
        s3 = [Field('id', 1, L_NONE, T_INT32), Field('nums', 2, L_REP, T_INT32, F_PACKED), Field('name', 3, L_NONE, T_STRING, dflt=('E', None)),
              Field('tags', 4, L_REP, T_STRING, dflt=('E', None)), Field('e', 5, L_NONE, T_ENUM), Field('oa', 6, L_NONE, T_INT32, F_ONEOF, 0),
              Field('ob', 7, L_NONE, T_STRING, F_ONEOF, 0, dflt=('E', None)), Field('d', 8, L_NONE, T_DOUBLE), Field('raw', 9, L_NONE, T_BYTES)]
        s2 = [Field('id', 1, L_REQ, T_INT32), Field('nums', 2, L_REP, T_INT32), Field('name', 3, L_OPT, T_STRING), Field('pk', 4, L_REP, T_SINT64, F_PACKED),
              Field('e', 5, L_OPT, T_ENUM, dflt=('V', 2)), Field('oa', 6, L_OPT, T_INT32, F_ONEOF, 0), Field('ob', 7, L_OPT, T_STRING, F_ONEOF, 0),
              Field('d', 8, L_OPT, T_DOUBLE, dflt=('V', 0x3ff8000000000000)), Field('raw', 9, L_OPT, T_BYTES)]
        if variant == 0:
            # case.proto is proto3 and uses a message of the proto2 dep.proto
            s3.append(Field('legacy', 10, L_NONE, T_MESSAGE, sub=1))
            msgs = [Msg('Modern', s3, ngroups=1, syntax=3), Msg('Legacy', s2, ngroups=1, syntax=2)]
            P.file_syntax = [3, 2]
            enums = [PEnumDef('Kind3', [('K3_ZERO', 0), ('K3_ONE', 1), ('K3_NEG', -3)], None, 0), PEnumDef('Kind2', [('K2_TWO', 2), ('K2_ZERO', 0)], None, 1)]
        else:
            s2.append(Field('modern', 10, L_OPT, T_MESSAGE, sub=1))
            msgs = [Msg('Legacy', s2, ngroups=1, syntax=2), Msg('Modern', s3, ngroups=1, syntax=3)]
            P.file_syntax = [2, 3]
            enums = [PEnumDef('Kind2', [('K2_TWO', 2), ('K2_ZERO', 0)], None, 0), PEnumDef('Kind3', [('K3_ZERO', 0), ('K3_ONE', 1), ('K3_NEG', -3)], None, 1)]
        P.sch = Schema(msgs, P.file_syntax[0])
        P.enums = enums
        P.field_enum = {(mi, i): mi for mi, m in enumerate(msgs) for i, f in enumerate(m.fields) if f.type == T_ENUM}
        P.parent = {0: None, 1: None}
        P.infile = {0: 0, 1: 1}
        P.decl = {0: list(range(len(msgs[0].fields))), 1: list(range(len(msgs[1].fields)))}
        P.oneof_names = {(0, 0): 'pick0', (1, 0): 'pick0'}
        P.pkg = ['t', 'dep']
        out.append(('mixsyn%d' % variant, P))
    return out


def gen_ops(P):
    sch = P.sch
    L = []
    for mi, m in enumerate(sch.msgs):
        fi = P.infile[mi]
        toks = ['gendesc', str(mi), P.msg_full(mi), m.name, P.pkg[fi] or '-', P.cpkg[fi] or '-', str(P.fsyn(fi)),
                '1' if P.code_size(fi) else '0']
        # effective gen_init_helpers is computed by the MODEL from the option chain: file value, then each enclosing message
        chain = [tok_opt(P.file_opts[fi].get('gen_init_helpers'))] + [tok_opt(P.msg_opts.get(k, {}).get('gen_init_helpers')) for k in P.chain(mi)]
        toks += [','.join(chain), '1' if P.file_opts[fi].get('use_oneof_field_name') else '0', str(len(m.fields))]
        for k in P.decl[mi]:
            f = m.fields[k]
            pl = {L_REQ: 0, L_OPT: 1, L_REP: 2, L_NONE: 3}[f.label]
            if f.oneof:
                pl = 1 if P.fsyn(fi) == 2 else 3
            fo_ = P.fopt.get((mi, k), {})
            toks += [f.name, str(f.id), str(pl), str(T_STRING if fo_.get('sab') else f.type), tok_opt(explicit_packed(P, mi, k)),
                     str(f.group) if f.oneof else '-1', P.oneof_names[(mi, f.group)] if f.oneof else '-',
                     str(f.sub) if f.type == T_MESSAGE else '-1', dflt_tok(f), '1' if fo_.get('sab') else '0', '1' if fo_.get('deprecated') else '0']
        L.append(' '.join(toks))
        pchain = [tok_opt(P.file_opts[fi].get('gen_pack_helpers'))] + [tok_opt(P.msg_opts.get(k, {}).get('gen_pack_helpers')) for k in P.chain(mi)]
        L.append('genapi %d %s %s' % (mi, ','.join(pchain), ','.join(chain)))
    for ei, e in enumerate(P.enums):
        toks = ['genenum', str(ei), P.enum_full(ei), e.name, P.pkg[e.infile] or '-', P.cpkg[e.infile] or '-',
                '1' if P.code_size(e.infile) else '0', str(len(e.values))]
        for nm, v in e.values:
            toks += [nm, str(v)]
        L.append(' '.join(toks))
    for si, (sname, methods) in enumerate(P.services):
        full = '.'.join(([P.pkg[0]] if P.pkg[0] else []) + [sname])
        toks = ['gensvc', str(si), full, sname, P.pkg[0] or '-', P.cpkg[0] or '-', '1' if P.code_size(0) else '0', str(len(methods))]
        for mn, a, b in methods:
            toks += [mn, str(a), str(b)]
        L.append(' '.join(toks))
    return L
