#!/usr/bin/env python3
"""
oracles.py -- the direct oracles: each property's own statement evaluated on the output of the
REAL code (harness), independent of the Lean model.  An oracle returns
   {'failures': [(case line index, what)], 'distinct': [hashable keys of non-trivial cases],
    'samples': [...], 'stats': {...}}
"""
import re, hashlib
import pbgen

RULES = {
    'c02': 'random schemas x well-formed messages (boundary-heavy values, lengths on both sides of 127/128 and, in the '
           'thorough tier, 16383/16384; packed int32 negatives); non-trivial = distinct serialisation of >= 2 bytes; '
           'distinct counted by hash of the packed bytes',
    'c18': 'exhaustive short append histories over capacities 1..8 and lengths {0,1,cap-1,cap,cap+1,2cap,5cap} plus random '
           'long histories, default and recording allocator, refusal masks; non-trivial = history that grows at least once; '
           'distinct by (capacity, lengths)',
}


def kv(line):
    return dict(m.group(1, 2) for m in re.finditer(r'(\w+)=(\S*)', line))


def h(s):
    return hashlib.sha1(s.encode()).hexdigest()[:12]


def iter_ops(res, lf=None):
    for i, l in enumerate(res['lines']):
        if not l or l.startswith(('#', 'schema', 'msg ', 'f ')):
            continue
        if lf and not lf(l):
            continue
        out = res['impl'][i] if i < len(res['impl']) else '<missing>'
        yield i, l, out


def oracle_c02(res, lf=None):
    fails, distinct, samples = [], [], []
    stats = {'pack_ops': 0, 'with_memmove_prefix': 0}
    for i, l, out in iter_ops(res, lf):
        op = l.split(' ', 1)[0]
        if out.startswith('CRASH') or out == '<missing>':
            fails.append((i, 'implementation crashed or produced no output (%s) on %s' % (out, op)))
            continue
        if op != 'pack':
            continue
        d = kv(out)
        stats['pack_ops'] += 1
        if not (d.get('size') == d.get('packret') == d.get('bufret')):
            fails.append((i, 'get_packed_size / pack / pack_to_buffer lengths differ: %s/%s/%s' % (d.get('size'), d.get('packret'), d.get('bufret'))))
        elif d.get('guard') != '1':
            fails.append((i, 'pack wrote outside the first get_packed_size bytes (guard bytes changed)'))
        elif d.get('same') != '1':
            fails.append((i, 'two pack calls on the same message differ or exceed the size'))
        elif d.get('pack') != d.get('buf'):
            fails.append((i, 'pack and pack_to_buffer produced different bytes'))
        elif len(d.get('pack', '')) // 2 != int(d.get('size', '-1')):
            fails.append((i, 'number of bytes written differs from get_packed_size'))
        if len(d.get('pack', '')) >= 4:
            distinct.append(h(d['pack']))
        if int(d.get('size', '0')) >= 130:
            stats['with_memmove_prefix'] += 1
        if len(samples) < 3 and len(l) < 400:
            samples.append({'op': l, 'impl': out[:300]})
    return {'failures': fails, 'distinct': distinct, 'samples': samples, 'stats': stats}


def oracle_c18(res, lf=None):
    fails, distinct, samples = [], [], []
    stats = {'append_histories': 0, 'grew': 0, 'refused': 0, 'streaming_msgs': 0}
    for i, l, out in iter_ops(res, lf):
        t = l.split()
        op = t[0]
        if out.startswith('CRASH') or out == '<missing>':
            fails.append((i, 'implementation crashed or produced no output (%s) on %s' % (out, op)))
            continue
        if op == 'pack':
            d = kv(out)
            stats['streaming_msgs'] += 1
            if d.get('pack') != d.get('buf') or d.get('size') != d.get('bufret'):
                fails.append((i, 'bytes delivered to the virtual buffer differ from what pack writes'))
            chunks = [int(x) for x in d.get('chunks', '').split(',') if x]
            if sum(chunks) != int(d.get('size', '-1')):
                fails.append((i, 'append chunk lengths do not add up to get_packed_size'))
            continue
        if op != 'append':
            continue
        stats['append_histories'] += 1
        cap, custom, mask = int(t[1]), int(t[2]), t[3]
        lens = [int(x) for x in t[4:]]
        # list-concatenation oracle (independent of the Lean model)
        data = b''
        ctr = 0
        alloced = cap
        k = 0           # allocation request counter
        steps = re.findall(r'\[len=(\d+) alloced=(\d+) mf=(\d)\]', out)
        bad = None
        grew = False
        if len(steps) != len(lens):
            bad = 'wrong number of steps'
        for j, ln in enumerate(lens):
            chunk = bytes(((ctr + x) * 7 + 1) & 0xff for x in range(ln))
            ctr += ln
            if len(data) + ln > alloced:
                na = alloced * 2
                while na < len(data) + ln:
                    na += na
                refused = custom and mask != '-' and k < len(mask) and mask[k] == '1'
                k += 1
                if refused:
                    stats['refused'] += 1
                    # contents and length must stay as they were
                else:
                    alloced = na
                    grew = True
                    data += chunk
            else:
                data += chunk
            if bad is None and j < len(steps):
                L, A, _ = steps[j]
                if int(L) != len(data):
                    bad = 'length after append %d is %s, expected %d' % (j, L, len(data))
                elif int(A) != alloced:
                    bad = 'capacity after append %d is %s, expected %d' % (j, A, alloced)
                elif int(L) > int(A):
                    bad = 'length exceeds capacity'
        d = kv(out)
        if bad is None and d.get('data') != data.hex():
            bad = 'buffer contents are not the concatenation of the appended chunks'
        if bad is None and d.get('scratch_kept') != '1':
            bad = 'scratch array handling broken'
        if bad is None and custom and (d.get('live') != '0' or d.get('foreign') != '0'):
            bad = 'heap blocks not returned exactly once through the configured allocator (live=%s foreign=%s)' % (d.get('live'), d.get('foreign'))
        if bad:
            fails.append((i, bad))
        if grew:
            stats['grew'] += 1
            distinct.append((cap, tuple(lens)))
        if len(samples) < 3:
            samples.append({'op': l, 'impl': out[:300]})
    return {'failures': fails, 'distinct': distinct, 'samples': samples, 'stats': stats}


def schema_from_lines(lines, idx):
    """rebuild the pbgen.Schema in force at case line idx"""
    start = None
    for i in range(idx, -1, -1):
        if lines[i].startswith('schema '):
            start = i
            break
    if start is None:
        return None
    msgs = []
    j = start + 1
    while j < len(lines) and lines[j].startswith('msg '):
        t = lines[j].split()
        nf, initmode, ngroups = int(t[3]), int(t[4]), int(t[5])
        fields = []
        for k in range(nf):
            ft = lines[j + 1 + k].split()
            d = ft[8]
            dflt = None
            if d == 'E':
                dflt = ('E', None)
            elif d[0] == 'S':
                dflt = ('S', bytes.fromhex(d[1:]))
            elif d[0] == 'B':
                dflt = ('B', bytes.fromhex(d[1:]))
            elif d[0] == 'V':
                dflt = ('V', int(d[1:], 16))
            init = int(ft[9][1:], 16) if ft[9][0] == 'V' else None
            fields.append(pbgen.Field(ft[1], int(ft[2]), int(ft[3]), int(ft[4]), int(ft[5]), int(ft[6]), int(ft[7]), dflt, init))
        m = pbgen.Msg(t[2], fields, initmode, ngroups)
        m.fields = fields      # keep file order (already sorted by id)
        msgs.append(m)
        j += 1 + nf
    return pbgen.Schema(msgs)


_schema_cache = {}


def schema_at(res, idx):
    start = None
    for i in range(idx, -1, -1):
        if res['lines'][i].startswith('schema '):
            start = i
            break
    key = (id(res), start)
    if key not in _schema_cache:
        if len(_schema_cache) > 64:
            _schema_cache.clear()
        _schema_cache[key] = schema_from_lines(res['lines'], idx)
    return _schema_cache[key]


RULES.update({
    'c01': 'random schemas (proto2/proto3, all 17 types, all labels, packed/unpacked, oneofs, nesting, sparse and huge field '
           'numbers) x well-formed messages with boundary-heavy values, -0.0/NaN payloads, lengths around 127/128, unknown fields; '
           'each is packed, parsed back and compared member by member (bitwise) by this oracle; non-trivial = message whose '
           'encoding has >= 2 bytes; distinct by hash of the encoding',
    'c05': 'valid encodings, non-canonical re-encodings, truncations at random offsets, bit flips, byte substitutions, '
           'insertions of continuation bytes, splices and pure random bytes, over random schemas, parsed by the real code under '
           'ASan+UBSan from an exact-size heap block; non-trivial = input of >= 2 bytes; distinct by (schema block, input) hash',
    'c06': 'same byte strings as C05; for every ACCEPTED input: message_check, three serialisers, re-parse, re-serialise; '
           'non-trivial = accepted input of >= 2 bytes; distinct by hash',
    'c11': 'proto2 schemas biased to required fields (any count incl. >128 in the thorough tier, any numbering) x encodings '
           'with all required fields present or exactly one required field without default removed at a random nesting depth, '
           'fields shuffled, unknown fields interleaved, stale occurrences; expectation is computed by the generator; '
           'non-trivial = every case; distinct by hash of the input',
})


def oracle_c01(res, lf=None):
    fails, distinct, samples = [], [], []
    stats = {'roundtrips': 0, 'with_unknown': 0, 'with_oneof_selected': 0}
    for i, l, out in iter_ops(res, lf):
        op = l.split(' ', 1)[0]
        if out.startswith('CRASH') or out == '<missing>':
            fails.append((i, 'implementation crashed or produced no output (%s) on %s' % (out, op)))
            continue
        if op != 'rt':
            continue
        stats['roundtrips'] += 1
        sch = schema_at(res, i)
        orig, _ = pbgen.parse_lit(sch, l[3:])
        m = re.match(r'pack=(\S*) unpack=(ok|fail)(.*)$', out)
        if not m:
            fails.append((i, 'unparseable harness output'))
            continue
        if m.group(2) == 'fail':
            fails.append((i, 'the bytes produced by pack were rejected by unpack'))
            continue
        rest = m.group(3).strip()
        got, used = pbgen.parse_lit(sch, rest)
        tail = dict(x.split('=') for x in rest.split()[used:] if '=' in x)
        if pbgen.sem(sch, orig) != pbgen.sem(sch, got):
            fails.append((i, 'message after pack+unpack differs from the original (' + first_sem_diff(sch, orig, got) + ')'))
        elif tail.get('repack_same') != '1':
            fails.append((i, 're-serialising the parsed message gives different bytes'))
        if len(m.group(1)) >= 4:
            distinct.append(h(m.group(1)))
        if orig['unk']:
            stats['with_unknown'] += 1
        if len(samples) < 3 and len(l) < 300:
            samples.append({'op': l, 'impl': out[:300]})
    return {'failures': fails, 'distinct': distinct, 'samples': samples, 'stats': stats}


def first_sem_diff(sch, a, b):
    sa, sb = pbgen.sem(sch, a), pbgen.sem(sch, b)
    for k in sa[0]:
        if sa[0][k] != sb[0].get(k):
            return 'field %d: %s -> %s' % (k, str(sa[0][k])[:80], str(sb[0].get(k))[:80])
    if sa[1] != sb[1]:
        return 'unknown fields differ'
    return '?'


def oracle_c05(res, lf=None):
    fails, distinct, samples = [], [], []
    stats = {'inputs': 0, 'accepted': 0, 'rejected': 0}
    for i, l, out in iter_ops(res, lf):
        t = l.split()
        op = t[0]
        if op not in ('unpack', 'acc', 'unpackf'):
            continue
        stats['inputs'] += 1
        if out.startswith('CRASH') or out == '<missing>':
            fails.append((i, 'parser crashed / sanitizer report / timeout (%s)' % out))
            continue
        if out.startswith('ok'):
            stats['accepted'] += 1
        elif out.startswith('fail'):
            stats['rejected'] += 1
        else:
            fails.append((i, 'unexpected harness output'))
        d = kv(out)
        if d.get('live', '0') != '0' or d.get('foreign', '0') != '0':
            fails.append((i, 'allocator imbalance after parse (+free): live=%s foreign=%s' % (d.get('live'), d.get('foreign'))))
        if len(t[2]) >= 5:
            distinct.append(h(' '.join(pbgen_block(res, i)) + t[1] + t[2]))
        if len(samples) < 3 and len(l) < 200:
            samples.append({'op': l, 'impl': out[:200]})
    return {'failures': fails, 'distinct': distinct, 'samples': samples, 'stats': stats}


def pbgen_block(res, idx):
    for i in range(idx, -1, -1):
        if res['lines'][i].startswith('schema '):
            return [str(i)]
    return ['-']


def oracle_c06(res, lf=None):
    fails, distinct, samples = [], [], []
    stats = {'inputs': 0, 'accepted': 0}
    for i, l, out in iter_ops(res, lf):
        t = l.split()
        if t[0] != 'acc':
            continue
        stats['inputs'] += 1
        if out.startswith('CRASH') or out == '<missing>':
            fails.append((i, 'crash / sanitizer report while parsing or re-serialising an input (%s)' % out))
            continue
        if not out.startswith('ok'):
            continue
        stats['accepted'] += 1
        d = kv(out)
        if d.get('check') != '1':
            fails.append((i, 'accepted message fails protobuf_c_message_check'))
        elif d.get('same3') != '1':
            fails.append((i, 'the three serialisers disagree on an accepted message'))
        elif d.get('re') != 'ok':
            fails.append((i, 'bytes serialised from an accepted message are refused by the parser'))
        elif d.get('stable') != '1':
            fails.append((i, 'second serialisation differs from the first'))
        if len(t[2]) >= 5:
            distinct.append(h(pbgen_block(res, i)[0] + t[1] + t[2]))
        if len(samples) < 3 and len(l) < 200:
            samples.append({'op': l, 'impl': out[:200]})
    return {'failures': fails, 'distinct': distinct, 'samples': samples, 'stats': stats}


def oracle_c11(res, lf=None):
    fails, distinct, samples = [], [], []
    stats = {'complete': 0, 'missing_one': 0}
    for i, l, out in iter_ops(res, lf):
        t = l.split()
        if t[0] != 'unpack' or not t[-1].startswith('#expect='):
            continue
        exp = t[-1].split('=')[1]
        if out.startswith('CRASH') or out == '<missing>':
            fails.append((i, 'crash (%s)' % out))
            continue
        got = 'ok' if out.startswith('ok') else 'fail'
        stats['complete' if exp == 'ok' else 'missing_one'] += 1
        if exp == 'ok' and got == 'fail':
            fails.append((i, 'an encoding with every required field present was rejected'))
        if exp == 'fail' and got == 'ok':
            fails.append((i, 'an encoding lacking a required field (no default) was accepted'))
        distinct.append(h(pbgen_block(res, i)[0] + t[1] + t[2]))
        if len(samples) < 3 and len(l) < 200:
            samples.append({'op': l, 'impl': out[:120]})
    return {'failures': fails, 'distinct': distinct, 'samples': samples, 'stats': stats}


RULES.update({
    'c07': 'random schemas x (valid | re-encoded with sub-messages split over 2-3 occurrences, several oneof members in '
           'sequence, stale scalars, empty packed records | mutated) inputs, parsed with a recording allocator (every block '
           'given an id, frees checked against live blocks, system malloc/free inside protobuf-c.c counted) and freed; also '
           'parsed with no allocator (system allocator counted); non-trivial = run with >= 2 allocations; distinct by trace hash',
    'c08': 'for each input of a structurally diverse set (as C07): refuse only the k-th request for every k, the k-th and all '
           'later ones for every k, and random subsets; outcome, leak and double-free accounting checked per (input, mask); '
           'non-trivial = run in which a refusal was actually delivered; distinct by (input, mask) hash',
})


def trace_balance(tr):
    """(ok, reason) for a trace string like ' a0:24 a1:8 f1 r16 f0'"""
    live = set()
    for ev in tr.split():
        if ev[0] == 'a':
            live.add(ev[1:].split(':')[0])
        elif ev[0] == 'f':
            if ev[1:] == '?' or ev[1:] not in live:
                return False, 'block %s freed twice or never allocated' % ev[1:]
            live.discard(ev[1:])
    if live:
        return False, 'blocks never returned: %s' % sorted(live)[:5]
    return True, ''


def oracle_c07(res, lf=None):
    fails, distinct, samples = [], [], []
    stats = {'runs': 0, 'accepted': 0, 'rejected': 0, 'allocs': 0, 'system_allocator_runs': 0}
    for i, l, out in iter_ops(res, lf):
        t = l.split()
        if t[0] not in ('unpackf', 'unpacksys'):
            continue
        if out.startswith('CRASH') or out == '<missing>':
            fails.append((i, 'crash / sanitizer report (%s)' % out))
            continue
        d = kv(out)
        if t[0] == 'unpacksys':
            stats['system_allocator_runs'] += 1
            if d.get('sysmalloc') != d.get('sysfree'):
                fails.append((i, 'system allocator: %s blocks obtained, %s returned' % (d.get('sysmalloc'), d.get('sysfree'))))
            if d.get('custom_calls') != '0':
                fails.append((i, 'custom allocator used although none was supplied'))
            continue
        stats['runs'] += 1
        stats['accepted' if out.startswith('ok') else 'rejected'] += 1
        tr = out.split('trace=')[1] if 'trace=' in out else ''
        tr = tr.replace('ERASE-MISMATCH', '')
        ok, why = trace_balance(tr)
        stats['allocs'] += tr.count(' a')
        if d.get('live') != '0' or d.get('foreign') != '0':
            fails.append((i, 'after parse%s: %s blocks outstanding, %s foreign frees' % ('+free' if out.startswith('ok') else ' failure', d.get('live'), d.get('foreign'))))
        elif not ok:
            fails.append((i, why))
        elif d.get('sysmalloc') != '0':
            fails.append((i, 'system malloc/free used although a custom allocator was supplied'))
        if tr.count(' a') >= 2:
            distinct.append(h(tr))
        if len(samples) < 3 and len(l) < 200:
            samples.append({'op': l, 'impl': out[:300]})
    return {'failures': fails, 'distinct': distinct, 'samples': samples, 'stats': stats}


def oracle_c08(res, lf=None):
    fails, distinct, samples = [], [], []
    stats = {'runs': 0, 'refusal_delivered': 0, 'failed_cleanly': 0, 'refusals_by_size': {}}
    for i, l, out in iter_ops(res, lf):
        t = l.split()
        if t[0] == 'append':
            r = oracle_c18({'lines': [l], 'impl': [out]})
            fails += [(i, w) for _, w in r['failures']]
            continue
        if t[0] != 'unpackf':
            continue
        stats['runs'] += 1
        if out.startswith('CRASH') or out == '<missing>':
            fails.append((i, 'crash under allocation failure (%s)' % out))
            continue
        d = kv(out)
        tr = out.split('trace=')[1] if 'trace=' in out else ''
        ok, why = trace_balance(tr)
        refused = int(d.get('refused', '0'))
        if refused > 0:
            stats['refusal_delivered'] += 1
            for ev in tr.split():
                if ev[0] == 'r':
                    stats['refusals_by_size'][ev[1:]] = stats['refusals_by_size'].get(ev[1:], 0) + 1
            if out.startswith('ok'):
                fails.append((i, 'parse reported success although an allocation request was refused'))
            else:
                stats['failed_cleanly'] += 1
            distinct.append(h(l))
        if d.get('live') != '0' or d.get('foreign') != '0':
            fails.append((i, 'leak or foreign free under allocation failure: live=%s foreign=%s' % (d.get('live'), d.get('foreign'))))
        elif not ok:
            fails.append((i, why))
        if len(samples) < 3 and len(l) < 200 and refused:
            samples.append({'op': l, 'impl': out[:300]})
    # keep the size histogram small
    top = sorted(stats['refusals_by_size'].items(), key=lambda kv_: -kv_[1])[:12]
    stats['refusals_by_size'] = dict(top)
    return {'failures': fails, 'distinct': distinct, 'samples': samples, 'stats': stats}


import os, subprocess, json, tempfile
BUILD = os.path.join(os.path.dirname(os.path.dirname(os.path.abspath(__file__))), 'build')


def run_ref(lines):
    """run the libprotobuf reference harness on ad-hoc case lines; returns its output lines"""
    os.makedirs(os.path.join(BUILD, 'run'), exist_ok=True)
    fd, path = tempfile.mkstemp(suffix='.case', dir=os.path.join(BUILD, 'run'))
    with os.fdopen(fd, 'w') as f:
        f.write('\n'.join(lines) + '\n')
    try:
        r = subprocess.run([os.path.join(BUILD, 'ref_harness'), path], stdout=subprocess.PIPE, stderr=subprocess.DEVNULL, text=True, timeout=600)
        return r.stdout.split('\n')
    finally:
        os.remove(path)


def json_diff(a, b, path=''):
    if type(a) != type(b):
        return '%s: %s vs %s' % (path, str(a)[:60], str(b)[:60])
    if isinstance(a, dict):
        for k in sorted(set(a) | set(b)):
            if a.get(k) != b.get(k):
                return json_diff(a.get(k), b.get(k), path + '/' + str(k))
    if isinstance(a, list):
        if len(a) != len(b):
            return '%s: %d vs %d elements' % (path, len(a), len(b))
        for i, (x, y) in enumerate(zip(a, b)):
            if x != y:
                return json_diff(x, y, '%s[%d]' % (path, i))
    return '%s: %s vs %s' % (path, str(a)[:60], str(b)[:60])


RULES.update({
    'c03': 'random schemas x well-formed messages packed by protobuf-c; the bytes must equal the canonical encoding produced by an '
           'independent encoder (shortest varints, zig-zag, little-endian, packed iff flagged, descriptor order, unknown last) and '
           'libprotobuf (DynamicMessage built from the same schema) must parse them to the same value; distinct by encoding hash',
    'c04': 'messages re-encoded by an independent encoder in non-canonical but valid ways (field order shuffled, packed/unpacked '
           'flipped and mixed, varints/keys/lengths padded, stale scalar occurrences, empty packed records, unknown fields '
           'interleaved); protobuf-c result compared with libprotobuf result on the same bytes; distinct by input hash',
    'c09': 'pairs (old, new) of schemas, old = new minus a random subset of fields per message; new-schema messages encoded, '
           'parsed and re-serialised by protobuf-c under the OLD schema, then decoded by libprotobuf under the NEW schema and '
           'compared with the original; non-trivial = at least one field of the message type was removed; distinct by input hash',
    'c10': 'as C04 plus: singular sub-messages split over 2-3 occurrences, several members of one oneof in sequence; compared '
           'with libprotobuf; non-trivial = every case; distinct by input hash',
})


def compare_with_ref(res, lf, stats):
    fails, distinct, samples = [], [], []
    ref = res.get('ref') or []
    for i, l, out in iter_ops(res, lf):
        t = l.split()
        if t[0] != 'unpack':
            continue
        r = ref[i] if i < len(ref) else ''
        if out.startswith('CRASH') or out == '<missing>':
            fails.append((i, 'crash (%s)' % out))
            continue
        if not r:
            continue
        stats['compared'] = stats.get('compared', 0) + 1
        if r.startswith('fail'):
            stats['ref_rejects'] = stats.get('ref_rejects', 0) + 1
            continue          # not a valid encoding for the reference: outside the quantifier
        rinit = r.startswith('ok init=1')
        if rinit and not out.startswith('ok'):
            fails.append((i, 'a valid encoding accepted by the reference implementation was rejected'))
            continue
        if not rinit:
            if out.startswith('ok'):
                fails.append((i, 'accepted although the reference finds a required field missing'))
            continue
        sch = schema_at(res, i)
        m, _ = pbgen.parse_lit(sch, out[3:])
        ja = pbgen.sem_json(sch, m)
        jr = json.loads(r.split(' ', 2)[2])
        if ja != jr:
            fails.append((i, 'parsed value differs from the reference implementation: ' + json_diff(ja, jr)))
        distinct.append(h(pbgen_block(res, i)[0] + t[1] + t[2]))
        if len(samples) < 3 and len(l) < 200:
            samples.append({'op': l, 'impl': out[:200], 'ref': r[:200]})
    return {'failures': fails, 'distinct': distinct, 'samples': samples, 'stats': stats}


def oracle_c04(res, lf=None):
    return compare_with_ref(res, lf, {})


def oracle_c10(res, lf=None):
    return compare_with_ref(res, lf, {})


def oracle_c03(res, lf=None):
    fails, distinct, samples = [], [], []
    stats = {'packed': 0, 'ref_decoded': 0}
    # stage 1: canonical-encoding equality; collect bytes per schema block for the reference
    pending = []     # (case line idx, schema start idx, ty, hex, orig)
    for i, l, out in iter_ops(res, lf):
        if not l.startswith('pack '):
            continue
        if out.startswith('CRASH') or out == '<missing>':
            fails.append((i, 'crash (%s)' % out))
            continue
        stats['packed'] += 1
        sch = schema_at(res, i)
        orig, _ = pbgen.parse_lit(sch, l[5:])
        d = kv(out)
        canon = pbgen.encode(sch, orig).hex()
        if d.get('pack') != canon:
            fails.append((i, 'serialisation is not the canonical Protocol Buffers encoding of the message (first difference at byte %d)'
                          % next((k // 2 for k in range(0, min(len(canon), len(d.get('pack', ''))), 2) if canon[k:k + 2] != d.get('pack', '')[k:k + 2]), min(len(canon), len(d.get('pack', ''))) // 2)))
        elif d.get('buf') is not None and d.get('buf') != canon:
            fails.append((i, 'the bytes streamed by pack_to_buffer are not the canonical Protocol Buffers encoding of the message'))
        pending.append((i, int(pbgen_block(res, i)[0]), orig['ty'], d.get('pack', ''), orig))
        if len(d.get('pack', '')) >= 4:
            distinct.append(h(d['pack']))
        if len(samples) < 3 and len(l) < 300:
            samples.append({'op': l, 'impl': out[:200]})
    # stage 2: the reference decodes protobuf-c's bytes
    lines2, idxmap = [], []
    last_block = None
    for i, blk, ty, hx, orig in pending:
        if blk != last_block:
            j = blk
            lines2.append(res['lines'][j]); idxmap.append(None)
            j += 1
            while j < len(res['lines']) and res['lines'][j].startswith(('msg ', 'f ')):
                lines2.append(res['lines'][j]); idxmap.append(None)
                j += 1
            last_block = blk
        lines2.append('ref %d X%s' % (ty, hx)); idxmap.append((i, orig))
    if lines2 and os.path.exists(os.path.join(BUILD, 'ref_harness')):
        outs = run_ref(lines2)
        for k, im in enumerate(idxmap):
            if im is None:
                continue
            i, orig = im
            r = outs[k] if k < len(outs) else ''
            stats['ref_decoded'] += 1
            sch = schema_at(res, i)
            if not r.startswith('ok init=1'):
                fails.append((i, 'the reference implementation does not accept the bytes produced by pack (%s)' % r[:40]))
                continue
            ja = pbgen.sem_json(sch, orig)
            jr = json.loads(r.split(' ', 2)[2])
            if ja != jr:
                fails.append((i, 'the reference implementation reads different values from the packed bytes: ' + json_diff(ja, jr)))
    return {'failures': fails, 'distinct': distinct, 'samples': samples, 'stats': stats}


def oracle_c09(res, lf=None):
    fails, distinct, samples = [], [], []
    stats = {'cases': 0, 'fields_unknown_to_old': 0, 'ref_decoded': 0}
    lines2, idxmap = [], []
    lines = res['lines']
    for i, l, out in iter_ops(res, lf):
        if not l.startswith('acc '):
            continue
        if out.startswith('CRASH') or out == '<missing>':
            fails.append((i, 'crash (%s)' % out))
            continue
        if i == 0 or not lines[i - 1].startswith('#new '):
            continue
        stats['cases'] += 1
        meta = json.loads(lines[i - 1][5:])
        if not out.startswith('ok'):
            fails.append((i, 'data of the newer schema was rejected by the parser built for the older schema'))
            continue
        d = kv(out)
        ty = int(l.split()[1])
        lines2 += meta['schema']; idxmap += [None] * len(meta['schema'])
        lines2.append('ref %d X%s' % (ty, d.get('pack', ''))); idxmap.append((i, meta))
        distinct.append(h(l))
        if len(samples) < 3 and len(l) < 200:
            samples.append({'op': l, 'impl': out[:200]})
    if lines2 and os.path.exists(os.path.join(BUILD, 'ref_harness')):
        outs = run_ref(lines2)
        for k, im in enumerate(idxmap):
            if im is None:
                continue
            i, meta = im
            r = outs[k] if k < len(outs) else ''
            stats['ref_decoded'] += 1
            new = schema_from_lines(meta['schema'], 0)
            orig, _ = pbgen.parse_lit(new, meta['lit'])
            if not r.startswith('ok'):
                fails.append((i, 'bytes re-serialised under the old schema are not valid for the new schema (%s)' % r[:40]))
                continue
            ja = pbgen.sem_json(new, orig)
            jr = json.loads(r.split(' ', 2)[2])
            if ja != jr:
                fails.append((i, 'after parse + re-serialise under the old schema the new schema reads different data: ' + json_diff(ja, jr)))
    return {'failures': fails, 'distinct': distinct, 'samples': samples, 'stats': stats}


RULES['c19'] = ('random schemas rich in string/bytes/message fields x well-formed messages, each also with ONE planted defect '
                '(required string/sub-message missing, null element of a repeated string/message field, n>0 with null array, bytes '
                'with a length but no data in a required / present optional (any non-zero has_) / proto3 / selected oneof / repeated '
                'field) at a random depth; expectation known to the generator; accepted messages are also serialised under ASan; '
                'non-trivial = every case; distinct by literal hash')


def oracle_c19(res, lf=None):
    fails, distinct, samples = [], [], []
    stats = {'well_formed': 0, 'defective': 0, 'serialised_after_accept': 0, 'defect_kinds': {}}
    for i, l, out in iter_ops(res, lf):
        t = l.split()
        if out.startswith('CRASH') or out == '<missing>':
            fails.append((i, 'crash while checking/serialising (%s)' % out))
            continue
        if t[0] == 'pack':
            stats['serialised_after_accept'] += 1
            continue
        if t[0] != 'check':
            continue
        exp = [x for x in t if x.startswith('#expect=')]
        if not exp:
            continue
        exp = exp[0].split('=')[1]
        got = kv(out).get('check')
        if exp == '1':
            stats['well_formed'] += 1
            if got != '1':
                fails.append((i, 'a well-formed message was rejected by protobuf_c_message_check'))
        else:
            stats['defective'] += 1
            kind = t[-1].lstrip('#').split('_')[0]
            stats['defect_kinds'][kind] = stats['defect_kinds'].get(kind, 0) + 1
            if got != '0':
                fails.append((i, 'a message lacking something serialisation needs was accepted: ' + t[-1].lstrip('#').replace('_', ' ')))
        distinct.append(h(l))
        if len(samples) < 3 and len(l) < 250:
            samples.append({'op': l, 'impl': out})
    return {'failures': fails, 'distinct': distinct, 'samples': samples, 'stats': stats}


RULES['c14'] = ('dynamic descriptors (up to 200 fields, dense / sparse / huge numbers, names that are prefixes, extensions and case '
                'variants of each other) queried through the public lookup functions with every key in {each key, key+-1, 0, 2^29+-1, '
                '2^31+-1, 2^32-1, random} and every name in {each name, prefixes, extensions, case variants}; raw range tables with '
                'negative / INT32_MIN / INT32_MAX runs; expected answer = linear scan done by this oracle; distinct by (table, key)')


def oracle_c14(res, lf=None):
    fails, distinct, samples = [], [], []
    stats = {'by_number': 0, 'by_name': 0, 'hits': 0, 'misses': 0, 'range_tables': 0, 'range_keys': 0}
    for i, l, out in iter_ops(res, lf):
        t = l.split()
        if out.startswith('CRASH') or out == '<missing>':
            fails.append((i, 'crash (%s)' % out))
            continue
        if t[0] == 'lookup':
            sch = schema_at(res, i)
            m = sch.msgs[int(t[2])]
            got = int(kv(out).get('idx', '-9'))
            if t[1] == 'fnum':
                key = int(t[3])
                exp = next((k for k, f in enumerate(m.fields) if f.id == key), -1)
                stats['by_number'] += 1
            else:
                exp = next((k for k, f in enumerate(m.fields) if f.name == t[3]), -1)
                stats['by_name'] += 1
            stats['hits' if exp >= 0 else 'misses'] += 1
            if got != exp:
                fails.append((i, 'lookup of %s %s returned index %d, a linear scan of the descriptor gives %d' % (t[1], t[3], got, exp)))
            distinct.append(h(pbgen_block(res, i)[0] + l))
        elif t[0] == 'ranges':
            stats['range_tables'] += 1
            n = int(t[1])
            keys_at = 2 + 2 * (n + 1)
            keys = []
            vals = None
            for x in t[keys_at:]:
                if x.startswith('#vals='):
                    vals = [int(v) for v in x[6:].split(',')]
                else:
                    keys.append(int(x))
            got = [int(x) for x in kv(out).get('r', '').split(',') if x]
            for key, g in zip(keys, got):
                exp = vals.index(key) if key in vals else -1
                stats['range_keys'] += 1
                if g != exp:
                    fails.append((i, 'int_range_lookup(%d) = %d over the table of %s..., expected %d' % (key, g, vals[:6], exp)))
                    break
            distinct.append(h(l))
        elif t[0] == 'leaf' and t[1] == 'int_range_lookup':
            distinct.append(h(l))
        if len(samples) < 3 and len(l) < 200:
            samples.append({'op': l, 'impl': out[:200]})
    return {'failures': fails, 'distinct': distinct, 'samples': samples, 'stats': stats}


RULES['c16'] = ('the same case files (well-formed messages packed three ways and round-tripped; valid, re-encoded and hostile byte strings '
                'parsed) run through the default build and through {-DWORDS_BIGENDIAN, -DNDEBUG, gcc -O0, gcc -O2, clang-14}; every output '
                'line of every variant must equal the default build, which must equal the Lean model; distinct by case hash')
RULES['c17'] = ('one schema shared by N=8 threads, each unpacking / measuring / packing (3 serialisers) / checking / looking up / freeing '
                'its own messages from the same 300+ inputs with the default allocator; per-thread digests must equal the sequential '
                'digest; the same workload under ThreadSanitizer must report no race; distinct = (case file, digest) pairs')


def oracle_c16(res, lf=None):
    fails, distinct, samples = [], [], []
    for i, l, out in iter_ops(res, lf):
        if out.startswith('CRASH') or out == '<missing>':
            fails.append((i, 'default build crashed (%s)' % out))
        distinct.append(h(l))
        if len(samples) < 2 and len(l) < 200:
            samples.append({'op': l, 'impl': out[:200]})
    return {'failures': fails, 'distinct': distinct, 'samples': samples, 'stats': {}}


RULES['gen'] = ('random .proto file sets (proto2/proto3; nesting; a second imported file in another package; c_package; enums with negative / '
                'sparse / extreme / aliased values in random declaration order; all field types and labels; oneofs; defaults; keyword and '
                'mixed-case field names; services; every protobuf-c file / message / field option; optimize_for) -> protoc + the protoc-gen-c '
                'built from /repo, twice -> gcc (ASan/UBSan harness on the generated code, -std=c99 on the sources), g++ -std=c++17 on the '
                'headers, offsetof/type/enum-constant probe.  Compared: dumps of every generated message / enum / service descriptor, of the '
                'static INIT objects, init functions and unpack(empty), stub dispatch, helper declarations, and pack / round trip / accept / '
                'check of random messages ON THE GENERATED CODE, against the Lean generator + runtime model; plus direct oracles per property '
                '(declared defaults, declared numbers/names/order, literal dispatch index, option-driven API) computed from the .proto alone.')


def oracle_c17(res, lf=None):
    samples = []
    for i, l, out in iter_ops(res, lf):
        if len(samples) < 2 and len(l) < 200:
            samples.append({'op': l, 'impl': out[:120]})
    return {'failures': [], 'distinct': [], 'samples': samples, 'stats': {}}


def match_known(known, pid, what, payload):
    """an OPEN finding of known_findings.json that matches this failure, else None"""
    for k in known.get('findings', []):
        if k.get('status') != 'open' or k.get('property') != pid:
            continue
        m = k.get('match', {})
        if 'what_regex' in m and not re.search(m['what_regex'], what):
            continue
        if 'op_regex' in m and not any(re.search(m['op_regex'], o) for o in payload.get('ops', [])):
            continue
        if 'label_regex' in m and not re.search(m['label_regex'], payload.get('label', '')):
            continue
        return k
    return None
