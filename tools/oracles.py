#!/usr/bin/env python3
"""
oracles.py -- the direct oracles: each property's own statement evaluated on the output of the
REAL code (harness), independent of the Lean model.  An oracle returns
   {'failures': [(case line index, what)], 'distinct': [hashable keys of non-trivial cases],
    'samples': [...], 'stats': {...}}
"""
import re, hashlib
import pbgen

RULES = {
    'c02': 'random schemas x well-formed messages (boundary-heavy values, lengths on both sides of 127/128 and, in the '
           'thorough tier, 16383/16384; packed int32 negatives); non-trivial = distinct serialisation of >= 2 bytes; '
           'distinct counted by hash of the packed bytes',
    'c18': 'exhaustive short append histories over capacities 1..8 and lengths {0,1,cap-1,cap,cap+1,2cap,5cap} plus random '
           'long histories, default and recording allocator, refusal masks; non-trivial = history that grows at least once; '
           'distinct by (capacity, lengths)',
}


def kv(line):
    return dict(m.group(1, 2) for m in re.finditer(r'(\w+)=(\S*)', line))


def h(s):
    return hashlib.sha1(s.encode()).hexdigest()[:12]


def iter_ops(res, lf=None):
    for i, l in enumerate(res['lines']):
        if not l or l.startswith(('#', 'schema', 'msg ', 'f ')):
            continue
        if lf and not lf(l):
            continue
        out = res['impl'][i] if i < len(res['impl']) else '<missing>'
        yield i, l, out


def oracle_c02(res, lf=None):
    fails, distinct, samples = [], [], []
    stats = {'pack_ops': 0, 'with_memmove_prefix': 0}
    for i, l, out in iter_ops(res, lf):
        op = l.split(' ', 1)[0]
        if out.startswith('CRASH') or out == '<missing>':
            fails.append((i, 'implementation crashed or produced no output (%s) on %s' % (out, op)))
            continue
        if op != 'pack':
            continue
        d = kv(out)
        stats['pack_ops'] += 1
        if not (d.get('size') == d.get('packret') == d.get('bufret')):
            fails.append((i, 'get_packed_size / pack / pack_to_buffer lengths differ: %s/%s/%s' % (d.get('size'), d.get('packret'), d.get('bufret'))))
        elif d.get('guard') != '1':
            fails.append((i, 'pack wrote outside the first get_packed_size bytes (guard bytes changed)'))
        elif d.get('same') != '1':
            fails.append((i, 'two pack calls on the same message differ or exceed the size'))
        elif d.get('pack') != d.get('buf'):
            fails.append((i, 'pack and pack_to_buffer produced different bytes'))
        elif len(d.get('pack', '')) // 2 != int(d.get('size', '-1')):
            fails.append((i, 'number of bytes written differs from get_packed_size'))
        if len(d.get('pack', '')) >= 4:
            distinct.append(h(d['pack']))
        if int(d.get('size', '0')) >= 130:
            stats['with_memmove_prefix'] += 1
        if len(samples) < 3 and len(l) < 400:
            samples.append({'op': l, 'impl': out[:300]})
    return {'failures': fails, 'distinct': distinct, 'samples': samples, 'stats': stats}


def oracle_c18(res, lf=None):
    fails, distinct, samples = [], [], []
    stats = {'append_histories': 0, 'grew': 0, 'refused': 0, 'streaming_msgs': 0}
    for i, l, out in iter_ops(res, lf):
        t = l.split()
        op = t[0]
        if out.startswith('CRASH') or out == '<missing>':
            fails.append((i, 'implementation crashed or produced no output (%s) on %s' % (out, op)))
            continue
        if op == 'pack':
            d = kv(out)
            stats['streaming_msgs'] += 1
            if d.get('pack') != d.get('buf') or d.get('size') != d.get('bufret'):
                fails.append((i, 'bytes delivered to the virtual buffer differ from what pack writes'))
            chunks = [int(x) for x in d.get('chunks', '').split(',') if x]
            if sum(chunks) != int(d.get('size', '-1')):
                fails.append((i, 'append chunk lengths do not add up to get_packed_size'))
            continue
        if op != 'append':
            continue
        stats['append_histories'] += 1
        cap, custom, mask = int(t[1]), int(t[2]), t[3]
        lens = [int(x) for x in t[4:]]
        # list-concatenation oracle (independent of the Lean model)
        data = b''
        ctr = 0
        alloced = cap
        k = 0           # allocation request counter
        steps = re.findall(r'\[len=(\d+) alloced=(\d+) mf=(\d)\]', out)
        bad = None
        grew = False
        if len(steps) != len(lens):
            bad = 'wrong number of steps'
        for j, ln in enumerate(lens):
            chunk = bytes(((ctr + x) * 7 + 1) & 0xff for x in range(ln))
            ctr += ln
            if len(data) + ln > alloced:
                na = alloced * 2
                while na < len(data) + ln:
                    na += na
                refused = custom and mask != '-' and k < len(mask) and mask[k] == '1'
                k += 1
                if refused:
                    stats['refused'] += 1
                    # contents and length must stay as they were
                else:
                    alloced = na
                    grew = True
                    data += chunk
            else:
                data += chunk
            if bad is None and j < len(steps):
                L, A, _ = steps[j]
                if int(L) != len(data):
                    bad = 'length after append %d is %s, expected %d' % (j, L, len(data))
                elif int(A) != alloced:
                    bad = 'capacity after append %d is %s, expected %d' % (j, A, alloced)
                elif int(L) > int(A):
                    bad = 'length exceeds capacity'
        d = kv(out)
        if bad is None and d.get('data') != data.hex():
            bad = 'buffer contents are not the concatenation of the appended chunks'
        if bad is None and d.get('scratch_kept') != '1':
            bad = 'scratch array handling broken'
        if bad is None and custom and (d.get('live') != '0' or d.get('foreign') != '0'):
            bad = 'heap blocks not returned exactly once through the configured allocator (live=%s foreign=%s)' % (d.get('live'), d.get('foreign'))
        if bad:
            fails.append((i, bad))
        if grew:
            stats['grew'] += 1
            distinct.append((cap, tuple(lens)))
        if len(samples) < 3:
            samples.append({'op': l, 'impl': out[:300]})
    return {'failures': fails, 'distinct': distinct, 'samples': samples, 'stats': stats}


def match_known(known, pid, what, payload):
    """an OPEN finding of known_findings.json that matches this failure, else None"""
    for k in known.get('findings', []):
        if k.get('status') != 'open' or k.get('property') != pid:
            continue
        m = k.get('match', {})
        if 'what_regex' in m and not re.search(m['what_regex'], what):
            continue
        if 'op_regex' in m and not any(re.search(m['op_regex'], o) for o in payload.get('ops', [])):
            continue
        return k
    return None
